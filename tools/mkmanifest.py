#!/usr/bin/env python3
"""Regenerates MANIFEST.json from checks.json (single source of truth for per-check metadata)."""
import json, os
ROOT = os.path.dirname(os.path.dirname(os.path.abspath(__file__)))
cfg = json.load(open(os.path.join(ROOT, "checks.json")))
props = [json.loads(l) for l in open(os.path.join(ROOT, "properties.jsonl")) if l.strip()]
na_reasons = json.load(open(os.path.join(ROOT, "not_applicable.json"))) if os.path.exists(os.path.join(ROOT, "not_applicable.json")) else {}
checks, na = [], []
for p in props:
    pid = p["id"]
    c = cfg.get(pid)
    if not c:
        na.append({"property_id": pid, "reason": na_reasons.get(pid, "check not built yet in this session (planned in DESIGN.md section 5)")})
        continue
    checks.append({
        "property_id": pid,
        "quick_cmd": "./check %s --tier quick" % pid,
        "thorough_cmd": "./check %s --tier thorough" % pid,
        "evidence_file": "evidence/%s.json" % pid,
        "replay_cmd_template": "./check %s --replay {path}" % pid,
        "engine": c.get("engine", "rapid+node"),
        "level_claimed": {"category": "exploration", "text": c["level_text"], "design_ref": "DESIGN.md section 5, " + pid},
        "level_note": c["level_note"],
        "technique": c["technique"],
    })
m = {
    "version": 1,
    "setup_cmd": "./setup.sh",
    "hooks": {"guard": "verif", "enable": "go test -c -tags verif (done by ./check for every property)",
              "baseline_off_cmd": "cd /repo && go test -vet=off -count=1 -timeout 25m ./...",
              "source_commits": json.load(open(os.path.join(ROOT, "hooks.json"))) if os.path.exists(os.path.join(ROOT, "hooks.json")) else [],
              "add_only": True},
    "engines": [
        {"name": "rapid+node", "path": "harness/", "serves_properties": [c["property_id"] for c in checks],
         "kind_free_text": "pgregory.net/rapid v1.3.0 generators and bounded-exhaustive enumerators in Go test binaries (one per property, sharded over processes), with V8 (Node) as reference engine where behaviour is compared"}],
    "checks": checks,
    "not_applicable": na,
    "notes": "Property-based testing / fuzzing only. ./check <ID> rebuilds the property's test binary against /repo's current working tree (tag verif), runs sharded rapid/enumeration processes, merges evidence, replays regression cases, and prints VIOLATION / KNOWN-FINDING lines. Exit 2 = infrastructure problem (no verdict). Known findings: known-findings.json.",
}
json.dump(m, open(os.path.join(ROOT, "MANIFEST.json"), "w"), indent=1)
print("MANIFEST.json: %d checks, %d not_applicable" % (len(checks), len(na)))

#!/usr/bin/env python3
# Rewrites the "quick: cases / distinct non-trivial" column of DESIGN.md section 9.2 from the evidence files.
import json, re
p = '/verif/DESIGN.md'
L = open(p).read().split('\n')
in92 = False
for i, l in enumerate(L):
    if l.startswith('### 9.2'):
        in92 = True
    elif l.startswith('### 9.3'):
        in92 = False
    if in92 and re.match(r'^\| C\d\d \|', l):
        cols = l.split(' | ')
        pid = cols[0].strip('| ').strip()
        try:
            c = json.load(open(f'/verif/evidence/{pid}.json'))['coverage']
        except Exception:
            continue
        def k(n):
            return f'{n/1000:.1f} k' if n >= 1000 else str(n)
        cols[2] = f"{k(c['evaluations'])} / {k(c['distinct_nontrivial'])}"
        L[i] = ' | '.join(cols)
open(p, 'w').write('\n'.join(L))

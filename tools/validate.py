#!/opt/veriftools/pyvenv/bin/python
import json, jsonschema, glob, sys
jsonschema.validate(json.load(open('/verif/MANIFEST.json')), json.load(open('/root/.vp/MANIFEST.schema.json')))
es = json.load(open('/root/.vp/EVIDENCE.schema.json'))
for f in sorted(glob.glob('/verif/evidence/C*.json')):
    jsonschema.validate(json.load(open(f)), es)
    print("ok", f)
print("manifest ok")

#!/bin/bash
# tools/seedtest.sh <PROP> [tier] [nseeds] [round]: take /tmp/seed<round>-<PROP>/DELIVERY, store it under
# seeded/<PROP>[-<round>]/, apply the patch to a scratch worktree of /repo HEAD and run the property's check
# against it (round is empty for the first seed of a property, 2 for the second, …).
set -u
P=$1; TIER=${2:-quick}; N=${3:-1}; R=${4:-}
D=/tmp/seed$R-$P/DELIVERY
SEED=/verif/seeded/$P${R:+-$R}
if [ -d "$D" ]; then
  mkdir -p $SEED
  cp -r $D/patch.diff $D/meta.json $SEED/ 2>/dev/null
  rm -rf $SEED/demo; cp -r $D/demo $SEED/demo 2>/dev/null
  rm -f $SEED/demo/demo $SEED/demo/*.test
fi
WT=/tmp/seedwt-$P
git -C /repo worktree remove --force $WT 2>/dev/null
git -C /repo worktree add -q $WT HEAD || exit 2
if ! git -C $WT apply $SEED/patch.diff; then echo "PATCH DOES NOT APPLY"; git -C /repo worktree remove --force $WT; exit 2; fi
(cd $WT && GOFLAGS=-mod=mod GOPROXY=off GOSUMDB=off GOTOOLCHAIN=local go build ./... ) || { echo "DOES NOT BUILD"; exit 2; }
for s in $(seq 1 $N); do
  start=$(date +%s)
  out=$(cd /verif && VERIF_SEED=$s VERIF_REPO=$WT ./check $P --tier $TIER 2>&1)
  rc=$?
  end=$(date +%s)
  echo "seed=$s tier=$TIER exit=$rc wall=$((end-start))s violations=$(echo "$out" | grep -c '^VIOLATION')"
  echo "$out" | grep '^VIOLATION' | head -3
done
git -C /repo worktree remove --force $WT
rm -f /verif/.bin/*-alt-*.test

#!/bin/bash
# Offline setup: discover tools, warm the Go build cache for the harness. Nothing is fetched.
set -u
cd "$(dirname "$0")"
export GOFLAGS=-mod=mod GOPROXY=off GOSUMDB=off GOTOOLCHAIN=local
mkdir -p .bin .out evidence
python3 - <<'PY'
import json, glob, os, subprocess
tools = {"node": None, "node_versions": {}}
for p in ("/usr/bin/node", "/usr/local/bin/node"):
    if os.path.exists(p):
        tools["node"] = p
        break
for p in sorted(glob.glob("/root/.nvm/versions/node/v*/bin/node")):
    try:
        v = subprocess.run([p, "--version"], capture_output=True, text=True, timeout=20).stdout.strip()
        tools["node_versions"][v] = p
    except Exception:
        pass
json.dump(tools, open(".tools.json", "w"), indent=1)
print("tools:", json.dumps(tools))
PY
(cd harness && go build ./... && go vet ./vdrv ./noderun 2>&1 | tail -5)
# pre-build every registered check's test binary so the first ./check is fast
for id in $(ls checks.d | sed 's/\.json$//' | tr 'A-Z' 'a-z'); do
  extra=""
  if python3 -c "import json,sys;sys.exit(0 if json.load(open('checks.d/${id^^}.json')).get('race') else 1)"; then extra="-race"; fi
  (cd harness && go test -c $extra -tags verif -o ../.bin/$id.test ./props/$id) || echo "setup: warm build of $id failed (the check itself will report it)"
done
exit 0

package projgen

import (
	"reflect"
	"testing"

	"github.com/evanw/esbuild/pkg/api"
	"pgregory.net/rapid"
)

func specs(r []ImportRec) []string {
	var s []string
	for _, x := range r {
		s = append(s, x.Kind+":"+x.Spec)
	}
	return s
}

func TestScanJS(t *testing.T) {
	src := "/* import 'no' */ // import \"no\"\n" +
		"import a, { b as c } from \"./x.js\";import\"./bare.js\";import * as ns from './ns.js';\n" +
		"var s = 'import(\"no\")', r = /import\\(\"no\"\\)\\//g, q = 1 / 2 / 3, t = `a${import(\"./tpl.js\")}b${`}` + \"'\"}`;\n" +
		"obj.import(\"no\"); x = import.meta.url; import(\"./dyn.js\").then(m=>m);\n" +
		"var z = __require(\"ext-req\"), y = w(\"like\");\n" +
		"export{c as d,s as \"str name\",q};export*from\"./star.js\";export * as all from './all.js';export { k } from \"./re.js\";\n" +
		"export default function(){}\nexport const e1 = 1, e2 = [1,2].map((v) => v / 2);\nexport function f1(){}\nexport async function* g1(){}\nexport class C1{}\n"
	info, err := ScanJS([]byte(src))
	if err != nil {
		t.Fatal(err)
	}
	wantImp := []string{"import-statement:./x.js", "import-statement:./bare.js", "import-statement:./ns.js", "dynamic-import:./tpl.js", "dynamic-import:./dyn.js",
		"require-call:ext-req", "import-statement:./star.js", "import-statement:./all.js", "import-statement:./re.js"}
	if got := specs(info.Imports); !reflect.DeepEqual(got, wantImp) {
		t.Fatalf("imports\n got %v\nwant %v", got, wantImp)
	}
	wantExp := []string{"d", "str name", "q", "all", "k", "default", "e1", "e2", "f1", "g1", "C1"}
	if !reflect.DeepEqual(info.Exports, wantExp) {
		t.Fatalf("exports\n got %v\nwant %v", info.Exports, wantExp)
	}
	if info.StarExports != 1 || !reflect.DeepEqual(info.RequireLike, []string{"like"}) {
		t.Fatalf("star=%d requireLike=%v", info.StarExports, info.RequireLike)
	}
}

func TestScanCSS(t *testing.T) {
	src := "/* url(no) @import 'no' */@import\"a.css\";@import url(b.css) screen;@import url( 'c.css' );\n" +
		".a{background:url(./i.png),URL(\"j\\2e png\");content:\"url(no)\";x:xurl(no)}.b{background:url(data:image/png;base64,AAAA)}"
	info, err := ScanCSS([]byte(src))
	if err != nil {
		t.Fatal(err)
	}
	want := []string{"import-rule:a.css", "import-rule:b.css", "import-rule:c.css", "url-token:./i.png", "url-token:j.png", "url-token:data:image/png;base64,AAAA"}
	if got := specs(info.Imports); !reflect.DeepEqual(got, want) {
		t.Fatalf("got %v\nwant %v", got, want)
	}
}

// Every generated JS/CSS input and everything esbuild prints for a generated project must be readable by the scanners.
func TestScannersAcceptGeneratedProjects(t *testing.T) {
	rapid.Check(t, func(rt *rapid.T) {
		p := Gen(rt, Config{MinFiles: 8, MaxFiles: 20, ForceBundle: true, ForceESM: true, AllowRequire: true, Placeholders: true, InputMaps: true})
		for _, f := range p.Files {
			switch f.Kind {
			case KJS:
				if _, err := ScanJS(f.Bytes()); err != nil {
					rt.Fatalf("input %s: %v\n%s", f.Path, err, f.Text)
				}
			case KCSS:
				if _, err := ScanCSS(f.Bytes()); err != nil {
					rt.Fatalf("input %s: %v\n%s", f.Path, err, f.Text)
				}
			}
		}
		root := t.TempDir()
		if err := p.WriteTo(root); err != nil {
			rt.Fatalf("write: %v", err)
		}
		r := api.Build(p.BuildOptions(root))
		for _, o := range r.OutputFiles {
			n := len(o.Path)
			switch {
			case n > 3 && o.Path[n-3:] == ".js":
				if _, err := ScanJS(o.Contents); err != nil {
					rt.Fatalf("output %s: %v\n%s", o.Path, err, o.Contents)
				}
			case n > 4 && o.Path[n-4:] == ".css":
				if _, err := ScanCSS(o.Contents); err != nil {
					rt.Fatalf("output %s: %v\n%s", o.Path, err, o.Contents)
				}
			}
		}
	})
}

// Package projgen generates multi-file esbuild projects (JS ESM modules, CSS, loader assets) together
// with build options, writes them to a real directory and runs api.Build on them. It is shared by the
// C08 (determinism), C18 (hashed names) and C19 (metafile) checks. Everything random is a rapid draw;
// a generated Project is self-contained and JSON-serialisable (it is what replay files store).
package projgen

import (
	"encoding/base64"
	"fmt"
	"os"
	"path/filepath"
	"sort"
	"strings"
	"unicode/utf8"

	"github.com/evanw/esbuild/pkg/api"
	"pgregory.net/rapid"
)

// File kinds.
const (
	KJS      = "js"
	KCSS     = "css"
	KFile    = "file"    // .png  → file loader
	KCopy    = "copy"    // .bin  → copy loader
	KDataURL = "dataurl" // .dat  → dataurl loader
	KText    = "text"    // .txt  → text loader
	KJSON    = "json"    // .json → json loader
	KMeta    = "meta"    // package.json etc. (never an OnLoad event)
)

// File is one input file. Exactly one of Text / B64 carries the contents.
type File struct {
	Path string `json:"path"` // relative to the project root, forward slashes
	Kind string `json:"kind"`
	Text string `json:"text,omitempty"`
	B64  string `json:"b64,omitempty"`
	Mark string `json:"mark,omitempty"` // unique marker; every emitted statement of the file carries "<Mark>."
	// Roles the oracles rely on (set by the generator, part of the case):
	PureUnused bool `json:"pure_unused,omitempty"` // lives under a sideEffects:false package and nothing it exports is used
	Inject     bool `json:"inject,omitempty"`
}

// Bytes returns the file contents.
func (f File) Bytes() []byte {
	if f.B64 != "" {
		b, _ := base64.StdEncoding.DecodeString(f.B64)
		return b
	}
	return []byte(f.Text)
}

// SetBytes stores b as Text when it is valid UTF-8 without NUL, else as B64.
func (f *File) SetBytes(b []byte) {
	if utf8.Valid(b) && !strings.ContainsRune(string(b), 0) {
		f.Text, f.B64 = string(b), ""
		if len(b) == 0 {
			f.Text = ""
		}
		return
	}
	f.Text, f.B64 = "", base64.StdEncoding.EncodeToString(b)
}

// Stdin is an optional stdin entry point.
type Stdin struct {
	Contents   string `json:"contents"`
	Sourcefile string `json:"sourcefile"`
}

// Opts is the JSON form of the build options that the checks vary.
type Opts struct {
	Bundle        bool              `json:"bundle"`
	Splitting     bool              `json:"splitting,omitempty"`
	Format        string            `json:"format,omitempty"` // esm | cjs | iife | ""
	MinifyWS      bool              `json:"minify_whitespace,omitempty"`
	MinifyIDs     bool              `json:"minify_identifiers,omitempty"`
	MinifySyntax  bool              `json:"minify_syntax,omitempty"`
	Sourcemap     string            `json:"sourcemap,omitempty"` // "" | linked | inline | external | both
	NoSrcContent  bool              `json:"no_sources_content,omitempty"`
	Metafile      bool              `json:"metafile,omitempty"`
	MangleProps   bool              `json:"mangle_props,omitempty"` // regexp `_$`
	MangleCache   map[string]string `json:"mangle_cache,omitempty"` // only string values ("false" = reserved → stored as false)
	UseCache      bool              `json:"use_mangle_cache,omitempty"`
	EntryNames    string            `json:"entry_names,omitempty"`
	ChunkNames    string            `json:"chunk_names,omitempty"`
	AssetNames    string            `json:"asset_names,omitempty"`
	PublicPath    string            `json:"public_path,omitempty"`
	LegalComments string            `json:"legal_comments,omitempty"` // "" | none | inline | eof | linked | external
	BannerJS      string            `json:"banner_js,omitempty"`
	BannerCSS     string            `json:"banner_css,omitempty"`
	FooterJS      string            `json:"footer_js,omitempty"`
	FooterCSS     string            `json:"footer_css,omitempty"`
	External      []string          `json:"external,omitempty"`
	Inject        []string          `json:"inject,omitempty"`
	Outdir        string            `json:"outdir"`
	Outbase       string            `json:"outbase,omitempty"`
}

// Project is a complete build case.
type Project struct {
	Files   []File   `json:"files"`
	Entries []string `json:"entries"`
	Stdin   *Stdin   `json:"stdin,omitempty"`
	Opts    Opts     `json:"opts"`
}

// Clone makes a deep copy.
func (p Project) Clone() Project {
	q := p
	q.Files = append([]File(nil), p.Files...)
	q.Entries = append([]string(nil), p.Entries...)
	if p.Stdin != nil {
		s := *p.Stdin
		q.Stdin = &s
	}
	q.Opts.External = append([]string(nil), p.Opts.External...)
	q.Opts.Inject = append([]string(nil), p.Opts.Inject...)
	if p.Opts.MangleCache != nil {
		q.Opts.MangleCache = map[string]string{}
		for k, v := range p.Opts.MangleCache {
			q.Opts.MangleCache[k] = v
		}
	}
	return q
}

// FileIndex returns the index of the file with the given path or -1.
func (p *Project) FileIndex(path string) int {
	for i := range p.Files {
		if p.Files[i].Path == path {
			return i
		}
	}
	return -1
}

// WriteTo writes all files below dir (which must exist).
func (p *Project) WriteTo(dir string) error {
	for _, f := range p.Files {
		abs := filepath.Join(dir, filepath.FromSlash(f.Path))
		if err := os.MkdirAll(filepath.Dir(abs), 0o755); err != nil {
			return err
		}
		if err := os.WriteFile(abs, f.Bytes(), 0o644); err != nil {
			return err
		}
	}
	return nil
}

// Loaders is the fixed extension → loader table of generated projects.
func Loaders() map[string]api.Loader {
	return map[string]api.Loader{
		".png": api.LoaderFile, ".bin": api.LoaderCopy, ".dat": api.LoaderDataURL, ".txt": api.LoaderText,
		".json": api.LoaderJSON, ".js": api.LoaderJS, ".css": api.LoaderCSS,
	}
}

// BuildOptions maps the project onto api.BuildOptions with AbsWorkingDir = root, Write:false.
func (p *Project) BuildOptions(root string, plugins ...api.Plugin) api.BuildOptions {
	o := p.Opts
	b := api.BuildOptions{
		AbsWorkingDir: root, LogLevel: api.LogLevelSilent, Write: false, LogLimit: 0,
		Bundle: o.Bundle, Splitting: o.Splitting,
		MinifyWhitespace: o.MinifyWS, MinifyIdentifiers: o.MinifyIDs, MinifySyntax: o.MinifySyntax,
		Metafile: o.Metafile, EntryNames: o.EntryNames, ChunkNames: o.ChunkNames, AssetNames: o.AssetNames,
		PublicPath: o.PublicPath, Outdir: o.Outdir, Outbase: o.Outbase,
		EntryPoints: append([]string(nil), p.Entries...),
		External:    append([]string(nil), o.External...),
		Inject:      append([]string(nil), o.Inject...),
		Loader:      Loaders(),
		Plugins:     plugins,
	}
	switch o.Format {
	case "esm":
		b.Format = api.FormatESModule
	case "cjs":
		b.Format = api.FormatCommonJS
	case "iife":
		b.Format = api.FormatIIFE
	}
	switch o.Sourcemap {
	case "linked":
		b.Sourcemap = api.SourceMapLinked
	case "inline":
		b.Sourcemap = api.SourceMapInline
	case "external":
		b.Sourcemap = api.SourceMapExternal
	case "both":
		b.Sourcemap = api.SourceMapInlineAndExternal
	}
	if o.NoSrcContent {
		b.SourcesContent = api.SourcesContentExclude
	}
	switch o.LegalComments {
	case "none":
		b.LegalComments = api.LegalCommentsNone
	case "inline":
		b.LegalComments = api.LegalCommentsInline
	case "eof":
		b.LegalComments = api.LegalCommentsEndOfFile
	case "linked":
		b.LegalComments = api.LegalCommentsLinked
	case "external":
		b.LegalComments = api.LegalCommentsExternal
	}
	if o.MangleProps {
		b.MangleProps = "_$"
		if o.UseCache {
			mc := map[string]interface{}{}
			for k, v := range o.MangleCache {
				if v == "false" {
					mc[k] = false
				} else {
					mc[k] = v
				}
			}
			b.MangleCache = mc
		}
	}
	if o.BannerJS != "" || o.BannerCSS != "" {
		b.Banner = map[string]string{}
		if o.BannerJS != "" {
			b.Banner["js"] = o.BannerJS
		}
		if o.BannerCSS != "" {
			b.Banner["css"] = o.BannerCSS
		}
	}
	if o.FooterJS != "" || o.FooterCSS != "" {
		b.Footer = map[string]string{}
		if o.FooterJS != "" {
			b.Footer["js"] = o.FooterJS
		}
		if o.FooterCSS != "" {
			b.Footer["css"] = o.FooterCSS
		}
	}
	if !o.Bundle {
		// externals / inject are accepted without bundling only partly; keep the non-bundle mode plain
		b.External = nil
	}
	if p.Stdin != nil {
		b.Stdin = &api.StdinOptions{Contents: p.Stdin.Contents, ResolveDir: root, Sourcefile: p.Stdin.Sourcefile, Loader: api.LoaderJS}
	}
	return b
}

// Out is one emitted file with its path relative to the project root (forward slashes).
type Out struct {
	Path     string
	Contents []byte
	Hash     string
}

// RelOutputs converts result.OutputFiles into root-relative form, sorted by path.
func RelOutputs(root string, r api.BuildResult) ([]Out, error) {
	outs := make([]Out, 0, len(r.OutputFiles))
	for _, f := range r.OutputFiles {
		rel, err := filepath.Rel(root, f.Path)
		if err != nil || strings.HasPrefix(rel, "..") {
			return nil, fmt.Errorf("output %q is outside the project root %q", f.Path, root)
		}
		outs = append(outs, Out{Path: filepath.ToSlash(rel), Contents: f.Contents, Hash: f.Hash})
	}
	sort.SliceStable(outs, func(i, j int) bool { return outs[i].Path < outs[j].Path })
	return outs, nil
}

// ----------------------------------------------------------------------------- generator

// Config steers Gen.
type Config struct {
	MinFiles, MaxFiles int
	Diagnostics        bool // sprinkle constructs that produce warnings (and occasionally an error) over several files
	AllowErrors        bool // with Diagnostics: allow build errors (missing export / unresolved import)
	ForceHash          bool // every name template contains [hash]
	ForceBundle        bool
	ForceESM           bool // only format esm (scanners read ESM)
	ForceMetafile      bool
	AllowRequire       bool // a few require() calls (internal + external)
	NoInlineMap        bool // never Sourcemap inline/both
	Placeholders       bool // placeholder-looking strings inside inputs
	InputMaps          bool // some JS inputs end in an inline input source map
	NoInject           bool // never use Inject (see finding C19-inject-import)
	NoMangle           bool
}

type jsSpec struct {
	idx        int
	path       string
	id         string // f07
	dir        string
	pure       bool // under src/pkg (sideEffects:false)
	starTo     []int
	imports    []edge
	hasDefault bool
}

type edge struct {
	to   int // index into files (any kind)
	form int
}

const (
	eNamed = iota
	eNamedUnused
	eNamespace
	eDefault
	eBare
	eDynamic
	eDynamicLazy
	eReexport
	eStar
	eStarAs
	eRequire
	nForms
)

var propPool = []string{"alpha_", "beta_", "gamma_", "delta_", "eps_", "zeta_", "eta_", "theta_", "iota_", "kappa_", "lam_", "mu_"}

func relSpec(fromDir, toPath string) string {
	r, err := filepath.Rel(filepath.FromSlash(fromDir), filepath.FromSlash(toPath))
	if err != nil {
		return "./" + toPath
	}
	r = filepath.ToSlash(r)
	if !strings.HasPrefix(r, ".") {
		r = "./" + r
	}
	return r
}

func dirOf(p string) string {
	if i := strings.LastIndex(p, "/"); i >= 0 {
		return p[:i]
	}
	return "."
}

// Gen draws a project and options.
func Gen(t *rapid.T, cfg Config) Project {
	if cfg.MinFiles == 0 {
		cfg.MinFiles, cfg.MaxFiles = 8, 60
	}
	// File count: skewed towards the small end so quick runs stay fast, but the whole range is reachable.
	n := cfg.MinFiles
	if cfg.MaxFiles > cfg.MinFiles {
		if rapid.IntRange(0, 3).Draw(t, "big") == 0 {
			n = rapid.IntRange(cfg.MinFiles, cfg.MaxFiles).Draw(t, "nfiles")
		} else {
			hi := cfg.MinFiles + (cfg.MaxFiles-cfg.MinFiles)/3
			n = rapid.IntRange(cfg.MinFiles, hi).Draw(t, "nfiles")
		}
	}
	opts := GenOpts(t, cfg)
	var p Project
	p.Opts = opts

	// kinds: at least 5 JS files
	kinds := make([]string, n)
	for i := range kinds {
		if i < 4 {
			kinds[i] = KJS
			continue
		}
		k := rapid.IntRange(0, 19).Draw(t, "kind")
		switch {
		case k < 11:
			kinds[i] = KJS
		case k < 14:
			kinds[i] = KCSS
		case k < 16:
			kinds[i] = KFile
		case k == 16:
			kinds[i] = KCopy
		case k == 17:
			kinds[i] = KDataURL
		case k == 18:
			kinds[i] = KText
		default:
			kinds[i] = KJSON
		}
	}
	dirs := []string{"src", "src", "src/lib", "src/lib/deep", "src/pkg"}
	paths := make([]string, n)
	ids := make([]string, n)
	hasPkg := false
	for i := range kinds {
		ids[i] = fmt.Sprintf("f%02d", i)
		d := dirs[rapid.IntRange(0, len(dirs)-1).Draw(t, "dir")]
		if i < 3 && d == "src/pkg" {
			d = "src"
		}
		ext := map[string]string{KJS: ".js", KCSS: ".css", KFile: ".png", KCopy: ".bin", KDataURL: ".dat", KText: ".txt", KJSON: ".json"}[kinds[i]]
		if kinds[i] != KJS && d == "src/pkg" {
			d = "src/lib"
		}
		if d == "src/pkg" {
			hasPkg = true
		}
		paths[i] = d + "/" + ids[i] + ext
	}

	// entry points: 1..4 of the first JS files (never inside src/pkg), optionally a CSS entry
	nEntries := rapid.IntRange(1, 4).Draw(t, "nentries")
	if opts.Splitting && nEntries < 2 {
		nEntries = 2
	}
	var jsIdx, cssIdx, assetIdx []int
	for i, k := range kinds {
		switch k {
		case KJS:
			jsIdx = append(jsIdx, i)
		case KCSS:
			cssIdx = append(cssIdx, i)
		default:
			assetIdx = append(assetIdx, i)
		}
	}
	if nEntries > 3 {
		nEntries = 3
	}
	for e := 0; e < nEntries; e++ {
		p.Entries = append(p.Entries, paths[jsIdx[e]])
	}
	if len(cssIdx) > 0 && rapid.IntRange(0, 3).Draw(t, "cssentry") == 0 {
		p.Entries = append(p.Entries, paths[cssIdx[0]])
	}

	useInject := opts.Bundle && !cfg.NoInject && rapid.IntRange(0, 7).Draw(t, "inject") == 7
	useRequire := opts.Bundle && cfg.AllowRequire && rapid.IntRange(0, 3).Draw(t, "require") == 3
	useExternal := opts.Bundle && rapid.IntRange(0, 2).Draw(t, "external") == 0
	if useExternal {
		p.Opts.External = []string{"ext-*"}
	}

	// JS specs
	specs := map[int]*jsSpec{}
	for _, i := range jsIdx {
		specs[i] = &jsSpec{idx: i, path: paths[i], id: ids[i], dir: dirOf(paths[i]), pure: strings.HasPrefix(paths[i], "src/pkg/"), hasDefault: true}
	}
	// edges: each JS file imports 0..4 other files; mostly forward (j>i) so that entries reach much of the graph
	for pos, i := range jsIdx {
		s := specs[i]
		ne := rapid.IntRange(0, 4).Draw(t, "nedges")
		if pos < nEntries && ne < 2 {
			ne = 2
		}
		for e := 0; e < ne; e++ {
			var to int
			r := rapid.IntRange(0, 9).Draw(t, "tgt")
			switch {
			case r < 6 || (len(cssIdx) == 0 && len(assetIdx) == 0): // JS target
				if rapid.IntRange(0, 7).Draw(t, "back") == 0 {
					to = jsIdx[rapid.IntRange(0, len(jsIdx)-1).Draw(t, "toany")]
				} else {
					lo := pos + 1
					if lo >= len(jsIdx) {
						lo = len(jsIdx) - 1
					}
					hi := lo + 6
					if hi >= len(jsIdx) {
						hi = len(jsIdx) - 1
					}
					to = jsIdx[rapid.IntRange(lo, hi).Draw(t, "tofwd")]
				}
				if to == i {
					continue
				}
				form := rapid.IntRange(0, nForms-1).Draw(t, "form")
				if form == eRequire && !useRequire {
					form = eNamed
				}
				if strings.HasPrefix(paths[to], "src/pkg/") && rapid.Bool().Draw(t, "unusedpure") {
					form = eNamedUnused // half of the edges into the sideEffects:false package import something unused
				}
				if s.pure && (form == eBare || form == eDynamic) {
					form = eNamed // keep sideEffects:false files free of side effects of their own making
				}
				s.imports = append(s.imports, edge{to, form})
				if form == eStar {
					s.starTo = append(s.starTo, to)
				}
			case r < 8 && len(cssIdx) > 0:
				if s.pure {
					continue
				}
				to = cssIdx[rapid.IntRange(0, len(cssIdx)-1).Draw(t, "tocss")]
				s.imports = append(s.imports, edge{to, eBare})
			case len(assetIdx) > 0:
				to = assetIdx[rapid.IntRange(0, len(assetIdx)-1).Draw(t, "toasset")]
				s.imports = append(s.imports, edge{to, eDefault})
			}
		}
	}

	diagBudget := 0
	if cfg.Diagnostics {
		diagBudget = rapid.IntRange(0, 8).Draw(t, "ndiag")
	}
	errBudget := 0
	if cfg.Diagnostics && cfg.AllowErrors && opts.Bundle && rapid.IntRange(0, 5).Draw(t, "witherr") == 0 {
		errBudget = rapid.IntRange(1, 3).Draw(t, "nerr")
	}

	p.Files = make([]File, n)
	for i := range kinds {
		p.Files[i] = File{Path: paths[i], Kind: kinds[i], Mark: "MARK_" + ids[i]}
	}

	// which JS exports of pure (sideEffects:false) files are used by anybody? (for PureUnused)
	pureUsed := map[int]bool{}
	for _, i := range jsIdx {
		for _, e := range specs[i].imports {
			if kinds[e.to] != KJS {
				continue
			}
			switch e.form {
			case eNamedUnused:
			default:
				pureUsed[e.to] = true
			}
		}
	}
	for _, en := range p.Entries {
		for i := range paths {
			if paths[i] == en {
				pureUsed[i] = true
			}
		}
	}

	// render JS
	for pos, i := range jsIdx {
		s := specs[i]
		var sb strings.Builder
		var uses []string
		legal := rapid.IntRange(0, 3).Draw(t, "legal")
		switch legal {
		case 0:
			fmt.Fprintf(&sb, "/*! LEGAL %s block */\n", s.id)
		case 1:
			fmt.Fprintf(&sb, "//! LEGAL %s line\n", s.id)
		}
		fmt.Fprintf(&sb, "// plain comment %s\n", s.id)
		var tail strings.Builder
		for k, e := range s.imports {
			spec := relSpec(s.dir, paths[e.to])
			tid := ids[e.to]
			if kinds[e.to] != KJS {
				if e.form == eBare {
					fmt.Fprintf(&sb, "import %q;\n", spec)
				} else {
					fmt.Fprintf(&sb, "import asset%d from %q;\n", k, spec)
					uses = append(uses, fmt.Sprintf("asset%d", k))
				}
				continue
			}
			switch e.form {
			case eNamed:
				fmt.Fprintf(&sb, "import { a_%s as i%d } from %q;\n", tid, k, spec)
				uses = append(uses, fmt.Sprintf("i%d", k))
			case eNamedUnused:
				fmt.Fprintf(&sb, "import { fn_%s as i%d } from %q;\n", tid, k, spec)
			case eNamespace:
				fmt.Fprintf(&sb, "import * as n%d from %q;\n", k, spec)
				if rapid.Bool().Draw(t, "nsprop") {
					uses = append(uses, fmt.Sprintf("n%d.a_%s", k, tid))
				} else {
					uses = append(uses, fmt.Sprintf("n%d", k))
				}
			case eDefault:
				fmt.Fprintf(&sb, "import d%d from %q;\n", k, spec)
				uses = append(uses, fmt.Sprintf("d%d", k))
			case eBare:
				fmt.Fprintf(&sb, "import %q;\n", spec)
			case eDynamic:
				fmt.Fprintf(&tail, "import(%q).then((m) => console.log(\"%s.dyn%d\", m.a_%s));\n", spec, "MARK_"+s.id, k, tid)
			case eDynamicLazy:
				fmt.Fprintf(&tail, "export const lazy%d_%s = () => import(%q).then((m) => [\"%s.lazy%d\", m]);\n", k, s.id, spec, "MARK_"+s.id, k)
			case eReexport:
				fmt.Fprintf(&sb, "export { a_%s as r%d_%s } from %q;\n", tid, k, s.id, spec)
			case eStar:
				fmt.Fprintf(&sb, "export * from %q;\n", spec)
			case eStarAs:
				fmt.Fprintf(&sb, "export * as ns%d_%s from %q;\n", k, s.id, spec)
			case eRequire:
				fmt.Fprintf(&tail, "const rq%d = require(%q);\nconsole.log(\"%s.rq%d\", rq%d.a_%s);\n", k, spec, "MARK_"+s.id, k, k, tid)
			}
		}
		if useExternal && !s.pure && rapid.IntRange(0, 3).Draw(t, "useext") == 0 {
			switch rapid.IntRange(0, 3).Draw(t, "extform") {
			case 0:
				fmt.Fprintf(&sb, "import ext0 from \"ext-pkg\";\n")
				uses = append(uses, "ext0")
			case 1:
				fmt.Fprintf(&sb, "import { x as ext1 } from \"ext-lib/sub\";\n")
				uses = append(uses, "ext1")
			case 2:
				fmt.Fprintf(&tail, "import(\"ext-dyn\").then((m) => console.log(\"%s.extdyn\", m));\n", "MARK_"+s.id)
			case 3:
				switch {
				case useRequire:
					fmt.Fprintf(&tail, "console.log(\"%s.extrq\", require(\"ext-req\"));\n", "MARK_"+s.id)
				case opts.Splitting:
					fmt.Fprintf(&sb, "export * from \"ext-star\";\n")
				default:
					// Without splitting a dynamically imported module (and whatever it imports) is wrapped in a
					// lazy __esm closure; for an entry point esbuild then prints `export * from "ext"` INSIDE the
					// closure (a syntax error; reported as a finding outside C08/C18/C19). The shape is excluded here.
					fmt.Fprintf(&sb, "import * as extns from \"ext-ns\";\n")
					uses = append(uses, "extns")
				}
			}
		}
		if useInject && !s.pure && rapid.IntRange(0, 2).Draw(t, "useinj") == 0 {
			uses = append(uses, "INJ_G")
		}
		// identical top-level names in every file: the renamer must deconflict them
		p1 := propPool[rapid.IntRange(0, len(propPool)-1).Draw(t, "p1")]
		p2 := propPool[rapid.IntRange(0, len(propPool)-1).Draw(t, "p2")]
		p3 := propPool[rapid.IntRange(0, len(propPool)-1).Draw(t, "p3")]
		fmt.Fprintf(&sb, "const shared = \"%s.shared\";\n", "MARK_"+s.id)
		fmt.Fprintf(&sb, "function helper(o) { return shared + \"%s.helper\" + o.%s + o.%s; }\n", "MARK_"+s.id, p1, p2)
		fmt.Fprintf(&sb, "export const a_%s = \"%s.a\" + shared;\n", s.id, "MARK_"+s.id)
		fmt.Fprintf(&sb, "export function fn_%s(o) { return helper({ %s: \"%s.fn\", %s: o.%s }); }\n", s.id, p1, "MARK_"+s.id, p2, p3)
		fmt.Fprintf(&sb, "export default { %s: \"%s.default\" };\n", p3, "MARK_"+s.id)
		if cfg.Placeholders && rapid.IntRange(0, 3).Draw(t, "ph") == 0 {
			uses = append(uses, fmt.Sprintf("%q", PlaceholderLike(rapid.IntRange(0, 5).Draw(t, "phk"), i)))
		}
		if diagBudget > 0 && rapid.IntRange(0, 2).Draw(t, "diaghere") == 0 {
			nd := rapid.IntRange(1, 3).Draw(t, "ndiaghere")
			for d := 0; d < nd && diagBudget > 0; d++ {
				diagBudget--
				switch rapid.IntRange(0, 3).Draw(t, "diagkind") {
				case 0:
					uses = append(uses, "shared === -0")
				case 1:
					uses = append(uses, "{ k: 1, k: 2 }")
				case 2:
					uses = append(uses, "typeof shared === \"nul\"")
				case 3:
					uses = append(uses, "shared == NaN")
				}
			}
		}
		if errBudget > 0 && !s.pure && rapid.IntRange(0, 3).Draw(t, "errhere") == 0 {
			errBudget--
			if rapid.Bool().Draw(t, "errkind") {
				fmt.Fprintf(&sb, "import { nope_%s } from %q;\n", s.id, relSpec(s.dir, paths[jsIdx[(pos+1)%len(jsIdx)]]))
				uses = append(uses, "nope_"+s.id)
			} else {
				fmt.Fprintf(&sb, "import \"./missing_%s.js\";\n", s.id)
			}
		}
		if !s.pure {
			fmt.Fprintf(&sb, "console.log(\"%s.se\"%s);\n", "MARK_"+s.id, joinUses(uses))
		} else {
			// a pure module: everything it has is an export; "uses" are carried by an exported function
			fmt.Fprintf(&sb, "export function use_%s() { return [\"%s.use\"%s]; }\n", s.id, "MARK_"+s.id, joinUses(uses))
		}
		sb.WriteString(tail.String())
		if cfg.InputMaps && rapid.IntRange(0, 4).Draw(t, "inmap") == 0 {
			sb.WriteString(InputMapComment(s.id, 0))
		}
		p.Files[i].Text = sb.String()
		if s.pure && !pureUsed[i] {
			p.Files[i].PureUnused = true
		}
	}

	// CSS
	for pos, i := range cssIdx {
		var sb strings.Builder
		id := ids[i]
		dir := dirOf(paths[i])
		if rapid.IntRange(0, 2).Draw(t, "csslegal") == 0 {
			fmt.Fprintf(&sb, "/*! LEGAL %s css */\n", id)
		}
		if useExternal && rapid.IntRange(0, 3).Draw(t, "cssext") == 0 {
			fmt.Fprintf(&sb, "@import \"https://ext.example/%s.css\";\n", id)
		}
		ni := rapid.IntRange(0, 2).Draw(t, "ncssimp")
		for k := 0; k < ni && pos+1 < len(cssIdx); k++ {
			to := cssIdx[rapid.IntRange(pos+1, len(cssIdx)-1).Draw(t, "cssto")]
			if rapid.Bool().Draw(t, "cssurlform") {
				fmt.Fprintf(&sb, "@import url(%q);\n", relSpec(dir, paths[to]))
			} else {
				fmt.Fprintf(&sb, "@import %q;\n", relSpec(dir, paths[to]))
			}
		}
		fmt.Fprintf(&sb, "/* plain comment %s */\n", id)
		fmt.Fprintf(&sb, ".shared { color: red; content: \"%s.shared\" }\n", "MARK_"+id)
		nu := rapid.IntRange(0, 2).Draw(t, "ncssurl")
		for k := 0; k < nu; k++ {
			var cands []int
			for _, a := range assetIdx {
				if kinds[a] == KFile || kinds[a] == KDataURL || kinds[a] == KCopy {
					cands = append(cands, a)
				}
			}
			if len(cands) == 0 {
				break
			}
			to := cands[rapid.IntRange(0, len(cands)-1).Draw(t, "cssasset")]
			switch rapid.IntRange(0, 2).Draw(t, "urlq") {
			case 0:
				fmt.Fprintf(&sb, ".u%d_%s { background: url(%s); content: \"%s.u%d\" }\n", k, id, relSpec(dir, paths[to]), "MARK_"+id, k)
			case 1:
				fmt.Fprintf(&sb, ".u%d_%s { background: url(\"%s\"); content: \"%s.u%d\" }\n", k, id, relSpec(dir, paths[to]), "MARK_"+id, k)
			default:
				fmt.Fprintf(&sb, ".u%d_%s { background: url('%s'); content: \"%s.u%d\" }\n", k, id, relSpec(dir, paths[to]), "MARK_"+id, k)
			}
		}
		if useExternal && rapid.IntRange(0, 4).Draw(t, "cssexturl") == 0 {
			fmt.Fprintf(&sb, ".x_%s { background: url(https://ext.example/%s.png) }\n", id, id)
		}
		if diagBudget > 0 && rapid.IntRange(0, 2).Draw(t, "cssdiag") == 0 {
			diagBudget--
			fmt.Fprintf(&sb, ".w_%s { colr: blue; content: \"%s.w\" }\n", id, "MARK_"+id)
		}
		if cfg.Placeholders && rapid.IntRange(0, 4).Draw(t, "cssph") == 0 {
			fmt.Fprintf(&sb, ".ph_%s { content: %q }\n", id, PlaceholderLike(rapid.IntRange(0, 5).Draw(t, "cssphk"), i))
		}
		p.Files[i].Text = sb.String()
	}

	// assets
	for _, i := range assetIdx {
		id := ids[i]
		switch kinds[i] {
		case KJSON:
			p.Files[i].Text = fmt.Sprintf("{\"m\": \"MARK_%s.m\", \"n\": %d, \"%s\": [\"MARK_%s.k\"]}\n", id, rapid.IntRange(0, 999).Draw(t, "jsonn"), propPool[rapid.IntRange(0, len(propPool)-1).Draw(t, "jsonp")], id)
		case KText:
			p.Files[i].Text = fmt.Sprintf("MARK_%s.text %s\n", id, rapid.StringMatching(`[a-z <>&"'\\]{0,24}`).Draw(t, "text"))
		default:
			b := rapid.SliceOfN(rapid.Byte(), 1, 48).Draw(t, "bytes")
			full := append([]byte("MARK_"+id+".bytes"), b...)
			p.Files[i].SetBytes(full)
		}
	}

	if hasPkg {
		p.Files = append(p.Files, File{Path: "src/pkg/package.json", Kind: KMeta, Text: "{\"sideEffects\": false}\n"})
	}
	if useInject {
		p.Files = append(p.Files, File{Path: "src/inject.js", Kind: KJS, Mark: "MARK_inj", Inject: true,
			Text: "export const INJ_G = \"MARK_inj.a\";\nexport const INJ_UNUSED = \"MARK_inj.unused\";\n"})
		p.Opts.Inject = []string{"src/inject.js"}
	}
	if opts.Bundle && rapid.IntRange(0, 5).Draw(t, "stdin") == 0 {
		tgt := paths[jsIdx[rapid.IntRange(0, len(jsIdx)-1).Draw(t, "stdintgt")]]
		if !strings.HasPrefix(tgt, "src/pkg/") {
			p.Stdin = &Stdin{Sourcefile: "stdin-entry.js",
				Contents: fmt.Sprintf("import * as all from %q;\nconsole.log(\"MARK_stdin.se\", all);\nexport const fromStdin = \"MARK_stdin.a\";\n", "./"+tgt)}
		}
	}
	if !opts.Bundle {
		// without bundling every JS/CSS file is its own entry point
		p.Entries = nil
		for i, k := range kinds {
			if k == KJS || k == KCSS {
				p.Entries = append(p.Entries, paths[i])
			}
		}
		p.Opts.Inject = nil
		for i := range p.Files {
			if p.Files[i].Inject {
				p.Files = append(p.Files[:i], p.Files[i+1:]...)
				break
			}
		}
	}
	return p
}

func joinUses(u []string) string {
	if len(u) == 0 {
		return ""
	}
	return ", " + strings.Join(u, ", ")
}

// PlaceholderLike returns a string with the shape of esbuild's internal unique keys
// (16 base64url characters, 'A' or 'C', 8 digits).
func PlaceholderLike(k, salt int) string {
	prefixes := []string{"AbCdEfGhIjKlMnOp", "0123456789abcdef", "____------____--", "zZ9-_aA0bB1cC2dD", "QUFBQUFBQUFBQUFB", "MARKMARKMARKMARK"}
	kind := "A"
	if (k+salt)%2 == 1 {
		kind = "C"
	}
	return fmt.Sprintf("%s%s%08d", prefixes[k%len(prefixes)], kind, salt%3)
}

// InputMapComment returns a trailing inline input source map comment for a generated JS file.
func InputMapComment(id string, variant int) string {
	j := fmt.Sprintf(`{"version":3,"sources":["orig_%s_v%d.ts"],"sourcesContent":["// original %s variant %d\n"],"names":[],"mappings":"AAAA;AACA;AACA;AACA"}`, id, variant, id, variant)
	return "//# sourceMappingURL=data:application/json;base64," + base64.StdEncoding.EncodeToString([]byte(j)) + "\n"
}

var tmplEntry = []string{"", "[dir]/[name]", "[name]-[hash]", "[dir]/[name]-[hash]", "e/[hash]/[name]", "[name]", "[hash]-[name]"}
var tmplChunk = []string{"", "[name]-[hash]", "chunks/[name]-[hash]", "c/[hash]", "chunks/[hash]/[name]"}
var tmplAsset = []string{"", "[name]-[hash]", "assets/[name]-[hash]", "assets/[dir]/[name]-[hash]", "a/[hash]"}
var tmplEntryHash = []string{"[name]-[hash]", "[dir]/[name]-[hash]", "e/[hash]/[name]", "[hash]-[name]"}
var tmplChunkHash = []string{"[name]-[hash]", "chunks/[name]-[hash]", "c/[hash]", "chunks/[hash]/[name]"}
var tmplAssetHash = []string{"[name]-[hash]", "assets/[name]-[hash]", "assets/[dir]/[name]-[hash]", "a/[hash]"}

// GenOpts draws build options.
func GenOpts(t *rapid.T, cfg Config) Opts {
	var o Opts
	o.Outdir = "out"
	o.Bundle = cfg.ForceBundle || rapid.IntRange(0, 7).Draw(t, "bundle") != 0
	if o.Bundle {
		o.Splitting = rapid.IntRange(0, 2).Draw(t, "splitting") != 0
	}
	switch {
	case o.Splitting || cfg.ForceESM:
		o.Format = "esm"
	default:
		o.Format = rapid.SampledFrom([]string{"esm", "esm", "cjs", "iife"}).Draw(t, "format")
	}
	m := rapid.IntRange(0, 9).Draw(t, "minify")
	switch {
	case m < 4:
	case m < 7:
		o.MinifyWS, o.MinifyIDs, o.MinifySyntax = true, true, true
	default:
		bits := rapid.IntRange(1, 6).Draw(t, "minbits")
		o.MinifyWS, o.MinifyIDs, o.MinifySyntax = bits&1 != 0, bits&2 != 0, bits&4 != 0
	}
	sms := []string{"", "", "linked", "external", "inline", "both"}
	if cfg.NoInlineMap {
		sms = []string{"", "", "linked", "external"}
	}
	o.Sourcemap = rapid.SampledFrom(sms).Draw(t, "sourcemap")
	if o.Sourcemap != "" {
		o.NoSrcContent = rapid.IntRange(0, 3).Draw(t, "nosrc") == 0
	}
	o.Metafile = cfg.ForceMetafile || rapid.Bool().Draw(t, "metafile")
	if !cfg.NoMangle && rapid.IntRange(0, 2).Draw(t, "mangle") == 0 {
		o.MangleProps = true
		if rapid.Bool().Draw(t, "usecache") {
			o.UseCache = true
			o.MangleCache = map[string]string{}
			switch rapid.IntRange(0, 2).Draw(t, "cachepre") {
			case 1:
				o.MangleCache["alpha_"] = "zz"
			case 2:
				o.MangleCache["beta_"] = "false"
				o.MangleCache["gamma_"] = "q"
			}
		}
	}
	if cfg.ForceHash {
		o.EntryNames = rapid.SampledFrom(tmplEntryHash).Draw(t, "entrynames")
		o.ChunkNames = rapid.SampledFrom(tmplChunkHash).Draw(t, "chunknames")
		o.AssetNames = rapid.SampledFrom(tmplAssetHash).Draw(t, "assetnames")
	} else {
		o.EntryNames = rapid.SampledFrom(tmplEntry).Draw(t, "entrynames")
		o.ChunkNames = rapid.SampledFrom(tmplChunk).Draw(t, "chunknames")
		o.AssetNames = rapid.SampledFrom(tmplAsset).Draw(t, "assetnames")
	}
	o.PublicPath = rapid.SampledFrom([]string{"", "", "", "https://cdn.example/p/", "/static", "https://cdn.example/very/long/public/path/"}).Draw(t, "publicpath")
	o.LegalComments = rapid.SampledFrom([]string{"", "none", "inline", "eof", "linked", "external"}).Draw(t, "legalcomments")
	if rapid.IntRange(0, 3).Draw(t, "banner") == 0 {
		o.BannerJS, o.BannerCSS = "/* BANNER js */", "/* BANNER css */"
	}
	if rapid.IntRange(0, 3).Draw(t, "footer") == 0 {
		o.FooterJS, o.FooterCSS = "/* FOOTER js */", "/* FOOTER css */"
	}
	return o
}

// Reachable returns the input files that the entry points (plus stdin and injected files) reach through
// relative import specifiers of any kind, as found by this package's own scanners. It is used to steer
// generators towards files that matter; it never decides a verdict.
func Reachable(p *Project) map[string]bool {
	seen := map[string]bool{}
	var queue []string
	push := func(f string) {
		if !seen[f] && p.FileIndex(f) >= 0 {
			seen[f] = true
			queue = append(queue, f)
		}
	}
	follow := func(from string, recs []ImportRec) {
		for _, r := range recs {
			if strings.HasPrefix(r.Spec, "./") || strings.HasPrefix(r.Spec, "../") {
				push(filepath.ToSlash(filepath.Join(dirOf(from), r.Spec)))
			}
		}
	}
	for _, e := range p.Entries {
		push(e)
	}
	for _, e := range p.Opts.Inject {
		push(e)
	}
	if p.Stdin != nil {
		if info, err := ScanJS([]byte(p.Stdin.Contents)); err == nil {
			follow("stdin.js", info.Imports)
		}
	}
	for len(queue) > 0 {
		f := queue[0]
		queue = queue[1:]
		fl := p.Files[p.FileIndex(f)]
		switch fl.Kind {
		case KJS:
			if info, err := ScanJS(fl.Bytes()); err == nil {
				follow(f, info.Imports)
			}
		case KCSS:
			if info, err := ScanCSS(fl.Bytes()); err == nil {
				follow(f, info.Imports)
			}
		}
	}
	return seen
}

package jslib

// Lowerable constructs in the positions named by the property (receiver, callee, assignment target,
// computed key, default value, loop head, class heritage, static/instance member, inside arrow /
// async / generator, nested in each other). Operands are probes p(id, value) so that evaluation
// count and order are observable. Every entry is a self-contained script; async entries log "done".
var Families = []string{
	// ---- optional chaining
	`var o = { a: { b: function () { log("b", this === o.a); return { c: 1 }; } } }; log(p(1, o)?.a?.b()?.c, p(2, null)?.a.b.c(), p(3, o).x?.y.z, o?.["a"]?.["b"]?.().c);`,
	`var o = { f: function () { return this === o; } }; log(o?.f(), (o?.f)(), (0, o?.f)?.call(undefined), o.f?.(), o["f"]?.(), (o.g)?.(), o.g?.(p(1, 1)), p(2, o)?.[p(3, "f")]?.(p(4, 0)));`,
	`var o = null; log(o?.a, o?.[p(1, 1)], o?.(p(2, 2)), o?.a.b.c.d, o?.a(p(3, 3)).b, delete o?.a, delete o?.a.b); var q = { a: { b: 1 } }; log(delete q?.a.b, q, delete q?.["a"], q, delete (q?.z));`,
	`var o = { a: null, get g() { log("get g"); return null; } }; log(o.a?.b.c, o.g?.b, (o.g?.b).c === undefined ? "no-throw" : 1);`,
	`function f() { log("f this", this === undefined || this === globalThis); return null; } log(f?.()?.x, f()?.x.y.z, (f?.())?.x);`,
	`var o = { m() { return this; } }; var n = null; log(o?.m() === o, o.m?.() === o, (o?.m)() === o, n?.m() , o?.m?.()?.m?.() === o); try { (n?.m).x } catch (e) { log("threw", e) }`,
	"var o = { t(s) { return [this === o, s[0]]; } }; var n = null; log(o?.t`x`, n?.a.t?.(1)); ",
	`var a = { b: { c: { d: 5 } } }; for (var k of [p(1, a)?.b?.c]) log(k); log(a?.b.c?.["d"], a?.["b"]["c"].d, a.z?.b.c.d ?? "dflt");`,
	`class A { #p = { q: 1 }; static s(o) { return [o?.#p, o?.#p.q, o?.#p?.q, (o?.#p).q]; } } log(A.s(new A()), (function () { try { return A.s(null) } catch (e) { return e } })());`,
	// ---- nullish coalescing and logical assignment
	`log(p(1, null) ?? p(2, "d"), p(3, 0) ?? p(4, "d"), p(5, undefined) ?? p(6, null) ?? p(7, "e"), (p(8, "") ?? 1) || 2, p(9, null) ?? (p(10, 0) || p(11, 3)));`,
	`var a = null, b = 0, c = "x", o = { n: null, z: 0, get g() { log("get"); return undefined; }, set g(v) { log("set", v); } }; a ??= p(1, 1); b ??= p(2, 2); b ||= p(3, 3); c &&= p(4, 4); o.n ??= p(5, 5); o.z ||= p(6, 6); o.z &&= p(7, 7); o.g ??= p(8, 8); o[p(9, "k")] ??= p(10, 10); p(11, o)[p(12, "k")] &&= p(13, 13); log(a, b, c, o.n, o.z, o.k);`,
	`var calls = 0; function obj() { calls++; return tgt; } var tgt = { x: null, y: 1 }; obj().x ??= 5; obj().y ??= 6; obj().x ||= 7; obj()[p(1, "y")] &&= 8; log(calls, tgt);`,
	`class A { #x = null; static #s = 0; m() { this.#x ??= p(1, 1); this.#x ||= p(2, 2); this.#x &&= p(3, 3); A.#s ||= p(4, 4); A.#s **= 2; return [this.#x, A.#s]; } } log(new A().m());`,
	`class B { get v() { log("get v"); return this._v; } set v(x) { log("set v", x); this._v = x; } } class C extends B { m() { super.v ??= p(1, 1); super.v ||= p(2, 2); super.v &&= p(3, 3); super["v"] **= 2; return this._v; } } log(new C().m());`,
	`var x = 2, o = { y: 3 }; x **= 3; o.y **= x; o[p(1, "y")] **= p(2, 0.5); log(x, o.y, 2 ** 3 ** 2, (-2) ** 2, 2 ** -1, p(3, 2) ** p(4, 3) ** p(5, 2));`,
	// ---- class fields, private names, static blocks
	`var k = 0; class A { [p(1, "a" + k++)] = p(2, 1); static [p(3, "s" + k++)] = p(4, 2); [p(5, "b" + k++)]() {} static { log("static block", Object.keys(A)); } [p(6, "c" + k++)] = p(7, this === undefined); } log(Object.keys(new A()), Object.keys(A));`,
	`class A { a = p(1, 1); b = this.a + 1; c = () => this.b; static s = p(2, this === A); static t = A.s; d; "quoted key" = 3; 0 = 4; constructor() { log("ctor", this.a, this.b, this.c(), this.d); } } var i = new A(); log(i, A.s, A.t);`,
	`class B { constructor() { log("B ctor", Object.keys(this)); this.fromB = 1; } } class A extends B { x = p(1, "x") ; constructor() { log("before super"); super(); log("after super", Object.keys(this)); } y = p(2, this.fromB); } new A();`,
	`class B { constructor() { return { replaced: true }; } } class A extends B { f = p(1, 1); #p = 2; g() { return this.#p; } static has(o) { return #p in o; } } var i = new A(); log(i, A.has(i), A.has({}));`,
	`class A { #a = 1; #m() { return this.#a; } get #g() { return this.#a + 1; } set #g(v) { this.#a = v; } static #sm() { return "sm"; } static #sf = "sf"; t() { this.#g = 10; return [this.#a, this.#m(), this.#g, A.#sm(), A.#sf, this.#m === this.#m]; } static brand(o) { try { return o.#a; } catch (e) { return e; } } } log(new A().t(), A.brand({}), A.brand(new A()));`,
	`class A { #x = 0; inc() { return [this.#x++, ++this.#x, this.#x--, --this.#x, this.#x += 5, this.#x -= 2, -this.#x, typeof this.#x]; } tag() { return this.#t` + "`a${1}b`" + `; } #t(s, v) { return [s.raw[0], v, this instanceof A]; } } var a = new A(); log(a.inc(), a.tag());`,
	`class A { static #count = 0; static next() { return ++A.#count; } static { A.next(); A.next(); } static peek = A.#count; } log(A.next(), A.peek); class S { static x = 1; static { var local = S.x + 1; S.y = local; try { throw 1 } catch (e) { S.z = e } } static w = S.y + S.z; } log(S.y, S.z, S.w);`,
	`var C = class Named { static self = Named; static n = Named.name.length > 0; m() { return Named; } }; log(C.self === C, new C().m() === C); var D = class { static f = this; }; log(D.f === D);`,
	`class A { static a = p(1, 1); static [p(2, "b")] = p(3, 2); static { log("sb1"); } static c = p(4, 3); static { log("sb2", A.a, A.b, A.c); } } `,
	`function deco() {} class A { x = 1; ["y"] = 2; static z = 3; #w = 4; getW() { return this.#w; } } var a = new A(); log(Object.getOwnPropertyDescriptor(a, "x"), Object.getOwnPropertyNames(a), a.getW(), Object.getOwnPropertyDescriptor(A, "z"));`,
	`class P { set x(v) { log("setter called", v); } } class A extends P { x = 1; } var a = new A(); log(Object.getOwnPropertyDescriptor(a, "x"));`,
	`class A { m() { return class { f = this; g = () => this; h() { return this; } }; } } var I = new A().m(); var i = new I(); log(i.f === i, i.g() === i, i.h() === i);`,
	`class A { f = function () { return typeof this; }; g = () => new.target; h = [arguments_ === undefined]; } var arguments_; log(new A().f(), new A().g(), new A().h);`,
	`var order = []; class A { [(order.push("k1"), "a")] = order.push("v1"); static [(order.push("k2"), "b")] = order.push("v2"); [(order.push("k3"), "c")]() {} } order.push("after"); new A(); log(order);`,
	// ---- object rest / spread
	`var src = { get a() { log("get a"); return 1; }, b: 2, get c() { log("get c"); return 3; }, [Symbol.for("s")]: 4 }; var { a, ...rest } = src; log(a, rest, Object.getOwnPropertySymbols(rest).length); var copy = { x: 0, ...src, b: 9, ...null, ...undefined, ..."hi", ...[7] }; log(copy);`,
	`var { [p(1, "k")]: v1, [p(2, "j")]: v2 = p(3, "dflt"), ...others } = { k: 1, l: 2, m: 3 }; log(v1, v2, others);`,
	`function f({ a, ...r }, [b, ...s], ...t) { return [a, r, b, s, t]; } log(f({ a: 1, b: 2, c: 3 }, [4, 5, 6], 7, 8)); var g = ({ x, ...y }) => y; log(g({ x: 1, y: 2, z: 3 }));`,
	`var o = { a: 1, b: { c: 2, d: 3, e: 4 } }; var { b: { c, ...inner }, ...outer } = o; log(c, inner, outer); var t = {}; ({ a: t.x, ...t.rest } = o); log(t); for (var { a: la, ...lr } of [o]) log(la, lr);`,
	`var proto = { inherited: 1 }; var o = Object.create(proto); o.own = 2; Object.defineProperty(o, "hidden", { value: 3, enumerable: false }); var { ...r } = o; log(r, { ...o }, { __proto__: proto, ...{ __proto__: null } }.inherited);`,
	`try { var { ...r2 } = null; } catch (e) { log("rest of null", e); } try { var { a: x2, ...r3 } = undefined; } catch (e) { log("rest of undefined", e); } var { length, ...chars } = "ab"; log(length, chars); var { 0: zero, ...more } = [10, 20]; log(zero, more);`,
	`var o = { set s(v) { log("setter", v); } }; var c = { ...o }; log(Object.getOwnPropertyDescriptor(c, "s")); var d = { s: 1, ...{ get s() { log("getter"); return 2; } } }; log(d);`,
	`var k = 0; var o = { [p(1, "a")]: k++, ...(p(2, { b: k++ })), [p(3, "c")]: k++, ...p(4, { a: "over" }) }; log(o);`,
	// ---- destructuring with defaults, holes, iterators
	`function* g() { log("g1"); yield 1; log("g2"); yield 2; log("g3"); yield 3; log("g4"); } var [a, , b = p(1, 9), ...r] = g(); log(a, b, r); var [x] = g(); log(x); var [] = g(); var [y = p(2, 5), z = p(3, 6)] = [undefined, null]; log(y, z);`,
	`var it = { [Symbol.iterator]() { var i = 0; return { next() { log("next", i); return { value: i++, done: i > 3 }; }, return() { log("return called"); return {}; } }; } }; var [a, b] = it; log(a, b); var [c, d, e, f] = it; log(c, d, e, f); for (var [q] of [it]) log(q);`,
	`var o = {}; [o.a, o["b"], ...o.c] = [1, 2, 3, 4]; ({ x: o.x = p(1, "dx"), y: [o.y0, o.y1] = [p(2, 7), p(3, 8)] } = { y: undefined }); log(o); var s, t; [s, t] = [t, s] = [1, 2]; log(s, t);`,
	`function f(a = p(1, 1), { b = p(2, 2), c: [d = p(3, 3)] = [] } = {}, ...[e = p(4, 4)]) { return [a, b, d, e, arguments.length]; } log(f(), f(0, { b: 0, c: [0] }, 0), f(undefined, undefined, undefined));`,
	`var x = 1; function f(a = x, b = () => a, c = (a = 5, b())) { var x = 2; return [a, b(), c, x]; } log(f()); function g(a, b = a + 1, c = arguments.length) { return [a, b, c]; } log(g(1), g(1, 2, 3));`,
	`try { throw [1, { a: 2 }]; } catch ([x, { a, b = p(1, 3) }]) { log(x, a, b); } for (var { k = p(2, "dk"), ...rest } of [{ j: 1 }, { k: 2 }]) log(k, rest); for (var [i, j = i * 2] of [[1], [2, 3]]) log(i, j);`,
	// ---- template literals
	"function tag(s) { var a = [].slice.call(arguments, 1); log(s, s.raw, a, Object.isFrozen(s), Array.isArray(s.raw)); return s; } var t1 = tag`a${p(1, 1)}b${p(2, 2)}c`; var t2 = tag`\\n\\u0041${0}\\x41\\\n`; function same() { return tag`x${0}`; } log(same() === same(), t1 === t2);",
	"var o = { toString() { log(\"toString\"); return \"S\"; }, valueOf() { log(\"valueOf\"); return \"V\"; } }; log(`${o}`, `a${o}b${1 + 1}c`, `${p(1, 1)}${p(2, 2)}`, `` + o, `${Symbol.iterator.description}`); try { `${Symbol()}`; } catch (e) { log(\"symbol in template\", e); }",
	"var o = { tag(s) { return this === o ? s.raw.join(\"|\") : \"wrong this\"; } }; log(o.tag`a${1}b`, o[\"tag\"]`c`, (o.tag)`d`, (0, o.tag)`e`); function f() { return f; } log(f`a``b``c` === f, new f`x` instanceof f);",
	"function raw(s) { return [s[0], s.raw[0]]; } log(raw`\\u`, raw`\\xZ`, raw`\\u{110000}`, raw`\\01`, raw`line1\r\nline2`, raw`$`, raw`\\${`, raw`\\``);",
	// ---- async functions
	`async function f(a, b = p(1, 2)) { log("start", a, b, arguments.length, this === undefined || this === globalThis); var r = await p(2, a + b); log("after await", r); try { await Promise.reject(new TypeError("x")); } catch (e) { log("caught", e); } finally { log("finally"); } return r * 2; } f(1).then(function (v) { log("result", v); log("done"); });`,
	`var o = { v: 1, async m(x) { await null; return [this.v, x, arguments.length]; }, n: async function () { return this.v; }, a: async () => typeof this }; (async function () { log(await o.m(5, 6), await o.n(), await o.a()); log("done"); })();`,
	`class B { async m() { return "B.m"; } get g() { return "B.g"; } } class A extends B { async m() { var s = await super.m(); var t = await (async () => super.g)(); return [s, t, super.g]; } static async s() { return this === A; } } (async () => { log(await new A().m(), await A.s()); log("done"); })();`,
	`async function thrower() { throw p(1, "boom"); } async function f() { try { await thrower(); log("not reached"); } catch (e) { log("caught", e); return "recovered"; } finally { log("fin"); } } f().then(v => { log(v); return thrower(); }).catch(e => { log("outer", e); log("done"); });`,
	`async function f() { var out = []; for (var i = 0; i < 3; i++) { if (i === 1) continue; out.push(await p(i, i * 10)); } var j = 0; while (await p(10 + j, j < 2)) { j++; } lbl: for (var a of [1, 2]) { for (var b of [1, 2]) { if (await b === 2) continue lbl; out.push(a * b); } } switch (await 2) { case 1: out.push("one"); case await 2: out.push("two"); default: out.push("dflt"); } return out; } f().then(v => { log(v); log("done"); });`,
	`var f = async (x) => { await 0; return x + 1; }; var g = async x => x * 2; var h = async () => { throw 3; }; (async () => { log(await f(1), await g(2), await h().catch(e => "c" + e), await (async function* () {}).constructor.name.length > 0); log("done"); })();`,
	`async function f() { return await new Promise(function (res) { res({ then(r) { log("thenable"); r("from thenable"); } }); }); } f().then(v => { log(v); log("done"); });`,
	`function outer() { return (async () => { await 0; return [this && this.tag, arguments[0], new.target === undefined]; })(); } outer.call({ tag: "T" }, "arg0").then(v => { log(v); log("done"); });`,
	`async function f(x) { var y = x?.a ?? (await p(1, "dflt")); var o = { ...(await p(2, { k: 1 })), [await p(3, "c")]: await p(4, 2) }; var [q = await p(5, 9)] = []; return [y, o, q]; } f(null).then(v => { log(v); log("done"); });`,
	// ---- generators, async generators, for await
	`async function* ag() { log("ag start"); var x = yield p(1, 1); log("got", x); try { yield p(2, 2); yield p(3, 3); } finally { log("ag cleanup"); } return "ret"; } (async () => { var it = ag(); log(await it.next("ignored"), await it.next("X"), await it.return("early"), await it.next()); log("done"); })();`,
	`async function* inner() { yield 1; yield 2; return "inner-ret"; } async function* outer() { var r = yield* inner(); log("inner returned", r); yield* [10, 20]; yield* (function* () { yield "sync"; })(); } (async () => { var out = []; for await (var v of outer()) out.push(v); log(out); log("done"); })();`,
	`var src = { [Symbol.asyncIterator]() { var i = 0; return { next() { log("anext", i); return Promise.resolve({ value: i++, done: i > 3 }); }, return() { log("areturn"); return Promise.resolve({}); } }; } }; (async () => { for await (var x of src) { log("x", x); if (x === 1) break; } for await (var y of [p(1, Promise.resolve("a")), "b"]) log("y", y); try { for await (var z of src) { throw "err"; } } catch (e) { log("caught", e); } log("done"); })();`,
	`async function* g() { try { yield 1; yield 2; } catch (e) { log("g caught", e); yield "recovered"; } } (async () => { var it = g(); log(await it.next(), await it.throw("T"), await it.next()); var it2 = g(); log(await it2.throw("early").catch(e => "rejected " + e)); log("done"); })();`,
	`var o = { async *m() { yield this.v; yield* this.n(); }, *n() { yield "n"; }, v: "v" }; class C { static async *s() { yield await "s"; } } (async () => { var a = []; for await (var x of o.m()) a.push(x); for await (var y of C.s()) a.push(y); log(a); log("done"); })();`,
	`async function f() { var out = []; for await (var [a, { b = p(1, "db") }] of [[1, {}], Promise.resolve([2, { b: 3 }])]) out.push([a, b]); for await (out[out.length] of ["tail"]); return out; } f().then(v => { log(v); log("done"); });`,
	// ---- nested in each other
	`class A { #p = { q: null }; static async make() { var a = new A(); a.#p.q ??= await p(1, { r: 5 }); var { q: { r, ...rest }, ...others } = a.#p; return [a?.#p?.q?.r, r, rest, others, a.#p?.["q"]?.r ** 2]; } } A.make().then(v => { log(v); log("done"); });`,
	`class K { static f = async (o) => o?.x?.[await p(1, "y")] ?? (await p(2, "none")); static g = (async () => { K.h ||= await K.f({ x: { y: 7 } }); return K.h; })(); } K.g.then(async v => { log(v, await K.f(null)); log("done"); });`,
	`var o = { a: { b: null } }; o.a.b ??= { c: [1, 2, 3] }; var { a: { b: { c: [first, ...restC] } } } = o; var fn = ({ x = first, ...r } = {}) => ` + "`${x}:${JSON.stringify(r)}`" + `; log(fn(), fn({ y: restC }), o?.a?.b?.c?.[restC.length] ** 2);`,
	`function* gen() { var { a = yield "need a", ...r } = yield "start"; var x = (yield "q") ?? "nullish"; return [a, r, x]; } var it = gen(); log(it.next(), it.next({ b: 1 }), it.next("A"), it.next(null));`,
	`label: for (var i = 0; i < 2; i++) { class L { static v = i; static { if (i === 0) continue_ = true; } } var continue_; log(L.v ?? "none", (() => i?.toFixed?.(1))()); }`,
	// ---- misc ES2016-2022 features that have lowering paths
	`try { throw 1 } catch { log("optional catch binding") } var big = 10n * 3n; log(typeof big, 1_000_000, 0b1010, 0o17, [1, [2, [3]]].length);`,
	`var o = { __proto__: { inherited() { return "inh"; } }, m() { return super.inherited(); } }; log(o.m()); function F() { return new.target === F; } log(new F() instanceof F, F());`,
	`log(/(?<year>\d{4})-(?<m>\d\d)/.exec("2020-12").groups.year, /a.b/s.test("a\nb"), /(?<=\$)\d+/.exec("$42")[0], /\p{Lu}/u.test("É"), "aXbX".replace(/x/gi, "-"));`,
	// ---- shapes that the minifier rewrites into NEWER syntax when the target allows it (C14: only then)
	`function g1(a, x) { return a != null ? a.b : undefined; } function g2(a, x) { return a == null ? void 0 : a.b.c[x](1); } function g3(a, b) { return a != null ? a : b; } function g4(a, b) { return a === null || a === undefined ? b : a; } log(g1({ b: 1 }), g1(null), g2(undefined, 0), g3(null, 2), g3(0, 2), g4(undefined, 3));`,
	`function h1(a, b) { if (a == null) a = b; return a; } function h2(o, b) { o.x || (o.x = b); o.y && (o.y = b); o.z ?? (o.z = b); return o; } function h3(a) { a && a.f && a.f(); return a != null && a.b(); } log(h1(null, 1), h1(0, 1), h2({ x: 0, y: 1, z: null }, 9), h3(null), h3({ f() { log("f"); }, b() { return "b"; } }));`,
	`var s1 = "a" + p(1, "x") + "b" + p(2, 1) + "c"; var s2 = function (x) { return x * 2; }; var s3 = { f: function () { return this === s3; }, g: function g() { return 1; } }; var pow = Math.pow(p(3, 2), 3); log(s1, s2(2), s3.f(), s3.g(), pow, typeof s1 === "undefined", s1 === void 0);`,
	`function k1(o) { return o === null || o === void 0 ? void 0 : o.a; } function k2(o) { var t; return (t = o) === null || t === void 0 ? void 0 : t.a.b; } function k3(a, b) { return a !== null && a !== void 0 ? a : b; } log(k1({ a: 1 }), k1(null), k2({ a: { b: 2 } }), k2(undefined), k3(null, 3), k3(false, 3));`,
}

// Package vdrv is the glue between a property's test package and the ./check driver:
// run environment (tier, seed, shard), counters for evidence, failure/replay files and
// known-finding matching. See DESIGN.md sections 1 and 3 (S1) and Appendix A.
package vdrv

import (
	"encoding/json"
	"flag"
	"fmt"
	"hash/fnv"
	"os"
	"path/filepath"
	"sort"
	"strconv"
	"strings"
	"sync"
	"testing"
	"time"
)

// H is the per-process harness state of one property check.
type H struct {
	Property string
	Tier     string // quick | thorough
	Seed     uint64
	Shard    int
	NShards  int
	Root     string // /verif
	OutDir   string // where the shard evidence is written
	start    time.Time

	mu         sync.Mutex
	evals      int
	nontrivial map[uint64]struct{}
	classes    map[string]int
	discards   map[string]int
	excluded   map[string]int
	samples    []Sample
	fallback   []Sample // first judged cases, used only when no non-trivial sample exists
	sampleSeen map[string]int
	violations []Violation
	knownHit   map[string]string
	notes      []string
	rules      []string
	lastFail   map[string]*Failure
	replaysRun int
	subEvals   map[string]int
	enumFails  map[string]int
	exhaustive map[string]bool
}

// Sample is one concrete explored case written into evidence.
type Sample struct {
	Sub      string      `json:"sub"`
	Case     interface{} `json:"case"`
	Observed string      `json:"observed,omitempty"`
}

// Violation is a failure that the driver turns into a VIOLATION line.
type Violation struct {
	Sub     string `json:"sub"`
	Replay  string `json:"replay"`
	Summary string `json:"summary"`
}

// Failure is the content of a replay file.
type Failure struct {
	Property string      `json:"property"`
	Sub      string      `json:"sub"`
	Case     interface{} `json:"case"`
	Expected string      `json:"expected,omitempty"`
	Observed string      `json:"observed,omitempty"`
	Detail   string      `json:"detail,omitempty"`
	FoundBy  interface{} `json:"found_by,omitempty"`
	Note     string      `json:"note,omitempty"`
}

// Verdict is what a property's pure check function returns for one case.
type Verdict struct {
	OK         bool
	Known      string // id of the known finding whose signature this failing case matches ("" = none)
	Discard    string // non-empty: case could not be judged (reason); never a violation
	NonTrivial bool
	Classes    []string
	Expected   string
	Observed   string
	Detail     string
}

// Pass, Fail, Skip are small constructors.
func Pass(nontrivial bool, classes ...string) Verdict {
	return Verdict{OK: true, NonTrivial: nontrivial, Classes: classes}
}
func Fail(detail, expected, observed string) Verdict {
	return Verdict{OK: false, Detail: detail, Expected: expected, Observed: observed}
}
func Skip(reason string) Verdict { return Verdict{OK: true, Discard: reason} }

// KnownFinding is one entry of /verif/known-findings.json.
type KnownFinding struct {
	Status   string `json:"status"` // known | fixed
	Property string `json:"property"`
	ID       string `json:"id"`
	What     string `json:"what"`
	Replay   string `json:"replay"`
	Commit   string `json:"commit,omitempty"`
}

func envInt(name string, def int) int {
	if v := os.Getenv(name); v != "" {
		if n, err := strconv.Atoi(v); err == nil {
			return n
		}
	}
	return def
}

// Root returns the /verif directory.
func Root() string {
	if d := os.Getenv("VERIF_ROOT"); d != "" {
		return d
	}
	return "/verif"
}

// EvidenceDir is where evidence and failure replays are written (/verif/evidence unless the driver
// runs against a scratch checkout).
func EvidenceDir() string {
	if d := os.Getenv("VERIF_EVIDENCE_DIR"); d != "" {
		return d
	}
	return filepath.Join(Root(), "evidence")
}

// RepoDir is the esbuild checkout under test.
func RepoDir() string {
	if d := os.Getenv("VERIF_REPO"); d != "" {
		return d
	}
	return "/repo"
}

// New reads the environment set by ./check.
func New(property string) *H {
	seed := uint64(1)
	if v := os.Getenv("VERIF_SEED"); v != "" {
		if n, err := strconv.ParseUint(v, 10, 64); err == nil {
			seed = n
		} else if n, err := strconv.ParseInt(v, 10, 64); err == nil {
			seed = uint64(n)
		}
	}
	tier := os.Getenv("VERIF_TIER")
	if tier != "thorough" {
		tier = "quick"
	}
	h := &H{
		Property: property, Tier: tier, Seed: seed,
		Shard: envInt("VERIF_SHARD", 0), NShards: envInt("VERIF_NSHARDS", 1),
		Root: Root(), OutDir: os.Getenv("VERIF_OUT"), start: time.Now(),
		nontrivial: map[uint64]struct{}{}, classes: map[string]int{}, discards: map[string]int{},
		excluded: map[string]int{}, sampleSeen: map[string]int{}, knownHit: map[string]string{},
		lastFail: map[string]*Failure{}, subEvals: map[string]int{}, enumFails: map[string]int{}, exhaustive: map[string]bool{},
	}
	if h.NShards < 1 {
		h.NShards = 1
	}
	if h.OutDir == "" {
		h.OutDir = filepath.Join(h.Root, ".out", property)
	}
	os.MkdirAll(h.OutDir, 0o755)
	return h
}

// Thorough reports whether the thorough tier is running.
func (h *H) Thorough() bool { return h.Tier == "thorough" }

// N picks the per-shard case count for this tier: total counts are divided among shards.
func (h *H) N(quickTotal, thoroughTotal int) int {
	n := quickTotal
	if h.Thorough() {
		n = thoroughTotal
	}
	per := (n + h.NShards - 1) / h.NShards
	if per < 1 {
		per = 1
	}
	return per
}

// RapidSeed is the PRNG value for rapid for this shard and sub-check (never 0).
func (h *H) RapidSeed(sub string) uint64 {
	f := fnv.New64a()
	f.Write([]byte(sub))
	s := h.Seed*1000003 + uint64(h.Shard)*7919 + f.Sum64()%1000000007
	if s == 0 {
		s = 1
	}
	return s
}

// SetupRapid sets rapid's flags for the next rapid.Check call.
func (h *H) SetupRapid(sub string, checks int) {
	flag.Set("rapid.checks", strconv.Itoa(checks))
	flag.Set("rapid.seed", strconv.FormatUint(h.RapidSeed(sub), 10))
	flag.Set("rapid.nofailfile", "true")
	flag.Set("rapid.shrinktime", "45s")
	if h.Thorough() {
		flag.Set("rapid.shrinktime", "120s")
	}
}

// MySlice reports whether item i of an enumerated space belongs to this shard.
func (h *H) MySlice(i int) bool { return i%h.NShards == h.Shard }

func hash64(s string) uint64 {
	f := fnv.New64a()
	f.Write([]byte(s))
	return f.Sum64()
}

// Rule records the generation / non-triviality rule text for a sub-check (for evidence).
func (h *H) Rule(sub, text string) {
	h.mu.Lock()
	defer h.mu.Unlock()
	for _, r := range h.rules {
		if strings.HasPrefix(r, sub+": ") {
			return
		}
	}
	h.rules = append(h.rules, sub+": "+text)
}

// Note adds a free-text line to evidence.
func (h *H) Note(format string, args ...interface{}) {
	h.mu.Lock()
	defer h.mu.Unlock()
	if len(h.notes) < 200 {
		h.notes = append(h.notes, fmt.Sprintf(format, args...))
	}
}

// Exhaustive records that a finite space was (or was not) completely enumerated by this shard's slice.
func (h *H) Exhaustive(sub string, complete bool) {
	h.mu.Lock()
	defer h.mu.Unlock()
	h.exhaustive[sub] = complete
}

// TB is the subset of testing.TB / rapid.T used here.
type TB interface {
	Fatalf(format string, args ...interface{})
	Logf(format string, args ...interface{})
}

// Report accounts for one judged case and fails the (rapid or plain) test on a violation.
// caseKey is the canonical text of the case used for distinctness. c must be JSON-serialisable.
func (h *H) Report(t TB, sub string, caseKey string, c interface{}, v Verdict) {
	h.mu.Lock()
	h.evals++
	h.subEvals[sub]++
	if v.Discard != "" {
		h.discards[sub+"/"+v.Discard]++
		h.mu.Unlock()
		return
	}
	for _, cl := range v.Classes {
		h.classes[sub+"/"+cl]++
	}
	if v.OK && len(h.fallback) < 2 {
		h.fallback = append(h.fallback, Sample{Sub: sub, Case: c, Observed: clip(v.Observed, 600)})
	}
	if v.OK {
		if v.NonTrivial {
			h.nontrivial[hash64(sub+"\x00"+caseKey)] = struct{}{}
			// keep a few samples per sub-check, preferring distinct class signatures
			sig := sub + "|" + strings.Join(v.Classes, ",")
			if h.sampleSeen[sub] < 4 && h.sampleSeen[sig] < 1 {
				h.sampleSeen[sub]++
				h.sampleSeen[sig]++
				h.samples = append(h.samples, Sample{Sub: sub, Case: c, Observed: clip(v.Observed, 600)})
			}
		}
		h.mu.Unlock()
		return
	}
	if v.Known != "" && h.isListedKnown(v.Known) {
		h.excluded[v.Known]++
		h.mu.Unlock()
		return
	}
	h.lastFail[sub] = &Failure{Property: h.Property, Sub: sub, Case: c, Expected: v.Expected, Observed: v.Observed, Detail: v.Detail,
		FoundBy: map[string]interface{}{"tier": h.Tier, "seed": h.Seed, "shard": h.Shard}}
	if tt, isEnum := t.(*testing.T); isEnum {
		// plain (enumerated) sub-check: every case is already minimal, so record it now and continue,
		// up to a cap, instead of stopping at the first failure
		h.enumFails[sub]++
		n := h.enumFails[sub]
		h.mu.Unlock()
		h.FlushFailure(sub)
		tt.Errorf("property %s/%s violated: %s\n--- expected\n%s\n--- observed\n%s", h.Property, sub, v.Detail, clip(v.Expected, 1500), clip(v.Observed, 1500))
		if n >= envInt("VERIF_ENUM_FAILCAP", 5) {
			tt.Fatalf("too many failures in %s: stopping this sub-check", sub)
		}
		return
	}
	h.mu.Unlock()
	t.Fatalf("property %s/%s violated: %s\n--- expected\n%s\n--- observed\n%s", h.Property, sub, v.Detail, clip(v.Expected, 2000), clip(v.Observed, 2000))
}

func clip(s string, n int) string {
	if len(s) > n {
		return s[:n] + "…"
	}
	return s
}

var (
	kfOnce sync.Once
	kfList []KnownFinding
)

// KnownFindings loads /verif/known-findings.d/*.json (read-only; one file per property).
func KnownFindings() []KnownFinding {
	kfOnce.Do(func() {
		files, _ := filepath.Glob(filepath.Join(Root(), "known-findings.d", "*.json"))
		sort.Strings(files)
		for _, f := range files {
			b, err := os.ReadFile(f)
			if err != nil {
				continue
			}
			var l []KnownFinding
			if json.Unmarshal(b, &l) == nil {
				kfList = append(kfList, l...)
			}
		}
	})
	return kfList
}

func (h *H) isListedKnown(id string) bool {
	for _, k := range KnownFindings() {
		if k.ID == id && k.Status == "known" && k.Property == h.Property {
			return true
		}
	}
	return false
}

// FlushFailure must be called (deferred) after each rapid.Check / loop of a sub-check: if a failure was
// recorded for sub (the last one recorded is the shrunk one) it is written as a replay file.
func (h *H) FlushFailure(sub string) {
	h.mu.Lock()
	defer h.mu.Unlock()
	f := h.lastFail[sub]
	if f == nil {
		return
	}
	delete(h.lastFail, sub)
	dir := filepath.Join(EvidenceDir(), "failures", h.Property)
	os.MkdirAll(dir, 0o755)
	b, _ := json.MarshalIndent(f, "", " ")
	name := fmt.Sprintf("%s-%s-seed%d-shard%d-%08x.json", sub, h.Tier, h.Seed, h.Shard, hash64(string(b))&0xffffffff)
	path := filepath.Join(dir, name)
	os.WriteFile(path, b, 0o644)
	h.violations = append(h.violations, Violation{Sub: sub, Replay: path, Summary: clip(f.Detail, 300)})
	fmt.Printf("SHARD-VIOLATION property=%s replay=%s\n", h.Property, path)
}

// ReplayFunc re-judges a stored case.
type ReplayFunc func(raw json.RawMessage) Verdict

// LoadReplay reads a replay file.
func LoadReplay(path string) (*struct {
	Property string          `json:"property"`
	Sub      string          `json:"sub"`
	Case     json.RawMessage `json:"case"`
	Note     string          `json:"note"`
}, error) {
	b, err := os.ReadFile(path)
	if err != nil {
		return nil, err
	}
	var r struct {
		Property string          `json:"property"`
		Sub      string          `json:"sub"`
		Case     json.RawMessage `json:"case"`
		Note     string          `json:"note"`
	}
	if err := json.Unmarshal(b, &r); err != nil {
		return nil, err
	}
	return &r, nil
}

// RunReplays executes the regression replays under replays/<ID>/ and the known-finding replays
// (shard 0 only). Regression or fixed replays that fail are violations; known ones that still
// fail are reported as KNOWN-FINDING.
func (h *H) RunReplays(t *testing.T, subs map[string]ReplayFunc) {
	if h.Shard != 0 {
		return
	}
	known := map[string]KnownFinding{}
	for _, k := range KnownFindings() {
		if k.Property == h.Property && k.Replay != "" {
			known[filepath.Clean(filepath.Join(h.Root, k.Replay))] = k
		}
	}
	files, _ := filepath.Glob(filepath.Join(h.Root, "replays", h.Property, "*.json"))
	sort.Strings(files)
	for _, f := range files {
		r, err := LoadReplay(f)
		if err != nil {
			t.Errorf("replay %s unreadable: %v", f, err)
			continue
		}
		fn := subs[r.Sub]
		if fn == nil {
			t.Errorf("replay %s: unknown sub %q", f, r.Sub)
			continue
		}
		v := fn(r.Case)
		h.mu.Lock()
		h.replaysRun++
		h.mu.Unlock()
		k, isKnown := known[filepath.Clean(f)]
		switch {
		case v.Discard != "":
			h.Note("replay %s inconclusive: %s", filepath.Base(f), v.Discard)
		case isKnown && k.Status == "known":
			if !v.OK {
				h.mu.Lock()
				h.knownHit[k.ID] = k.What
				h.mu.Unlock()
				fmt.Printf("SHARD-KNOWN property=%s id=%s %s\n", h.Property, k.ID, k.What)
			} else {
				h.Note("known finding %s no longer reproduces", k.ID)
			}
		default: // regression replay or fixed finding: must pass
			if !v.OK {
				h.mu.Lock()
				h.violations = append(h.violations, Violation{Sub: r.Sub, Replay: f, Summary: clip(v.Detail, 300)})
				h.mu.Unlock()
				fmt.Printf("SHARD-VIOLATION property=%s replay=%s\n", h.Property, f)
				t.Errorf("regression replay %s fails: %s\n--- expected\n%s\n--- observed\n%s", f, v.Detail, clip(v.Expected, 1500), clip(v.Observed, 1500))
			}
		}
	}
}

// ReplayOne is used by TestReplay: judge the file named by VERIF_REPLAY.
func (h *H) ReplayOne(t *testing.T, subs map[string]ReplayFunc) {
	path := os.Getenv("VERIF_REPLAY")
	if path == "" {
		t.Skip("VERIF_REPLAY not set")
	}
	r, err := LoadReplay(path)
	if err != nil {
		t.Fatalf("cannot read replay: %v", err)
	}
	fn := subs[r.Sub]
	if fn == nil {
		t.Fatalf("unknown sub %q", r.Sub)
	}
	v := fn(r.Case)
	if v.Discard != "" {
		fmt.Printf("REPLAY-INCONCLUSIVE %s\n", v.Discard)
		return
	}
	if !v.OK && v.Known != "" && h.isListedKnown(v.Known) {
		// the case reproduces a listed known finding (and matches its signature)
		fmt.Printf("REPLAY-KNOWN %s %s\n", v.Known, clip(v.Detail, 300))
		return
	}
	if !v.OK {
		fmt.Printf("SHARD-VIOLATION property=%s replay=%s\n", h.Property, path)
		t.Fatalf("replay fails: %s\n--- expected\n%s\n--- observed\n%s", v.Detail, v.Expected, v.Observed)
	}
	fmt.Printf("REPLAY-OK %s\n", path)
}

// shardEvidence is what one shard writes; ./check merges shards.
type shardEvidence struct {
	Property    string            `json:"property"`
	Tier        string            `json:"tier"`
	Seed        uint64            `json:"seed"`
	Shard       int               `json:"shard"`
	Evaluations int               `json:"evaluations"`
	NonTrivial  []string          `json:"nontrivial_hashes"`
	Classes     map[string]int    `json:"classes"`
	Discards    map[string]int    `json:"discards"`
	Excluded    map[string]int    `json:"excluded_known"`
	SubEvals    map[string]int    `json:"sub_evaluations"`
	Samples     []Sample          `json:"samples"`
	Violations  []Violation       `json:"violations"`
	KnownHit    map[string]string `json:"known_findings_hit"`
	Notes       []string          `json:"notes"`
	Rules       []string          `json:"rules"`
	ReplaysRun  int               `json:"regression_replays_run"`
	Exhaustive  map[string]bool   `json:"exhaustive"`
	WallS       float64           `json:"wall_s"`
	Complete    bool              `json:"complete"`
}

// Finish writes the shard's evidence. Call it (deferred) at the end of TestCheck.
func (h *H) Finish(complete bool) {
	h.mu.Lock()
	defer h.mu.Unlock()
	ev := shardEvidence{Property: h.Property, Tier: h.Tier, Seed: h.Seed, Shard: h.Shard, Evaluations: h.evals,
		Classes: h.classes, Discards: h.discards, Excluded: h.excluded, SubEvals: h.subEvals, Samples: h.samples, Violations: h.violations,
		KnownHit: h.knownHit, Notes: h.notes, Rules: h.rules, ReplaysRun: h.replaysRun, Exhaustive: h.exhaustive,
		WallS: time.Since(h.start).Seconds(), Complete: complete}
	if len(ev.Samples) == 0 {
		ev.Samples = h.fallback
	}
	for k := range h.nontrivial {
		ev.NonTrivial = append(ev.NonTrivial, strconv.FormatUint(k, 16))
	}
	sort.Strings(ev.NonTrivial)
	b, _ := json.Marshal(ev)
	os.WriteFile(filepath.Join(h.OutDir, fmt.Sprintf("shard-%d.json", h.Shard)), b, 0o644)
}

// Sub runs one sub-check body, then flushes any failure it recorded. The body normally calls
// rapid.Check (after h.SetupRapid) or loops over an enumerated slice calling h.Report.
func (h *H) Sub(t *testing.T, sub string, body func(t *testing.T)) {
	t.Run(sub, func(t *testing.T) {
		defer h.FlushFailure(sub)
		body(t)
	})
}

// Canonical values (Appendix C of DESIGN.md). Shared by worker.js and runner.cjs. ES2017 syntax only.
'use strict';
const util = require('util');

const ERR_NAMES = ['Error', 'TypeError', 'RangeError', 'SyntaxError', 'ReferenceError', 'EvalError', 'URIError', 'AggregateError', 'SuppressedError'];

function isNativeError(v) {
  try { return util.types.isNativeError(v); } catch (e) { return false; }
}

const f64 = new Float64Array(1);
const u32 = new Uint32Array(f64.buffer);
function numStr(n) {
  if (n !== n) return 'n:NaN';
  f64[0] = n;
  return 'n:' + ('00000000' + u32[1].toString(16)).slice(-8) + ('00000000' + u32[0].toString(16)).slice(-8) + '(' + String(n) + ')';
}

// Canonical value -> string. Never invokes user code (no getters, no toString).
function cv(v, depth, seen) {
  depth = depth || 0;
  switch (typeof v) {
    case 'undefined': return 'u';
    case 'boolean': return 'b:' + v;
    case 'number': return numStr(v);
    case 'bigint': return 'bi:' + v.toString();
    case 'string': return 's:' + JSON.stringify(v);
    case 'symbol': return 'sym:' + JSON.stringify(String(v.description));
    case 'function': {
      // functions tagged by test preludes with an own data property __id are distinguishable
      try { const d = Object.getOwnPropertyDescriptor(v, '__id'); if (d && 'value' in d && (typeof d.value === 'number' || typeof d.value === 'string')) return 'fn#' + d.value; } catch (e) {}
      return 'fn';
    }
  }
  if (v === null) return 'null';
  if (depth > 5) return 'deep';
  seen = seen || [];
  const idx = seen.indexOf(v);
  if (idx >= 0) return 'ref:' + idx;
  seen.push(v);
  let out;
  try {
    if (isNativeError(v)) {
      let name = 'Error';
      let p = v;
      for (let i = 0; i < 8 && p; i++) {
        const d = Object.getOwnPropertyDescriptor(p, 'constructor');
        if (d && typeof d.value === 'function') {
          const nd = Object.getOwnPropertyDescriptor(d.value, 'name');
          if (nd && ERR_NAMES.indexOf(nd.value) >= 0) { name = nd.value; break; }
        }
        p = Object.getPrototypeOf(p);
      }
      out = 'err:' + name;
    } else if (util.types.isProxy && util.types.isProxy(v)) {
      out = 'proxy';
    } else if (util.types.isRegExp(v)) {
      out = 're:' + RegExp.prototype.toString.call(v) + ':' + cv(Object.getOwnPropertyDescriptor(v, 'lastIndex') && Object.getOwnPropertyDescriptor(v, 'lastIndex').value, depth + 1, seen);
    } else if (util.types.isPromise(v)) {
      out = 'promise';
    } else if (util.types.isMap(v) || util.types.isSet(v) || util.types.isWeakMap(v) || util.types.isWeakSet(v)) {
      out = 'coll';
    } else if (util.types.isBoxedPrimitive(v)) {
      out = 'boxed:' + cv(primitiveOf(v), depth + 1, seen);
    } else {
      const isArr = Array.isArray(v);
      const keys = Reflect.ownKeys(v);
      const parts = [];
      for (let i = 0; i < keys.length && i < 64; i++) {
        const k = keys[i];
        if (isArr && k === 'length') continue;
        const d = Object.getOwnPropertyDescriptor(v, k);
        if (!d) continue;
        const ks = typeof k === 'symbol' ? '@' + String(k.description) : JSON.stringify(k);
        const fl = (d.enumerable ? 'e' : '') + (d.configurable ? 'c' : '') + (d.writable ? 'w' : '');
        if ('value' in d) parts.push(ks + ':' + fl + ':' + cv(d.value, depth + 1, seen));
        else parts.push(ks + ':' + fl + ':acc' + (d.get ? 'g' : '') + (d.set ? 's' : ''));
      }
      const proto = Object.getPrototypeOf(v);
      let pk = 'C';
      if (proto === null) pk = 'N';
      else if (Object.getPrototypeOf(proto) === null && Object.prototype.hasOwnProperty.call(proto, 'hasOwnProperty')) pk = 'O';
      else if (isArr) pk = 'A';
      if (isArr) out = 'arr(' + v.length + ')[' + parts.join(',') + ']';
      else out = 'obj' + pk + '{' + parts.join(',') + '}';
    }
  } catch (e) {
    out = 'uncanon';
  }
  seen.pop();
  return out;
}

function primitiveOf(v) {
  try {
    if (util.types.isNumberObject(v)) return Number.prototype.valueOf.call(v);
    if (util.types.isStringObject(v)) return String.prototype.valueOf.call(v);
    if (util.types.isBooleanObject(v)) return Boolean.prototype.valueOf.call(v);
    if (util.types.isBigIntObject && util.types.isBigIntObject(v)) return BigInt.prototype.valueOf.call(v);
    if (util.types.isSymbolObject(v)) return Symbol.prototype.valueOf.call(v);
  } catch (e) {}
  return null;
}


// A real module namespace object, or a bundler's emulation of one (an object whose own string-keyed
// properties are all getters): compared by keys and values only, not by kind.
function looksLikeNamespace(v) {
  if (v === null || typeof v !== 'object') return false;
  try { if (util.types.isModuleNamespaceObject(v)) return true; } catch (e) {}
  const keys = Object.getOwnPropertyNames(v);
  if (keys.length === 0) return false;
  let getters = 0;
  for (let i = 0; i < keys.length; i++) {
    if (keys[i] === '__esModule') continue;
    const d = Object.getOwnPropertyDescriptor(v, keys[i]);
    if (!d) return false;
    if (d.get) { getters++; continue; }
    if (keys[i] !== 'default') return false; // interop objects carry `default` as a plain data property
  }
  return getters > 0;
}

function nsValue(ns, depth) {
  // exported values: keys + canonical values, reading through getters (live bindings)
  if (ns === null || (typeof ns !== 'object' && typeof ns !== 'function')) return cv(ns);
  const keys = Reflect.ownKeys(ns).filter(function (k) { return typeof k === 'string'; }).sort();
  const parts = [];
  for (let i = 0; i < keys.length; i++) {
    if (keys[i] === '__esModule') continue;
    let v;
    try {
      const val = ns[keys[i]];
      v = looksLikeNamespace(val) ? ((depth || 0) < 3 ? nsValue(val, (depth || 0) + 1) : 'ns-deep') : cv(val);
    } catch (e) { v = 'throw:' + cv(e); }
    parts.push(JSON.stringify(keys[i]) + '=' + v);
  }
  return (typeof ns === 'function' ? 'fnns{' : 'ns{') + parts.join(',') + '}';
}

module.exports = { cv: cv, nsValue: nsValue };

// File-based reference runner (S3): loads entry files with Node's REAL loaders and reports the trace.
//   node runner.cjs <plan.json>
// plan: { steps: [ {kind: "import"|"require"|"script", file: "<abs path>", globalName?: "G", label?: "x"} ... ] }
// Steps run sequentially in ONE process (so that several entry points share one runtime, as C10 needs).
// Output (stdout, one JSON line): { events: [...], steps: [ {end, exports} ... ] }
'use strict';
const fs = require('fs');
const vm = require('vm');
const url = require('url');
const cvlib = require('./cv.js');
const cv = cvlib.cv;
const nsValue = cvlib.nsValue;

// With "--serve" the runner stays alive and executes one plan per stdin line (each plan uses files in
// its own fresh directory, so module instances are never shared between plans).
const serve = process.argv[2] === '--serve';
let plan = serve ? null : JSON.parse(fs.readFileSync(process.argv[2], 'utf8'));
let events = [];
let overflow = false;
const MAX = 5000;
globalThis.log = function () {
  if (events.length >= MAX) { overflow = true; return; }
  const parts = [];
  for (let i = 0; i < arguments.length; i++) parts.push(cv(arguments[i]));
  events.push(parts.join(' '));
};
globalThis.p = function (id, v) {
  if (events.length >= MAX) { overflow = true; return v; }
  events.push('p:' + cv(id));
  return v;
};
process.on('unhandledRejection', function (r) { events.push('unhandled:' + cv(r)); });
process.on('uncaughtException', function (e) { events.push('uncaught:' + cv(e)); });

function tick() { return new Promise(function (r) { setImmediate(r); }); }
function sleep(ms) { return new Promise(function (r) { setTimeout(r, ms); }); }
// Quiescence: native dynamic imports read files asynchronously, so wait until there are no active
// libuv requests and the event log has been stable for a few consecutive turns (bounded at ~3 s).
async function settle() {
  let stable = 0, last = -1;
  for (let i = 0; i < 600 && stable < 4; i++) {
    await tick();
    await sleep(i < 20 ? 1 : 5);
    const busy = typeof process._getActiveRequests === 'function' && process._getActiveRequests().length > 0;
    if (!busy && events.length === last) stable++; else stable = 0;
    last = events.length;
  }
}

async function runPlan() {
  const steps = [];
  for (const st of plan.steps) {
    const res = { end: 'normal' };
    if (st.label) events.push('step:' + st.label);
    try {
      if (st.kind === 'import') {
        const ns = await import(url.pathToFileURL(st.file).href);
        await settle();
        res.exports = nsValue(ns);
      } else if (st.kind === 'require') {
        const m = require(st.file);
        await settle();
        res.exports = nsValue(m);
      } else if (st.kind === 'script') {
        vm.runInThisContext(fs.readFileSync(st.file, 'utf8'), { filename: st.file });
        await settle();
        if (st.globalName) res.exports = nsValue(vm.runInThisContext(st.globalName));
      }
    } catch (e) {
      await settle();
      res.end = 'throw:' + cv(e);
      if (e && (e.code === 'ERR_MODULE_NOT_FOUND' || e.code === 'MODULE_NOT_FOUND' || e.name === 'SyntaxError')) res.loadError = String(e.code || e.name) + ': ' + String(e.message).slice(0, 300);
    }
    steps.push(res);
  }
  await settle();
  return JSON.stringify({ events: events, steps: steps, overflow: overflow });
}

async function main() {
  if (!serve) {
    process.stdout.write(await runPlan() + '\n');
    process.exit(0);
  }
  const rl = require('readline').createInterface({ input: process.stdin });
  let queue = Promise.resolve();
  rl.on('line', function (line) {
    if (!line) return;
    queue = queue.then(async function () {
      events = [];
      overflow = false;
      try { plan = JSON.parse(line); } catch (e) { process.stdout.write('{"harnessError":"bad plan"}\n'); return; }
      process.stdout.write(await runPlan() + '\n');
    });
  });
  rl.on('close', function () { queue.then(function () { process.exit(0); }); });
}
main();

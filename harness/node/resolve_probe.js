// C11 oracle: ask Node's own resolvers where a specifier leads, WITHOUT loading the target.
//
//   node [--conditions=c]… resolve_probe.js <plan.json> <results.json>     one plan, then exit
//   node [--conditions=c]… resolve_probe.js --serve                        one JSON plan per stdin line,
//                                                                          one JSON answer per stdout line
//
// plan:    {"id":7,"queries":[{"importer":"/abs/real/path/of/importer.js","spec":"pkg/sub","kind":"import"|"require"}, …]}
// answer:  {"id":7,"results":[{"path":"/abs/file","suffix":"?q#h","exists":true} | {"code":"ERR_…","message":"…"}, …]}
//          (file mode writes just the results array)
//
// kind "require": require('module').createRequire(importer).resolve(spec)            (CommonJS resolver)
// kind "import":  import.meta.resolve(spec) evaluated inside a probe module that this script writes
//                 next to the importer (same directory ⇒ same base for relative specifiers, the same
//                 package scope for "#imports"/self-reference and the same node_modules walk).
//                 Node ≥ 20: synchronous, returns a URL string, throws the resolver's error — except
//                 that a missing target is NOT an error for import.meta.resolve, hence "exists".
// Nothing here ever evaluates a resolved target. In --serve mode every plan must live in a directory
// that was never used before in this process (Node caches package.json files and stats by path).
'use strict';
const fs = require('fs');
const path = require('path');
const { createRequire } = require('module');
const { pathToFileURL, fileURLToPath } = require('url');

const PROBE_NAME = '__c11_probe__.mjs';
const PROBE_SRC = 'export const r = (s) => import.meta.resolve(s);\n';

function errInfo(e) {
  return { code: (e && e.code) ? String(e.code) : 'NO_CODE', message: String(e && e.message).slice(0, 300) };
}

function isFile(p) {
  try { return fs.statSync(p).isFile(); } catch { return false; }
}

async function answer(plan) {
  const probes = new Map(); // dir -> resolve function | {probeError}
  const requires = new Map(); // importer -> require function
  const out = [];
  for (const q of plan.queries) {
    try {
      if (q.kind === 'require') {
        let rq = requires.get(q.importer);
        if (!rq) { rq = createRequire(q.importer); requires.set(q.importer, rq); }
        const p = rq.resolve(q.spec);
        if (!path.isAbsolute(p)) { out.push({ code: 'C11_BUILTIN', message: p }); continue; }
        out.push({ path: p, suffix: '', exists: isFile(p) });
      } else if (q.kind === 'import') {
        const dir = path.dirname(q.importer);
        let r = probes.get(dir);
        if (r === undefined) {
          const pf = path.join(dir, PROBE_NAME);
          try {
            fs.writeFileSync(pf, PROBE_SRC);
            r = (await import(pathToFileURL(pf).href)).r;
            // the probe must sit where we think it does (import() realpaths the module URL)
            const self = r('./' + PROBE_NAME);
            if (fileURLToPath(self) !== pf) throw new Error('probe module is at ' + self + ', expected ' + pf);
          } catch (e) { r = { probeError: String(e && e.message) }; }
          probes.set(dir, r);
        }
        if (typeof r !== 'function') { out.push({ code: 'C11_PROBE_FAILED', message: r.probeError }); continue; }
        const u = r(q.spec);
        if (typeof u !== 'string') { out.push({ code: 'C11_NOT_SYNC', message: typeof u }); continue; }
        const url = new URL(u);
        if (url.protocol !== 'file:') { out.push({ code: 'C11_NOT_FILE', message: u }); continue; }
        const p = fileURLToPath(url);
        out.push({ path: p, suffix: url.search + url.hash, exists: isFile(p) });
      } else {
        out.push({ code: 'C11_BAD_KIND', message: String(q.kind) });
      }
    } catch (e) {
      out.push(errInfo(e));
    }
  }
  for (const dir of probes.keys()) {
    try { fs.unlinkSync(path.join(dir, PROBE_NAME)); } catch {}
  }
  return out;
}

async function serve() {
  const rl = require('readline').createInterface({ input: process.stdin, terminal: false });
  for await (const line of rl) {
    if (!line.trim()) continue;
    let plan;
    try { plan = JSON.parse(line); } catch (e) { process.stdout.write(JSON.stringify({ id: -1, error: 'bad plan: ' + e.message }) + '\n'); continue; }
    let results, error;
    try { results = await answer(plan); } catch (e) { error = String(e && e.stack || e); }
    process.stdout.write(JSON.stringify(error ? { id: plan.id, error } : { id: plan.id, results }) + '\n');
  }
}

async function main() {
  if (process.argv[2] === '--serve') return serve();
  const plan = JSON.parse(fs.readFileSync(process.argv[2], 'utf8'));
  fs.writeFileSync(process.argv[3], JSON.stringify(await answer(plan)));
}

main().catch((e) => { console.error('resolve_probe: ' + (e && e.stack || e)); process.exit(3); });

// Reference-execution worker (S3). Reads one JSON request per line on stdin, writes one JSON
// response per line on stdout. Written in ES2017 so that Node 10..22 can run it (module goal
// needs Node >= 12 and --experimental-vm-modules).
'use strict';
const vm = require('vm');
const util = require('util');

const cvlib = require('./cv.js');
const cv = cvlib.cv;
const nsValue = cvlib.nsValue;

let current = null; // the request being executed (for unhandled rejections)
process.on('unhandledRejection', function (reason) {
  if (current) current.events.push('unhandled:' + cv(reason));
});
process.on('uncaughtException', function (e) {
  if (current) current.events.push('uncaught:' + cv(e));
});

const MAX_EVENTS = 4000;

function makeContext(req, state) {
  const sandbox = {};
  const ctx = vm.createContext(sandbox, { codeGeneration: { strings: true, wasm: false } });
  const log = function () {
    if (state.events.length < MAX_EVENTS) {
      const parts = [];
      for (let i = 0; i < arguments.length; i++) parts.push(cv(arguments[i]));
      state.events.push(parts.join(' '));
    } else {
      state.overflow = true;
    }
  };
  const p = function (id, v) {
    if (state.events.length < MAX_EVENTS) state.events.push('p:' + cv(id)); else state.overflow = true;
    return v;
  };
  Object.defineProperty(sandbox, 'log', { value: log, writable: true, configurable: true, enumerable: false });
  Object.defineProperty(sandbox, 'p', { value: p, writable: true, configurable: true, enumerable: false });
  // Source text of functions is outside every property (esbuild reprints code): make it unobservable in
  // the reference run and in the run of the output alike, so that programs which happen to stringify or
  // compare functions stay comparable instead of having to be recognised and discarded.
  vm.runInContext('Object.defineProperty(Function.prototype, "toString", { value: function toString() { if (typeof this !== "function") throw new TypeError("Function.prototype.toString requires that \'this\' be a Function"); return "function () { [source text hidden] }"; }, writable: true, configurable: true, enumerable: false });', ctx);
  if (req.globals) {
    // values are given as JS expression source evaluated inside the context
    const names = Object.keys(req.globals);
    for (let i = 0; i < names.length; i++) {
      const val = vm.runInContext('(' + req.globals[names[i]] + ')', ctx);
      Object.defineProperty(sandbox, names[i], { value: val, writable: true, configurable: true, enumerable: false });
    }
  }
  if (req.prelude) vm.runInContext(req.prelude, ctx, { filename: 'prelude.js' });
  return ctx;
}

function tick() { return new Promise(function (r) { setImmediate(r); }); }

async function settle() {
  // drain microtasks and a few macrotask turns
  for (let i = 0; i < 3; i++) await tick();
}

function errName(e) {
  return (e && e.name) || 'Error';
}

async function runScript(req, state) {
  const ctx = makeContext(req, state);
  let code = req.code;
  if (req.strict) code = '"use strict";' + code;
  let script;
  try {
    script = new vm.Script(code, { filename: 'case.js' });
  } catch (e) {
    return { parseError: errName(e), parseMessage: String(e && e.message) };
  }
  let end = 'normal';
  try {
    const r = script.runInContext(ctx, { timeout: req.timeoutMs || 2000 });
    if (req.completion) state.completion = cv(r);
  } catch (e) {
    if (e && e.code === 'ERR_SCRIPT_EXECUTION_TIMEOUT') return { timeout: true };
    end = 'throw:' + cv(e);
  }
  await settle();
  const res = { end: end };
  if (req.readBack) {
    const rb = {};
    for (let i = 0; i < req.readBack.length; i++) {
      const n = req.readBack[i];
      try { rb[n] = cv(vm.runInContext('typeof ' + n + ' === "undefined" ? undefined : ' + n, ctx)); } catch (e) { rb[n] = 'readback-throw:' + cv(e); }
    }
    res.readBack = rb;
  }
  if (req.globalName) {
    try { res.exports = nsValue(vm.runInContext(req.globalName, ctx)); } catch (e) { res.exports = 'throw:' + cv(e); }
  }
  return res;
}

async function runCJS(req, state) {
  const ctx = makeContext(req, state);
  const code = '(function(module, exports, require){' + (req.strict ? '"use strict";' : '') + req.code + '\n})';
  let script;
  try {
    script = new vm.Script(code, { filename: 'case.cjs' });
  } catch (e) {
    return { parseError: errName(e), parseMessage: String(e && e.message) };
  }
  let end = 'normal';
  const mod = vm.runInContext('({exports:{}})', ctx);
  const ext = req.externals || {};
  const extCache = {};
  const requireFn = function (name) {
    state.events.push('require:' + name);
    if (!Object.prototype.hasOwnProperty.call(ext, name)) throw new Error('Cannot find module ' + name);
    if (!extCache[name]) extCache[name] = vm.runInContext('(' + ext[name] + ')', ctx);
    return extCache[name];
  };
  try {
    const fn = script.runInContext(ctx, { timeout: req.timeoutMs || 2000 });
    fn.call(mod.exports, mod, mod.exports, requireFn);
  } catch (e) {
    if (e && e.code === 'ERR_SCRIPT_EXECUTION_TIMEOUT') return { timeout: true };
    end = 'throw:' + cv(e);
  }
  await settle();
  let exp;
  try { exp = nsValue(mod.exports); } catch (e) { exp = 'throw:' + cv(e); }
  return { end: end, exports: exp };
}

async function runModule(req, state) {
  if (!vm.SourceTextModule) return { unsupported: 'no vm.SourceTextModule' };
  const ctx = makeContext(req, state);
  let mod;
  try {
    mod = new vm.SourceTextModule(req.code, { context: ctx, identifier: 'case.mjs' });
  } catch (e) {
    return { parseError: errName(e), parseMessage: String(e && e.message) };
  }
  const ext = req.externals || {};
  const extCache = {};
  let end = 'normal';
  try {
    await mod.link(function (spec) {
      if (extCache[spec]) return extCache[spec];
      if (!Object.prototype.hasOwnProperty.call(ext, spec)) throw new Error('Cannot find module ' + spec);
      const obj = vm.runInContext('(' + ext[spec] + ')', ctx);
      const names = Object.keys(obj);
      const m = new vm.SyntheticModule(names, function () {
        state.events.push('eval-external:' + spec);
        for (let i = 0; i < names.length; i++) this.setExport(names[i], obj[names[i]]);
      }, { context: ctx, identifier: spec });
      extCache[spec] = m;
      return m;
    });
    await mod.evaluate({ timeout: req.timeoutMs || 2000 });
  } catch (e) {
    if (e && e.code === 'ERR_SCRIPT_EXECUTION_TIMEOUT') return { timeout: true };
    if (mod.status === 'unlinked' || mod.status === 'linking') {
      return { linkError: errName(e), parseMessage: String(e && e.message) };
    }
    end = 'throw:' + cv(e);
  }
  await settle();
  let exp = 'none';
  if (mod.status === 'evaluated') {
    try { exp = nsValue(mod.namespace); } catch (e) { exp = 'throw:' + cv(e); }
  }
  return { end: end, exports: exp };
}

// batch: many small codes, each evaluated as an expression statement list in ONE shared context;
// result is the completion value (or the thrown value) of each.
function runBatch(req, state) {
  const ctx = makeContext(req, state);
  const out = [];
  for (let i = 0; i < req.codes.length; i++) {
    let r;
    let script = null;
    try {
      script = new vm.Script(req.codes[i], { filename: 'b' + i + '.js' });
    } catch (e) {
      out.push('parse-error:' + errName(e));
      continue;
    }
    const before = state.events.length;
    try {
      r = 'v:' + cv(script.runInContext(ctx, { timeout: req.timeoutMs || 1000 }));
    } catch (e) {
      if (e && e.code === 'ERR_SCRIPT_EXECUTION_TIMEOUT') r = 'timeout';
      else r = 'throw:' + cv(e);
    }
    if (state.events.length > before) {
      r += ' events:' + state.events.slice(before).join('|');
      state.events.length = before;
    }
    out.push(r);
  }
  return { results: out };
}

function runParse(req) {
  const out = [];
  for (let i = 0; i < req.codes.length; i++) {
    try {
      if (req.goal === 'module') {
        if (!vm.SourceTextModule) { out.push('unsupported'); continue; }
        new vm.SourceTextModule(req.codes[i], { identifier: 'p' + i + '.mjs' });
      } else {
        new vm.Script((req.strict ? '"use strict";' : '') + req.codes[i], { filename: 'p' + i + '.js' });
      }
      out.push('ok');
    } catch (e) {
      out.push('error:' + errName(e) + ':' + String(e && e.message).slice(0, 200));
    }
  }
  return { results: out };
}

async function handle(req) {
  const state = { events: [], overflow: false };
  current = state;
  let res;
  try {
    switch (req.kind) {
      case 'script': res = await runScript(req, state); break;
      case 'cjs': res = await runCJS(req, state); break;
      case 'module': res = await runModule(req, state); break;
      case 'batch': res = runBatch(req, state); break;
      case 'parse': res = runParse(req); break;
      case 'ping': res = { pong: process.version }; break;
      default: res = { harnessError: 'unknown kind ' + req.kind };
    }
  } catch (e) {
    res = { harnessError: String(e && e.stack || e) };
  }
  current = null;
  res.id = req.id;
  res.events = state.events;
  if (state.overflow) res.overflow = true;
  if (state.completion !== undefined) res.completion = state.completion;
  return res;
}

let buf = '';
let queue = Promise.resolve();
process.stdin.setEncoding('utf8');
process.stdin.on('data', function (chunk) {
  buf += chunk;
  let nl;
  while ((nl = buf.indexOf('\n')) >= 0) {
    const line = buf.slice(0, nl);
    buf = buf.slice(nl + 1);
    if (!line) continue;
    queue = queue.then(function () {
      let req;
      try { req = JSON.parse(line); } catch (e) { process.stdout.write(JSON.stringify({ harnessError: 'bad json' }) + '\n'); return; }
      return handle(req).then(function (res) { process.stdout.write(JSON.stringify(res) + '\n'); });
    });
  }
});
process.stdin.on('end', function () { queue.then(function () { process.exit(0); }); });

package jsref

// NodeType identifies the syntactic form of a Node.
type NodeType uint8

// Node types. The comment after each type lists which generic fields of Node
// are used.
const (
	NInvalid NodeType = iota

	// Statements
	NProgram      // List: statements
	NBlock        // List
	NEmpty        //
	NExprStmt     // A: expression; FlagDirective if part of a directive prologue
	NIf           // A: test, B: consequent, C: alternate
	NFor          // A: init (NVarDecl or expression or nil), B: test, C: update, D: body
	NForIn        // A: left (NVarDecl or target), B: right, D: body
	NForOf        // same as NForIn; FlagAwait for `for await`
	NWhile        // A: test, D: body
	NDoWhile      // D: body, A: test
	NReturn       // A
	NBreak        // Name: label or ""
	NContinue     // Name: label or ""
	NThrow        // A
	NTry          // A: block, B: NCatch or nil, C: finally block or nil
	NCatch        // A: parameter pattern or nil, B: body block
	NSwitch       // A: discriminant, List: NCase
	NCase         // A: test (nil for default), List: statements
	NLabeled      // Name: label, A: body
	NWith         // A: object, B: body
	NDebugger     //
	NVarDecl      // Name: "var", "let", "const", "using", "await using"; List: NDeclarator
	NDeclarator   // A: binding target, B: initialiser or nil
	NFunctionDecl // see NFunctionExpr
	NClassDecl    // see NClassExpr
	NImportDecl   // import declaration; details are in Program.Imports
	NExportDecl   // Name: "named", "default", "star", "declaration"; A: declaration or expression; List: NExportSpec
	NExportSpec   // A: local (NIdent reference) when not re-exported

	// Expressions
	NIdent          // Name
	NPrivateName    // Name (without '#')
	NNum            // Tok
	NBigInt         // Tok
	NStr            // Tok
	NTemplate       // A: tag or nil, List: substitutions; Tok: first chunk token
	NRegex          // Tok
	NArray          // List (nil entries are not used; holes are NElision)
	NElision        //
	NObject         // List: NProperty or NSpread
	NProperty       // A: key, B: value; Name: "init", "get", "set", "method"; FlagComputed, FlagShorthand
	NSpread         // A (also used for rest elements)
	NUnary          // Name: operator, A
	NUpdate         // Name: "++" or "--", A; FlagPrefix
	NBinary         // Name: operator (includes && || ??), A, B
	NAssign         // Name: operator, A: target, B: value (also used for defaults inside patterns)
	NCond           // A, B, C
	NCall           // A: callee, List: arguments; FlagOptional for a?.()
	NNew            // A: callee, List: arguments
	NMember         // A: object, Name: property (B: NPrivateName for a.#b); FlagOptional for a?.b
	NIndex          // A: object, B: index; FlagOptional
	NSeq            // List
	NYield          // A or nil; FlagDelegate
	NAwait          // A
	NThis           //
	NSuper          //
	NMeta           // Name: "new.target" or "import.meta"
	NImportCall     // A: specifier, B: options or nil
	NParen          // A
	NFunctionExpr   // A: name NIdent or nil, List: parameters, B: body NBlock; FlagAsync, FlagGenerator, FlagStrict
	NArrow          // List: parameters, B: body (NBlock or expression, FlagExprBody); FlagAsync
	NClassExpr      // A: name or nil, B: heritage or nil, List: members
	NMethod         // class member: A: key, B: NFunctionExpr; Name: "method","get","set","constructor"; FlagStatic, FlagComputed
	NField          // class member: A: key, B: value or nil; FlagStatic, FlagComputed, FlagAccessor
	NStaticBlock    // List: statements
	NDecorator      // A: expression
	NJSXElement     // A: name (nil for fragments), List: attributes then children (see NJSXAttr...), B unused
	NJSXAttr        // Name: attribute name, A: value or nil
	NJSXSpreadAttr  // A
	NJSXText        // Tok
	NJSXExprContain // A or nil (empty container)
	NJSXName        // Name: full dotted or namespaced name; A: NIdent reference for the base when it is a component reference
)

// NodeFlags are boolean attributes of a Node.
type NodeFlags uint16

// Node flags.
const (
	FlagAsync NodeFlags = 1 << iota
	FlagGenerator
	FlagStrict
	FlagExprBody
	FlagComputed
	FlagShorthand
	FlagStatic
	FlagAccessor
	FlagOptional
	FlagPrefix
	FlagDelegate
	FlagAwait
	FlagDirective
	FlagPattern // NArray / NObject parsed directly as a binding pattern
)

// Node is a node of the (deliberately generic) syntax tree. Which of the
// fields A-D, List and Name are meaningful depends on Type; see the NodeType
// constants.
type Node struct {
	Type       NodeType
	Flags      NodeFlags
	Start, End int // byte offsets
	Tok        int // index in Program.Tokens of the node's first token
	Name       string
	A, B, C, D *Node
	List       []*Node
}

// Has reports whether all the given flags are set.
func (n *Node) Has(f NodeFlags) bool { return n != nil && n.Flags&f == f }

package jsref

// Options selects the goal symbol and syntax extensions.
type Options struct {
	// Module parses with the Module goal (strict, top-level await, no HTML-like
	// comments); otherwise the Script goal is used.
	Module bool
	// JSX enables JSX elements and fragments in expression position.
	JSX bool
}

// Program is the result of Parse.
type Program struct {
	Source string
	Module bool

	// Tokens is the complete token stream (without the final EOF token).
	Tokens   []Token
	Comments []Comment
	// Hashbang is the "#!..." line if present.
	Hashbang string

	// Body is the syntax tree (Type NProgram).
	Body *Node

	Imports []ImportRecord
	Exports []ExportRecord

	// Scopes is the root of the scope tree (Kind ScopeGlobal or ScopeModule).
	Scopes *Scope
	// Refs lists every identifier reference in source order.
	Refs []*Ref
	// FreeNames is the sorted set of names referenced but not declared in any
	// enclosing scope.
	FreeNames []string
	// FreeRefs lists the unresolved references in source order.
	FreeRefs []Ref
	// AssignedNames lists every identifier that is an assignment target.
	AssignedNames []AssignedName
	// TopLevelDecls lists the declarations of the top-level scope (including
	// var declarations hoisted out of nested blocks).
	TopLevelDecls []Decl
	// HasDirectEval is set when the program contains a call whose callee is
	// the plain identifier eval.
	HasDirectEval bool
	// HasWith is set when the program contains a with statement.
	HasWith bool

	// Features maps each syntax feature that occurs to the byte offset of
	// its first occurrence.
	Features map[Feature]int

	// Literals lists the literal tokens in source order.
	Literals []Literal
}

// ImportKind classifies an ImportRecord.
type ImportKind string

// Import kinds.
const (
	ImportStatement  ImportKind = "import-statement"
	ImportDynamic    ImportKind = "dynamic-import"
	ImportRequire    ImportKind = "require-call"
	ImportExportFrom ImportKind = "export-from"
)

// ImportName is one named binding of an import declaration or one specifier
// of an `export {...} from` declaration.
type ImportName struct {
	// Imported is the name in the imported module ("default" for
	// `import {default as x}`).
	Imported string
	// Local is the local binding name; for export-from records it is the
	// name under which the binding is re-exported.
	Local string
}

// ImportRecord describes one place where another module is requested.
type ImportRecord struct {
	Kind ImportKind
	// Spec is the module specifier. It is "" for a dynamic import whose
	// argument is not a string literal or substitution-free template.
	Spec string
	// Dynamic is set for import() expressions with a non-literal argument.
	Dynamic bool
	// Names are the named bindings ({a as b}).
	Names []ImportName
	// Namespace is the local name of `* as ns` (for export-from: the exported
	// name of `export * as ns from`).
	Namespace string
	// Default is the local name of the default binding.
	Default string
	// SideEffectOnly is set for `import "x"`.
	SideEffectOnly bool
	// Star is set for `export * from "x"` and `export * as ns from "x"`.
	Star bool
	// Attributes holds the import attributes (`with {type: "json"}`).
	Attributes map[string]string
	// Offset is the byte offset of the import/export keyword, or of the
	// callee for require calls.
	Offset int
	// SpecOffset is the byte offset of the specifier token (-1 if none).
	SpecOffset int
	// Token is the index in Program.Tokens of the token at Offset.
	Token int
}

// ExportKind classifies an ExportRecord.
type ExportKind string

// Export kinds.
const (
	ExportNamed       ExportKind = "named"       // export {a as b}
	ExportDeclaration ExportKind = "declaration" // export var/let/const/function/class
	ExportDefault     ExportKind = "default"     // export default ...
	ExportFrom        ExportKind = "from"        // export {a as b} from "x"
	ExportStar        ExportKind = "star"        // export * from "x"
	ExportStarAs      ExportKind = "star-as"     // export * as ns from "x"
)

// ExportRecord describes one exported name (or one `export *`).
type ExportRecord struct {
	Kind ExportKind
	// Exported is the exported name ("" for `export * from`).
	Exported string
	// Local is the local binding that is exported; for ExportFrom it is the
	// name imported from the other module; for `export default <expr>` and
	// anonymous default functions/classes it is "*default*".
	Local string
	// From is the module specifier for re-exports.
	From string
	Star bool
	// Offset is the byte offset of the `export` keyword.
	Offset int
}

// ScopeKind classifies a Scope.
type ScopeKind string

// Scope kinds. ScopeFree is only used in AssignedName.Scope for unresolved names.
const (
	ScopeGlobal       ScopeKind = "global"
	ScopeModule       ScopeKind = "module"
	ScopeFunction     ScopeKind = "function"      // parameters (and body when the parameter list is simple)
	ScopeFunctionBody ScopeKind = "function-body" // body of a function with a non-simple parameter list
	ScopeFunctionName ScopeKind = "function-name" // self binding of a named function expression
	ScopeBlock        ScopeKind = "block"
	ScopeSwitch       ScopeKind = "switch"
	ScopeCatch        ScopeKind = "catch"
	ScopeFor          ScopeKind = "for"
	ScopeClass        ScopeKind = "class"       // inner name binding of a class, encloses heritage and members
	ScopeClassField   ScopeKind = "class-field" // a field initialiser
	ScopeStaticBlock  ScopeKind = "class-static-block"
	ScopeWith         ScopeKind = "with"
	ScopeFree         ScopeKind = "free"
)

// DeclKind classifies a Decl.
type DeclKind string

// Declaration kinds.
const (
	DeclVar       DeclKind = "var"
	DeclLet       DeclKind = "let"
	DeclConst     DeclKind = "const"
	DeclFunction  DeclKind = "function"
	DeclClass     DeclKind = "class"
	DeclImport    DeclKind = "import"
	DeclUsing     DeclKind = "using"
	DeclParam     DeclKind = "param"
	DeclCatch     DeclKind = "catch"
	DeclArguments DeclKind = "arguments"
	DeclFuncName  DeclKind = "function-name" // named function expression self binding
	DeclClassName DeclKind = "class-name"    // class inner name binding
)

// Scope is a node of the scope tree.
type Scope struct {
	Kind       ScopeKind
	Start, End int // byte offsets of the syntactic construct
	Parent     *Scope
	Children   []*Scope
	// Decls are the names declared in this scope, in order of first declaration.
	Decls []*Decl
	// Arrow is set for the function scope of an arrow function.
	Arrow bool
	// Strict is set when code in the scope is strict mode code.
	Strict bool

	names map[string]*Decl
}

// Lookup returns the declaration of name in this scope only.
func (s *Scope) Lookup(name string) *Decl { return s.names[name] }

// Decl is a declared name.
type Decl struct {
	Name string
	Kind DeclKind
	// Offset is the byte offset of the first declaring identifier (for
	// DeclArguments: of the function).
	Offset int
	Scope  *Scope
	// Index is the position of the declaration in a pre-order walk of the
	// scope tree (stable identifier for aligning two programs).
	Index int
	// Refs are the references resolved to this declaration.
	Refs []*Ref
	// HoistedBlockFunction is set for the function-scope copy of a sloppy
	// mode block-level function declaration.
	HoistedBlockFunction bool
}

// Ref is an identifier reference.
type Ref struct {
	Name   string
	Offset int
	// IsAssignTarget: the reference is written (=, op=, ++, --, destructuring
	// assignment, for-in/of head without declaration).
	IsAssignTarget bool
	// IsRead: the value is read (false for the target of a plain assignment).
	IsRead bool
	// IsTypeofOperand: the reference is the direct operand of typeof.
	IsTypeofOperand bool
	// ThroughWith: a with statement lies between the reference and its
	// resolution, so the binding may be dynamic.
	ThroughWith bool
	// IsExportSpec: the reference is the local name in `export {local as x}`.
	IsExportSpec bool
	// Decl is the declaration the reference resolves to, nil if free.
	Decl *Decl
	// Scope is the innermost scope containing the reference.
	Scope *Scope
}

// AssignedName is an identifier used as an assignment target.
type AssignedName struct {
	Name   string
	Offset int
	// Scope is the kind of scope holding the resolved declaration, or
	// ScopeFree when the name is unresolved.
	Scope ScopeKind
	Decl  *Decl
}

// LiteralKind classifies a Literal.
type LiteralKind string

// Literal kinds.
const (
	LitNumber        LiteralKind = "number"
	LitBigInt        LiteralKind = "bigint"
	LitString        LiteralKind = "string"
	LitTemplateChunk LiteralKind = "template-chunk"
	LitRegExp        LiteralKind = "regexp"
)

// Literal is a literal token with its decoded value.
type Literal struct {
	Kind   LiteralKind
	Token  int // index in Program.Tokens
	Offset int
	Num    float64
	BigInt string
	// Str is the string value or cooked template value (nil if CookedInvalid).
	Str           []uint16
	Raw           string // template raw value, or source text between the quotes
	CookedInvalid bool
	RegexBody     string
	RegexFlags    string
}

// Package jsref is a small, independent JavaScript (ECMAScript 2024 plus a few
// later proposals) tokenizer, recursive-descent parser and scope analyser. It
// is a structural oracle for checking the output of a bundler: it shares no
// code with the system under test and uses the standard library only.
//
// # Purpose: structure, never validity
//
// jsref does not implement early errors. Every input is expected to be shown
// to a real engine as well, whose verdict on validity is final. The contract
// is: whenever the engine accepts a program, jsref accepts it too and reports
// its structure correctly. jsref accepting a program that an engine rejects
// is harmless (for example `a => {} ()`, duplicate declarations, `new a?.b`,
// or `await` used as an identifier in a module).
//
// # Entry points
//
//	prog, err := jsref.Parse(src, jsref.Options{Module: true})
//	toks, err := jsref.Tokenize(src, jsref.Options{})
//
// Options.Module selects the Module goal (strict mode, top-level await, no
// HTML-like comments); otherwise the Script goal is used (sloppy mode unless
// a "use strict" directive is present, `await` is an identifier outside async
// functions, `<!--` and `-->` comments are recognised). Options.JSX enables
// JSX elements and fragments. Errors are of type *SyntaxError.
//
// # Products (fields of Program)
//
// Tokens: the token stream. Each Token has Kind, byte offsets Start/End, Line
// (0-based), Col16 (0-based column in UTF-16 code units, astral characters
// count two), NewlineBefore, Raw, and decoded values: Ident (escapes decoded),
// Num (float64, exact), BigInt (decimal string), Str (UTF-16 code units;
// lone surrogates preserved), StrRaw (template raw value with CR and CRLF
// normalised to LF), CookedInvalid (template chunk with an invalid escape;
// Str is nil), RegexBody and RegexFlags. A template literal is several tokens
// (TTemplateNoSub, or TTemplateHead TTemplateMiddle* TTemplateTail with the
// tokens of the substitutions in between). Whether a '/' starts a regular
// expression and whether a '}' continues a template is decided by the parser,
// so the token stream is exact. Comments are not tokens; they are listed in
// Program.Comments (kinds "line", "block", "html-open", "html-close",
// "hashbang").
//
// Imports and Exports: ImportRecord (kinds import-statement, dynamic-import,
// require-call, export-from) and ExportRecord (kinds named, declaration,
// default, from, star, star-as) in source order. A require-call is a
// non-optional call of the identifier require, with exactly one argument that
// is a string literal or substitution-free template, where require is not
// declared in any enclosing scope. A dynamic import whose argument is not
// such a constant has Spec "" and Dynamic set.
//
// Scope analysis: Scopes is the root of the scope tree (ScopeGlobal or
// ScopeModule). Scope kinds: function (parameters; also the body when all
// parameters are plain identifiers), function-body (the separate body scope
// of a function with a non-simple parameter list), function-name (self
// binding of a named function expression), block, switch, catch (the catch
// parameter; the catch body is a nested block), for (let/const of a for
// head), class (inner name binding; encloses heritage and members),
// class-field (a field initialiser), class-static-block, with. var
// declarations are hoisted to the nearest function/function-body/static
// block/program scope. A function declaration nested in a block is bound in
// the block; in sloppy mode a plain (non-async, non-generator) one is also
// bound in the enclosing var scope (Decl.HoistedBlockFunction), which
// over-approximates Annex B.3.3. `arguments` resolves to an implicit
// declaration (DeclArguments) of the nearest non-arrow function. Labels,
// private names and property names are not identifiers references; the
// shorthand property {b} is a reference to b. Every reference is in Refs (in
// source order) with the Decl it resolves to (nil when free); each Decl has a
// stable Index (pre-order over the scope tree) so that binding graphs of two
// programs can be aligned. Derived lists: FreeNames (sorted, unique),
// FreeRefs, AssignedNames (targets of =, op=, ++, --, destructuring
// assignment and declaration-less for-in/of heads; declarations with
// initialisers are not assignments), TopLevelDecls (including vars hoisted
// out of nested blocks and sloppy block functions). References below a with
// statement are flagged ThroughWith; HasWith and HasDirectEval tell whether
// the static resolution can be trusted at all.
//
// Features: the feature census maps each Feature that occurs to the byte
// offset of its first occurrence; FeatureEdition gives the ECMAScript edition
// that introduced a feature (9999 for decorators and JSX, 5 for the Annex B
// extras legacy-octal and html-comment).
//
// Literals: number, bigint, string, template-chunk and regexp tokens in
// source order with decoded values.
//
// Body: the syntax tree (generic Node values, see NodeType). Patterns reuse
// NArray/NObject/NAssign/NSpread nodes; which role a node plays follows from
// its position (declarator target, parameter, assignment target).
//
// # Known gaps
//
//   - No early errors and no strict-mode-only restrictions.
//   - Regular expression bodies are not parsed; regexp features are found by
//     a light scan of the body.
//   - JSX text and attribute strings are not entity-decoded; JSX element
//     names starting with a lower-case letter are not references.
//   - Decorators are parsed in the minimal form `@a.b.c(args)` or `@(expr)`.
//   - `import defer` / `import source` phase modifiers are skipped, not recorded.
package jsref

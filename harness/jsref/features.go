package jsref

import "strings"

// Feature names a syntax feature counted by the feature census.
type Feature string

// Features.
const (
	// ES2015
	FeatArrow               Feature = "arrow"
	FeatClass               Feature = "class"
	FeatLetConst            Feature = "let-const"
	FeatTemplateLiteral     Feature = "template-literal"
	FeatDestructuring       Feature = "destructuring"
	FeatDefaultParams       Feature = "default-params"
	FeatRestParams          Feature = "rest-params"
	FeatSpread              Feature = "spread"
	FeatGenerator           Feature = "generator"
	FeatForOf               Feature = "for-of"
	FeatObjectShorthand     Feature = "object-shorthand"
	FeatComputedProperty    Feature = "computed-property"
	FeatNewTarget           Feature = "new-target"
	FeatRegexpStickyFlag    Feature = "regexp-sticky-flag"
	FeatRegexpUnicodeFlag   Feature = "regexp-unicode-flag"
	FeatUnicodeEscapeBraces Feature = "unicode-escape-braces"
	FeatOctalBinaryLiteral  Feature = "octal-binary-literal"
	// ES2016
	FeatExponent Feature = "exponent"
	// ES2017
	FeatAsyncFunction Feature = "async-function"
	// ES2018
	FeatObjectRestSpread      Feature = "object-rest-spread"
	FeatAsyncGenerator        Feature = "async-generator"
	FeatForAwait              Feature = "for-await"
	FeatRegexpDotAllFlag      Feature = "regexp-dotall-flag"
	FeatRegexpLookbehind      Feature = "regexp-lookbehind"
	FeatRegexpNamedGroups     Feature = "regexp-named-groups"
	FeatRegexpUnicodeProperty Feature = "regexp-unicode-property"
	// ES2019
	FeatOptionalCatchBinding Feature = "optional-catch-binding"
	// ES2020
	FeatOptionalChain     Feature = "optional-chain"
	FeatNullishCoalescing Feature = "nullish-coalescing"
	FeatBigInt            Feature = "bigint"
	FeatDynamicImport     Feature = "dynamic-import"
	FeatImportMeta        Feature = "import-meta"
	FeatExportStarAs      Feature = "export-star-as"
	// ES2021
	FeatLogicalAssignment Feature = "logical-assignment"
	FeatNumericSeparator  Feature = "numeric-separator"
	// ES2022
	FeatClassField                 Feature = "class-field"
	FeatClassStaticField           Feature = "class-static-field"
	FeatClassPrivateField          Feature = "class-private-field"
	FeatClassPrivateMethod         Feature = "class-private-method"
	FeatClassPrivateAccessor       Feature = "class-private-accessor"
	FeatClassPrivateStaticField    Feature = "class-private-static-field"
	FeatClassPrivateStaticMethod   Feature = "class-private-static-method"
	FeatClassPrivateStaticAccessor Feature = "class-private-static-accessor"
	FeatClassStaticBlock           Feature = "class-static-block"
	FeatClassPrivateBrandCheck     Feature = "class-private-brand-check"
	FeatTopLevelAwait              Feature = "top-level-await"
	FeatRegexpMatchIndices         Feature = "regexp-match-indices"
	FeatArbitraryModuleNamespace   Feature = "arbitrary-module-namespace-names"
	// ES2023
	FeatHashbang Feature = "hashbang"
	// ES2024
	FeatRegexpVFlag Feature = "regexp-v-flag"
	// ES2025
	FeatImportAttributes           Feature = "import-attributes"
	FeatRegexpModifiers            Feature = "regexp-modifiers"
	FeatRegexpDuplicateNamedGroups Feature = "regexp-duplicate-named-groups"
	// ES2026
	FeatUsing Feature = "using"
	// not standardised yet
	FeatDecorators Feature = "decorators"
	// extras (no edition)
	FeatLegacyOctal Feature = "legacy-octal" // 017, 08, "\1" (Annex B; sloppy mode only)
	FeatHTMLComment Feature = "html-comment" // <!-- and --> (Annex B; scripts only)
	FeatJSX         Feature = "jsx"
)

var featureEditions = map[Feature]int{
	FeatArrow: 2015, FeatClass: 2015, FeatLetConst: 2015, FeatTemplateLiteral: 2015, FeatDestructuring: 2015,
	FeatDefaultParams: 2015, FeatRestParams: 2015, FeatSpread: 2015, FeatGenerator: 2015, FeatForOf: 2015,
	FeatObjectShorthand: 2015, FeatComputedProperty: 2015, FeatNewTarget: 2015, FeatRegexpStickyFlag: 2015,
	FeatRegexpUnicodeFlag: 2015, FeatUnicodeEscapeBraces: 2015, FeatOctalBinaryLiteral: 2015,
	FeatExponent:         2016,
	FeatAsyncFunction:    2017,
	FeatObjectRestSpread: 2018, FeatAsyncGenerator: 2018, FeatForAwait: 2018, FeatRegexpDotAllFlag: 2018,
	FeatRegexpLookbehind: 2018, FeatRegexpNamedGroups: 2018, FeatRegexpUnicodeProperty: 2018,
	FeatOptionalCatchBinding: 2019,
	FeatOptionalChain:        2020, FeatNullishCoalescing: 2020, FeatBigInt: 2020, FeatDynamicImport: 2020,
	FeatImportMeta: 2020, FeatExportStarAs: 2020,
	FeatLogicalAssignment: 2021, FeatNumericSeparator: 2021,
	FeatClassField: 2022, FeatClassStaticField: 2022, FeatClassPrivateField: 2022, FeatClassPrivateMethod: 2022,
	FeatClassPrivateAccessor: 2022, FeatClassPrivateStaticField: 2022, FeatClassPrivateStaticMethod: 2022,
	FeatClassPrivateStaticAccessor: 2022, FeatClassStaticBlock: 2022, FeatClassPrivateBrandCheck: 2022,
	FeatTopLevelAwait: 2022, FeatRegexpMatchIndices: 2022, FeatArbitraryModuleNamespace: 2022,
	FeatHashbang:         2023,
	FeatRegexpVFlag:      2024,
	FeatImportAttributes: 2025, FeatRegexpModifiers: 2025, FeatRegexpDuplicateNamedGroups: 2025,
	FeatUsing:       2026,
	FeatDecorators:  9999,
	FeatLegacyOctal: 5, FeatHTMLComment: 5, FeatJSX: 9999,
}

// FeatureEdition returns the ECMAScript edition (year) that introduced f:
// 2015 for ES2015-level features, 9999 for features that are not part of
// any edition yet (decorators, JSX), 5 for Annex B legacy syntax, and 0 for
// unknown features.
func FeatureEdition(f Feature) int { return featureEditions[f] }

// AllFeatures returns every feature known to the census.
func AllFeatures() []Feature {
	out := make([]Feature, 0, len(featureEditions))
	for f := range featureEditions {
		out = append(out, f)
	}
	return out
}

// tokenFeatures adds the features that are visible in single tokens.
func (p *parser) tokenFeatures(toks []Token) {
	for i := range toks {
		t := &toks[i]
		if t.feat&tfNumSep != 0 {
			p.note(FeatNumericSeparator, t.Start)
		}
		if t.feat&tfOctBin != 0 {
			p.note(FeatOctalBinaryLiteral, t.Start)
		}
		if t.feat&tfLegacyOctal != 0 {
			p.note(FeatLegacyOctal, t.Start)
		}
		if t.feat&tfBraceEscape != 0 {
			p.note(FeatUnicodeEscapeBraces, t.Start)
		}
		switch t.Kind {
		case TBigInt:
			p.note(FeatBigInt, t.Start)
		case TTemplateNoSub, TTemplateHead:
			p.note(FeatTemplateLiteral, t.Start)
		case TRegex:
			p.regexFeatures(t)
		}
	}
}

func (p *parser) regexFeatures(t *Token) {
	unicodeMode := false
	for _, f := range t.RegexFlags {
		switch f {
		case 's':
			p.note(FeatRegexpDotAllFlag, t.Start)
		case 'y':
			p.note(FeatRegexpStickyFlag, t.Start)
		case 'u':
			p.note(FeatRegexpUnicodeFlag, t.Start)
			unicodeMode = true
		case 'v':
			p.note(FeatRegexpVFlag, t.Start)
			unicodeMode = true
		case 'd':
			p.note(FeatRegexpMatchIndices, t.Start)
		}
	}
	body := t.RegexBody
	classDepth := 0
	var names map[string]bool
	for i := 0; i < len(body); i++ {
		c := body[i]
		switch {
		case c == '\\':
			if i+2 < len(body) && (body[i+1] == 'p' || body[i+1] == 'P') && body[i+2] == '{' && unicodeMode {
				p.note(FeatRegexpUnicodeProperty, t.Start)
			}
			i++
		case c == '[':
			if classDepth == 0 || strings.ContainsRune(t.RegexFlags, 'v') {
				classDepth++
			}
		case c == ']':
			if classDepth > 0 {
				classDepth--
			}
		case c == '(' && classDepth == 0 && i+1 < len(body) && body[i+1] == '?':
			rest := body[i+2:]
			switch {
			case strings.HasPrefix(rest, "<=") || strings.HasPrefix(rest, "<!"):
				p.note(FeatRegexpLookbehind, t.Start)
			case strings.HasPrefix(rest, "<"):
				p.note(FeatRegexpNamedGroups, t.Start)
				if j := strings.IndexByte(rest, '>'); j > 0 {
					name := rest[1:j]
					if names[name] {
						p.note(FeatRegexpDuplicateNamedGroups, t.Start)
					}
					if names == nil {
						names = map[string]bool{}
					}
					names[name] = true
				}
			case strings.HasPrefix(rest, ":") || strings.HasPrefix(rest, "=") || strings.HasPrefix(rest, "!"):
			default:
				// (?ims-ims:
				j := 0
				for j < len(rest) && (rest[j] == 'i' || rest[j] == 'm' || rest[j] == 's' || rest[j] == '-') {
					j++
				}
				if j > 0 && j < len(rest) && rest[j] == ':' {
					p.note(FeatRegexpModifiers, t.Start)
				}
			}
		}
	}
}

package jsref

import "strings"

// parseJSXElement parses a JSX element or fragment. The current token is "<"
// (scanned in any mode). After the element, the next token is scanned in
// afterMode.
func (p *parser) parseJSXElement(afterMode lexMode) *Node {
	n := p.start(NJSXElement)
	p.note(FeatJSX, n.Start)
	p.nextMode(modeJSXTag)
	return p.parseJSXAfterLT(n, afterMode)
}

func (p *parser) jsxExpectP(s string, after lexMode) {
	if !p.isP(s) {
		p.fail("expected '" + s + "' in JSX")
	}
	p.nextMode(after)
}

// parseJSXName parses an element or attribute name in tag mode.
func (p *parser) parseJSXName(element bool) *Node {
	if p.t.Kind != TIdent && p.t.Kind != TKeyword {
		p.fail("expected JSX name")
	}
	n := p.start(NJSXName)
	first := p.t.Ident
	firstTok := p.t
	name := first
	p.nextMode(modeJSXTag)
	member := false
	if p.isP(":") {
		p.nextMode(modeJSXTag)
		if p.t.Kind != TIdent && p.t.Kind != TKeyword {
			p.fail("expected JSX name")
		}
		name += ":" + p.t.Ident
		p.nextMode(modeJSXTag)
	} else if element {
		for p.isP(".") {
			member = true
			p.nextMode(modeJSXTag)
			if p.t.Kind != TIdent && p.t.Kind != TKeyword {
				p.fail("expected JSX name")
			}
			name += "." + p.t.Ident
			p.nextMode(modeJSXTag)
		}
	}
	n.Name = name
	if element && !strings.Contains(name, ":") && !strings.Contains(first, "-") && first != "this" {
		c := first[0]
		if member || !(c >= 'a' && c <= 'z') {
			n.A = &Node{Type: NIdent, Name: first, Start: firstTok.Start, End: firstTok.End, Tok: n.Tok}
		}
	}
	return p.finish(n)
}

// parseJSXAfterLT parses the rest of an element; the current token is the
// one after "<", scanned in tag mode.
func (p *parser) parseJSXAfterLT(n *Node, afterMode lexMode) *Node {
	var openName string
	if !p.isP(">") {
		n.A = p.parseJSXName(true)
		openName = n.A.Name
		for !p.isP(">") && !p.isP("/") {
			if p.isP("{") {
				a := p.start(NJSXSpreadAttr)
				p.nextMode(modeNormal)
				p.expectP("...")
				a.A = p.parseAssign()
				if !p.isP("}") {
					p.fail("expected '}'")
				}
				p.nextMode(modeJSXTag)
				n.List = append(n.List, p.finish(a))
				continue
			}
			a := p.start(NJSXAttr)
			nm := p.parseJSXName(false)
			a.Name = nm.Name
			if p.isP("=") {
				p.nextMode(modeJSXTag)
				switch {
				case p.t.Kind == TJSXString:
					s := p.start(NStr)
					p.nextMode(modeJSXTag)
					a.A = p.finish(s)
				case p.isP("{"):
					c := p.start(NJSXExprContain)
					p.nextMode(modeNormal)
					c.A = p.parseAssign()
					if !p.isP("}") {
						p.fail("expected '}'")
					}
					p.nextMode(modeJSXTag)
					a.A = p.finish(c)
				case p.isP("<"):
					a.A = p.parseJSXElement(modeJSXTag)
				default:
					p.fail("expected JSX attribute value")
				}
			}
			n.List = append(n.List, p.finish(a))
		}
		if p.isP("/") {
			p.nextMode(modeJSXTag)
			p.jsxExpectP(">", afterMode)
			return p.finish(n)
		}
	}
	// children
	p.jsxExpectP(">", modeJSXChild)
	for {
		switch {
		case p.t.Kind == TJSXText:
			c := p.start(NJSXText)
			p.nextMode(modeJSXChild)
			n.List = append(n.List, p.finish(c))
		case p.isP("{"):
			c := p.start(NJSXExprContain)
			p.nextMode(modeNormal)
			if !p.isP("}") {
				if p.isP("...") {
					p.next()
				}
				c.A = p.parseExpression()
				if !p.isP("}") {
					p.fail("expected '}'")
				}
			}
			p.nextMode(modeJSXChild)
			n.List = append(n.List, p.finish(c))
		case p.isP("<"):
			child := p.start(NJSXElement)
			p.nextMode(modeJSXTag)
			if p.isP("/") {
				// closing tag
				p.nextMode(modeJSXTag)
				closeName := ""
				if !p.isP(">") {
					closeName = p.parseJSXName(true).Name
				}
				if closeName != openName {
					p.fail("mismatched JSX closing tag")
				}
				p.jsxExpectP(">", afterMode)
				return p.finish(n)
			}
			n.List = append(n.List, p.parseJSXAfterLT(child, modeJSXChild))
		default:
			p.fail("unexpected token in JSX children")
		}
	}
}

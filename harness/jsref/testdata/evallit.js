// Usage: node evallit.js in.json out.json
// in.json: array of {kind, text}; out.json: array of decoded values (see literal_test.go).
const fs = require('fs');
const input = JSON.parse(fs.readFileSync(process.argv[2], 'utf8'));
const units = (s) => { const a = []; for (let i = 0; i < s.length; i++) a.push(s.charCodeAt(i)); return a; };
const geval = eval; // indirect eval: sloppy mode, global scope
const f64 = new Float64Array(1), u64 = new BigUint64Array(f64.buffer);
const out = [];
for (const { kind, text } of input) {
  try {
    switch (kind) {
      case 'number': {
        const v = geval(text);
        if (typeof v !== 'number') throw new Error('not a number');
        f64[0] = v;
        out.push({ bits: u64[0].toString(16) });
        break;
      }
      case 'bigint':
        out.push({ big: geval(text).toString() });
        break;
      case 'string':
        out.push({ units: units(geval(text)) });
        break;
      case 'template': {
        const r = geval('((s) => s)' + text);
        out.push({ cooked: r[0] === undefined ? null : units(r[0]), raw: units(r.raw[0]) });
        break;
      }
    }
  } catch (e) {
    out.push({ error: String(e) });
  }
}
fs.writeFileSync(process.argv[3], JSON.stringify(out));

// Usage: node --experimental-vm-modules check.js in.json out.json
// in.json: array of source strings. out.json: array of [scriptOK, moduleOK].
const vm = require('vm');
const fs = require('fs');
const input = JSON.parse(fs.readFileSync(process.argv[2], 'utf8'));
const out = [];
for (const code of input) {
  let s = false, m = false;
  try { new vm.Script(code, { displayErrors: false }); s = true; } catch (e) {}
  try { new vm.SourceTextModule(code); m = true; } catch (e) {}
  out.push([s, m]);
}
fs.writeFileSync(process.argv[3], JSON.stringify(out));

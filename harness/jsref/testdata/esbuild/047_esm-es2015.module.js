var __getOwnPropSymbols = Object.getOwnPropertySymbols;
var __hasOwnProp = Object.prototype.hasOwnProperty;
var __propIsEnum = Object.prototype.propertyIsEnumerable;
var __objRest = (source, exclude) => {
  var target = {};
  for (var prop in source)
    if (__hasOwnProp.call(source, prop) && exclude.indexOf(prop) < 0)
      target[prop] = source[prop];
  if (source != null && __getOwnPropSymbols)
    for (var prop of __getOwnPropSymbols(source)) {
      if (exclude.indexOf(prop) < 0 && __propIsEnum.call(source, prop))
        target[prop] = source[prop];
    }
  return target;
};
var _q, _r, _t, _u, _v, _w, _x;
const local_const = __objRest({}, []);
let local_let = __objRest({}, []);
var local_var = __objRest({}, []);
let arrow_fn = (_a) => {
  var x2 = __objRest(_a, []);
};
let fn_expr = function(_b = default_value) {
  var x2 = __objRest(_b, []);
};
let class_expr = class {
  method(x2, ..._c) {
    var [y, _d] = _c, z = __objRest(_d, []);
  }
};
function fn_stmt(_e, _g) {
  var _f = _e, { a = b() } = _f, x2 = __objRest(_f, ["a"]);
  var _h = _g, { c = d() } = _h, y = __objRest(_h, ["c"]);
}
class class_stmt {
  method(_i) {
    var x2 = __objRest(_i, []);
  }
}
var ns;
((ns2) => {
  ns2.x = __objRest({}, []);
})(ns || (ns = {}));
try {
} catch (_j) {
  let catch_clause = __objRest(_j, []);
}
for (const _k in { abc }) {
  const for_in_const = __objRest(_k, []);
}
for (let _l in { abc }) {
  let for_in_let = __objRest(_l, []);
}
for (var _m in { abc }) {
  var for_in_var = __objRest(_m, []);
  ;
}
for (const _n of [{}]) {
  const for_of_const = __objRest(_n, []);
  ;
}
for (let _o of [{}]) {
  let for_of_let = __objRest(_o, []);
  x();
}
for (var _p of [{}]) {
  var for_of_var = __objRest(_p, []);
  x();
}
for (const for_const = __objRest({}, []); x; x = null) {
}
for (let for_let = __objRest({}, []); x; x = null) {
}
for (var for_var = __objRest({}, []); x; x = null) {
}
for (_q in { abc }) {
  x = __objRest(_q, []);
}
for (_r of [{}]) {
  x = __objRest(_r, []);
}
for (x = __objRest({}, []); x; x = null) {
}
assign = __objRest({}, []);
({ obj_method(_s) {
  var x2 = __objRest(_s, []);
} });
x = __objRest(x, []);
for (x = __objRest(x, []); 0; ) ;
console.log((x = __objRest(_t = x, []), _t));
console.log((_v = _u = { x }, { x } = _v, xx = __objRest(_v, ["x"]), _u));
console.log(({ x: _x } = _w = { x }, xx = __objRest(_x, []), _w));

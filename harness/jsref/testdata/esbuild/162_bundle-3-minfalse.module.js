var __getOwnPropNames = Object.getOwnPropertyNames;
var __commonJS = (cb, mod) => function __require() {
  try {
    return mod || (0, cb[__getOwnPropNames(cb)[0]])((mod = { exports: {} }).exports, mod), mod.exports;
  } catch (e) {
    throw mod = 0, e;
  }
};

// entry.js
var require_entry = __commonJS({
  "entry.js"(exports) {
    var tests = {
      // Exponentiation operator
      0: a ** b ** c,
      1: (a ** b) ** c,
      // Exponentiation assignment operator
      2: a **= b,
      3: a.b **= c,
      4: a[b] **= c,
      5: a().b **= c,
      6: a()[b] **= c,
      7: a[b()] **= c,
      8: a()[b()] **= c,
      // These all should not need capturing (no object identity)
      9: a[0] **= b,
      10: a[false] **= b,
      11: a[null] **= b,
      12: a[void 0] **= b,
      13: a[123n] **= b,
      14: a[exports] **= b,
      // These should need capturing (have object identity)
      15: a[/x/] **= b,
      16: a[{}] **= b,
      17: a[[]] **= b,
      18: a[() => {
      }] **= b,
      19: a[function() {
      }] **= b
    };
  }
});
export default require_entry();

(()=>{var t=class{#t;#i(){}static#s;static#o(){}foo(){this.#t=this.#i(),t.#s=t.#o()}};})();

for (var _a of b) {
  var _stack = [];
  try {
    const a = __using(_stack, _a);
    c(() => a);
  } catch (_) {
    var _error = _, _hasError = true;
  } finally {
    __callDispose(_stack, _error, _hasError);
  }
}
for (var _d of e) {
  var _stack2 = [];
  try {
    const d = __using(_stack2, _d, true);
    f(() => d);
  } catch (_2) {
    var _error2 = _2, _hasError2 = true;
  } finally {
    var _promise = __callDispose(_stack2, _error2, _hasError2);
    _promise && await _promise;
  }
}
for await (var _g of h) {
  var _stack3 = [];
  try {
    const g = __using(_stack3, _g);
    i(() => g);
  } catch (_3) {
    var _error3 = _3, _hasError3 = true;
  } finally {
    __callDispose(_stack3, _error3, _hasError3);
  }
}
for await (var _j of k) {
  var _stack4 = [];
  try {
    const j = __using(_stack4, _j, true);
    l(() => j);
  } catch (_4) {
    var _error4 = _4, _hasError4 = true;
  } finally {
    var _promise2 = __callDispose(_stack4, _error4, _hasError4);
    _promise2 && await _promise2;
  }
}
if (nested) {
  for (var _a of b) {
    var _stack5 = [];
    try {
      const a = __using(_stack5, _a);
      c(() => a);
    } catch (_5) {
      var _error5 = _5, _hasError5 = true;
    } finally {
      __callDispose(_stack5, _error5, _hasError5);
    }
  }
  for (var _d of e) {
    var _stack6 = [];
    try {
      const d = __using(_stack6, _d, true);
      f(() => d);
    } catch (_6) {
      var _error6 = _6, _hasError6 = true;
    } finally {
      var _promise3 = __callDispose(_stack6, _error6, _hasError6);
      _promise3 && await _promise3;
    }
  }
  for await (var _g of h) {
    var _stack7 = [];
    try {
      const g = __using(_stack7, _g);
      i(() => g);
    } catch (_7) {
      var _error7 = _7, _hasError7 = true;
    } finally {
      __callDispose(_stack7, _error7, _hasError7);
    }
  }
  for await (var _j of k) {
    var _stack8 = [];
    try {
      const j = __using(_stack8, _j, true);
      l(() => j);
    } catch (_8) {
      var _error8 = _8, _hasError8 = true;
    } finally {
      var _promise4 = __callDispose(_stack8, _error8, _hasError8);
      _promise4 && await _promise4;
    }
  }
}
function foo() {
  for (var _a2 of b) {
    var _stack9 = [];
    try {
      const a = __using(_stack9, _a2);
      c(() => a);
    } catch (_9) {
      var _error9 = _9, _hasError9 = true;
    } finally {
      __callDispose(_stack9, _error9, _hasError9);
    }
  }
}
async function bar() {
  for (var _a2 of b) {
    var _stack9 = [];
    try {
      const a = __using(_stack9, _a2);
      c(() => a);
    } catch (_9) {
      var _error9 = _9, _hasError9 = true;
    } finally {
      __callDispose(_stack9, _error9, _hasError9);
    }
  }
  for (var _d2 of e) {
    var _stack10 = [];
    try {
      const d = __using(_stack10, _d2, true);
      f(() => d);
    } catch (_10) {
      var _error10 = _10, _hasError10 = true;
    } finally {
      var _promise5 = __callDispose(_stack10, _error10, _hasError10);
      _promise5 && await _promise5;
    }
  }
  for await (var _g2 of h) {
    var _stack11 = [];
    try {
      const g = __using(_stack11, _g2);
      i(() => g);
    } catch (_11) {
      var _error11 = _11, _hasError11 = true;
    } finally {
      __callDispose(_stack11, _error11, _hasError11);
    }
  }
  for await (var _j2 of k) {
    var _stack12 = [];
    try {
      const j = __using(_stack12, _j2, true);
      l(() => j);
    } catch (_12) {
      var _error12 = _12, _hasError12 = true;
    } finally {
      var _promise6 = __callDispose(_stack12, _error12, _hasError12);
      _promise6 && await _promise6;
    }
  }
}

(() => {
  // Users/user/project/simple/test0-success.ts
  var test0_success_default = "test0-success";

  // Users/user/project/simple/test1-success.ts
  var test1_success_default = "test1-success";

  // Users/user/project/simple/test2-success/foo.ts
  var foo_default = "test2-success";

  // Users/user/project/simple/test3-success.ts
  var test3_success_default = "test3-success";

  // Users/user/project/simple/test4-first/foo.ts
  var foo_default2 = "test4-success";

  // Users/user/project/simple/test5-second/foo.ts
  var foo_default3 = "test5-success";

  // Users/user/project/simple/actual/test.ts
  var test_default = "absolute-success";

  // Users/user/project/simple/index.ts
  var simple_default = {
    test0: test0_success_default,
    test1: test1_success_default,
    test2: foo_default,
    test3: test3_success_default,
    test4: foo_default2,
    test5: foo_default3,
    absolute: test_default
  };

  // Users/user/project/extended/nested/test0-success.ts
  var test0_success_default2 = "test0-success";

  // Users/user/project/extended/nested/test1-success.ts
  var test1_success_default2 = "test1-success";

  // Users/user/project/extended/nested/test2-success/foo.ts
  var foo_default4 = "test2-success";

  // Users/user/project/extended/nested/test3-success.ts
  var test3_success_default2 = "test3-success";

  // Users/user/project/extended/nested/test4-first/foo.ts
  var foo_default5 = "test4-success";

  // Users/user/project/extended/nested/test5-second/foo.ts
  var foo_default6 = "test5-success";

  // Users/user/project/extended/nested/actual/test.ts
  var test_default2 = "absolute-success";

  // Users/user/project/extended/index.ts
  var extended_default = {
    test0: test0_success_default2,
    test1: test1_success_default2,
    test2: foo_default4,
    test3: test3_success_default2,
    test4: foo_default5,
    test5: foo_default6,
    absolute: test_default2
  };

  // Users/user/project/entry.ts
  console.log(simple_default, extended_default);
})();

var __defProp = Object.defineProperty;
var __getOwnPropDesc = Object.getOwnPropertyDescriptor;
var __getOwnPropNames = Object.getOwnPropertyNames;
var __hasOwnProp = Object.prototype.hasOwnProperty;
var __export = (target, all) => {
  for (var name in all)
    __defProp(target, name, { get: all[name], enumerable: true });
};
var __copyProps = (to, from, except, desc) => {
  if (from && typeof from === "object" || typeof from === "function") {
    for (let key of __getOwnPropNames(from))
      if (!__hasOwnProp.call(to, key) && key !== except)
        __defProp(to, key, { get: () => from[key], enumerable: !(desc = __getOwnPropDesc(from, key)) || desc.enumerable });
  }
  return to;
};
var __toCommonJS = (mod) => __copyProps(__defProp({}, "__esModule", { value: true }), mod);
var stdin_exports = {};
__export(stdin_exports, {
  default: () => stdin_default
});
module.exports = __toCommonJS(stdin_exports);
var globRequire;
var init_ = __esm({
  'require("./**/*") in entry.js'() {
    globRequire = __glob({
      "./entry.js": () => require_entry()
    });
  }
});
var globImport;
var init_2 = __esm({
  'import("./**/*") in entry.js'() {
    globImport = __glob({
      "./entry.js": () => Promise.resolve().then(() => __toESM(require_entry()))
    });
  }
});
var require_entry = __commonJS({
  "entry.js"() {
    init_();
    init_2();
    __require(tag`./b`);
    globRequire(`./${b}`);
    try {
      __require(tag`./b`);
      globRequire(`./${b}`);
    } catch {
    }
    (async () => {
      import(tag`./b`);
      globImport(`./${b}`);
      await import(tag`./b`);
      await globImport(`./${b}`);
      try {
        import(tag`./b`);
        globImport(`./${b}`);
        await import(tag`./b`);
        await globImport(`./${b}`);
      } catch {
      }
    })();
  }
});
var stdin_default = require_entry();

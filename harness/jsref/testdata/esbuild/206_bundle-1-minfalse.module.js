(() => {
  var __getOwnPropNames = Object.getOwnPropertyNames;
  var __commonJS = (cb, mod) => function __require() {
    try {
      return mod || (0, cb[__getOwnPropNames(cb)[0]])((mod = { exports: {} }).exports, mod), mod.exports;
    } catch (e) {
      throw mod = 0, e;
    }
  };

  // a.js
  var require_a = __commonJS({
    "a.js"() {
    }
  });

  // b.js
  var require_b = __commonJS({
    "b.js"() {
    }
  });

  // entry.js
  switch (x) {
    case 0:
      _ = require_a();
      break;
    case 1:
      _ = require_b();
      break;
  }
  switch (1) {
    case 0:
      _ = null;
      break;
    case 1:
      _ = require_a();
      break;
    case 1:
      _ = null;
      break;
    case 2:
      _ = null;
      break;
  }
  switch (0) {
    case 1:
      _ = null;
      break;
    default:
      _ = require_a();
      break;
  }
  switch (1) {
    case 1:
      _ = require_a();
      break;
    default:
      _ = null;
      break;
  }
  switch (0) {
    case 1:
      _ = null;
      break;
    default:
      _ = null;
      break;
    case 0:
      _ = require_a();
      break;
  }
  switch (1) {
    case x:
      _ = require_a();
      break;
    case 1:
      _ = require_b();
      break;
    case x:
      _ = null;
      break;
    default:
      _ = null;
      break;
  }
  for (const x2 of y)
    switch (1) {
      case 0:
        _ = null;
        continue;
      case 1:
        _ = require_a();
        continue;
      case 2:
        _ = null;
        continue;
    }
  x = () => {
    switch (1) {
      case 0:
        _ = null;
        return;
      case 1:
        _ = require_a();
        return;
      case 2:
        _ = null;
        return;
    }
  };
  switch ("b") {
    case "a":
      _ = null;
    case "b":
      _ = require_a();
    case "c":
      _ = require_b();
      break;
    case "d":
      _ = null;
  }
  switch ("b") {
    case "a":
      _ = null;
    case "b":
    case "c":
      _ = require_a();
    case "d":
      _ = require_b();
      break;
    case "e":
      _ = null;
  }
})();

// entry.js
await foo;
for await (foo of bar) ;

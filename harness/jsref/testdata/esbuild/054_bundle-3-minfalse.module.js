var __create = Object.create;
var __defProp = Object.defineProperty;
var __getOwnPropDesc = Object.getOwnPropertyDescriptor;
var __getOwnPropNames = Object.getOwnPropertyNames;
var __getProtoOf = Object.getPrototypeOf;
var __hasOwnProp = Object.prototype.hasOwnProperty;
var __require = /* @__PURE__ */ ((x) => typeof require !== "undefined" ? require : typeof Proxy !== "undefined" ? new Proxy(x, {
  get: (a, b2) => (typeof require !== "undefined" ? require : a)[b2]
}) : x)(function(x) {
  if (typeof require !== "undefined") return require.apply(this, arguments);
  throw Error('Dynamic require of "' + x + '" is not supported');
});
var __glob = (map) => (path) => {
  var fn = map[path];
  if (fn) return fn();
  throw new Error("Module not found in bundle: " + path);
};
var __esm = (fn, res, err) => function __init() {
  if (err) throw err[0];
  try {
    return fn && (res = (0, fn[__getOwnPropNames(fn)[0]])(fn = 0)), res;
  } catch (e) {
    throw err = [e], e;
  }
};
var __commonJS = (cb, mod) => function __require2() {
  try {
    return mod || (0, cb[__getOwnPropNames(cb)[0]])((mod = { exports: {} }).exports, mod), mod.exports;
  } catch (e) {
    throw mod = 0, e;
  }
};
var __copyProps = (to, from, except, desc) => {
  if (from && typeof from === "object" || typeof from === "function") {
    for (let key of __getOwnPropNames(from))
      if (!__hasOwnProp.call(to, key) && key !== except)
        __defProp(to, key, { get: () => from[key], enumerable: !(desc = __getOwnPropDesc(from, key)) || desc.enumerable });
  }
  return to;
};
var __toESM = (mod, isNodeMode, target) => (target = mod != null ? __create(__getProtoOf(mod)) : {}, __copyProps(
  // If the importer is in node compatibility mode or this is not an ESM
  // file that has been converted to a CommonJS file using a Babel-
  // compatible transform (i.e. "__esModule" has not been set), then set
  // "default" to the CommonJS "module.exports" for node compatibility.
  isNodeMode || !mod || !mod.__esModule ? __defProp(target, "default", { value: mod, enumerable: true }) : target,
  mod
));

// require("./**/*") in entry.js
var globRequire;
var init_ = __esm({
  'require("./**/*") in entry.js'() {
    globRequire = __glob({
      "./entry.js": () => require_entry()
    });
  }
});

// import("./**/*") in entry.js
var globImport;
var init_2 = __esm({
  'import("./**/*") in entry.js'() {
    globImport = __glob({
      "./entry.js": () => Promise.resolve().then(() => __toESM(require_entry()))
    });
  }
});

// entry.js
var require_entry = __commonJS({
  "entry.js"() {
    init_();
    init_2();
    __require(tag`./b`);
    globRequire(`./${b}`);
    try {
      __require(tag`./b`);
      globRequire(`./${b}`);
    } catch {
    }
    (async () => {
      import(tag`./b`);
      globImport(`./${b}`);
      await import(tag`./b`);
      await globImport(`./${b}`);
      try {
        import(tag`./b`);
        globImport(`./${b}`);
        await import(tag`./b`);
        await globImport(`./${b}`);
      } catch {
      }
    })();
  }
});
export default require_entry();

class Foo0 {
  static {
    __name(this, "Foo0");
  }
  fn() {
  }
}
class Foo1 {
  static {
    __name(this, "Foo1");
  }
  *fn() {
  }
}
class Foo2 {
  static {
    __name(this, "Foo2");
  }
  get fn() {
  }
}
class Foo3 {
  static {
    __name(this, "Foo3");
  }
  set fn(_) {
  }
}
class Foo4 {
  static {
    __name(this, "Foo4");
  }
  async fn() {
  }
}
class Foo5 {
  static {
    __name(this, "Foo5");
  }
  static fn() {
  }
}
class Foo6 {
  static {
    __name(this, "Foo6");
  }
  static *fn() {
  }
}
class Foo7 {
  static {
    __name(this, "Foo7");
  }
  static get fn() {
  }
}
class Foo8 {
  static {
    __name(this, "Foo8");
  }
  static set fn(_) {
  }
}
class Foo9 {
  static {
    __name(this, "Foo9");
  }
  static async fn() {
  }
}
class Bar0 {
  static {
    __name(this, "Bar0");
  }
  #fn() {
  }
}
class Bar1 {
  static {
    __name(this, "Bar1");
  }
  *#fn() {
  }
}
class Bar2 {
  static {
    __name(this, "Bar2");
  }
  get #fn() {
  }
}
class Bar3 {
  static {
    __name(this, "Bar3");
  }
  set #fn(_) {
  }
}
class Bar4 {
  static {
    __name(this, "Bar4");
  }
  async #fn() {
  }
}
class Bar5 {
  static {
    __name(this, "Bar5");
  }
  static #fn() {
  }
}
class Bar6 {
  static {
    __name(this, "Bar6");
  }
  static *#fn() {
  }
}
class Bar7 {
  static {
    __name(this, "Bar7");
  }
  static get #fn() {
  }
}
class Bar8 {
  static {
    __name(this, "Bar8");
  }
  static set #fn(_) {
  }
}
class Bar9 {
  static {
    __name(this, "Bar9");
  }
  static async #fn(_) {
  }
}
const Baz0 = { fn() {
} };
const Baz1 = { *fn() {
} };
const Baz2 = { get fn() {
} };
const Baz3 = { set fn(_) {
} };
const Baz4 = { async fn() {
} };

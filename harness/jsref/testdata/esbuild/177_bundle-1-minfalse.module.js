(() => {
  var __create = Object.create;
  var __defProp = Object.defineProperty;
  var __getOwnPropDesc = Object.getOwnPropertyDescriptor;
  var __getOwnPropNames = Object.getOwnPropertyNames;
  var __getProtoOf = Object.getPrototypeOf;
  var __hasOwnProp = Object.prototype.hasOwnProperty;
  var __glob = (map) => (path) => {
    var fn = map[path];
    if (fn) return fn();
    throw new Error("Module not found in bundle: " + path);
  };
  var __commonJS = (cb, mod) => function __require() {
    try {
      return mod || (0, cb[__getOwnPropNames(cb)[0]])((mod = { exports: {} }).exports, mod), mod.exports;
    } catch (e) {
      throw mod = 0, e;
    }
  };
  var __copyProps = (to, from, except, desc) => {
    if (from && typeof from === "object" || typeof from === "function") {
      for (let key of __getOwnPropNames(from))
        if (!__hasOwnProp.call(to, key) && key !== except)
          __defProp(to, key, { get: () => from[key], enumerable: !(desc = __getOwnPropDesc(from, key)) || desc.enumerable });
    }
    return to;
  };
  var __toESM = (mod, isNodeMode, target) => (target = mod != null ? __create(__getProtoOf(mod)) : {}, __copyProps(
    // If the importer is in node compatibility mode or this is not an ESM
    // file that has been converted to a CommonJS file using a Babel-
    // compatible transform (i.e. "__esModule" has not been set), then set
    // "default" to the CommonJS "module.exports" for node compatibility.
    isNodeMode || !mod || !mod.__esModule ? __defProp(target, "default", { value: mod, enumerable: true }) : target,
    mod
  ));

  // src/file-a.js
  var require_file_a = __commonJS({
    "src/file-a.js"(exports, module) {
      module.exports = "a";
    }
  });

  // src/file-b.js
  var require_file_b = __commonJS({
    "src/file-b.js"(exports, module) {
      module.exports = "b";
    }
  });

  // src/nested/dir/file-a.js
  var require_file_a2 = __commonJS({
    "src/nested/dir/file-a.js"(exports, module) {
      module.exports = "a";
    }
  });

  // src/nested/dir/file-b.js
  var require_file_b2 = __commonJS({
    "src/nested/dir/file-b.js"(exports, module) {
      module.exports = "b";
    }
  });

  // require("./src/**/*.js") in entry.js
  var globRequire_src_js = __glob({
    "./src/file-a.js": () => require_file_a(),
    "./src/file-b.js": () => require_file_b(),
    "./src/nested/dir/file-a.js": () => require_file_a2(),
    "./src/nested/dir/file-b.js": () => require_file_b2()
  });

  // import("./src/**/*.js") in entry.js
  var globImport_src_js = __glob({
    "./src/file-a.js": () => Promise.resolve().then(() => __toESM(require_file_a())),
    "./src/file-b.js": () => Promise.resolve().then(() => __toESM(require_file_b())),
    "./src/nested/dir/file-a.js": () => Promise.resolve().then(() => __toESM(require_file_a2())),
    "./src/nested/dir/file-b.js": () => Promise.resolve().then(() => __toESM(require_file_b2()))
  });

  // entry.js
  var ab = Math.random() < 0.5 ? "a.js" : "b.js";
  console.log({
    concat: {
      require: globRequire_src_js("./src/" + ab + ".js"),
      import: globImport_src_js("./src/" + ab + ".js")
    },
    template: {
      require: globRequire_src_js(`./src/${ab}.js`),
      import: globImport_src_js(`./src/${ab}.js`)
    }
  });
})();

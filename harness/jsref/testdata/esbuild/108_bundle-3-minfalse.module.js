// entry.ts
var { ...local_const } = {};
var { ...local_let } = {};
var { ...local_var } = {};
var ns;
((ns2) => {
  ({ ...ns2.x } = {});
})(ns || (ns = {}));
for (const { ...for_in_const } in { abc }) {
}
for (let { ...for_in_let } in { abc }) {
}
for ({ ...for_in_var } in { abc }) ;
var for_in_var;
for (const { ...for_of_const } of [{}]) ;
for (let { ...for_of_let } of [{}]) x();
for ({ ...for_of_var } of [{}]) x();
var for_of_var;
for (const { ...for_const } = {}; x; x = null) {
}
for (let { ...for_let } = {}; x; x = null) {
}
for ({ ...for_var } = {}; x; x = null) {
}
var for_var;
for ({ ...x } in { abc }) {
}
for ({ ...x } of [{}]) {
}
for ({ ...x } = {}; x; x = null) {
}
({ ...assign } = {});
({ ...x } = x);
for ({ ...x } = x; 0; ) ;
console.log({ ...x } = x);
console.log({ x, ...xx } = { x });
console.log({ x: { ...xx } } = { x });

var __create = Object.create;
var __defProp = Object.defineProperty;
var __getOwnPropDesc = Object.getOwnPropertyDescriptor;
var __getOwnPropNames = Object.getOwnPropertyNames;
var __getProtoOf = Object.getPrototypeOf;
var __hasOwnProp = Object.prototype.hasOwnProperty;
var __commonJS = (cb, mod) => function __require() {
  try {
    return mod || (0, cb[__getOwnPropNames(cb)[0]])((mod = { exports: {} }).exports, mod), mod.exports;
  } catch (e) {
    throw mod = 0, e;
  }
};
var __export = (target, all) => {
  for (var name in all)
    __defProp(target, name, { get: all[name], enumerable: true });
};
var __copyProps = (to, from, except, desc) => {
  if (from && typeof from === "object" || typeof from === "function") {
    for (let key of __getOwnPropNames(from))
      if (!__hasOwnProp.call(to, key) && key !== except)
        __defProp(to, key, { get: () => from[key], enumerable: !(desc = __getOwnPropDesc(from, key)) || desc.enumerable });
  }
  return to;
};
var __toESM = (mod, isNodeMode, target) => (target = mod != null ? __create(__getProtoOf(mod)) : {}, __copyProps(
  // If the importer is in node compatibility mode or this is not an ESM
  // file that has been converted to a CommonJS file using a Babel-
  // compatible transform (i.e. "__esModule" has not been set), then set
  // "default" to the CommonJS "module.exports" for node compatibility.
  isNodeMode || !mod || !mod.__esModule ? __defProp(target, "default", { value: mod, enumerable: true }) : target,
  mod
));
var __toCommonJS = (mod) => __copyProps(__defProp({}, "__esModule", { value: true }), mod);

// cjs.js
var require_cjs = __commonJS({
  "cjs.js"(exports) {
    exports.cjs_foo_ = "foo";
  }
});

// entry-esm.js
var entry_esm_exports = {};
__export(entry_esm_exports, {
  bar_: () => bar_
});
module.exports = __toCommonJS(entry_esm_exports);

// esm.js
var esm_foo_ = "foo";

// entry-esm.js
var import_cjs = __toESM(require_cjs());
var cjs = __toESM(require_cjs());
var bar_ = [
  esm_foo_,
  import_cjs.cjs_foo_,
  esm_foo_,
  cjs.cjs_foo_
];

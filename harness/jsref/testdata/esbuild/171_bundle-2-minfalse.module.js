var __create = Object.create;
var __defProp = Object.defineProperty;
var __getOwnPropDesc = Object.getOwnPropertyDescriptor;
var __getOwnPropNames = Object.getOwnPropertyNames;
var __getProtoOf = Object.getPrototypeOf;
var __hasOwnProp = Object.prototype.hasOwnProperty;
var __esm = (fn, res, err) => function __init() {
  if (err) throw err[0];
  try {
    return fn && (res = (0, fn[__getOwnPropNames(fn)[0]])(fn = 0)), res;
  } catch (e) {
    throw err = [e], e;
  }
};
var __commonJS = (cb, mod) => function __require() {
  try {
    return mod || (0, cb[__getOwnPropNames(cb)[0]])((mod = { exports: {} }).exports, mod), mod.exports;
  } catch (e) {
    throw mod = 0, e;
  }
};
var __export = (target, all) => {
  for (var name in all)
    __defProp(target, name, { get: all[name], enumerable: true });
};
var __copyProps = (to, from, except, desc) => {
  if (from && typeof from === "object" || typeof from === "function") {
    for (let key of __getOwnPropNames(from))
      if (!__hasOwnProp.call(to, key) && key !== except)
        __defProp(to, key, { get: () => from[key], enumerable: !(desc = __getOwnPropDesc(from, key)) || desc.enumerable });
  }
  return to;
};
var __toESM = (mod, isNodeMode, target) => (target = mod != null ? __create(__getProtoOf(mod)) : {}, __copyProps(
  // If the importer is in node compatibility mode or this is not an ESM
  // file that has been converted to a CommonJS file using a Babel-
  // compatible transform (i.e. "__esModule" has not been set), then set
  // "default" to the CommonJS "module.exports" for node compatibility.
  isNodeMode || !mod || !mod.__esModule ? __defProp(target, "default", { value: mod, enumerable: true }) : target,
  mod
));
var __toCommonJS = (mod) => __copyProps(__defProp({}, "__esModule", { value: true }), mod);

// cjs.js
var require_cjs = __commonJS({
  "cjs.js"(exports) {
    console.log(exports);
  }
});

// dummy.js
var dummy_exports = {};
__export(dummy_exports, {
  dummy: () => dummy
});
var dummy;
var init_dummy = __esm({
  "dummy.js"() {
    dummy = 123;
  }
});

// es6-import-stmt.js
var require_es6_import_stmt = __commonJS({
  "es6-import-stmt.js"(exports) {
    init_dummy();
    console.log(exports);
  }
});

// es6-import-assign.ts
var require_es6_import_assign = __commonJS({
  "es6-import-assign.ts"(exports) {
    var x2 = (init_dummy(), __toCommonJS(dummy_exports));
    console.log(exports);
  }
});

// es6-import-dynamic.js
var require_es6_import_dynamic = __commonJS({
  "es6-import-dynamic.js"(exports) {
    Promise.resolve().then(() => init_dummy());
    console.log(exports);
  }
});

// es6-expr-import-dynamic.js
var require_es6_expr_import_dynamic = __commonJS({
  "es6-expr-import-dynamic.js"(exports) {
    Promise.resolve().then(() => init_dummy());
    console.log(exports);
  }
});

// es6-export-assign.ts
var require_es6_export_assign = __commonJS({
  "es6-export-assign.ts"(exports, module2) {
    console.log(exports);
    module2.exports = 123;
  }
});

// es6-ns-export-variable.ts
var require_es6_ns_export_variable = __commonJS({
  "es6-ns-export-variable.ts"(exports) {
    var ns;
    ((ns2) => {
      ns2.foo = 123;
    })(ns || (ns = {}));
    console.log(exports);
  }
});

// es6-ns-export-function.ts
var require_es6_ns_export_function = __commonJS({
  "es6-ns-export-function.ts"(exports) {
    var ns;
    ((ns2) => {
      function foo() {
      }
      ns2.foo = foo;
    })(ns || (ns = {}));
    console.log(exports);
  }
});

// es6-ns-export-async-function.ts
var require_es6_ns_export_async_function = __commonJS({
  "es6-ns-export-async-function.ts"(exports) {
    var ns;
    ((ns2) => {
      async function foo() {
      }
      ns2.foo = foo;
    })(ns || (ns = {}));
    console.log(exports);
  }
});

// es6-ns-export-enum.ts
var require_es6_ns_export_enum = __commonJS({
  "es6-ns-export-enum.ts"(exports) {
    var ns;
    ((ns2) => {
      let Foo;
      ((Foo2) => {
      })(Foo = ns2.Foo || (ns2.Foo = {}));
    })(ns || (ns = {}));
    console.log(exports);
  }
});

// es6-ns-export-const-enum.ts
var require_es6_ns_export_const_enum = __commonJS({
  "es6-ns-export-const-enum.ts"(exports) {
    var ns;
    ((ns2) => {
      let Foo;
      ((Foo2) => {
      })(Foo = ns2.Foo || (ns2.Foo = {}));
    })(ns || (ns = {}));
    console.log(exports);
  }
});

// es6-ns-export-module.ts
var require_es6_ns_export_module = __commonJS({
  "es6-ns-export-module.ts"(exports) {
    console.log(exports);
  }
});

// es6-ns-export-namespace.ts
var require_es6_ns_export_namespace = __commonJS({
  "es6-ns-export-namespace.ts"(exports) {
    console.log(exports);
  }
});

// es6-ns-export-class.ts
var require_es6_ns_export_class = __commonJS({
  "es6-ns-export-class.ts"(exports) {
    var ns;
    ((ns2) => {
      class Foo {
      }
      ns2.Foo = Foo;
    })(ns || (ns = {}));
    console.log(exports);
  }
});

// es6-ns-export-abstract-class.ts
var require_es6_ns_export_abstract_class = __commonJS({
  "es6-ns-export-abstract-class.ts"(exports) {
    var ns;
    ((ns2) => {
      class Foo {
      }
      ns2.Foo = Foo;
    })(ns || (ns = {}));
    console.log(exports);
  }
});

// entry.js
var import_cjs = __toESM(require_cjs());
var import_es6_import_stmt = __toESM(require_es6_import_stmt());
var import_es6_import_assign = __toESM(require_es6_import_assign());
var import_es6_import_dynamic = __toESM(require_es6_import_dynamic());

// es6-import-meta.js
console.log(void 0);

// entry.js
var import_es6_expr_import_dynamic = __toESM(require_es6_expr_import_dynamic());

// es6-expr-import-meta.js
console.log(void 0);

// es6-export-variable.js
console.log(void 0);

// es6-export-function.js
console.log(void 0);

// es6-export-async-function.js
console.log(void 0);

// es6-export-enum.ts
console.log(void 0);

// es6-export-const-enum.ts
console.log(void 0);

// es6-export-module.ts
console.log(void 0);

// es6-export-namespace.ts
console.log(void 0);

// es6-export-class.js
console.log(void 0);

// es6-export-abstract-class.ts
console.log(void 0);

// es6-export-default.js
console.log(void 0);

// es6-export-clause.js
console.log(void 0);

// es6-export-clause-from.js
init_dummy();
console.log(void 0);

// es6-export-star.js
init_dummy();
console.log(void 0);

// es6-export-star-as.js
init_dummy();
console.log(void 0);

// entry.js
var import_es6_export_assign = __toESM(require_es6_export_assign());

// es6-export-import-assign.ts
var x = (init_dummy(), __toCommonJS(dummy_exports));
console.log(void 0);

// entry.js
var import_es6_ns_export_variable = __toESM(require_es6_ns_export_variable());
var import_es6_ns_export_function = __toESM(require_es6_ns_export_function());
var import_es6_ns_export_async_function = __toESM(require_es6_ns_export_async_function());
var import_es6_ns_export_enum = __toESM(require_es6_ns_export_enum());
var import_es6_ns_export_const_enum = __toESM(require_es6_ns_export_const_enum());
var import_es6_ns_export_module = __toESM(require_es6_ns_export_module());
var import_es6_ns_export_namespace = __toESM(require_es6_ns_export_namespace());
var import_es6_ns_export_class = __toESM(require_es6_ns_export_class());
var import_es6_ns_export_abstract_class = __toESM(require_es6_ns_export_abstract_class());

// keep.js
function fn() {
}
var fn = function() {
};
var obj = { "f n": function() {
} };
fn = function() {
};
fn ||= function() {
};
fn &&= function() {
};
fn ??= function() {
};
var [fn = function() {
}] = [];
var { fn = function() {
} } = {};
for ([fn = function() {
}] = []; ; ) ;
var fn;
for ({ fn = function() {
} } = {}; ; ) ;
var fn;
for ([fn = function() {
}] in obj) ;
var fn;
for ({ fn = function() {
} } in obj) ;
var fn;
for ([fn = function() {
}] of obj) ;
var fn;
for ({ fn = function() {
} } of obj) ;
var fn;
[fn = function() {
}] = [];
({ fn = function() {
} } = {});

class Derived extends Base {
  async test(key) {
    var _a, _b, _c, _d;
    return [
      await super.foo,
      await super[key],
      await ([super.foo] = [0]),
      await ([super[key]] = [0]),
      await (super.foo = 1),
      await (super[key] = 1),
      await (super.foo += 2),
      await (super[key] += 2),
      await ++super.foo,
      await ++super[key],
      await super.foo++,
      await super[key]++,
      await super.foo.name,
      await super[key].name,
      await ((_a = super.foo) == null ? void 0 : _a.name),
      await ((_b = super[key]) == null ? void 0 : _b.name),
      await super.foo(1, 2),
      await super[key](1, 2),
      await ((_c = super.foo) == null ? void 0 : _c.call(this, 1, 2)),
      await ((_d = super[key]) == null ? void 0 : _d.call(this, 1, 2)),
      await (() => super.foo)(),
      await (() => super[key])(),
      await (() => super.foo())(),
      await (() => super[key]())(),
      await super.foo``,
      await super[key]``
    ];
  }
}
let fn = async () => class extends Base {
  constructor() {
    super(...arguments);
    __publicField(this, "a", super.a);
    __publicField(this, "b", () => super.b);
  }
  c() {
    return super.c;
  }
  d() {
    return () => super.d;
  }
};
class Derived2 extends Base {
  constructor() {
    super(...arguments);
    __publicField(this, "b", async () => {
      var _a;
      return _a = super.foo, class {
        constructor() {
          __publicField(this, _a, 123);
        }
      };
    });
  }
  async a() {
    var _a;
    return _a = super.foo, class {
      constructor() {
        __publicField(this, _a, 123);
      }
    };
  }
}
for (let i = 0; i < 3; i++) {
  objs.push({
    __proto__: {
      foo() {
        return i;
      }
    },
    async bar() {
      return super.foo();
    }
  });
}

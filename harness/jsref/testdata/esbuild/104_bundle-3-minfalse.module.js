// entry.js
var Foo = class {
  *#g() {
  }
  async #a() {
  }
  async *#ag() {
  }
  static *#sg() {
  }
  static async #sa() {
  }
  static async *#sag() {
  }
};
export {
  Foo
};

var _a, _b;
class Foo {
  #one = 1;
  get one() {
    return this.#one;
  }
  set one(_) {
    this.#one = _;
  }
  #_two = 2;
  get #two() {
    return this.#_two;
  }
  set #two(_) {
    this.#_two = _;
  }
  #a = 3;
  get [_b = three()]() {
    return this.#a;
  }
  set [_b](_) {
    this.#a = _;
  }
  static #four = 4;
  static get four() {
    return this.#four;
  }
  static set four(_) {
    this.#four = _;
  }
  static #_five = 5;
  static get #five() {
    return this.#_five;
  }
  static set #five(_) {
    this.#_five = _;
  }
  static #b = 6;
  static get [_a = six()]() {
    return this.#b;
  }
  static set [_a](_) {
    this.#b = _;
  }
}
class Normal {
  #a = b;
  get a() {
    return this.#a;
  }
  set a(_) {
    this.#a = _;
  }
  c = d;
}
class Private {
  #_a = b;
  get #a() {
    return this.#_a;
  }
  set #a(_) {
    this.#_a = _;
  }
  c = d;
}
class StaticNormal {
  static #a = b;
  static get a() {
    return this.#a;
  }
  static set a(_) {
    this.#a = _;
  }
  static c = d;
}
class StaticPrivate {
  static #_a = b;
  static get #a() {
    return this.#_a;
  }
  static set #a(_) {
    this.#_a = _;
  }
  static c = d;
}

var __defProp = Object.defineProperty;
var __typeError = (msg) => {
  throw TypeError(msg);
};
var __defNormalProp = (obj2, key, value) => key in obj2 ? __defProp(obj2, key, { enumerable: true, configurable: true, writable: true, value }) : obj2[key] = value;
var __publicField = (obj2, key, value) => __defNormalProp(obj2, typeof key !== "symbol" ? key + "" : key, value);
var __accessCheck = (obj2, member, msg) => member.has(obj2) || __typeError("Cannot " + msg);
var __privateGet = (obj2, member, getter) => (__accessCheck(obj2, member, "read from private field"), getter ? getter.call(obj2) : member.get(obj2));
var __privateAdd = (obj2, member, value) => member.has(obj2) ? __typeError("Cannot add the same private member more than once") : member instanceof WeakSet ? member.add(obj2) : member.set(obj2, value);
var __privateSet = (obj2, member, value, setter) => (__accessCheck(obj2, member, "write to private field"), setter ? setter.call(obj2, value) : member.set(obj2, value), value);
var _f_n, _f_n2, _fn, _fn2, __fn, _Foo6_instances, fn_get, fn_set, __fn2, _Foo7_static, fn_get2, fn_set2;
function fn() {
}
__name(fn, "fn");
function foo(fn2 = function() {
}) {
}
__name(foo, "foo");
var fn = /* @__PURE__ */ __name(function() {
}, "fn");
var obj = { "f n": /* @__PURE__ */ __name(function() {
}, "f n") };
const _Foo0 = class _Foo0 {
  constructor() {
    __publicField(this, "f n", /* @__PURE__ */ __name(function() {
    }, "f n"));
  }
};
__name(_Foo0, "Foo0");
let Foo0 = _Foo0;
const _Foo1 = class _Foo1 {
};
__name(_Foo1, "Foo1");
__publicField(_Foo1, "f n", /* @__PURE__ */ __name(function() {
}, "f n"));
let Foo1 = _Foo1;
const _Foo2 = class _Foo2 {
  constructor() {
    __privateAdd(this, _f_n, /* @__PURE__ */ __name(function() {
    }, "f n"));
  }
  get "f n"() {
    return __privateGet(this, _f_n);
  }
  set "f n"(_) {
    __privateSet(this, _f_n, _);
  }
};
_f_n = new WeakMap();
__name(_Foo2, "Foo2");
let Foo2 = _Foo2;
const _Foo3 = class _Foo3 {
  static get "f n"() {
    return __privateGet(this, _f_n2);
  }
  static set "f n"(_) {
    __privateSet(this, _f_n2, _);
  }
};
_f_n2 = new WeakMap();
__name(_Foo3, "Foo3");
__privateAdd(_Foo3, _f_n2, /* @__PURE__ */ __name(function() {
}, "f n"));
let Foo3 = _Foo3;
const _Foo4 = class _Foo4 {
  constructor() {
    __privateAdd(this, _fn, /* @__PURE__ */ __name(function() {
    }, "#fn"));
  }
};
_fn = new WeakMap();
__name(_Foo4, "Foo4");
let Foo4 = _Foo4;
const _Foo5 = class _Foo5 {
};
_fn2 = new WeakMap();
__name(_Foo5, "Foo5");
__privateAdd(_Foo5, _fn2, /* @__PURE__ */ __name(function() {
}, "#fn"));
let Foo5 = _Foo5;
const _Foo6 = class _Foo6 {
  constructor() {
    __privateAdd(this, _Foo6_instances);
    __privateAdd(this, __fn, /* @__PURE__ */ __name(function() {
    }, "#fn"));
  }
};
__fn = new WeakMap();
_Foo6_instances = new WeakSet();
fn_get = function() {
  return __privateGet(this, __fn);
};
fn_set = function(_) {
  __privateSet(this, __fn, _);
};
__name(_Foo6, "Foo6");
let Foo6 = _Foo6;
const _Foo7 = class _Foo7 {
};
__fn2 = new WeakMap();
_Foo7_static = new WeakSet();
fn_get2 = function() {
  return __privateGet(this, __fn2);
};
fn_set2 = function(_) {
  __privateSet(this, __fn2, _);
};
__privateAdd(_Foo7, _Foo7_static);
__name(_Foo7, "Foo7");
__privateAdd(_Foo7, __fn2, /* @__PURE__ */ __name(function() {
}, "#fn"));
let Foo7 = _Foo7;
fn = /* @__PURE__ */ __name(function() {
}, "fn");
fn || (fn = /* @__PURE__ */ __name(function() {
}, "fn"));
fn && (fn = /* @__PURE__ */ __name(function() {
}, "fn"));
fn ?? (fn = /* @__PURE__ */ __name(function() {
}, "fn"));
var [fn = /* @__PURE__ */ __name(function() {
}, "fn")] = [];
var { fn = /* @__PURE__ */ __name(function() {
}, "fn") } = {};
for (var [fn = /* @__PURE__ */ __name(function() {
}, "fn")] = []; ; ) ;
for (var { fn = /* @__PURE__ */ __name(function() {
}, "fn") } = {}; ; ) ;
for (var [fn = /* @__PURE__ */ __name(function() {
}, "fn")] in obj) ;
for (var { fn = /* @__PURE__ */ __name(function() {
}, "fn") } in obj) ;
for (var [fn = /* @__PURE__ */ __name(function() {
}, "fn")] of obj) ;
for (var { fn = /* @__PURE__ */ __name(function() {
}, "fn") } of obj) ;
function foo([fn2 = /* @__PURE__ */ __name(function() {
}, "fn")]) {
}
__name(foo, "foo");
function foo({ fn: fn2 = /* @__PURE__ */ __name(function() {
}, "fn") }) {
}
__name(foo, "foo");
[fn = /* @__PURE__ */ __name(function() {
}, "fn")] = [];
({ fn = /* @__PURE__ */ __name(function() {
}, "fn") } = {});

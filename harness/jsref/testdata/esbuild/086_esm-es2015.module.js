var __defProp = Object.defineProperty;
var __defNormalProp = (obj, key, value) => key in obj ? __defProp(obj, key, { enumerable: true, configurable: true, writable: true, value }) : obj[key] = value;
var __publicField = (obj, key, value) => __defNormalProp(obj, typeof key !== "symbol" ? key + "" : key, value);
var __async = (__this, __arguments, generator) => {
  return new Promise((resolve, reject) => {
    var fulfilled = (value) => {
      try {
        step(generator.next(value));
      } catch (e) {
        reject(e);
      }
    };
    var rejected = (value) => {
      try {
        step(generator.throw(value));
      } catch (e) {
        reject(e);
      }
    };
    var step = (x2) => x2.done ? resolve(x2.value) : Promise.resolve(x2.value).then(fulfilled, rejected);
    step((generator = generator.apply(__this, __arguments)).next());
  });
};
var _a, _b, _c, _d, _e, _f, _g, _h, _i, _j, _k, _l, _m, _n, _o, _p;
let remove1 = (_a = class {
}, __publicField(_a, "x"), _a);
let remove3 = class {
  static x() {
  }
};
let remove4 = class {
  static get x() {
  }
};
let remove5 = class {
  static set x(_) {
  }
};
let remove6 = class {
  static x() {
    return __async(this, null, function* () {
    });
  }
};
let remove8 = class {
  static ["x"]() {
  }
};
let remove9 = class {
  static get ["x"]() {
  }
};
let remove10 = class {
  static set ["x"](_) {
  }
};
let remove11 = class {
  static ["x"]() {
    return __async(this, null, function* () {
    });
  }
};
let remove12 = (_b = class {
}, __publicField(_b, 0, "x"), _b);
let remove13 = (_c = null, _d = class {
}, __publicField(_d, _c, "x"), _d);
let remove14 = (_e = void 0, _f = class {
}, __publicField(_f, _e, "x"), _f);
let remove15 = (_g = false, _h = class {
}, __publicField(_h, _g, "x"), _h);
let remove16 = (_i = /* @__PURE__ */ BigInt("0"), _j = class {
}, __publicField(_j, _i, "x"), _j);
let remove17 = class {
  static toString() {
  }
};
let keep1 = (_k = class {
}, __publicField(_k, "x", x), _k);
let keep2 = (_l = class {
}, __publicField(_l, "x", x), _l);
let keep3 = (_m = x, _n = class {
}, __publicField(_n, _m, "x"), _n);
let keep4 = class {
  static [x]() {
  }
};
let keep5 = class {
  static get [x]() {
  }
};
let keep6 = class {
  static set [x](_) {
  }
};
let keep7 = class {
  static [x]() {
    return __async(this, null, function* () {
    });
  }
};
let keep8 = (_o = { toString() {
} }, _p = class {
}, __publicField(_p, _o, "x"), _p);

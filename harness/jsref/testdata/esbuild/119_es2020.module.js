var __typeError = (msg) => {
  throw TypeError(msg);
};
var __accessCheck = (obj, member, msg) => member.has(obj) || __typeError("Cannot " + msg);
var __privateGet = (obj, member, getter) => (__accessCheck(obj, member, "read from private field"), getter ? getter.call(obj) : member.get(obj));
var __privateAdd = (obj, member, value) => member.has(obj) ? __typeError("Cannot add the same private member more than once") : member instanceof WeakSet ? member.add(obj) : member.set(obj, value);
var __privateSet = (obj, member, value, setter) => (__accessCheck(obj, member, "write to private field"), setter ? setter.call(obj, value) : member.set(obj, value), value);
var __privateWrapper = (obj, member, setter, getter) => ({
  set _(value) {
    __privateSet(obj, member, value, setter);
  },
  get _() {
    return __privateGet(obj, member, getter);
  }
});
var _x;
class Foo {
  constructor() {
    __privateAdd(this, _x);
  }
  unary() {
    __privateWrapper(this, _x)._++;
    __privateWrapper(this, _x)._--;
    ++__privateWrapper(this, _x)._;
    --__privateWrapper(this, _x)._;
  }
  binary() {
    __privateSet(this, _x, 1);
    __privateSet(this, _x, __privateGet(this, _x) + 1);
    __privateSet(this, _x, __privateGet(this, _x) - 1);
    __privateSet(this, _x, __privateGet(this, _x) * 1);
    __privateSet(this, _x, __privateGet(this, _x) / 1);
    __privateSet(this, _x, __privateGet(this, _x) % 1);
    __privateSet(this, _x, __privateGet(this, _x) ** 1);
    __privateSet(this, _x, __privateGet(this, _x) << 1);
    __privateSet(this, _x, __privateGet(this, _x) >> 1);
    __privateSet(this, _x, __privateGet(this, _x) >>> 1);
    __privateSet(this, _x, __privateGet(this, _x) & 1);
    __privateSet(this, _x, __privateGet(this, _x) | 1);
    __privateSet(this, _x, __privateGet(this, _x) ^ 1);
    __privateGet(this, _x) && __privateSet(this, _x, 1);
    __privateGet(this, _x) || __privateSet(this, _x, 1);
    __privateGet(this, _x) ?? __privateSet(this, _x, 1);
  }
}
_x = new WeakMap();

var __getOwnPropNames = Object.getOwnPropertyNames;
var __commonJS = (cb, mod) => function __require() {
  try {
    return mod || (0, cb[__getOwnPropNames(cb)[0]])((mod = { exports: {} }).exports, mod), mod.exports;
  } catch (e) {
    throw mod = 0, e;
  }
};
var require_stdin = __commonJS({
  "<stdin>"(exports) {
    let \u{10000} = /* @__PURE__ */ jsxDEV("x", { children: [
      "\u{1F355}\u{1F355}\u{1F355}",
      /* @__PURE__ */ jsxDEV("y", {}, void 0, false, {
        fileName: "<stdin>",
        lineNumber: 1,
        columnNumber: 19
      }, exports)
    ] }, void 0, true, {
      fileName: "<stdin>",
      lineNumber: 1,
      columnNumber: 10
    }, exports);
  }
});
export default require_stdin();

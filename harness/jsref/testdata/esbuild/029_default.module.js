const { ...local_const } = {};
let { ...local_let } = {};
var { ...local_var } = {};
let arrow_fn = ({ ...x2 }) => {
};
let fn_expr = function({ ...x2 } = default_value) {
};
let class_expr = class {
  method(x2, ...[y, { ...z }]) {
  }
};
function fn_stmt({ a = b(), ...x2 }, { c = d(), ...y }) {
}
class class_stmt {
  method({ ...x2 }) {
  }
}
var ns;
((ns2) => {
  ({ ...ns2.x } = {});
})(ns || (ns = {}));
try {
} catch ({ ...catch_clause }) {
}
for (const { ...for_in_const } in { abc }) {
}
for (let { ...for_in_let } in { abc }) {
}
for (var { ...for_in_var } in { abc }) ;
for (const { ...for_of_const } of [{}]) ;
for (let { ...for_of_let } of [{}]) x();
for (var { ...for_of_var } of [{}]) x();
for (const { ...for_const } = {}; x; x = null) {
}
for (let { ...for_let } = {}; x; x = null) {
}
for (var { ...for_var } = {}; x; x = null) {
}
for ({ ...x } in { abc }) {
}
for ({ ...x } of [{}]) {
}
for ({ ...x } = {}; x; x = null) {
}
({ ...assign } = {});
({ obj_method({ ...x2 }) {
} });
({ ...x } = x);
for ({ ...x } = x; 0; ) ;
console.log({ ...x } = x);
console.log({ x, ...xx } = { x });
console.log({ x: { ...xx } } = { x });

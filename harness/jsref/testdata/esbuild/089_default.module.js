var globRequire;
var init_ = __esm({
  'require("./**/*") in entry.js'() {
    globRequire = __glob({
      "./entry.js": () => require_entry()
    });
  }
});
var globImport;
var init_2 = __esm({
  'import("./**/*") in entry.js'() {
    globImport = __glob({
      "./entry.js": () => Promise.resolve().then(() => __toESM(require_entry()))
    });
  }
});
var require_entry = __commonJS({
  "entry.js"() {
    init_();
    init_2();
    __require(tag`./b`);
    globRequire(`./${b}`);
    try {
      __require(tag`./b`);
      globRequire(`./${b}`);
    } catch {
    }
    (async () => {
      import(tag`./b`);
      globImport(`./${b}`);
      await import(tag`./b`);
      await globImport(`./${b}`);
      try {
        import(tag`./b`);
        globImport(`./${b}`);
        await import(tag`./b`);
        await globImport(`./${b}`);
      } catch {
      }
    })();
  }
});
export default require_entry();

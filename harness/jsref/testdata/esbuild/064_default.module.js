let remove1 = class {
  static x;
};
let remove3 = class {
  static x() {
  }
};
let remove4 = class {
  static get x() {
  }
};
let remove5 = class {
  static set x(_) {
  }
};
let remove6 = class {
  static async x() {
  }
};
let remove8 = class {
  static ["x"]() {
  }
};
let remove9 = class {
  static get ["x"]() {
  }
};
let remove10 = class {
  static set ["x"](_) {
  }
};
let remove11 = class {
  static async ["x"]() {
  }
};
let remove12 = class {
  static [0] = "x";
};
let remove13 = class {
  static [null] = "x";
};
let remove14 = class {
  static [void 0] = "x";
};
let remove15 = class {
  static [false] = "x";
};
let remove16 = class {
  static [0n] = "x";
};
let remove17 = class {
  static toString() {
  }
};
let keep1 = class {
  static x = x;
};
let keep2 = class {
  static ["x"] = x;
};
let keep3 = class {
  static [x] = "x";
};
let keep4 = class {
  static [x]() {
  }
};
let keep5 = class {
  static get [x]() {
  }
};
let keep6 = class {
  static set [x](_) {
  }
};
let keep7 = class {
  static async [x]() {
  }
};
let keep8 = class {
  static [{ toString() {
  } }] = "x";
};

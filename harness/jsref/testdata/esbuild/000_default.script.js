console.log(
  import(
    /* before */
    foo
  ),
  import(
    /* before */
    "foo"
  ),
  import(
    foo
    /* after */
  ),
  import(
    "foo"
    /* after */
  )
);
console.log(
  import(
    "foo",
    /* before */
    { assert: { type: "json" } }
  ),
  import("foo", {
    /* before */
    assert: { type: "json" }
  }),
  import("foo", {
    assert:
      /* before */
      { type: "json" }
  }),
  import("foo", { assert: {
    /* before */
    type: "json"
  } }),
  import("foo", { assert: {
    type:
      /* before */
      "json"
  } }),
  import("foo", { assert: {
    type: "json"
    /* before */
  } }),
  import("foo", {
    assert: { type: "json" }
    /* before */
  }),
  import(
    "foo",
    { assert: { type: "json" } }
    /* before */
  )
);
console.log(
  require(
    /* before */
    foo
  ),
  require(
    /* before */
    "foo"
  ),
  require(
    foo
    /* after */
  ),
  require(
    "foo"
    /* after */
  )
);
console.log(
  require.resolve(
    /* before */
    foo
  ),
  require.resolve(
    /* before */
    "foo"
  ),
  require.resolve(
    foo
    /* after */
  ),
  require.resolve(
    "foo"
    /* after */
  )
);
let [
  /* foo */
] = [
  /* bar */
];
let [
  // foo
] = [
  // bar
];
let [
  /*before*/
  ...s
] = [
  /*before*/
  ...s
];
let [.../*before*/
s2] = [.../*before*/
s2];
let {
  /* foo */
} = {
  /* bar */
};
let {
  // foo
} = {
  // bar
};
let {
  /*before*/
  ...s3
} = {
  /*before*/
  ...s3
};
let { .../*before*/
s4 } = { .../*before*/
s4 };
let [
  /* before */
  x
] = [
  /* before */
  x
];
let [
  /* before */
  x2
  /* after */
] = [
  /* before */
  x2
  /* after */
];
let [
  // before
  x3
  // after
] = [
  // before
  x3
  // after
];
let {
  /* before */
  y
} = {
  /* before */
  y
};
let {
  /* before */
  y2
  /* after */
} = {
  /* before */
  y2
  /* after */
};
let {
  // before
  y3
  // after
} = {
  // before
  y3
  // after
};
let {
  /* before */
  [y4]: y4
} = {
  /* before */
  [y4]: y4
};
let { [
  /* before */
  y5
]: y5 } = { [
  /* before */
  y5
]: y5 };
let { [
  y6
  /* after */
]: y6 } = { [
  y6
  /* after */
]: y6 };
foo[
  /* before */
  x
] = foo[
  /* before */
  x
];
foo[
  x
  /* after */
] = foo[
  x
  /* after */
];
console.log(
  // before
  foo,
  /* comment before */
  bar
  // comment after
);
console.log([
  // before
  foo,
  /* comment before */
  bar
  // comment after
]);
console.log({
  // before
  foo,
  /* comment before */
  bar
  // comment after
});
console.log(class {
  // before
  foo;
  /* comment before */
  bar;
  // comment after
});
console.log(
  () => {
    return (
      /* foo */
      null
    );
  },
  () => {
    throw (
      /* foo */
      null
    );
  },
  () => {
    return (
      /* foo */
      null + 1
    );
  },
  () => {
    throw (
      /* foo */
      null + 1
    );
  },
  () => {
    return (
      // foo
      null + 1
    );
  },
  () => {
    throw (
      // foo
      null + 1
    );
  }
);
console.log(
  /*a*/
  a ? (
    /*b*/
    b
  ) : (
    /*c*/
    c
  ),
  a ? b : c
);
for (
  /*foo*/
  a;
  ;
) ;
for (
  ;
  /*foo*/
  a;
) ;
for (
  ;
  ;
  /*foo*/
  a
) ;
for (
  /*foo*/
  a in b
) ;
for (
  a in
  /*foo*/
  b
) ;
for (
  /*foo*/
  a of b
) ;
for (
  a of
  /*foo*/
  b
) ;
if (
  /*foo*/
  a
) ;
with (
  /*foo*/
  a
) ;
while (
  /*foo*/
  a
) ;
do {
} while (
  /*foo*/
  a
);
switch (
  /*foo*/
  a
) {
}

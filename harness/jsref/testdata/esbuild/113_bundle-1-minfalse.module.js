(() => {
  // entry.ts
  function foo(x = this) {
    console.log(this);
  }
  var objFoo = {
    foo(x = this) {
      console.log(this);
    }
  };
  var Foo = class {
    constructor() {
      this.x = this;
    }
    static {
      this.y = this.z;
    }
    foo(x = this) {
      console.log(this);
    }
    static bar(x = this) {
      console.log(this);
    }
  };
  new Foo(foo(objFoo));
  if (nested) {
    let bar2 = function(x = this) {
      console.log(this);
    };
    bar = bar2;
    const objBar = {
      foo(x = this) {
        console.log(this);
      }
    };
    class Bar {
      constructor() {
        this.x = this;
      }
      static {
        this.y = this.z;
      }
      foo(x = this) {
        console.log(this);
      }
      static bar(x = this) {
        console.log(this);
      }
    }
    new Bar(bar2(objBar));
  }
  var bar;
})();

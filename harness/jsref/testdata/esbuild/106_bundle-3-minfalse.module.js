// foo1.js
var foo1_default = class extends x {
  #foo() {
    super.foo();
  }
};

// foo2.js
var foo2_default = class extends x {
  #foo() {
    super.foo++;
  }
};

// foo3.js
var foo3_default = class extends x {
  static #foo() {
    super.foo();
  }
};

// foo4.js
var foo4_default = class extends x {
  static #foo() {
    super.foo++;
  }
};

// foo5.js
var foo5_default = class extends x {
  #foo = () => {
    super.foo();
  };
};

// foo6.js
var foo6_default = class extends x {
  #foo = () => {
    super.foo++;
  };
};

// foo7.js
var foo7_default = class extends x {
  static #foo = () => {
    super.foo();
  };
};

// foo8.js
var foo8_default = class extends x {
  static #foo = () => {
    super.foo++;
  };
};
export {
  foo1_default as foo1,
  foo2_default as foo2,
  foo3_default as foo3,
  foo4_default as foo4,
  foo5_default as foo5,
  foo6_default as foo6,
  foo7_default as foo7,
  foo8_default as foo8
};

// entry.js
if (shouldBeExportsNotThis) {
  console.log(exports);
  console.log((x = exports) => exports);
  console.log({ x: exports });
  console.log(class extends exports.foo {
  });
  console.log(class {
    [exports.foo];
  });
  console.log(class {
    [exports.foo]() {
    }
  });
  console.log(class {
    static [exports.foo];
  });
  console.log(class {
    static [exports.foo]() {
    }
  });
}
if (shouldBeThisNotExports) {
  console.log(class {
    foo = this;
  });
  console.log(class {
    foo() {
      this;
    }
  });
  console.log(class {
    static foo = this;
  });
  console.log(class {
    static foo() {
      this;
    }
  });
}

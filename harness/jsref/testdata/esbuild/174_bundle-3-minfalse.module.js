var __defProp = Object.defineProperty;
var __getOwnPropDesc = Object.getOwnPropertyDescriptor;
var __decorateClass = (decorators, target, key, kind) => {
  var result = kind > 1 ? void 0 : kind ? __getOwnPropDesc(target, key) : target;
  for (var i2 = decorators.length - 1, decorator; i2 >= 0; i2--)
    if (decorator = decorators[i2])
      result = (kind ? decorator(target, key, result) : decorator(result)) || result;
  if (kind && result) __defProp(target, key, result);
  return result;
};
var __decorateParam = (index, decorator) => (target, key) => decorator(target, key, index);

// all.ts
var Foo = class {
  constructor(arg0, arg1) {
    this.mDef = 1;
  }
  method(arg0, arg1) {
    return new Foo();
  }
  static sMethod(arg0, arg1) {
    return new Foo();
  }
};
Foo.sDef = new Foo();
__decorateClass([
  x,
  y
], Foo.prototype, "mUndef", 2);
__decorateClass([
  x,
  y
], Foo.prototype, "mDef", 2);
__decorateClass([
  x,
  y,
  __decorateParam(0, x0),
  __decorateParam(0, y0),
  __decorateParam(1, x1),
  __decorateParam(1, y1)
], Foo.prototype, "method", 1);
__decorateClass([
  x,
  y
], Foo.prototype, "mDecl", 2);
__decorateClass([
  x,
  y
], Foo.prototype, "mAbst", 2);
__decorateClass([
  x,
  y
], Foo, "sUndef", 2);
__decorateClass([
  x,
  y
], Foo, "sDef", 2);
__decorateClass([
  x,
  y,
  __decorateParam(0, x0),
  __decorateParam(0, y0),
  __decorateParam(1, x1),
  __decorateParam(1, y1)
], Foo, "sMethod", 1);
__decorateClass([
  x,
  y
], Foo, "mDecl", 2);
Foo = __decorateClass([
  x.y(),
  new y.x(),
  __decorateParam(0, x0),
  __decorateParam(0, y0),
  __decorateParam(1, x1),
  __decorateParam(1, y1)
], Foo);

// all_computed.ts
var _a, _b, _c, _d, _e, _f, _g, _h, _i, _j, _k;
var Foo2 = class {
  constructor() {
    this[_j] = 1;
    this[_f] = 2;
  }
  [(_k = mUndef(), _j = mDef(), _i = method())](arg0, arg1) {
    return new Foo2();
  }
  static [(_h = mDecl(), _g = mAbst(), xUndef(), _f = xDef(), yUndef(), _e = yDef(), _d = sUndef(), _c = sDef(), _b = sMethod(), _a = mDecl(), _b)](arg0, arg1) {
    return new Foo2();
  }
};
Foo2[_e] = 3;
Foo2[_c] = new Foo2();
__decorateClass([
  x,
  y
], Foo2.prototype, _k, 2);
__decorateClass([
  x,
  y
], Foo2.prototype, _j, 2);
__decorateClass([
  x,
  y,
  __decorateParam(0, x0),
  __decorateParam(0, y0),
  __decorateParam(1, x1),
  __decorateParam(1, y1)
], Foo2.prototype, _i, 1);
__decorateClass([
  x,
  y
], Foo2.prototype, _h, 2);
__decorateClass([
  x,
  y
], Foo2.prototype, _g, 2);
__decorateClass([
  x,
  y
], Foo2, _d, 2);
__decorateClass([
  x,
  y
], Foo2, _c, 2);
__decorateClass([
  x,
  y,
  __decorateParam(0, x0),
  __decorateParam(0, y0),
  __decorateParam(1, x1),
  __decorateParam(1, y1)
], Foo2, _b, 1);
__decorateClass([
  x,
  y
], Foo2, _a, 2);
Foo2 = __decorateClass([
  x?.[_ + "y"](),
  new y()?.[_ + "x"]()
], Foo2);

// a.ts
var a_class = class {
  fn() {
    return new a_class();
  }
};
a_class.z = new a_class();
a_class = __decorateClass([
  x(() => 0),
  y(() => 1)
], a_class);
var a = a_class;

// b.ts
var b_class = class {
  fn() {
    return new b_class();
  }
};
b_class.z = new b_class();
b_class = __decorateClass([
  x(() => 0),
  y(() => 1)
], b_class);
var b = b_class;

// c.ts
var c = class {
  fn() {
    return new c();
  }
};
c.z = new c();
c = __decorateClass([
  x(() => 0),
  y(() => 1)
], c);

// d.ts
var d = class {
  fn() {
    return new d();
  }
};
d.z = new d();
d = __decorateClass([
  x(() => 0),
  y(() => 1)
], d);

// e.ts
var e_default = class {
};
e_default = __decorateClass([
  x(() => 0),
  y(() => 1)
], e_default);

// f.ts
var f = class {
  fn() {
    return new f();
  }
};
f.z = new f();
f = __decorateClass([
  x(() => 0),
  y(() => 1)
], f);

// g.ts
var g_default = class {
};
g_default = __decorateClass([
  x(() => 0),
  y(() => 1)
], g_default);

// h.ts
var h = class {
  fn() {
    return new h();
  }
};
h.z = new h();
h = __decorateClass([
  x(() => 0),
  y(() => 1)
], h);

// i.ts
var i_class = class {
};
__decorateClass([
  x(() => 0),
  y(() => 1)
], i_class.prototype, "foo", 2);
var i = i_class;

// j.ts
var j = class {
  foo() {
  }
};
__decorateClass([
  x(() => 0),
  y(() => 1)
], j.prototype, "foo", 1);

// k.ts
var k_default = class {
  foo(x2) {
  }
};
__decorateClass([
  __decorateParam(0, x(() => 0)),
  __decorateParam(0, y(() => 1))
], k_default.prototype, "foo", 1);

// arguments.ts
function dec(x2) {
}
function fn(x2) {
  var _a2;
  class Foo3 {
    [_a2 = arguments[0]]() {
    }
  }
  __decorateClass([
    dec(arguments[0])
  ], Foo3.prototype, _a2, 1);
  return Foo3;
}

// entry.js
console.log(Foo, Foo2, a, b, c, d, e_default, f, g_default, h, i, j, k_default, fn);

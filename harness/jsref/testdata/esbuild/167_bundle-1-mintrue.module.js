(()=>{var t=class s{static bar=s.#t;static get#t(){return 123}};console.log(t.bar===123);var a=class{static bar=this.#t;static get#t(){return 123}};console.log(a.bar===123);})();

var __create = Object.create;
var __defProp = Object.defineProperty;
var __getOwnPropDesc = Object.getOwnPropertyDescriptor;
var __knownSymbol = (name, symbol) => (symbol = Symbol[name]) ? symbol : /* @__PURE__ */ Symbol.for("Symbol." + name);
var __typeError = (msg) => {
  throw TypeError(msg);
};
var __defNormalProp = (obj, key, value) => key in obj ? __defProp(obj, key, { enumerable: true, configurable: true, writable: true, value }) : obj[key] = value;
var __name = (target, value) => __defProp(target, "name", { value, configurable: true });
var __decoratorStart = (base) => [, , , __create(base?.[__knownSymbol("metadata")] ?? null)];
var __decoratorStrings = ["class", "method", "getter", "setter", "accessor", "field", "value", "get", "set"];
var __expectFn = (fn) => fn !== void 0 && typeof fn !== "function" ? __typeError("Function expected") : fn;
var __decoratorContext = (kind, name, done, metadata, fns) => ({ kind: __decoratorStrings[kind], name, metadata, addInitializer: (fn) => done._ ? __typeError("Already initialized") : fns.push(__expectFn(fn || null)) });
var __decoratorMetadata = (array, target) => __defNormalProp(target, __knownSymbol("metadata"), array[3]);
var __runInitializers = (array, flags, self, value) => {
  for (var i = 0, fns = array[flags >> 1], n = fns && fns.length; i < n; i++) flags & 1 ? fns[i].call(self) : value = fns[i].call(self, value);
  return value;
};
var __decorateElement = (array, flags, name, decorators, target, extra) => {
  var fn, it, done, ctx, access, k = flags & 7, s = !!(flags & 8), p = !!(flags & 16);
  var j = k > 3 ? array.length + 1 : k ? s ? 1 : 2 : 0, key = __decoratorStrings[k + 5];
  var initializers = k > 3 && (array[j - 1] = []), extraInitializers = array[j] || (array[j] = []);
  var desc = k && (!p && !s && (target = target.prototype), k < 5 && (k > 3 || !p) && __getOwnPropDesc(k < 4 ? target : { get [name]() {
    return __privateGet(this, extra);
  }, set [name](x) {
    return __privateSet(this, extra, x);
  } }, name));
  k ? p && k < 4 && __name(extra, (k > 2 ? "set " : k > 1 ? "get " : "") + name) : __name(target, name);
  for (var i = decorators.length - 1; i >= 0; i--) {
    ctx = __decoratorContext(k, name, done = {}, array[3], extraInitializers);
    if (k) {
      ctx.static = s, ctx.private = p, access = ctx.access = { has: p ? (x) => __privateIn(target, x) : (x) => name in x };
      if (k ^ 3) access.get = p ? (x) => (k ^ 1 ? __privateGet : __privateMethod)(x, target, k ^ 4 ? extra : desc.get) : (x) => x[name];
      if (k > 2) access.set = p ? (x, y) => __privateSet(x, target, y, k ^ 4 ? extra : desc.set) : (x, y) => x[name] = y;
    }
    it = (0, decorators[i])(k ? k < 4 ? p ? extra : desc[key] : k > 4 ? void 0 : { get: desc.get, set: desc.set } : target, ctx), done._ = 1;
    if (k ^ 4 || it === void 0) __expectFn(it) && (k > 4 ? initializers.unshift(it) : k ? p ? extra = it : desc[key] = it : target = it);
    else if (typeof it !== "object" || it === null) __typeError("Object expected");
    else __expectFn(fn = it.get) && (desc.get = fn), __expectFn(fn = it.set) && (desc.set = fn), __expectFn(fn = it.init) && initializers.unshift(fn);
  }
  return k || __decoratorMetadata(array, target), desc && __defProp(target, name, desc), p ? k ^ 4 ? extra : desc : target;
};
var __accessCheck = (obj, member, msg) => member.has(obj) || __typeError("Cannot " + msg);
var __privateIn = (member, obj) => Object(obj) !== obj ? __typeError('Cannot use the "in" operator on this value') : member.has(obj);
var __privateGet = (obj, member, getter) => (__accessCheck(obj, member, "read from private field"), getter ? getter.call(obj) : member.get(obj));
var __privateAdd = (obj, member, value) => member.has(obj) ? __typeError("Cannot add the same private member more than once") : member instanceof WeakSet ? member.add(obj) : member.set(obj, value);
var __privateSet = (obj, member, value, setter) => (__accessCheck(obj, member, "write to private field"), setter ? setter.call(obj, value) : member.set(obj, value), value);
var __privateMethod = (obj, member, method) => (__accessCheck(obj, member, "access private method"), method);
var _foo_dec, _a, _init, _foo;
const _Foo = class _Foo extends (_a = Bar, _foo_dec = [dec], _a) {
  constructor() {
    super(...arguments);
    __privateAdd(this, _foo, __runInitializers(_init, 8, this, _Foo)), __runInitializers(_init, 11, this);
  }
};
_init = __decoratorStart(_a);
_foo = new WeakMap();
__decorateElement(_init, 4, "foo", _foo_dec, _Foo, _foo);
__decoratorMetadata(_init, _Foo);
let Foo = _Foo;

var __defProp = Object.defineProperty;
var __getOwnPropDesc = Object.getOwnPropertyDescriptor;
var __decorateClass = (decorators, target, key, kind) => {
  var result = kind > 1 ? void 0 : kind ? __getOwnPropDesc(target, key) : target;
  for (var i = decorators.length - 1, decorator; i >= 0; i--)
    if (decorator = decorators[i])
      result = (kind ? decorator(target, key, result) : decorator(result)) || result;
  if (kind && result) __defProp(target, key, result);
  return result;
};
var __decorateParam = (index, decorator) => (target, key) => decorator(target, key, index);

// entry.ts
var foo = 1;
var Foo = class {
  method1(foo2 = 2) {
  }
  method2(foo2 = 3) {
  }
};
__decorateClass([
  __decorateParam(0, dec(foo))
], Foo.prototype, "method1", 1);
__decorateClass([
  __decorateParam(0, dec(() => foo))
], Foo.prototype, "method2", 1);
var Bar = class {
  static {
    this.x = class {
      static {
        this.y = () => {
          let bar = 1;
          let Baz = class {
            method1() {
            }
            method2() {
            }
            method3(bar2) {
            }
            method4(bar2) {
            }
          };
          __decorateClass([
            dec(bar)
          ], Baz.prototype, "method1", 1);
          __decorateClass([
            dec(() => bar)
          ], Baz.prototype, "method2", 1);
          __decorateClass([
            __decorateParam(0, dec(() => bar))
          ], Baz.prototype, "method3", 1);
          __decorateClass([
            __decorateParam(0, dec(() => bar))
          ], Baz.prototype, "method4", 1);
          Baz = __decorateClass([
            dec(bar),
            dec(() => bar)
          ], Baz);
          return Baz;
        };
      }
    };
  }
};

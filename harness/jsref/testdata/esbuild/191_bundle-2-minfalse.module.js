var __create = Object.create;
var __defProp = Object.defineProperty;
var __getOwnPropDesc = Object.getOwnPropertyDescriptor;
var __getOwnPropNames = Object.getOwnPropertyNames;
var __getProtoOf = Object.getPrototypeOf;
var __hasOwnProp = Object.prototype.hasOwnProperty;
var __glob = (map) => (path) => {
  var fn = map[path];
  if (fn) return fn();
  throw new Error("Module not found in bundle: " + path);
};
var __commonJS = (cb, mod) => function __require() {
  try {
    return mod || (0, cb[__getOwnPropNames(cb)[0]])((mod = { exports: {} }).exports, mod), mod.exports;
  } catch (e) {
    throw mod = 0, e;
  }
};
var __copyProps = (to, from, except, desc) => {
  if (from && typeof from === "object" || typeof from === "function") {
    for (let key of __getOwnPropNames(from))
      if (!__hasOwnProp.call(to, key) && key !== except)
        __defProp(to, key, { get: () => from[key], enumerable: !(desc = __getOwnPropDesc(from, key)) || desc.enumerable });
  }
  return to;
};
var __toESM = (mod, isNodeMode, target) => (target = mod != null ? __create(__getProtoOf(mod)) : {}, __copyProps(
  // If the importer is in node compatibility mode or this is not an ESM
  // file that has been converted to a CommonJS file using a Babel-
  // compatible transform (i.e. "__esModule" has not been set), then set
  // "default" to the CommonJS "module.exports" for node compatibility.
  isNodeMode || !mod || !mod.__esModule ? __defProp(target, "default", { value: mod, enumerable: true }) : target,
  mod
));

// src/a.js
var require_a = __commonJS({
  "src/a.js"(exports, module2) {
    module2.exports = "a";
  }
});

// src/b.js
var require_b = __commonJS({
  "src/b.js"(exports, module2) {
    module2.exports = "b";
  }
});

// require("./src/**/*") in entry.js
var globRequire_src = __glob({
  "./src/a.js": () => require_a(),
  "./src/b.js": () => require_b()
});

// import("./src/**/*") in entry.js
var globImport_src = __glob({
  "./src/a.js": () => Promise.resolve().then(() => __toESM(require_a())),
  "./src/b.js": () => Promise.resolve().then(() => __toESM(require_b()))
});

// entry.js
var ab = Math.random() < 0.5 ? "a.js" : "b.js";
console.log({
  concat: {
    require: globRequire_src("./src/" + ab),
    import: globImport_src("./src/" + ab)
  },
  template: {
    require: globRequire_src(`./src/${ab}`),
    import: globImport_src(`./src/${ab}`)
  }
});

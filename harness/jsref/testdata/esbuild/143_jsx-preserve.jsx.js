class Foo {
  #x;
  unary() {
    this.#x++;
    this.#x--;
    ++this.#x;
    --this.#x;
  }
  binary() {
    this.#x = 1;
    this.#x += 1;
    this.#x -= 1;
    this.#x *= 1;
    this.#x /= 1;
    this.#x %= 1;
    this.#x **= 1;
    this.#x <<= 1;
    this.#x >>= 1;
    this.#x >>>= 1;
    this.#x &= 1;
    this.#x |= 1;
    this.#x ^= 1;
    this.#x &&= 1;
    this.#x ||= 1;
    this.#x ??= 1;
  }
}

(() => {
  // entry.js
  var Derived = class extends Base {
    async test(key) {
      return [
        await super.foo,
        await super[key],
        await ([super.foo] = [0]),
        await ([super[key]] = [0]),
        await (super.foo = 1),
        await (super[key] = 1),
        await (super.foo += 2),
        await (super[key] += 2),
        await ++super.foo,
        await ++super[key],
        await super.foo++,
        await super[key]++,
        await super.foo.name,
        await super[key].name,
        await super.foo?.name,
        await super[key]?.name,
        await super.foo(1, 2),
        await super[key](1, 2),
        await super.foo?.(1, 2),
        await super[key]?.(1, 2),
        await (() => super.foo)(),
        await (() => super[key])(),
        await (() => super.foo())(),
        await (() => super[key]())(),
        await super.foo``,
        await super[key]``
      ];
    }
  };
  var Derived2 = class extends Base {
    async a() {
      return class {
        [super.foo] = 123;
      };
    }
    b = async () => class {
      [super.foo] = 123;
    };
  };
  for (let i = 0; i < 3; i++) {
    objs.push({
      __proto__: {
        foo() {
          return i;
        }
      },
      async bar() {
        return super.foo();
      }
    });
  }
})();

var __defProp = Object.defineProperty;
var __defNormalProp = (obj, key, value) => key in obj ? __defProp(obj, key, { enumerable: true, configurable: true, writable: true, value }) : obj[key] = value;
var __publicField = (obj, key, value) => __defNormalProp(obj, typeof key !== "symbol" ? key + "" : key, value);
class Derived extends Base {
  async test(key) {
    return [
      await super.foo,
      await super[key],
      await ([super.foo] = [0]),
      await ([super[key]] = [0]),
      await (super.foo = 1),
      await (super[key] = 1),
      await (super.foo += 2),
      await (super[key] += 2),
      await ++super.foo,
      await ++super[key],
      await super.foo++,
      await super[key]++,
      await super.foo.name,
      await super[key].name,
      await super.foo?.name,
      await super[key]?.name,
      await super.foo(1, 2),
      await super[key](1, 2),
      await super.foo?.(1, 2),
      await super[key]?.(1, 2),
      await (() => super.foo)(),
      await (() => super[key])(),
      await (() => super.foo())(),
      await (() => super[key]())(),
      await super.foo``,
      await super[key]``
    ];
  }
}
let fn = async () => class extends Base {
  constructor() {
    super(...arguments);
    __publicField(this, "a", super.a);
    __publicField(this, "b", () => super.b);
  }
  c() {
    return super.c;
  }
  d() {
    return () => super.d;
  }
};
class Derived2 extends Base {
  constructor() {
    super(...arguments);
    __publicField(this, "b", async () => {
      var _a;
      return _a = super.foo, class {
        constructor() {
          __publicField(this, _a, 123);
        }
      };
    });
  }
  async a() {
    var _a;
    return _a = super.foo, class {
      constructor() {
        __publicField(this, _a, 123);
      }
    };
  }
}
for (let i = 0; i < 3; i++) {
  objs.push({
    __proto__: {
      foo() {
        return i;
      }
    },
    async bar() {
      return super.foo();
    }
  });
}

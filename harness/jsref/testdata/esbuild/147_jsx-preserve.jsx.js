export class Foo {
  get #foo() {
    return this.foo;
  }
  set #bar(val) {
    this.bar = val;
  }
  get #prop() {
    return this.prop;
  }
  set #prop(val) {
    this.prop = val;
  }
  foo(fn) {
    fn().#foo;
    fn().#bar = 1;
    fn().#prop;
    fn().#prop = 2;
  }
  unary(fn) {
    fn().#prop++;
    fn().#prop--;
    ++fn().#prop;
    --fn().#prop;
  }
  binary(fn) {
    fn().#prop = 1;
    fn().#prop += 1;
    fn().#prop -= 1;
    fn().#prop *= 1;
    fn().#prop /= 1;
    fn().#prop %= 1;
    fn().#prop **= 1;
    fn().#prop <<= 1;
    fn().#prop >>= 1;
    fn().#prop >>>= 1;
    fn().#prop &= 1;
    fn().#prop |= 1;
    fn().#prop ^= 1;
    fn().#prop &&= 1;
    fn().#prop ||= 1;
    fn().#prop ??= 1;
  }
}

class Derived extends Base {
  static test = async (key) => {
    return [
      await super.foo,
      await super[key],
      await ([super.foo] = [0]),
      await ([super[key]] = [0]),
      await (super.foo = 1),
      await (super[key] = 1),
      await (super.foo += 2),
      await (super[key] += 2),
      await ++super.foo,
      await ++super[key],
      await super.foo++,
      await super[key]++,
      await super.foo.name,
      await super[key].name,
      await super.foo?.name,
      await super[key]?.name,
      await super.foo(1, 2),
      await super[key](1, 2),
      await super.foo?.(1, 2),
      await super[key]?.(1, 2),
      await (() => super.foo)(),
      await (() => super[key])(),
      await (() => super.foo())(),
      await (() => super[key]())(),
      await super.foo``,
      await super[key]``
    ];
  };
}
let fn = async () => class extends Base {
  static a = super.a;
  static b = () => super.b;
  static c() {
    return super.c;
  }
  static d() {
    return () => super.d;
  }
};
class Derived2 extends Base {
  static async a() {
    return class {
      [super.foo] = 123;
    };
  }
  static b = async () => class {
    [super.foo] = 123;
  };
}

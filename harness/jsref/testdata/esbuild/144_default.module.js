const old = console.log;
const fn = (...args) => old.apply(console, ["log:"].concat(args));
export { fn as "console.log" };

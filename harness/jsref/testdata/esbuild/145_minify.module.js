const l=console.log,c=(...o)=>l.apply(console,["log:"].concat(o));export{c as"console.log"};

var __defProp = Object.defineProperty;
var __getOwnPropDesc = Object.getOwnPropertyDescriptor;
var __getOwnPropNames = Object.getOwnPropertyNames;
var __hasOwnProp = Object.prototype.hasOwnProperty;
var __esm = (fn, res, err) => function __init() {
  if (err) throw err[0];
  try {
    return fn && (res = (0, fn[__getOwnPropNames(fn)[0]])(fn = 0)), res;
  } catch (e) {
    throw err = [e], e;
  }
};
var __export = (target, all) => {
  for (var name in all)
    __defProp(target, name, { get: all[name], enumerable: true });
};
var __copyProps = (to, from, except, desc) => {
  if (from && typeof from === "object" || typeof from === "function") {
    for (let key of __getOwnPropNames(from))
      if (!__hasOwnProp.call(to, key) && key !== except)
        __defProp(to, key, { get: () => from[key], enumerable: !(desc = __getOwnPropDesc(from, key)) || desc.enumerable });
  }
  return to;
};
var __toCommonJS = (mod) => __copyProps(__defProp({}, "__esModule", { value: true }), mod);

// a.js
var abc;
var init_a = __esm({
  "a.js"() {
    abc = void 0;
  }
});

// b.js
var b_exports = {};
__export(b_exports, {
  xyz: () => xyz
});
var xyz;
var init_b = __esm({
  "b.js"() {
    xyz = null;
  }
});

// commonjs.js
var commonjs_exports = {};
__export(commonjs_exports, {
  C: () => Class,
  Class: () => Class,
  Fn: () => Fn,
  abc: () => abc,
  b: () => b_exports,
  c: () => c,
  default: () => commonjs_default,
  l: () => l,
  v: () => v
});
function Fn() {
}
var commonjs_default, v, l, c, Class;
var init_commonjs = __esm({
  "commonjs.js"() {
    init_a();
    init_b();
    commonjs_default = 123;
    v = 234;
    l = 234;
    c = 234;
    Class = class {
    };
  }
});

// c.js
var c_exports = {};
__export(c_exports, {
  default: () => c_default
});
var c_default;
var init_c = __esm({
  "c.js"() {
    c_default = class {
    };
  }
});

// d.js
var d_exports = {};
__export(d_exports, {
  default: () => Foo
});
var Foo;
var init_d = __esm({
  "d.js"() {
    Foo = class {
    };
    Foo.prop = 123;
  }
});

// e.js
var e_exports = {};
__export(e_exports, {
  default: () => e_default
});
function e_default() {
}
var init_e = __esm({
  "e.js"() {
  }
});

// f.js
var f_exports = {};
__export(f_exports, {
  default: () => foo
});
function foo() {
}
var init_f = __esm({
  "f.js"() {
    foo.prop = 123;
  }
});

// g.js
var g_exports = {};
__export(g_exports, {
  default: () => g_default
});
async function g_default() {
}
var init_g = __esm({
  "g.js"() {
  }
});

// h.js
var h_exports = {};
__export(h_exports, {
  default: () => foo2
});
async function foo2() {
}
var init_h = __esm({
  "h.js"() {
    foo2.prop = 123;
  }
});

// entry.js
init_commonjs();
init_c();
init_d();
init_e();
init_f();
init_g();
init_h();

export class Foo{*#a(){}async#s(){}async*#c(){}static*#t(){}static async#g(){}static async*#n(){}}

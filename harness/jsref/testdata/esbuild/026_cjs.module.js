var __defProp = Object.defineProperty;
var __getOwnPropDesc = Object.getOwnPropertyDescriptor;
var __getOwnPropNames = Object.getOwnPropertyNames;
var __hasOwnProp = Object.prototype.hasOwnProperty;
var __export = (target, all) => {
  for (var name in all)
    __defProp(target, name, { get: all[name], enumerable: true });
};
var __copyProps = (to, from, except, desc) => {
  if (from && typeof from === "object" || typeof from === "function") {
    for (let key of __getOwnPropNames(from))
      if (!__hasOwnProp.call(to, key) && key !== except)
        __defProp(to, key, { get: () => from[key], enumerable: !(desc = __getOwnPropDesc(from, key)) || desc.enumerable });
  }
  return to;
};
var __toCommonJS = (mod) => __copyProps(__defProp({}, "__esModule", { value: true }), mod);
var stdin_exports = {};
__export(stdin_exports, {
  default: () => stdin_default
});
module.exports = __toCommonJS(stdin_exports);
var require_entry = __commonJS({
  "entry.js"(exports) {
    if (shouldBeExportsNotThis) {
      console.log(exports);
      console.log((x = exports) => exports);
      console.log({ x: exports });
      console.log(class extends exports.foo {
      });
      console.log(class {
        [exports.foo];
      });
      console.log(class {
        [exports.foo]() {
        }
      });
      console.log(class {
        static [exports.foo];
      });
      console.log(class {
        static [exports.foo]() {
        }
      });
    }
    if (shouldBeThisNotExports) {
      console.log(class {
        foo = this;
      });
      console.log(class {
        foo() {
          this;
        }
      });
      console.log(class {
        static foo = this;
      });
      console.log(class {
        static foo() {
          this;
        }
      });
    }
  }
});
var stdin_default = require_entry();

var __typeError = (msg) => {
  throw TypeError(msg);
};
var __privateAdd = (obj, member, value) => member.has(obj) ? __typeError("Cannot add the same private member more than once") : member instanceof WeakSet ? member.add(obj) : member.set(obj, value);
var _Foo_instances, g_fn, a_fn, ag_fn, _Foo_static, sg_fn, sa_fn, sag_fn;
export class Foo {
  constructor() {
    __privateAdd(this, _Foo_instances);
  }
}
_Foo_instances = new WeakSet();
g_fn = function* () {
};
a_fn = async function() {
};
ag_fn = async function* () {
};
_Foo_static = new WeakSet();
sg_fn = function* () {
};
sa_fn = async function() {
};
sag_fn = async function* () {
};
__privateAdd(Foo, _Foo_static);

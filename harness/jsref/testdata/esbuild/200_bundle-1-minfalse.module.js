(() => {
  var __create = Object.create;
  var __defProp = Object.defineProperty;
  var __getOwnPropDesc = Object.getOwnPropertyDescriptor;
  var __getOwnPropNames = Object.getOwnPropertyNames;
  var __getProtoOf = Object.getPrototypeOf;
  var __hasOwnProp = Object.prototype.hasOwnProperty;
  var __commonJS = (cb, mod) => function __require() {
    try {
      return mod || (0, cb[__getOwnPropNames(cb)[0]])((mod = { exports: {} }).exports, mod), mod.exports;
    } catch (e) {
      throw mod = 0, e;
    }
  };
  var __copyProps = (to, from, except, desc) => {
    if (from && typeof from === "object" || typeof from === "function") {
      for (let key of __getOwnPropNames(from))
        if (!__hasOwnProp.call(to, key) && key !== except)
          __defProp(to, key, { get: () => from[key], enumerable: !(desc = __getOwnPropDesc(from, key)) || desc.enumerable });
    }
    return to;
  };
  var __toESM = (mod, isNodeMode, target) => (target = mod != null ? __create(__getProtoOf(mod)) : {}, __copyProps(
    // If the importer is in node compatibility mode or this is not an ESM
    // file that has been converted to a CommonJS file using a Babel-
    // compatible transform (i.e. "__esModule" has not been set), then set
    // "default" to the CommonJS "module.exports" for node compatibility.
    isNodeMode || !mod || !mod.__esModule ? __defProp(target, "default", { value: mod, enumerable: true }) : target,
    mod
  ));

  // Users/user/project/node_modules/demo-pkg/node-pkg-browser.js
  var require_node_pkg_browser = __commonJS({
    "Users/user/project/node_modules/demo-pkg/node-pkg-browser.js"(exports, module) {
      module.exports = function() {
        return 123;
      };
    }
  });

  // Users/user/project/node_modules/demo-pkg/index.js
  var require_demo_pkg = __commonJS({
    "Users/user/project/node_modules/demo-pkg/index.js"(exports, module) {
      var fn2 = require_node_pkg_browser();
      module.exports = function() {
        return fn2();
      };
    }
  });

  // Users/user/project/src/entry.js
  var import_demo_pkg = __toESM(require_demo_pkg());
  console.log((0, import_demo_pkg.default)());
})();

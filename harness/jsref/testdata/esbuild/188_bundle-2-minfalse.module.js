var __defProp = Object.defineProperty;
var __getOwnPropDesc = Object.getOwnPropertyDescriptor;
var __getOwnPropNames = Object.getOwnPropertyNames;
var __hasOwnProp = Object.prototype.hasOwnProperty;
var __export = (target, all) => {
  for (var name in all)
    __defProp(target, name, { get: all[name], enumerable: true });
};
var __copyProps = (to, from, except, desc) => {
  if (from && typeof from === "object" || typeof from === "function") {
    for (let key of __getOwnPropNames(from))
      if (!__hasOwnProp.call(to, key) && key !== except)
        __defProp(to, key, { get: () => from[key], enumerable: !(desc = __getOwnPropDesc(from, key)) || desc.enumerable });
  }
  return to;
};
var __toCommonJS = (mod) => __copyProps(__defProp({}, "__esModule", { value: true }), mod);

// entry.js
var entry_exports = {};
__export(entry_exports, {
  bar1: () => bar1_default,
  bar2: () => bar2_default,
  bar3: () => bar3_default,
  bar4: () => bar4_default,
  baz1: () => baz1_default,
  baz2: () => baz2_default,
  foo1: () => foo1_default,
  foo2: () => foo2_default,
  foo3: () => foo3_default,
  foo4: () => foo4_default
});
module.exports = __toCommonJS(entry_exports);

// foo1.js
var foo1_default = class extends x {
  static foo1() {
    return async () => super.foo("foo1");
  }
};

// foo2.js
var foo2_default = class extends x {
  static foo2() {
    return async () => () => super.foo("foo2");
  }
};

// foo3.js
var foo3_default = class extends x {
  static foo3() {
    return () => async () => super.foo("foo3");
  }
};

// foo4.js
var foo4_default = class extends x {
  static foo4() {
    return async () => async () => super.foo("foo4");
  }
};

// bar1.js
var bar1_default = class extends x {
  static bar1 = async () => super.foo("bar1");
};

// bar2.js
var bar2_default = class extends x {
  static bar2 = async () => () => super.foo("bar2");
};

// bar3.js
var bar3_default = class extends x {
  static bar3 = () => async () => super.foo("bar3");
};

// bar4.js
var bar4_default = class extends x {
  static bar4 = async () => async () => super.foo("bar4");
};

// baz1.js
var baz1_default = class extends x {
  static async baz1() {
    return () => super.foo("baz1");
  }
};

// baz2.js
var baz2_default = class extends x {
  static async baz2() {
    return () => () => super.foo("baz2");
  }
};

// outer.js
var outer_default = (async function() {
  class y extends z {
    static foo = async () => super.foo();
  }
  await y.foo()();
})();

var __getOwnPropNames = Object.getOwnPropertyNames;
var __commonJS = (cb, mod) => function __require() {
  try {
    return mod || (0, cb[__getOwnPropNames(cb)[0]])((mod = { exports: {} }).exports, mod), mod.exports;
  } catch (e) {
    throw mod = 0, e;
  }
};

// entry.js
var require_entry = __commonJS({
  "entry.js"(exports) {
    if (shouldBeExportsNotThis) {
      console.log(exports);
      console.log((x = exports) => exports);
      console.log({ x: exports });
      console.log(class extends exports.foo {
      });
      console.log(class {
        [exports.foo];
      });
      console.log(class {
        [exports.foo]() {
        }
      });
      console.log(class {
        static [exports.foo];
      });
      console.log(class {
        static [exports.foo]() {
        }
      });
    }
    if (shouldBeThisNotExports) {
      console.log(class {
        foo = this;
      });
      console.log(class {
        foo() {
          this;
        }
      });
      console.log(class {
        static foo = this;
      });
      console.log(class {
        static foo() {
          this;
        }
      });
    }
  }
});
export default require_entry();

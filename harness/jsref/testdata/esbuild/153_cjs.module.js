#!/usr/bin/env b
var __defProp = Object.defineProperty;
var __getOwnPropDesc = Object.getOwnPropertyDescriptor;
var __getOwnPropNames = Object.getOwnPropertyNames;
var __hasOwnProp = Object.prototype.hasOwnProperty;
var __export = (target, all) => {
  for (var name in all)
    __defProp(target, name, { get: all[name], enumerable: true });
};
var __copyProps = (to, from, except, desc) => {
  if (from && typeof from === "object" || typeof from === "function") {
    for (let key of __getOwnPropNames(from))
      if (!__hasOwnProp.call(to, key) && key !== except)
        __defProp(to, key, { get: () => from[key], enumerable: !(desc = __getOwnPropDesc(from, key)) || desc.enumerable });
  }
  return to;
};
var __toCommonJS = (mod) => __copyProps(__defProp({}, "__esModule", { value: true }), mod);
var stdin_exports = {};
__export(stdin_exports, {
  code: () => code
});
module.exports = __toCommonJS(stdin_exports);
const code = 0;

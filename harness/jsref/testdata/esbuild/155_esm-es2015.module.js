var __defProp = Object.defineProperty;
var __defNormalProp = (obj, key, value) => key in obj ? __defProp(obj, key, { enumerable: true, configurable: true, writable: true, value }) : obj[key] = value;
var __publicField = (obj, key, value) => __defNormalProp(obj, typeof key !== "symbol" ? key + "" : key, value);
class Foo {
  constructor() {
    __publicField(this, "x", new.target);
  }
}

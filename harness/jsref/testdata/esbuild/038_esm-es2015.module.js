var __defProp = Object.defineProperty;
var __getOwnPropNames = Object.getOwnPropertyNames;
var __getProtoOf = Object.getPrototypeOf;
var __reflectGet = Reflect.get;
var __reflectSet = Reflect.set;
var __defNormalProp = (obj, key, value) => key in obj ? __defProp(obj, key, { enumerable: true, configurable: true, writable: true, value }) : obj[key] = value;
var __commonJS = (cb, mod) => function __require() {
  try {
    return mod || (0, cb[__getOwnPropNames(cb)[0]])((mod = { exports: {} }).exports, mod), mod.exports;
  } catch (e) {
    throw mod = 0, e;
  }
};
var __publicField = (obj, key, value) => __defNormalProp(obj, typeof key !== "symbol" ? key + "" : key, value);
var __superGet = (cls, obj, key) => __reflectGet(__getProtoOf(cls), key, obj);
var __superSet = (cls, obj, key, val) => (__reflectSet(__getProtoOf(cls), key, val, obj), val);
var __superWrapper = (cls, obj, key) => ({
  get _() {
    return __superGet(cls, obj, key);
  },
  set _(val) {
    __superSet(cls, obj, key, val);
  }
});
var __async = (__this, __arguments, generator) => {
  return new Promise((resolve, reject) => {
    var fulfilled = (value) => {
      try {
        step(generator.next(value));
      } catch (e) {
        reject(e);
      }
    };
    var rejected = (value) => {
      try {
        step(generator.throw(value));
      } catch (e) {
        reject(e);
      }
    };
    var step = (x) => x.done ? resolve(x.value) : Promise.resolve(x.value).then(fulfilled, rejected);
    step((generator = generator.apply(__this, __arguments)).next());
  });
};
var require_stdin = __commonJS({
  "<stdin>"(exports) {
    class Derived extends Base {
      test(key) {
        return __async(this, null, function* () {
          var _a, _b, _c, _d;
          return [
            yield __superGet(Derived.prototype, this, "foo"),
            yield __superGet(Derived.prototype, this, key),
            yield [__superWrapper(Derived.prototype, this, "foo")._] = [0],
            yield [__superWrapper(Derived.prototype, this, key)._] = [0],
            yield __superSet(Derived.prototype, this, "foo", 1),
            yield __superSet(Derived.prototype, this, key, 1),
            yield __superSet(Derived.prototype, this, "foo", __superGet(Derived.prototype, this, "foo") + 2),
            yield __superSet(Derived.prototype, this, key, __superGet(Derived.prototype, this, key) + 2),
            yield ++__superWrapper(Derived.prototype, this, "foo")._,
            yield ++__superWrapper(Derived.prototype, this, key)._,
            yield __superWrapper(Derived.prototype, this, "foo")._++,
            yield __superWrapper(Derived.prototype, this, key)._++,
            yield __superGet(Derived.prototype, this, "foo").name,
            yield __superGet(Derived.prototype, this, key).name,
            yield (_a = __superGet(Derived.prototype, this, "foo")) == null ? void 0 : _a.name,
            yield (_b = __superGet(Derived.prototype, this, key)) == null ? void 0 : _b.name,
            yield __superGet(Derived.prototype, this, "foo").call(this, 1, 2),
            yield __superGet(Derived.prototype, this, key).call(this, 1, 2),
            yield (_c = __superGet(Derived.prototype, this, "foo")) == null ? void 0 : _c.call(this, 1, 2),
            yield (_d = __superGet(Derived.prototype, this, key)) == null ? void 0 : _d.call(this, 1, 2),
            yield (() => __superGet(Derived.prototype, this, "foo"))(),
            yield (() => __superGet(Derived.prototype, this, key))(),
            yield (() => __superGet(Derived.prototype, this, "foo").call(this))(),
            yield (() => __superGet(Derived.prototype, this, key).call(this))(),
            yield __superGet(Derived.prototype, this, "foo").bind(this)``,
            yield __superGet(Derived.prototype, this, key).bind(this)``
          ];
        });
      }
    }
    let fn = () => __async(null, null, function* () {
      return class extends Base {
        constructor() {
          super(...arguments);
          __publicField(this, "a", super.a);
          __publicField(this, "b", () => super.b);
        }
        c() {
          return super.c;
        }
        d() {
          return () => super.d;
        }
      };
    });
    class Derived2 extends Base {
      constructor() {
        super(...arguments);
        __publicField(this, "b", () => __async(null, null, function* () {
          var _a;
          return _a = __superGet(Derived2.prototype, this, "foo"), class {
            constructor() {
              __publicField(this, _a, 123);
            }
          };
        }));
      }
      a() {
        return __async(this, null, function* () {
          var _a;
          return _a = __superGet(Derived2.prototype, this, "foo"), class {
            constructor() {
              __publicField(this, _a, 123);
            }
          };
        });
      }
    }
    for (let i = 0; i < 3; i++) {
      let _a;
      objs.push(_a = {
        __proto__: {
          foo() {
            return i;
          }
        },
        bar() {
          return __async(this, null, function* () {
            return __superGet(_a, this, "foo").call(this);
          });
        }
      });
    }
  }
});
export default require_stdin();

(() => {
  // entry.js
  var Foo = class {
    #field;
    #method() {
    }
    static #staticField;
    static #staticMethod() {
    }
    foo() {
      this.#field = this.#method();
      Foo.#staticField = Foo.#staticMethod();
    }
  };
})();

(() => {
  // entry.js
  var Foo = class _Foo {
    static bar = _Foo.#foo;
    static get #foo() {
      return 123;
    }
    // This must be set before "bar" is initialized
  };
  console.log(Foo.bar === 123);
  var FooThis = class {
    static bar = this.#foo;
    static get #foo() {
      return 123;
    }
    // This must be set before "bar" is initialized
  };
  console.log(FooThis.bar === 123);
})();

(()=>{var a=class{*#a(){}async#s(){}async*#c(){}static*#t(){}static async#g(){}static async*#n(){}};})();

(() => {
  // entry.jsx
  var Foo = {
    Bar_(props) {
      return /* @__PURE__ */ React.createElement(React.Fragment, null, props.text_);
    },
    hello_: "hello, world",
    createElement_(...args) {
      console.log("createElement", ...args);
    },
    Fragment_(...args) {
      console.log("Fragment", ...args);
    }
  };
  var entry_default = /* @__PURE__ */ React.createElement(Foo.Bar_, { text_: Foo.hello_ });
})();

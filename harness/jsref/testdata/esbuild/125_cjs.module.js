var __defProp = Object.defineProperty;
var __getOwnPropDesc = Object.getOwnPropertyDescriptor;
var __getOwnPropNames = Object.getOwnPropertyNames;
var __hasOwnProp = Object.prototype.hasOwnProperty;
var __export = (target, all) => {
  for (var name in all)
    __defProp(target, name, { get: all[name], enumerable: true });
};
var __copyProps = (to, from, except, desc) => {
  if (from && typeof from === "object" || typeof from === "function") {
    for (let key of __getOwnPropNames(from))
      if (!__hasOwnProp.call(to, key) && key !== except)
        __defProp(to, key, { get: () => from[key], enumerable: !(desc = __getOwnPropDesc(from, key)) || desc.enumerable });
  }
  return to;
};
var __toCommonJS = (mod) => __copyProps(__defProp({}, "__esModule", { value: true }), mod);
var stdin_exports = {};
__export(stdin_exports, {
  default: () => entry_default
});
module.exports = __toCommonJS(stdin_exports);
var declare_class_default = foo;
var bar = 123;
var declare_let_default = foo;
var bar2 = 123;
var foo2 = class _foo {
  static {
    this.x = new _foo();
  }
};
var interface_merged_default = foo2;
var bar3 = 123;
if (true) {
}
var interface_nested_default = foo;
var bar4 = 123;
if (true) {
}
var type_nested_default = foo;
var bar5 = 123;
var foo3;
((foo5) => {
  foo5.num = 0;
})(foo3 || (foo3 = {}));
var value_namespace_default = foo3;
var bar6 = 123;
var foo4;
((foo5) => {
  foo5.num = 0;
})(foo4 || (foo4 = {}));
var value_namespace_merged_default = foo4;
var bar7 = 123;
var bar8 = 123;
var bar9 = 123;
var bar10 = 123;
var bar11 = 123;
var bar12 = 123;
var bar13 = 123;
var entry_default = [
  declare_class_default,
  bar,
  declare_let_default,
  bar2,
  interface_merged_default,
  bar3,
  interface_nested_default,
  bar4,
  type_nested_default,
  bar5,
  value_namespace_default,
  bar6,
  value_namespace_merged_default,
  bar7,
  bar8,
  bar9,
  bar10,
  bar11,
  bar12,
  bar13
];

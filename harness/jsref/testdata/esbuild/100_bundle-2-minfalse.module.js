var __defProp = Object.defineProperty;
var __getOwnPropDesc = Object.getOwnPropertyDescriptor;
var __getOwnPropNames = Object.getOwnPropertyNames;
var __hasOwnProp = Object.prototype.hasOwnProperty;
var __export = (target, all) => {
  for (var name in all)
    __defProp(target, name, { get: all[name], enumerable: true });
};
var __copyProps = (to, from, except, desc) => {
  if (from && typeof from === "object" || typeof from === "function") {
    for (let key of __getOwnPropNames(from))
      if (!__hasOwnProp.call(to, key) && key !== except)
        __defProp(to, key, { get: () => from[key], enumerable: !(desc = __getOwnPropDesc(from, key)) || desc.enumerable });
  }
  return to;
};
var __toCommonJS = (mod) => __copyProps(__defProp({}, "__esModule", { value: true }), mod);

// entry.jsx
var entry_exports = {};
__export(entry_exports, {
  default: () => entry_default
});
module.exports = __toCommonJS(entry_exports);
var Foo = {
  Bar_(props) {
    return /* @__PURE__ */ React.createElement(React.Fragment, null, props.text_);
  },
  hello_: "hello, world",
  createElement_(...args) {
    console.log("createElement", ...args);
  },
  Fragment_(...args) {
    console.log("Fragment", ...args);
  }
};
var entry_default = /* @__PURE__ */ React.createElement(Foo.Bar_, { text_: Foo.hello_ });

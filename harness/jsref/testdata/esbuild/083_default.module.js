export class Foo {
  *#g() {
  }
  async #a() {
  }
  async *#ag() {
  }
  static *#sg() {
  }
  static async #sa() {
  }
  static async *#sag() {
  }
}

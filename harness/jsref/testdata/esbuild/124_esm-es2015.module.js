var __getOwnPropNames = Object.getOwnPropertyNames;
var __commonJS = (cb, mod) => function __require() {
  try {
    return mod || (0, cb[__getOwnPropNames(cb)[0]])((mod = { exports: {} }).exports, mod), mod.exports;
  } catch (e) {
    throw mod = 0, e;
  }
};
var __async = (__this, __arguments, generator) => {
  return new Promise((resolve, reject) => {
    var fulfilled = (value) => {
      try {
        step(generator.next(value));
      } catch (e) {
        reject(e);
      }
    };
    var rejected = (value) => {
      try {
        step(generator.throw(value));
      } catch (e) {
        reject(e);
      }
    };
    var step = (x) => x.done ? resolve(x.value) : Promise.resolve(x.value).then(fulfilled, rejected);
    step((generator = generator.apply(__this, __arguments)).next());
  });
};
var require_stdin = __commonJS({
  "<stdin>"(exports) {
    require(tag`./b`);
    require(`./${b}`);
    try {
      require(tag`./b`);
      require(`./${b}`);
    } catch (e) {
    }
    (() => __async(null, null, function* () {
      import(tag`./b`);
      import(`./${b}`);
      yield import(tag`./b`);
      yield import(`./${b}`);
      try {
        import(tag`./b`);
        import(`./${b}`);
        yield import(tag`./b`);
        yield import(`./${b}`);
      } catch (e) {
      }
    }))();
  }
});
export default require_stdin();

// entry.js
var entry_default = [
  async () => {
    for await (x of y) z(x);
  },
  async () => {
    for await (x.y of y) z(x);
  },
  async () => {
    for await (let x2 of y) z(x2);
  },
  async () => {
    for await (const x2 of y) z(x2);
  },
  async () => {
    label: for await (const x2 of y) break label;
  },
  async () => {
    label: for await (const x2 of y) continue label;
  }
];
export {
  entry_default as default
};

var __defProp = Object.defineProperty;
var __getOwnPropDesc = Object.getOwnPropertyDescriptor;
var __getOwnPropNames = Object.getOwnPropertyNames;
var __hasOwnProp = Object.prototype.hasOwnProperty;
var __export = (target, all) => {
  for (var name in all)
    __defProp(target, name, { get: all[name], enumerable: true });
};
var __copyProps = (to, from, except, desc) => {
  if (from && typeof from === "object" || typeof from === "function") {
    for (let key of __getOwnPropNames(from))
      if (!__hasOwnProp.call(to, key) && key !== except)
        __defProp(to, key, { get: () => from[key], enumerable: !(desc = __getOwnPropDesc(from, key)) || desc.enumerable });
  }
  return to;
};
var __toCommonJS = (mod) => __copyProps(__defProp({}, "__esModule", { value: true }), mod);

// entry1.js
var entry1_exports = {};
__export(entry1_exports, {
  shouldMangle: () => shouldMangle,
  shouldNotMangle: () => shouldNotMangle
});
module.exports = __toCommonJS(entry1_exports);
function shouldMangle() {
  let foo = {
    bar_: 0,
    baz_() {
    }
  };
  let { bar_ } = foo;
  ({ bar_ } = foo);
  class foo_ {
    bar_ = 0;
    baz_() {
    }
    static bar_ = 0;
    static baz_() {
    }
  }
  return { bar_, foo_ };
}
function shouldNotMangle() {
  let foo = {
    "bar_": 0,
    "baz_"() {
    }
  };
  let { "bar_": bar_ } = foo;
  ({ "bar_": bar_ } = foo);
  class foo_ {
    "bar_" = 0;
    "baz_"() {
    }
    static "bar_" = 0;
    static "baz_"() {
    }
  }
  return { "bar_": bar_, "foo_": foo_ };
}

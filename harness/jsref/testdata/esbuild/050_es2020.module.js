var __knownSymbol = (name, symbol) => (symbol = Symbol[name]) ? symbol : /* @__PURE__ */ Symbol.for("Symbol." + name);
var __typeError = (msg) => {
  throw TypeError(msg);
};
var __using2 = (stack, value, async) => {
  if (value != null) {
    if (typeof value !== "object" && typeof value !== "function") __typeError("Object expected");
    var dispose, inner;
    if (async) dispose = value[__knownSymbol("asyncDispose")];
    if (dispose === void 0) {
      dispose = value[__knownSymbol("dispose")];
      if (async) inner = dispose;
    }
    if (typeof dispose !== "function") __typeError("Object not disposable");
    if (inner) dispose = function() {
      try {
        inner.call(this);
      } catch (e) {
        return Promise.reject(e);
      }
    };
    stack.push([async, dispose, value]);
  } else if (async) {
    stack.push([async]);
  }
  return value;
};
var __callDispose2 = (stack, error, hasError) => {
  var E = typeof SuppressedError === "function" ? SuppressedError : function(e, s, m, _) {
    return _ = Error(m), _.name = "SuppressedError", _.error = e, _.suppressed = s, _;
  };
  var fail = (e) => error = hasError ? new E(e, error, "An error was suppressed during disposal") : (hasError = true, e);
  var next = (it) => {
    while (it = stack.pop()) {
      try {
        var result = it[1] && it[1].call(it[2]);
        if (it[0]) return Promise.resolve(result).then(next, (e) => (fail(e), next()));
      } catch (e) {
        fail(e);
      }
    }
    if (hasError) throw error;
  };
  return next();
};
function foo() {
  return __asyncGenerator(this, null, function* () {
    var _stack2 = [];
    try {
      yield;
      yield x;
      yield* __yieldStar(x);
      const x = __using(_stack2, yield new __await(y), true);
      try {
        for (var iter = __forAwait(y), more, temp, error; more = !(temp = yield new __await(iter.next())).done; more = false) {
          let x2 = temp.value;
        }
      } catch (temp3) {
        error = [temp3];
      } finally {
        try {
          more && (temp = iter.return) && (yield new __await(temp.call(iter)));
        } finally {
          if (error)
            throw error[0];
        }
      }
      try {
        for (var iter2 = __forAwait(y), more2, temp2, error2; more2 = !(temp2 = yield new __await(iter2.next())).done; more2 = false) {
          var _x = temp2.value;
          var _stack = [];
          try {
            const x2 = __using(_stack, _x, true);
          } catch (_) {
            var _error = _, _hasError = true;
          } finally {
            var _promise = __callDispose(_stack, _error, _hasError);
            _promise && (yield new __await(_promise));
          }
        }
      } catch (temp22) {
        error2 = [temp22];
      } finally {
        try {
          more2 && (temp2 = iter2.return) && (yield new __await(temp2.call(iter2)));
        } finally {
          if (error2)
            throw error2[0];
        }
      }
    } catch (_2) {
      var _error2 = _2, _hasError2 = true;
    } finally {
      var _promise2 = __callDispose(_stack2, _error2, _hasError2);
      _promise2 && (yield new __await(_promise2));
    }
  });
}
foo = function() {
  return __asyncGenerator(this, null, function* () {
    var _stack2 = [];
    try {
      yield;
      yield x;
      yield* __yieldStar(x);
      const x = __using(_stack2, yield new __await(y), true);
      try {
        for (var iter = __forAwait(y), more, temp, error; more = !(temp = yield new __await(iter.next())).done; more = false) {
          let x2 = temp.value;
        }
      } catch (temp3) {
        error = [temp3];
      } finally {
        try {
          more && (temp = iter.return) && (yield new __await(temp.call(iter)));
        } finally {
          if (error)
            throw error[0];
        }
      }
      try {
        for (var iter2 = __forAwait(y), more2, temp2, error2; more2 = !(temp2 = yield new __await(iter2.next())).done; more2 = false) {
          var _x = temp2.value;
          var _stack = [];
          try {
            const x2 = __using(_stack, _x, true);
          } catch (_) {
            var _error = _, _hasError = true;
          } finally {
            var _promise = __callDispose(_stack, _error, _hasError);
            _promise && (yield new __await(_promise));
          }
        }
      } catch (temp22) {
        error2 = [temp22];
      } finally {
        try {
          more2 && (temp2 = iter2.return) && (yield new __await(temp2.call(iter2)));
        } finally {
          if (error2)
            throw error2[0];
        }
      }
    } catch (_2) {
      var _error2 = _2, _hasError2 = true;
    } finally {
      var _promise2 = __callDispose(_stack2, _error2, _hasError2);
      _promise2 && (yield new __await(_promise2));
    }
  });
};
foo = { bar() {
  return __asyncGenerator(this, null, function* () {
    var _stack2 = [];
    try {
      yield;
      yield x;
      yield* __yieldStar(x);
      const x = __using(_stack2, yield new __await(y), true);
      try {
        for (var iter = __forAwait(y), more, temp, error; more = !(temp = yield new __await(iter.next())).done; more = false) {
          let x2 = temp.value;
        }
      } catch (temp3) {
        error = [temp3];
      } finally {
        try {
          more && (temp = iter.return) && (yield new __await(temp.call(iter)));
        } finally {
          if (error)
            throw error[0];
        }
      }
      try {
        for (var iter2 = __forAwait(y), more2, temp2, error2; more2 = !(temp2 = yield new __await(iter2.next())).done; more2 = false) {
          var _x = temp2.value;
          var _stack = [];
          try {
            const x2 = __using(_stack, _x, true);
          } catch (_) {
            var _error = _, _hasError = true;
          } finally {
            var _promise = __callDispose(_stack, _error, _hasError);
            _promise && (yield new __await(_promise));
          }
        }
      } catch (temp22) {
        error2 = [temp22];
      } finally {
        try {
          more2 && (temp2 = iter2.return) && (yield new __await(temp2.call(iter2)));
        } finally {
          if (error2)
            throw error2[0];
        }
      }
    } catch (_2) {
      var _error2 = _2, _hasError2 = true;
    } finally {
      var _promise2 = __callDispose(_stack2, _error2, _hasError2);
      _promise2 && (yield new __await(_promise2));
    }
  });
} };
class Foo {
  bar() {
    return __asyncGenerator(this, null, function* () {
      var _stack2 = [];
      try {
        yield;
        yield x;
        yield* __yieldStar(x);
        const x = __using(_stack2, yield new __await(y), true);
        try {
          for (var iter = __forAwait(y), more, temp, error; more = !(temp = yield new __await(iter.next())).done; more = false) {
            let x2 = temp.value;
          }
        } catch (temp3) {
          error = [temp3];
        } finally {
          try {
            more && (temp = iter.return) && (yield new __await(temp.call(iter)));
          } finally {
            if (error)
              throw error[0];
          }
        }
        try {
          for (var iter2 = __forAwait(y), more2, temp2, error2; more2 = !(temp2 = yield new __await(iter2.next())).done; more2 = false) {
            var _x = temp2.value;
            var _stack = [];
            try {
              const x2 = __using(_stack, _x, true);
            } catch (_) {
              var _error = _, _hasError = true;
            } finally {
              var _promise = __callDispose(_stack, _error, _hasError);
              _promise && (yield new __await(_promise));
            }
          }
        } catch (temp22) {
          error2 = [temp22];
        } finally {
          try {
            more2 && (temp2 = iter2.return) && (yield new __await(temp2.call(iter2)));
          } finally {
            if (error2)
              throw error2[0];
          }
        }
      } catch (_2) {
        var _error2 = _2, _hasError2 = true;
      } finally {
        var _promise2 = __callDispose(_stack2, _error2, _hasError2);
        _promise2 && (yield new __await(_promise2));
      }
    });
  }
}
Foo = class {
  bar() {
    return __asyncGenerator(this, null, function* () {
      var _stack2 = [];
      try {
        yield;
        yield x;
        yield* __yieldStar(x);
        const x = __using(_stack2, yield new __await(y), true);
        try {
          for (var iter = __forAwait(y), more, temp, error; more = !(temp = yield new __await(iter.next())).done; more = false) {
            let x2 = temp.value;
          }
        } catch (temp3) {
          error = [temp3];
        } finally {
          try {
            more && (temp = iter.return) && (yield new __await(temp.call(iter)));
          } finally {
            if (error)
              throw error[0];
          }
        }
        try {
          for (var iter2 = __forAwait(y), more2, temp2, error2; more2 = !(temp2 = yield new __await(iter2.next())).done; more2 = false) {
            var _x = temp2.value;
            var _stack = [];
            try {
              const x2 = __using(_stack, _x, true);
            } catch (_) {
              var _error = _, _hasError = true;
            } finally {
              var _promise = __callDispose(_stack, _error, _hasError);
              _promise && (yield new __await(_promise));
            }
          }
        } catch (temp22) {
          error2 = [temp22];
        } finally {
          try {
            more2 && (temp2 = iter2.return) && (yield new __await(temp2.call(iter2)));
          } finally {
            if (error2)
              throw error2[0];
          }
        }
      } catch (_2) {
        var _error2 = _2, _hasError2 = true;
      } finally {
        var _promise2 = __callDispose(_stack2, _error2, _hasError2);
        _promise2 && (yield new __await(_promise2));
      }
    });
  }
};
async function bar() {
  var _stack2 = [];
  try {
    const x = __using2(_stack2, await y, true);
    for await (let x2 of y) {
    }
    for await (var _x2 of y) {
      var _stack = [];
      try {
        const x2 = __using2(_stack, _x2, true);
      } catch (_) {
        var _error = _, _hasError = true;
      } finally {
        var _promise = __callDispose2(_stack, _error, _hasError);
        _promise && await _promise;
      }
    }
  } catch (_2) {
    var _error2 = _2, _hasError2 = true;
  } finally {
    var _promise2 = __callDispose2(_stack2, _error2, _hasError2);
    _promise2 && await _promise2;
  }
}

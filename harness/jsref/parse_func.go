package jsref

// parseFunction parses a function declaration or expression, including an
// `async` prefix. The current token is `async` or `function`.
func (p *parser) parseFunction(isDecl, allowAnon bool) *Node {
	n := p.start(NFunctionExpr)
	if isDecl {
		n.Type = NFunctionDecl
	}
	async := false
	if p.isId("async") {
		async = true
		p.next()
	}
	p.expectK("function")
	gen := p.eatP("*")
	if p.t.Kind == TIdent {
		n.A = p.parseIdentNode()
	} else if isDecl && !allowAnon {
		p.fail("expected function name")
	}
	p.parseFunctionRest(n, async, gen)
	return p.finish(n)
}

func (p *parser) noteFunctionKind(off int, async, gen bool) {
	if async {
		p.note(FeatAsyncFunction, off)
	}
	if gen {
		p.note(FeatGenerator, off)
		if async {
			p.note(FeatAsyncGenerator, off)
		}
	}
}

// parseFunctionRest parses parameters and body into n.
func (p *parser) parseFunctionRest(n *Node, async, gen bool) {
	if async {
		n.Flags |= FlagAsync
	}
	if gen {
		n.Flags |= FlagGenerator
	}
	p.noteFunctionKind(n.Start, async, gen)
	oldCtx, oldIn := p.ctx, p.noIn
	p.ctx = fnCtx{async: async, generator: gen, strict: oldCtx.strict, function: true}
	p.noIn = false
	n.List = p.parseParams()
	n.B = p.parseFunctionBody()
	if p.ctx.strict {
		n.Flags |= FlagStrict
	}
	p.ctx, p.noIn = oldCtx, oldIn
}

func (p *parser) parseParams() []*Node {
	list := []*Node{}
	p.expectP("(")
	for !p.isP(")") {
		if p.isP("...") {
			s := p.start(NSpread)
			p.note(FeatRestParams, p.t.Start)
			p.next()
			s.A = p.parseBindingTarget()
			list = append(list, p.finish(s))
		} else {
			e := p.parseBindingElement()
			if e.Type == NAssign {
				p.note(FeatDefaultParams, e.Start)
			}
			list = append(list, e)
		}
		if !p.isP(")") {
			p.expectP(",")
		}
	}
	p.next()
	return list
}

func (p *parser) parseFunctionBody() *Node {
	n := p.start(NBlock)
	p.expectP("{")
	old := p.noIn
	p.noIn = false
	n.List = p.parseStatementList(true, func() bool { return p.isP("}") })
	p.noIn = old
	p.next()
	return p.finish(n)
}

// parseMethodFunction parses "(params) { body }" of a method, getter or setter.
func (p *parser) parseMethodFunction(async, gen bool) *Node {
	n := p.start(NFunctionExpr)
	p.parseFunctionRest(n, async, gen)
	return p.finish(n)
}

func (p *parser) parseDecorators() []*Node {
	var list []*Node
	for p.isP("@") {
		d := p.start(NDecorator)
		p.note(FeatDecorators, p.t.Start)
		p.next()
		if p.isP("(") {
			d.A = p.parseParen()
		} else {
			var e *Node = p.parseIdentNode()
			for p.isP(".") {
				m := p.startAt(NMember, e)
				m.A = e
				p.next()
				p.parsePropertyNameAfterDot(m)
				e = p.finish(m)
			}
			if p.isP("(") {
				c := p.startAt(NCall, e)
				c.A = e
				c.List, _ = p.parseArguments()
				e = p.finish(c)
			}
			d.A = e
		}
		list = append(list, p.finish(d))
	}
	return list
}

// parseClass parses a class declaration or expression. The current token is
// `class` (decorators, if any, have been parsed already).
func (p *parser) parseClass(isDecl, allowAnon bool, decos []*Node) *Node {
	n := p.start(NClassExpr)
	if isDecl {
		n.Type = NClassDecl
	}
	if len(decos) > 0 {
		n.Start, n.Tok = decos[0].Start, decos[0].Tok
	}
	p.note(FeatClass, n.Start)
	p.expectK("class")
	oldCtx, oldIn := p.ctx, p.noIn
	p.ctx.strict = true
	p.noIn = false
	if p.t.Kind == TIdent {
		n.A = p.parseIdentNode()
	} else if isDecl && !allowAnon {
		p.fail("expected class name")
	}
	if p.isK("extends") {
		p.next()
		n.B = p.parseSubscripts(p.parsePrimary(), false)
	}
	n.C = nil
	if len(decos) > 0 {
		// keep decorators reachable for the scope analysis
		seq := &Node{Type: NSeq, Start: decos[0].Start, End: decos[len(decos)-1].End, Tok: decos[0].Tok, List: decos}
		n.C = seq
	}
	p.expectP("{")
	for !p.isP("}") {
		if p.eatP(";") {
			continue
		}
		n.List = append(n.List, p.parseClassMember())
	}
	p.next()
	p.ctx, p.noIn = oldCtx, oldIn
	return p.finish(n)
}

func (p *parser) parseClassMember() *Node {
	var decos []*Node
	if p.isP("@") {
		decos = p.parseDecorators()
	}
	m := p.start(NMethod)
	if len(decos) > 0 {
		m.Start, m.Tok = decos[0].Start, decos[0].Tok
		m.List = decos
	}
	static, accessor, async, gen := false, false, false, false
	kind := "method"
	if p.isId("static") {
		nx := p.peek(1)
		if tokIsP(nx, "{") {
			return p.parseStaticBlock(m)
		}
		if !endsPropertyName(nx) {
			static = true
			p.next()
		}
	}
	if p.isId("accessor") {
		if nx := p.peek(1); startsPropertyKey(nx) && !nx.NewlineBefore {
			accessor = true
			p.note(FeatDecorators, p.t.Start)
			p.next()
		}
	}
	if !accessor && p.isId("async") {
		if nx := p.peek(1); !endsPropertyName(nx) && !nx.NewlineBefore {
			async = true
			p.next()
		}
	}
	if !accessor && p.isP("*") {
		gen = true
		p.next()
	}
	if !accessor && !async && !gen && (p.isId("get") || p.isId("set")) && startsPropertyKey(p.peek(1)) {
		kind = p.t.Ident
		p.next()
	}
	key, computed := p.parsePropertyKey(true)
	m.A = key
	if static {
		m.Flags |= FlagStatic
	}
	if computed {
		m.Flags |= FlagComputed
	}
	private := !computed && key.Type == NPrivateName
	if !accessor && (p.isP("(") || kind != "method" || async || gen) {
		if kind == "method" && !static && !computed && p.keyName(key) == "constructor" {
			kind = "constructor"
		}
		m.Name = kind
		p.noteFunctionKind(m.Start, async, gen)
		m.B = p.parseMethodFunction(async, gen)
		if private {
			switch {
			case kind == "method" && !static:
				p.note(FeatClassPrivateMethod, m.Start)
			case kind == "method" && static:
				p.note(FeatClassPrivateStaticMethod, m.Start)
			case !static:
				p.note(FeatClassPrivateAccessor, m.Start)
			default:
				p.note(FeatClassPrivateStaticAccessor, m.Start)
			}
		}
		return p.finish(m)
	}
	m.Type = NField
	if accessor {
		m.Flags |= FlagAccessor
	}
	switch {
	case private && static:
		p.note(FeatClassPrivateStaticField, m.Start)
	case private:
		p.note(FeatClassPrivateField, m.Start)
	case static:
		p.note(FeatClassStaticField, m.Start)
	default:
		p.note(FeatClassField, m.Start)
	}
	if p.eatP("=") {
		oldCtx := p.ctx
		p.ctx = fnCtx{strict: true, function: true}
		m.B = p.parseAssign()
		p.ctx = oldCtx
	}
	p.semicolon()
	return p.finish(m)
}

func (p *parser) parseStaticBlock(m *Node) *Node {
	m.Type = NStaticBlock
	p.note(FeatClassStaticBlock, m.Start)
	p.next() // static
	p.expectP("{")
	oldCtx := p.ctx
	p.ctx = fnCtx{strict: true, function: true}
	m.List = p.parseStatementList(false, func() bool { return p.isP("}") })
	p.ctx = oldCtx
	p.next()
	return p.finish(m)
}

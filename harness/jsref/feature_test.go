package jsref

import (
	"strings"
	"testing"
)

func TestFeatureCensus(t *testing.T) {
	type tc struct {
		src    string
		module bool
		want   string // features that must be present (space separated); "!name" must be absent
	}
	cases := []tc{
		{"a ** b", false, "exponent"}, {"a **= b", false, "exponent"}, {"a * b; a *= b; function* g(){ yield* b }", false, "!exponent"},
		{"async function f(){}", false, "async-function !async-generator !generator"}, {"async () => 1", false, "async-function arrow"},
		{"async x => 1", false, "async-function"}, {"({async m(){}})", false, "async-function"}, {"class A{async m(){}}", false, "async-function"},
		{"await 1", true, "async-function top-level-await"}, {"async function f(){await 1}", true, "async-function !top-level-await"},
		{"async; async(1); var async; x = {async: 1, async(){}}; await", false, "!async-function !top-level-await"},
		{"for await (x of y);", true, "for-await top-level-await for-of"}, {"async function f(){for await (x of y);}", false, "for-await !top-level-await"},
		{"await using x = y", true, "using top-level-await"}, {"using x = y", true, "using !top-level-await"}, {"using; using(x); var using", false, "!using"},
		{"({...a})", false, "object-rest-spread !spread"}, {"({...a} = b)", false, "object-rest-spread"}, {"var {...a} = b", false, "object-rest-spread destructuring"},
		{"[...a]; f(...a); new F(...a)", false, "spread !object-rest-spread"}, {"(...a) => 1; function f(...a){}", false, "rest-params !spread"},
		{"async function* f(){}", false, "async-generator generator async-function"}, {"({async *m(){}})", false, "async-generator"},
		{"function* f(){}", false, "generator !async-generator"}, {"({*m(){}}); class A{*m(){}}", false, "generator"}, {"a * b", false, "!generator"},
		{"/a/s", false, "regexp-dotall-flag"}, {"/(?<=a)b/", false, "regexp-lookbehind"}, {"/(?<!a)b/", false, "regexp-lookbehind"},
		{"/(?<n>a)/", false, "regexp-named-groups !regexp-lookbehind !regexp-duplicate-named-groups"}, {"/(?<n>a)|(?<n>b)/", false, "regexp-named-groups regexp-duplicate-named-groups"},
		{"/\\p{L}/u", false, "regexp-unicode-property regexp-unicode-flag"}, {"/\\P{L}/v", false, "regexp-unicode-property regexp-v-flag"}, {"/\\p{L}/", false, "!regexp-unicode-property"},
		{"/[(?<=](?=a)(?:b)(?!c)\\(?<n>/", false, "!regexp-lookbehind !regexp-named-groups !regexp-modifiers"},
		{"/a/d", false, "regexp-match-indices"}, {"/a/y", false, "regexp-sticky-flag"}, {"/a/gim", false, "!regexp-sticky-flag !regexp-unicode-flag !regexp-dotall-flag !regexp-match-indices !regexp-v-flag"},
		{"/(?i:a)/", false, "regexp-modifiers"}, {"/(?-i:a)/", false, "regexp-modifiers"}, {"/(?i-m:a)/", false, "regexp-modifiers"},
		{"a / s / d", false, "!regexp-dotall-flag !regexp-match-indices"}, {"x = a /(n)/ c; y = '/(?<n>b)/'", false, "!regexp-named-groups"},
		{"try{}catch{}", false, "optional-catch-binding"}, {"try{}catch(e){}", false, "!optional-catch-binding"},
		{"a?.b", false, "optional-chain"}, {"a?.[0]", false, "optional-chain"}, {"a?.()", false, "optional-chain"}, {"a ? .5 : b", false, "!optional-chain"}, {"a?.5:b", false, "!optional-chain"},
		{"a ?? b", false, "nullish-coalescing"}, {"a ? b : c", false, "!nullish-coalescing"}, {"a ??= b", false, "logical-assignment !nullish-coalescing"},
		{"1n", false, "bigint"}, {"0x1Fn", false, "bigint"}, {"n; 1; a.n", false, "!bigint"},
		{"import('x')", false, "dynamic-import"}, {"import.meta", true, "import-meta !dynamic-import"}, {"import x from 'y'", true, "!dynamic-import !import-meta"},
		{"export * as ns from 'x'", true, "export-star-as"}, {"export * from 'x'", true, "!export-star-as"},
		{"a &&= b", false, "logical-assignment"}, {"a ||= b", false, "logical-assignment"}, {"a &= b; a |= b; a && b", false, "!logical-assignment"},
		{"1_0", false, "numeric-separator"}, {"0x1_0n", false, "numeric-separator"}, {"_1; a._1; $_", false, "!numeric-separator"},
		{"class A{x}", false, "class-field !class-static-field"}, {"class A{x = 1; 'y'; [z]}", false, "class-field"}, {"class A{static x}", false, "class-static-field !class-field"},
		{"class A{#x}", false, "class-private-field !class-field"}, {"class A{#x(){}}", false, "class-private-method !class-private-field"},
		{"class A{get #x(){return 1}}", false, "class-private-accessor !class-private-method"}, {"class A{static #x}", false, "class-private-static-field !class-private-field !class-static-field"},
		{"class A{static #x(){}}", false, "class-private-static-method !class-private-method"}, {"class A{static set #x(v){}}", false, "class-private-static-accessor"},
		{"class A{static{}}", false, "class-static-block"}, {"class A{static(){} static static(){} static = 1}", false, "!class-static-block"},
		{"class A{static(){} get(){} set(){} async(){} x(){}}", false, "!class-field !class-static-field !async-function"},
		{"class A{static; get; set; async}", false, "class-field !class-static-field"},
		{"class A{#x; m(o){return #x in o}}", false, "class-private-brand-check"}, {"class A{#x; m(o){return o.#x}}", false, "!class-private-brand-check"}, {"a in b", false, "!class-private-brand-check"},
		{"export {a as 'b'}; var a", true, "arbitrary-module-namespace-names"}, {"import {'a' as b} from 'x'", true, "arbitrary-module-namespace-names"},
		{"export * as 'b' from 'x'", true, "arbitrary-module-namespace-names export-star-as"}, {"import {a as b} from 'x'", true, "!arbitrary-module-namespace-names"},
		{"#!/bin/sh\nx", false, "hashbang"}, {"x // #!/bin/sh", false, "!hashbang"}, {"/a/v", false, "regexp-v-flag"},
		{"import x from 'y' with {type: 'json'}", true, "import-attributes"}, {"export * from 'y' with {type: 'json'}", true, "import-attributes"}, {"import x from 'y'\nwith (a);", false, ""},
		{"@d class A{}", false, "decorators class"}, {"class A{@d m(){}}", false, "decorators"}, {"class A{accessor x}", false, "decorators"}, {"class A{accessor; accessor(){}}", false, "!decorators"},
		{"() => 1", false, "arrow"}, {"x => 1", false, "arrow"}, {"a >= b; a = b > c", false, "!arrow"},
		{"class A{}", false, "class"}, {"x = class{}", false, "class"}, {"let x", false, "let-const"}, {"const x = 1", false, "let-const"}, {"var x; let; let = 1", false, "!let-const"},
		{"`a`", false, "template-literal"}, {"f`a${b}`", false, "template-literal"}, {"'`a`'", false, "!template-literal"},
		{"var {a} = b", false, "destructuring"}, {"[a] = b", false, "destructuring"}, {"({a} = b)", false, "destructuring"}, {"for ([a] of b);", false, "destructuring"},
		{"function f({a}){}", false, "destructuring"}, {"([a]) => 1", false, "destructuring"}, {"try{}catch({a}){}", false, "destructuring"}, {"x = [a]; x = {a}", false, "!destructuring"},
		{"function f(a = 1){}", false, "default-params"}, {"(a = 1) => 1", false, "default-params"}, {"(a = 1)", false, "!default-params"},
		{"function f(...a){}", false, "rest-params"}, {"for (a of b);", false, "for-of"}, {"for (a in b); of", false, "!for-of"},
		{"({a})", false, "object-shorthand"}, {"({a(){}})", false, "object-shorthand"}, {"({[a]: 1})", false, "computed-property"}, {"class A{[a](){}}", false, "computed-property"}, {"a[b]", false, "!computed-property"},
		{"function f(){new.target}", false, "new-target"}, {"new target", false, "!new-target"},
		{"'\\u{61}'", false, "unicode-escape-braces"}, {"\\u{61}", false, "unicode-escape-braces"}, {"`\\u{61}`", false, "unicode-escape-braces"}, {"'\\u0061'", false, "!unicode-escape-braces"}, {"/\\u{61}/u", false, "!unicode-escape-braces"},
		{"0o17", false, "octal-binary-literal"}, {"0b11", false, "octal-binary-literal"}, {"0x11; 017", false, "!octal-binary-literal legacy-octal"}, {"'\\1'", false, "legacy-octal"}, {"'\\0'", false, "!legacy-octal"},
		{"x<!--y", false, "html-comment"}, {"x<!--y", true, "!html-comment"},
	}
	for _, c := range cases {
		p, err := Parse(c.src, Options{Module: c.module})
		if err != nil {
			t.Errorf("%q: %v", c.src, err)
			continue
		}
		for _, w := range strings.Fields(c.want) {
			neg := strings.HasPrefix(w, "!")
			name := Feature(strings.TrimPrefix(w, "!"))
			if FeatureEdition(name) == 0 {
				t.Errorf("%q: unknown feature %q in test", c.src, name)
			}
			if _, ok := p.Features[name]; ok == neg {
				t.Errorf("%q: feature %s present=%v (all: %v)", c.src, name, ok, sortedKeys(p.Features))
			}
		}
	}
	// offsets are those of the first occurrence
	p := mustParse(t, "a;\n b ** c; d ** e; x = `t`; 1n", Options{})
	if p.Features[FeatExponent] != 6 || p.Features[FeatTemplateLiteral] != 24 || p.Features[FeatBigInt] != 29 {
		t.Errorf("feature offsets %v", p.Features)
	}
	if FeatureEdition(FeatExponent) != 2016 || FeatureEdition(FeatDecorators) != 9999 || FeatureEdition(FeatArrow) != 2015 || FeatureEdition(FeatUsing) != 2026 || FeatureEdition(FeatImportAttributes) != 2025 {
		t.Errorf("FeatureEdition wrong")
	}
	for _, f := range AllFeatures() {
		if FeatureEdition(f) == 0 {
			t.Errorf("no edition for %s", f)
		}
	}
}

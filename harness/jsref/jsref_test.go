package jsref

import (
	"reflect"
	"sort"
	"strings"
	"testing"
)

func mustParse(t *testing.T, src string, opts Options) *Program {
	t.Helper()
	p, err := Parse(src, opts)
	if err != nil {
		t.Fatalf("Parse(%q): %v", src, err)
	}
	checkInvariants(t, src, src, p)
	return p
}

// tokString renders tokens as "raw" joined by spaces, regexes as re(...), templates as tpl(...).
func tokString(p *Program) string {
	var parts []string
	for _, t := range p.Tokens {
		switch t.Kind {
		case TRegex:
			parts = append(parts, "re("+t.RegexBody+","+t.RegexFlags+")")
		case TTemplateNoSub, TTemplateHead, TTemplateMiddle, TTemplateTail:
			parts = append(parts, "tpl("+t.Raw+")")
		default:
			parts = append(parts, t.Raw)
		}
	}
	return strings.Join(parts, " ")
}

func TestTokenizeTricky(t *testing.T) {
	cases := []struct {
		src, want string
		module    bool
	}{
		{"a=b/c/d", "a = b / c / d", false},
		{"x=y/ /re/.test(z)", "x = y / re(re,) . test ( z )", false},
		{"a++/b", "a ++ / b", false},
		{"a++/b/c", "a ++ / b / c", false},
		{"if(x)/re/.test(y)", "if ( x ) re(re,) . test ( y )", false},
		{"(x)/re/g", "( x ) / re / g", false},
		{"{}/re/.test(y)", "{ } re(re,) . test ( y )", false},
		{"x={}/re/g", "x = { } / re / g", false},
		{"function f(){}/re/g", "function f ( ) { } re(re,g)", false},
		{"x=function(){}/re/g", "x = function ( ) { } / re / g", false},
		{"function*g(){yield/re/g}", "function * g ( ) { yield re(re,g) }", false},
		{"function g(){yield/re/g}", "function g ( ) { yield / re / g }", false},
		{"async function g(){await/re/g}", "async function g ( ) { await re(re,g) }", false},
		{"function g(){await/re/g}", "function g ( ) { await / re / g }", false},
		{"await/re/g", "await re(re,g)", true},
		{"x=/[/]/", "x = re([/],)", false},
		{"x=/\\//", "x = re(\\/,)", false},
		{"x=/[\\]/]/dgimsuvy", "x = re([\\]/],dgimsuvy)", false},
		{"x=/=/", "x = re(=,)", false},
		{"x/=/=/", "x /= re(=,)", false},
		{"a\n/b/g", "a / b / g", false},
		{"a\n++\nb", "a ++ b", false},
		{"typeof/re/", "typeof re(re,)", false},
		{"return_/a/g", "return_ / a / g", false},
		{"function f(){return/a/g}", "function f ( ) { return re(a,g) }", false},
		{"a=b?/x/:/y/", "a = b ? re(x,) : re(y,)", false},
		{"a=[/x/,/y/]", "a = [ re(x,) , re(y,) ]", false},
		{"a=b\n/x/g.exec(c)", "a = b / x / g . exec ( c )", false},
		{"x = a /*c*/ / b", "x = a / b", false},
		{"`a${`b${c}`}`", "tpl(`a${) tpl(`b${) c tpl(}`) tpl(}`)", false},
		{"`${{}}`", "tpl(`${) { } tpl(}`)", false},
		{"`${{a:`}`}}`", "tpl(`${) { a : tpl(`}`) } tpl(}`)", false},
		{"`a${b}c${d}e`", "tpl(`a${) b tpl(}c${) d tpl(}e`)", false},
		{"`${a}`/`${b}`", "tpl(`${) a tpl(}`) / tpl(`${) b tpl(}`)", false},
		{"`$`", "tpl(`$`)", false},
		{"`$${a}$`", "tpl(`$${) a tpl(}$`)", false},
		{"`\\${a}`", "tpl(`\\${a}`)", false},
		{"a?.5:b", "a ? .5 : b", false},
		{"a?.b", "a ?. b", false},
		{"a?.[0]", "a ?. [ 0 ]", false},
		{"a?.()", "a ?. ( )", false},
		{"a??b", "a ?? b", false},
		{"a??=b", "a ??= b", false},
		{"a>>>=b>>>c>>d>=e", "a >>>= b >>> c >> d >= e", false},
		{"a**=b**c", "a **= b ** c", false},
		{"5..toString()", "5. . toString ( )", false},
		{"5 .toString()", "5 . toString ( )", false},
		{"1.e3.x", "1.e3 . x", false},
		{"017.x", "017 . x", false},
		{"08.5.x", "08.5 . x", false},
		{"a=>b", "a => b", false},
		{"x<!--y\nz", "x z", false},
		{"x\n-->y\nz", "x z", false},
		{"-->y\nz", "z", false},
		{"/*\n*/-->y\nz", "z", false},
		{"x-->y", "x -- > y", false},
		{"x<!--y", "x < ! -- y", true},
		{"#!/usr/bin/env node\nx", "x", false},
		{"a.#b", "a . #b", false},
		{"\\u0061b", "\\u0061b", false},
		{"a\u2028b", "a b", false},
		{"a\u00a0\ufeff+\u3000b", "a + b", false},
	}
	for _, c := range cases {
		p, err := Parse(c.src, Options{Module: c.module})
		if err != nil {
			// class-private and similar snippets may be invalid as whole programs; only tokens matter here
			if c.src == "a.#b" {
				continue
			}
			t.Errorf("%q: %v", c.src, err)
			continue
		}
		if got := tokString(p); got != c.want {
			t.Errorf("%q:\n got  %s\n want %s", c.src, got, c.want)
		}
	}
}

func TestTokenFields(t *testing.T) {
	p := mustParse(t, "let \\u{61}b = 0x10, s = 'a\\x41\\u{1F600}', n = 1_0n, r = /x/gi;\r\n  `t\r\n${s}\\z`; '😀'; x", Options{})
	var idents []string
	for _, tok := range p.Tokens {
		if tok.Kind == TIdent {
			idents = append(idents, tok.Ident)
		}
	}
	if want := []string{"let", "ab", "s", "n", "r", "s", "x"}; !reflect.DeepEqual(idents, want) {
		t.Errorf("idents %v want %v", idents, want)
	}
	last := p.Tokens[len(p.Tokens)-1]
	// line 2 is "${s}\z`; '😀'; x": x comes after 16 UTF-16 units (the emoji counts 2)
	if last.Line != 2 || last.Col16 != len("${s}\\z`; '")+2+len("'; ") {
		t.Errorf("x at %d:%d", last.Line, last.Col16)
	}
	lits := p.Literals
	if len(lits) != 7 {
		t.Fatalf("%d literals", len(lits))
	}
	if lits[0].Num != 16 || UTF16ToString(lits[1].Str) != "aA😀" || len(lits[1].Str) != 4 || lits[2].BigInt != "10" || lits[3].RegexBody != "x" || lits[3].RegexFlags != "gi" {
		t.Errorf("literals %+v", lits[:4])
	}
	if UTF16ToString(lits[4].Str) != "t\n" || lits[4].Raw != "t\n" || lits[4].Kind != LitTemplateChunk {
		t.Errorf("template head %+v", lits[4])
	}
	if UTF16ToString(lits[5].Str) != "z" || lits[5].Raw != "\\z" {
		t.Errorf("template tail %+v", lits[5])
	}
	// numbers beyond 2^53 round to nearest even
	p = mustParse(t, "x = [0x20000000000001, 0x20000000000003, 9007199254740993, 017, 08, .5, 5., 1e+5]", Options{})
	want := []float64{9007199254740992, 9007199254740996, 9007199254740992, 15, 8, .5, 5, 1e5}
	for i, l := range p.Literals {
		if l.Num != want[i] {
			t.Errorf("literal %d = %v want %v", i, l.Num, want[i])
		}
	}
	// invalid escapes in tagged templates
	p = mustParse(t, "f`\\u{110000}${0}\\xZ`", Options{})
	if !p.Literals[0].CookedInvalid || p.Literals[0].Str != nil || p.Literals[0].Raw != "\\u{110000}" || !p.Literals[2].CookedInvalid {
		t.Errorf("invalid template %+v", p.Literals)
	}
}

func TestAcceptReject(t *testing.T) {
	accept := []struct {
		src    string
		module bool
	}{
		{"for(async of=>{};;);", false}, {"for(let in x);", false}, {"for((let)of x);", false}, {"for(let of=0;;);", false},
		{"for(var x=1 in y);", false}, {"for(let[a,b]of c);", false}, {"for(const{a}of b);", false}, {"for(x.y of z);", false},
		{"for(a in b,c);", false}, {"for(var i=0,j=(a in b);;);", false}, {"for(var i=x?y in z:0;;);", false},
		{"for(;;)let\nx", false}, {"let\nx=1", false}, {"let=1;let\n++x", false}, {"l\\u0065t\nx", false},
		{"var let,async,of,get,set,static,as,from,accessor,using,type,yield,await,target,meta", false},
		{"async\nfunction f(){}", false}, {"async()=>{}", false}, {"async(a,b)", false}, {"async\n(a)", false}, {"async x=>x", false},
		{"x=async function*(){yield*await 1}", false}, {"({async *[Symbol.iterator](){}})", false},
		{"class A{static{}static static(){}static async*a(){}get get(){}set set(v){}static get static(){}async async(){}get;set;static;async;accessor;accessor accessor=1}", false},
		{"class A{get\n*x(){}}", false}, {"class A{a\nb\n*c(){}}", false}, {"class A{'a'=1;1=2;[k]=3;#p;static #q=1;static async *#r(){}}", false},
		{"class A extends B{constructor(){super();super.x;super[y]}}", false}, {"class A extends(B,C){}", false}, {"class A extends f(){}", false},
		{"x=class{};x=class A extends B{}", false}, {"@dec class A{@a.b(c) m(){}@d static f=1}", false},
		{"({__proto__:null,'a':1,1:2,[k]:3,get x(){return 1},set x(v){},async*g(){},a,b=1,...c,get:1,set(){},async:2,await:3})=>0", false},
		{"({get,set,async,static})", false}, {"({a:1,b:{c:[d,...e]}}=x)", false}, {"[a,,b=1,...[c]]=d", false}, {"[a.b,c[d],...e.f]=g", false},
		{"(a,b=1,{c},[d],...e)=>{}", false}, {"(a)=>\n{}", false}, {"()=>{}\n()=>{}", false}, {"x=()=>{}\n/re/.test(y)", false}, {"x=a=>b=>c,d", false},
		{"new a.b.c", false}, {"new a.b()()", false}, {"new new a()()", false}, {"new (a())()", false}, {"new a`x`", false}, {"new.target", false},
		{"function f(){new.target}", false}, {"import.meta", true}, {"import('x');import('x',{with:{type:'json'}})", false}, {"import('x').then()", true},
		{"a?.b?.[c]?.(d)", false}, {"a?.b`x`", false}, {"a`x``y`", false}, {"a\n`x`", false},
		{"x=#a in b", false}, {"class A{#a;static m(o){return #a in o&&o.#a}}", false},
		{"a**b**c;(-a)**b;a**-b", false}, {"a??b;a||b&&c", false}, {"a&&=b;a||=c;a??=d", false},
		{"function*g(){yield\nx;yield;(yield);[yield];yield*g();x=yield yield}", false}, {"function y(){yield=1;yield\n*2;var yield}", false},
		{"async function f(){await x;for await(x of y);await using a=b;}", false}, {"await x;for await(x of y);", true}, {"await:x;var await;await\n/1", false},
		{"using x=y", true}, {"{using x=y,z=w}", false}, {"using\nx", false}, {"using(x)", false}, {"using[x]", false}, {"for(using x of y);", false}, {"for(using of of);", false},
		{"if(a)function f(){}else function g(){}", false}, {"a:function f(){}", false}, {"a:b:for(;;){continue a;break b}", false},
		{"do x;while(y)z", false}, {"do;while(0)", false}, {"if(a);else;", false}, {"x\n++y", false}, {"x\n++\ny", false}, {"return_:x", false},
		{"function f(){return\nx}", false}, {"throw new Error", false}, {"debugger", false}, {"with(a)b", false}, {"switch(a){case 1:default:let x;case 2:}", false},
		{"try{}catch{}finally{}", false}, {"try{}catch({a,b:[c]}){}", false},
		{"var a=1\nvar b=2", false}, {"x=1;;;", false}, {"'use strict';'x'\n.length", false},
		{"export{a as'string name',b as default};var a,b", true}, {"import{'string name'as b,default as c,d}from'x'", true}, {"export*as ns from'x';export*from'y';export*as'z'from'w'", true},
		{"export default class{}", true}, {"export default async function(){}", true}, {"export default(a,b)", true}, {"export default async()=>{}", true}, {"export default function*(){}", true},
		{"export default a=b", true}, {"export async function f(){}export class C{}export let[x,{y}]=z;export const w=1,v=2", true},
		{"import d,*as ns from'x';import e,{f}from'y';import'z';import{}from'w'", true}, {"import x from'y'with{type:'json'}", true}, {"export{}from'x'", true},
		{"import defer from'x';import source,{a}from'y'", true}, {"export{x as y,z}from'w'", true},
		{"x=<!--y\n1", false}, {"a\n--> b\n", false},
		{"x=y\n/*\n*/++z", false}, {"x=`a\n${b}\n`\ny", false},
		{"if(a)let\n=1", false}, {"x={a(){},get b(){return 1},*c(){},async d(){},[e]:1,'f'(){},2(){}}", false},
		{"label:{break label}", false}, {"x=y=>({}).z", false}, {"x=y=>({}=z)", false}, {"(function(){}())", false}, {"!function(){}()", false},
		{"a=b?c:d?e:f", false}, {"a=b?(c,d):e=>f", false}, {"a?b:c=>d", false}, {"a?(b):c=>d", false}, {"a?(b)=>c:d", false},
		{"x=y?.5:1", false}, {"var \u00e9=1,\u0275\u0275x,$,_,a\u200c,\\u{1d400}x,\U0001d400y,x\\u{1d7d8}", false},
		{"({a=1,b:{c=2}}={})", false}, {"({a=1})=>a", false}, {"[{a=1}]=x", false},
		{"typeof typeof void delete a.b", false}, {"+a- -b+ +c-(-d)", false}, {"a+++b;a---b", false},
		{"(a,b)=>{},(c)=>d", false}, {"x=(a,b,)=>0;f(a,b,)", false}, {"f(...a,...b)", false}, {"new F(...a)", false},
		{"function f(a,b,){}", false}, {"function f(a=1,{b,c}={},[d]=[],...e){}", false},
		{"class A{static async*[x](){}static get[y](){}static set[z](v){}*[Symbol.iterator](){}}", false},
		{"x=class extends A{}", false}, {"0?0:async function(){}", false},
		{"a=b\n(c)", false}, {"a=b\n[c]", false}, {"let x\nlet y", false}, {"yield\n/1/g", false},
	}
	for _, c := range accept {
		if _, err := Parse(c.src, Options{Module: c.module}); err != nil {
			t.Errorf("module=%v %q: %v", c.module, c.src, err)
		}
	}
	reject := []string{"a b", "x = ;", "(a,)", "()", "(...a)", "let[0]", "for(;;", "`a${b", "/re", "'a\nb'", "a => {} ()", "if(a)else;", "x = {a b}", "class{}", "function(){}", "0x", "3in x", "@", "a ? ? b : c"}
	for _, src := range reject {
		if _, err := Parse(src, Options{}); err == nil {
			t.Errorf("%q: expected a syntax error", src)
		}
	}
	if !strings.Contains(func() string { _, err := Parse("a\n  b c", Options{}); return err.Error() }(), "2:5") {
		t.Errorf("error position")
	}
}

func sortedKeys(m map[Feature]int) []string {
	var out []string
	for k := range m {
		out = append(out, string(k))
	}
	sort.Strings(out)
	return out
}

package jsref

import (
	"encoding/json"
	"math/rand"
	"os"
	"strconv"
	"strings"
	"testing"
)

var mutationPool = []string{
	"let", "async", "await", "yield", "of", "in", "static", "get", "set", "function", "class", "new", "return", "var", "const",
	"(", ")", "[", "]", "{", "}", "/", "/=", "=>", "=", ",", ";", ":", "?", "?.", "...", ".", "*", "**", "++", "--", "+", "-", "!", "<", ">",
	"x", "y", "0", "1n", "''", "`t`", "`a${", "}b`", "/re/g", "#p", "\n", "for", "if", "else", "do", "while", "this", "super", "import", "export",
	"default", "from", "as", "using", "accessor", "extends", "typeof", "void", "delete", "instanceof", "try", "catch", "finally", "throw", "debugger", "label:",
	"break", "continue", "switch", "case", "with", "@", "<!--", "-->", "target", "meta", "null", "true",
}

// mutate derives a program from the token stream of a valid one.
func mutate(r *rand.Rand, toks []Token) string {
	parts := make([]string, 0, len(toks)+2)
	for _, t := range toks {
		parts = append(parts, t.Raw)
	}
	for n := 1 + r.Intn(2); n > 0 && len(parts) > 0; n-- {
		i := r.Intn(len(parts))
		switch r.Intn(5) {
		case 0: // delete
			parts = append(parts[:i], parts[i+1:]...)
		case 1: // duplicate
			parts = append(parts[:i+1], parts[i:]...)
		case 2: // swap
			if i+1 < len(parts) {
				parts[i], parts[i+1] = parts[i+1], parts[i]
			}
		case 3: // replace
			parts[i] = mutationPool[r.Intn(len(mutationPool))]
		case 4: // insert
			parts = append(parts[:i+1], parts[i:]...)
			parts[i] = mutationPool[r.Intn(len(mutationPool))]
		}
	}
	var sb strings.Builder
	for i, p := range parts {
		if i > 0 {
			switch r.Intn(8) {
			case 0:
				sb.WriteByte('\n')
			case 1:
				// no separator at all when that cannot glue two tokens into another one
				a, b := parts[i-1], p
				if a != "" && b != "" && (isIDContinue(rune(a[len(a)-1])) && isIDContinue(rune(b[0])) || strings.ContainsAny(a[len(a)-1:], "+-/<>=!*&|?.%^") && strings.ContainsAny(b[:1], "+-/<>=!*&|?.%^") || isDigit(a[len(a)-1]) && b[0] == '.') {
					sb.WriteByte(' ')
				}
			default:
				sb.WriteByte(' ')
			}
		}
		sb.WriteString(p)
	}
	return sb.String()
}

// TestMutationFuzzAgainstV8 mutates token streams of valid corpus programs
// and checks that jsref accepts every mutant that V8 accepts. Set
// JSREF_FUZZ_N to change the number of mutants.
func TestMutationFuzzAgainstV8(t *testing.T) {
	corpus := harvestCorpus(t)
	n := 4000
	if s := os.Getenv("JSREF_FUZZ_N"); s != "" {
		n, _ = strconv.Atoi(s)
	}
	seed := int64(1)
	if s := os.Getenv("JSREF_FUZZ_SEED"); s != "" {
		seed, _ = strconv.ParseInt(s, 10, 64)
	}
	r := rand.New(rand.NewSource(seed))
	var mutants []string
	seen := map[string]bool{}
	for tries := 0; len(mutants) < n && tries < n*20; tries++ {
		src := corpus[r.Intn(len(corpus))]
		if len(src) > 300 {
			continue
		}
		prog, err := Parse(src, Options{Module: r.Intn(2) == 0})
		if err != nil || len(prog.Tokens) == 0 {
			continue
		}
		m := mutate(r, prog.Tokens)
		if strings.Contains(m, "class") && strings.Contains(m, "...") {
			// node 20/22 abort while reporting the syntax error for "..." in a
			// class body; v8Check survives that, but only by slow bisection
			continue
		}
		if !seen[m] {
			seen[m] = true
			mutants = append(mutants, m)
		}
	}
	if dump := os.Getenv("JSREF_DUMP_MUTANTS"); dump != "" {
		b, _ := json.Marshal(mutants)
		os.WriteFile(dump, b, 0o644)
	}
	// no mutant, valid or not, may make the parser panic or loop
	for _, src := range mutants {
		for _, o := range []Options{{}, {Module: true}, {Module: true, JSX: true}} {
			if prog, err := Parse(src, o); err == nil && !o.JSX {
				checkInvariants(t, src, src, prog)
			}
		}
	}
	verdicts := v8Check(t, mutants)
	accepted, failures := 0, 0
	for i, src := range mutants {
		for _, module := range []bool{false, true} {
			if module && !verdicts[i].module || !module && !verdicts[i].script {
				continue
			}
			accepted++
			prog, err := Parse(src, Options{Module: module})
			if err != nil {
				failures++
				if failures <= 30 {
					t.Errorf("module=%v %q: %v", module, src, err)
				}
				continue
			}
			checkInvariants(t, src, src, prog)
		}
	}
	t.Logf("%d mutants, %d (mutant,goal) pairs accepted by V8, %d jsref failures", len(mutants), accepted, failures)
}

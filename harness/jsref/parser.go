package jsref

// fnCtx is the per-function parsing context.
type fnCtx struct {
	async     bool // `await` is an operator
	generator bool // `yield` is an operator
	strict    bool
	top       bool // program level (not inside any function)
	function  bool // inside some non-arrow function (new.target / return allowed; informational)
}

type parser struct {
	lx   lexer
	opts Options
	toks []Token
	pos  int
	t    Token // copy of toks[pos]
	ctx  fnCtx
	noIn bool

	feats   map[Feature]int
	imports []ImportRecord
	exports []ExportRecord
}

type parseAbort struct{ err *SyntaxError }

func (p *parser) failAt(tok *Token, msg string) {
	panic(parseAbort{&SyntaxError{Msg: msg, Offset: tok.Start, Line: tok.Line, Col16: tok.Col16}})
}

func (p *parser) fail(msg string) {
	if p.t.Kind == tError {
		msg = p.t.errMsg
	} else if p.t.Kind == TEOF {
		msg += " (at end of input)"
	} else {
		msg += " (at " + p.t.Kind.String() + " " + quoteShort(p.t.Raw) + ")"
	}
	p.failAt(&p.t, msg)
}

func quoteShort(s string) string {
	if len(s) > 20 {
		s = s[:20] + "..."
	}
	return "'" + s + "'"
}

func (p *parser) note(f Feature, off int) {
	if old, ok := p.feats[f]; !ok || off < old {
		p.feats[f] = off
	}
}

// fill makes sure that toks[pos+n] exists (scanning in normal mode).
func (p *parser) fill(n int) {
	for len(p.toks) <= p.pos+n {
		if k := len(p.toks); k > 0 && p.toks[k-1].Kind == TEOF {
			p.toks = append(p.toks, p.toks[k-1])
			continue
		}
		p.toks = append(p.toks, p.lx.next(modeNormal, false))
	}
}

func (p *parser) setCur() {
	p.t = p.toks[p.pos]
	if p.t.Kind == tError {
		p.fail(p.t.errMsg)
	}
}

// next advances to the next token (normal mode).
func (p *parser) next() {
	p.pos++
	p.fill(0)
	p.setCur()
}

// peek returns the n-th token after the current one without consuming it.
func (p *parser) peek(n int) *Token {
	p.fill(n)
	return &p.toks[p.pos+n]
}

// nextMode advances to the next token, scanning it in the given mode. Any
// lookahead scanned in another mode is discarded.
func (p *parser) nextMode(mode lexMode) {
	if len(p.toks) > p.pos+1 || mode != modeNormal {
		p.toks = p.toks[:p.pos+1]
		p.lx.rewindAfter(&p.toks[p.pos])
	}
	p.toks = append(p.toks, p.lx.next(mode, false))
	p.pos++
	p.setCur()
}

// rescan re-reads the current token in the given mode.
func (p *parser) rescan(mode lexMode) {
	old := p.toks[p.pos]
	p.toks = p.toks[:p.pos]
	p.lx.rewind(&old)
	p.toks = append(p.toks, p.lx.next(mode, old.NewlineBefore))
	p.setCur()
}

func (p *parser) isP(s string) bool { return p.t.Kind == TPunct && p.t.Raw == s }
func (p *parser) isK(s string) bool { return p.t.Kind == TKeyword && p.t.Raw == s }

// isId reports whether the current token is the contextual keyword s (spelled without escapes).
func (p *parser) isId(s string) bool { return p.t.Kind == TIdent && !p.t.Escaped && p.t.Ident == s }

func tokIsP(t *Token, s string) bool  { return t.Kind == TPunct && t.Raw == s }
func tokIsK(t *Token, s string) bool  { return t.Kind == TKeyword && t.Raw == s }
func tokIsId(t *Token, s string) bool { return t.Kind == TIdent && !t.Escaped && t.Ident == s }

func (p *parser) eatP(s string) bool {
	if p.isP(s) {
		p.next()
		return true
	}
	return false
}

func (p *parser) expectP(s string) {
	if !p.isP(s) {
		p.fail("expected '" + s + "'")
	}
	p.next()
}

func (p *parser) expectK(s string) {
	if !p.isK(s) {
		p.fail("expected '" + s + "'")
	}
	p.next()
}

func (p *parser) start(t NodeType) *Node {
	return &Node{Type: t, Start: p.t.Start, Tok: p.pos}
}

func (p *parser) startAt(t NodeType, from *Node) *Node {
	return &Node{Type: t, Start: from.Start, Tok: from.Tok}
}

// finish sets the end offset of n to the end of the previously consumed token.
func (p *parser) finish(n *Node) *Node {
	if p.pos > 0 {
		n.End = p.toks[p.pos-1].End
	}
	if n.End < n.Start {
		n.End = n.Start
	}
	return n
}

// semicolon consumes a statement terminator, applying ASI.
func (p *parser) semicolon() {
	if p.isP(";") {
		p.next()
		return
	}
	if p.isP("}") || p.t.Kind == TEOF || p.t.NewlineBefore {
		return
	}
	p.fail("expected ';'")
}

func (p *parser) parseProgram() *Node {
	n := p.start(NProgram)
	n.Start = 0
	p.ctx = fnCtx{top: true, strict: p.opts.Module, async: p.opts.Module}
	n.List = p.parseStatementList(true, func() bool { return p.t.Kind == TEOF })
	n.End = len(p.lx.src)
	if p.ctx.strict {
		n.Flags |= FlagStrict
	}
	return n
}

// parseStatementList parses statements until done() holds. With prologue set,
// leading string-literal expression statements are marked as directives.
func (p *parser) parseStatementList(prologue bool, done func() bool) []*Node {
	var list []*Node
	for !done() {
		if p.t.Kind == TEOF {
			p.fail("unexpected end of input")
		}
		isStr := p.t.Kind == TString
		raw := p.t.Raw
		s := p.parseStatement()
		if prologue {
			if isStr && s.Type == NExprStmt && s.A.Type == NStr && s.A.Start == s.Start {
				s.Flags |= FlagDirective
				if raw == `"use strict"` || raw == `'use strict'` {
					p.ctx.strict = true
				}
			} else {
				prologue = false
			}
		}
		list = append(list, s)
	}
	return list
}

func (p *parser) parseBlock() *Node {
	n := p.start(NBlock)
	p.expectP("{")
	n.List = p.parseStatementList(false, func() bool { return p.isP("}") })
	p.next()
	return p.finish(n)
}

// isLetDecl reports whether the current `let` token starts a declaration.
func (p *parser) isLetDecl() bool {
	if !p.isId("let") {
		return false
	}
	nx := p.peek(1)
	return nx.Kind == TIdent || tokIsP(nx, "[") || tokIsP(nx, "{")
}

// isUsingDecl reports whether the current token starts a `using` or `await
// using` declaration; it returns the declaration kind.
func (p *parser) isUsingDecl(inForHead bool) (string, bool) {
	if p.isId("using") {
		nx := p.peek(1)
		if nx.Kind == TIdent && !nx.NewlineBefore {
			if inForHead && tokIsId(nx, "of") {
				n2 := p.peek(2)
				if !tokIsP(n2, "=") {
					return "", false
				}
			}
			return "using", true
		}
	}
	if p.ctx.async && p.isId("await") {
		n1, n2 := p.peek(1), p.peek(2)
		if tokIsId(n1, "using") && !n1.NewlineBefore && n2.Kind == TIdent && !n2.NewlineBefore {
			if inForHead && tokIsId(n2, "of") {
				return "", false
			}
			return "await using", true
		}
	}
	return "", false
}

// parseSubStatement parses the body of if/else/for/while/do/with, where
// declarations are not allowed and so `let` is an identifier unless it is
// followed by '['.
func (p *parser) parseSubStatement() *Node {
	if p.isId("let") && !tokIsP(p.peek(1), "[") {
		n := p.start(NExprStmt)
		n.A = p.parseExpression()
		p.semicolon()
		return p.finish(n)
	}
	return p.parseStatement()
}

func (p *parser) parseStatement() *Node {
	switch p.t.Kind {
	case TPunct:
		switch p.t.Raw {
		case "{":
			return p.parseBlock()
		case ";":
			n := p.start(NEmpty)
			p.next()
			return p.finish(n)
		case "@":
			decos := p.parseDecorators()
			if p.isK("export") {
				return p.parseExport(decos)
			}
			return p.parseClass(true, false, decos)
		}
	case TKeyword:
		switch p.t.Raw {
		case "var", "const":
			n := p.parseVarDecl(p.t.Raw)
			p.semicolon()
			return p.finish(n)
		case "function":
			return p.parseFunction(true, false)
		case "class":
			return p.parseClass(true, false, nil)
		case "if":
			n := p.start(NIf)
			p.next()
			n.A = p.parseParenExpr()
			n.B = p.parseSubStatement()
			if p.isK("else") {
				p.next()
				n.C = p.parseSubStatement()
			}
			return p.finish(n)
		case "for":
			return p.parseFor()
		case "while":
			n := p.start(NWhile)
			p.next()
			n.A = p.parseParenExpr()
			n.D = p.parseSubStatement()
			return p.finish(n)
		case "do":
			n := p.start(NDoWhile)
			p.next()
			n.D = p.parseSubStatement()
			p.expectK("while")
			n.A = p.parseParenExpr()
			p.eatP(";")
			return p.finish(n)
		case "return", "throw":
			n := p.start(NReturn)
			if p.t.Raw == "throw" {
				n.Type = NThrow
			}
			p.next()
			if !p.isP(";") && !p.isP("}") && p.t.Kind != TEOF && !p.t.NewlineBefore {
				n.A = p.parseExpression()
			}
			p.semicolon()
			return p.finish(n)
		case "break", "continue":
			n := p.start(NBreak)
			if p.t.Raw == "continue" {
				n.Type = NContinue
			}
			p.next()
			if p.t.Kind == TIdent && !p.t.NewlineBefore {
				n.Name = p.t.Ident
				p.next()
			}
			p.semicolon()
			return p.finish(n)
		case "try":
			return p.parseTry()
		case "switch":
			return p.parseSwitch()
		case "with":
			n := p.start(NWith)
			p.next()
			n.A = p.parseParenExpr()
			n.B = p.parseSubStatement()
			return p.finish(n)
		case "debugger":
			n := p.start(NDebugger)
			p.next()
			p.semicolon()
			return p.finish(n)
		case "import":
			if nx := p.peek(1); !tokIsP(nx, "(") && !tokIsP(nx, ".") {
				return p.parseImport()
			}
		case "export":
			return p.parseExport(nil)
		}
	case TIdent:
		if !p.t.Escaped {
			switch p.t.Ident {
			case "let":
				if p.isLetDecl() {
					n := p.parseVarDecl("let")
					p.semicolon()
					return p.finish(n)
				}
			case "async":
				if nx := p.peek(1); tokIsK(nx, "function") && !nx.NewlineBefore {
					return p.parseFunction(true, false)
				}
			case "using", "await":
				if kind, ok := p.isUsingDecl(false); ok {
					n := p.parseVarDecl(kind)
					p.semicolon()
					return p.finish(n)
				}
			}
		}
		if tokIsP(p.peek(1), ":") {
			n := p.start(NLabeled)
			n.Name = p.t.Ident
			p.next()
			p.next()
			n.A = p.parseStatement()
			return p.finish(n)
		}
	}
	n := p.start(NExprStmt)
	n.A = p.parseExpression()
	p.semicolon()
	return p.finish(n)
}

func (p *parser) parseParenExpr() *Node {
	p.expectP("(")
	old := p.noIn
	p.noIn = false
	e := p.parseExpression()
	p.noIn = old
	p.expectP(")")
	return e
}

// parseVarDecl parses `var|let|const|using|await using` declarators (without
// the terminating semicolon). The current token is the first keyword.
func (p *parser) parseVarDecl(kind string) *Node {
	n := p.start(NVarDecl)
	n.Name = kind
	switch kind {
	case "let", "const":
		p.note(FeatLetConst, p.t.Start)
	case "using":
		p.note(FeatUsing, p.t.Start)
	case "await using":
		p.note(FeatUsing, p.t.Start)
		p.noteAwait(p.t.Start)
		p.next()
	}
	p.next()
	for {
		d := p.start(NDeclarator)
		d.A = p.parseBindingTarget()
		if p.eatP("=") {
			d.B = p.parseAssign()
		}
		n.List = append(n.List, p.finish(d))
		if !p.eatP(",") {
			break
		}
	}
	return p.finish(n)
}

func (p *parser) noteAwait(off int) {
	p.note(FeatAsyncFunction, off)
	if p.ctx.top {
		p.note(FeatTopLevelAwait, off)
	}
}

func (p *parser) parseFor() *Node {
	n := p.start(NFor)
	p.next()
	isAwait := false
	if p.isId("await") {
		isAwait = true
		p.note(FeatForAwait, p.t.Start)
		p.noteAwait(p.t.Start)
		p.next()
	}
	p.expectP("(")
	oldIn := p.noIn
	var init *Node
	if !p.isP(";") {
		p.noIn = true
		kind := ""
		if p.isK("var") || p.isK("const") {
			kind = p.t.Raw
		} else if p.isLetDecl() {
			kind = "let"
		} else if k, ok := p.isUsingDecl(true); ok {
			kind = k
		}
		if kind != "" {
			init = p.parseVarDecl(kind)
		} else {
			init = p.parseExpression()
		}
		p.noIn = false
		if p.isId("of") || p.isK("in") {
			if p.isK("in") {
				n.Type = NForIn
			} else {
				n.Type = NForOf
				p.note(FeatForOf, n.Start)
				if isAwait {
					n.Flags |= FlagAwait
				}
			}
			if init.Type != NVarDecl {
				p.noteAssignTarget(init)
			}
			p.next()
			n.A = init
			if n.Type == NForOf {
				n.B = p.parseAssign()
			} else {
				n.B = p.parseExpression()
			}
			p.expectP(")")
			p.noIn = oldIn
			n.D = p.parseSubStatement()
			return p.finish(n)
		}
	}
	p.noIn = false
	n.A = init
	p.expectP(";")
	if !p.isP(";") {
		n.B = p.parseExpression()
	}
	p.expectP(";")
	if !p.isP(")") {
		n.C = p.parseExpression()
	}
	p.expectP(")")
	p.noIn = oldIn
	n.D = p.parseSubStatement()
	return p.finish(n)
}

func (p *parser) parseTry() *Node {
	n := p.start(NTry)
	p.next()
	n.A = p.parseBlock()
	if p.isK("catch") {
		c := p.start(NCatch)
		p.next()
		if p.eatP("(") {
			c.A = p.parseBindingTarget()
			p.expectP(")")
		} else {
			p.note(FeatOptionalCatchBinding, c.Start)
		}
		c.B = p.parseBlock()
		n.B = p.finish(c)
	}
	if p.isK("finally") {
		p.next()
		n.C = p.parseBlock()
	}
	if n.B == nil && n.C == nil {
		p.fail("expected 'catch' or 'finally'")
	}
	return p.finish(n)
}

func (p *parser) parseSwitch() *Node {
	n := p.start(NSwitch)
	p.next()
	n.A = p.parseParenExpr()
	p.expectP("{")
	for !p.isP("}") {
		c := p.start(NCase)
		if p.isK("case") {
			p.next()
			c.A = p.parseExpression()
		} else if p.isK("default") {
			p.next()
		} else {
			p.fail("expected 'case' or 'default'")
		}
		p.expectP(":")
		c.List = p.parseStatementList(false, func() bool {
			return p.isP("}") || p.isK("case") || p.isK("default")
		})
		n.List = append(n.List, p.finish(c))
	}
	p.next()
	return p.finish(n)
}

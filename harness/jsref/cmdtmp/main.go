package main

import (
	"fmt"
	"os"

	"github.com/evanw/esbuild/verif/jsref"
)

func main() {
	mod := false
	jsx := false
	args := os.Args[1:]
	for len(args) > 0 && (args[0] == "-m" || args[0] == "-x") {
		if args[0] == "-m" {
			mod = true
		} else {
			jsx = true
		}
		args = args[1:]
	}
	for _, src := range args {
		p, err := jsref.Parse(src, jsref.Options{Module: mod, JSX: jsx})
		if err != nil {
			fmt.Printf("ERR %q: %v\n", src, err)
			continue
		}
		fmt.Printf("OK %q\n  toks:", src)
		for _, t := range p.Tokens {
			fmt.Printf(" %s", t.Raw)
			if t.Kind == jsref.TRegex {
				fmt.Printf("«re»")
			}
		}
		fmt.Printf("\n  free=%v feats=%v\n", p.FreeNames, p.Features)
		for _, i := range p.Imports {
			fmt.Printf("  import %+v\n", i)
		}
		for _, e := range p.Exports {
			fmt.Printf("  export %+v\n", e)
		}
	}
}

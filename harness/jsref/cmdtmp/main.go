// Temporary experiment: run real esbuild over the corpus and check jsref on the outputs.
package main

import (
	"encoding/json"
	"fmt"
	"go/ast"
	goparser "go/parser"
	"go/token"
	"os"
	"os/exec"
	"path/filepath"
	"sort"
	"strconv"
	"strings"

	"github.com/evanw/esbuild/pkg/api"
	"github.com/evanw/esbuild/verif/jsref"
)

type output struct {
	Code string
	Mode string
	JSX  bool
}

func goConstString(e ast.Expr) (string, bool) {
	switch e := e.(type) {
	case *ast.BasicLit:
		if e.Kind == token.STRING {
			s, err := strconv.Unquote(e.Value)
			return s, err == nil
		}
	case *ast.BinaryExpr:
		if e.Op == token.ADD {
			a, ok1 := goConstString(e.X)
			b, ok2 := goConstString(e.Y)
			return a + b, ok1 && ok2
		}
	}
	return "", false
}

type project struct {
	files   map[string]string
	entries []string
}

func harvestProjects() []project {
	var out []project
	files, _ := filepath.Glob("/repo/internal/bundler_tests/*_test.go")
	for _, f := range files {
		fset := token.NewFileSet()
		af, err := goparser.ParseFile(fset, f, nil, 0)
		if err != nil {
			continue
		}
		ast.Inspect(af, func(n ast.Node) bool {
			cl, ok := n.(*ast.CompositeLit)
			if !ok {
				return true
			}
			var pr project
			for _, el := range cl.Elts {
				kv, ok := el.(*ast.KeyValueExpr)
				if !ok {
					continue
				}
				k, ok := kv.Key.(*ast.Ident)
				if !ok {
					continue
				}
				v, ok := kv.Value.(*ast.CompositeLit)
				if !ok {
					continue
				}
				switch k.Name {
				case "files":
					pr.files = map[string]string{}
					for _, fe := range v.Elts {
						if fkv, ok := fe.(*ast.KeyValueExpr); ok {
							a, ok1 := goConstString(fkv.Key)
							b, ok2 := goConstString(fkv.Value)
							if ok1 && ok2 {
								pr.files[a] = b
							}
						}
					}
				case "entryPaths":
					for _, fe := range v.Elts {
						if s, ok := goConstString(fe); ok {
							pr.entries = append(pr.entries, s)
						}
					}
				}
			}
			if len(pr.files) > 0 && len(pr.entries) > 0 {
				out = append(out, pr)
			}
			return true
		})
	}
	return out
}

func main() {
	var corpus []string
	b, err := os.ReadFile("/tmp/jsref_corpus.json")
	if err != nil {
		panic(err)
	}
	json.Unmarshal(b, &corpus)

	seen := map[string]bool{}
	var outs []output
	add := func(code, mode string, jsx bool) {
		key := code
		if jsx {
			key = "jsx:" + code
		}
		if code == "" || seen[key] {
			return
		}
		seen[key] = true
		outs = append(outs, output{code, mode, jsx})
	}
	type mode struct {
		name string
		opts api.TransformOptions
	}
	modes := []mode{
		{"default", api.TransformOptions{}},
		{"minify", api.TransformOptions{MinifyWhitespace: true, MinifyIdentifiers: true, MinifySyntax: true}},
		{"minify-ascii", api.TransformOptions{MinifyWhitespace: true, MinifyIdentifiers: true, MinifySyntax: true, Charset: api.CharsetASCII}},
		{"ws-utf8", api.TransformOptions{MinifyWhitespace: true, Charset: api.CharsetUTF8}},
		{"cjs", api.TransformOptions{Format: api.FormatCommonJS}},
		{"iife-min", api.TransformOptions{Format: api.FormatIIFE, GlobalName: "g", MinifyWhitespace: true, MinifySyntax: true}},
		{"esm-es2015", api.TransformOptions{Format: api.FormatESModule, Target: api.ES2015}},
		{"es2017-min", api.TransformOptions{Target: api.ES2017, MinifyWhitespace: true}},
		{"es2020", api.TransformOptions{Target: api.ES2020}},
	}
	for _, src := range corpus {
		for _, m := range modes {
			o := m.opts
			o.LogLevel = api.LogLevelSilent
			r := api.Transform(src, o)
			if len(r.Errors) == 0 {
				add(string(r.Code), m.name, false)
			}
		}
		if strings.Contains(src, "<") {
			for _, min := range []bool{false, true} {
				r := api.Transform(src, api.TransformOptions{Loader: api.LoaderJSX, JSX: api.JSXPreserve, MinifyWhitespace: min, LogLevel: api.LogLevelSilent})
				if len(r.Errors) == 0 && strings.Contains(string(r.Code), "<") {
					add(string(r.Code), "jsx-preserve", true)
				}
			}
		}
	}
	fmt.Println("transform outputs:", len(outs))

	// bundles
	projects := harvestProjects()
	fmt.Println("projects:", len(projects))
	tmp, _ := os.MkdirTemp("", "jsrefproj")
	defer os.RemoveAll(tmp)
	for i, pr := range projects {
		dir := filepath.Join(tmp, strconv.Itoa(i))
		for name, content := range pr.files {
			p := filepath.Join(dir, name)
			os.MkdirAll(filepath.Dir(p), 0o755)
			os.WriteFile(p, []byte(content), 0o644)
		}
		var entries []string
		for _, e := range pr.entries {
			entries = append(entries, filepath.Join(dir, e))
		}
		for _, f := range []api.Format{api.FormatESModule, api.FormatCommonJS, api.FormatIIFE} {
			for _, min := range []bool{false, true} {
				r := api.Build(api.BuildOptions{EntryPoints: entries, Bundle: true, Format: f, Outdir: filepath.Join(dir, "out"),
					MinifyWhitespace: min, MinifyIdentifiers: min, MinifySyntax: min, LogLevel: api.LogLevelSilent,
					AbsWorkingDir: dir, Charset: map[bool]api.Charset{false: api.CharsetUTF8, true: api.CharsetASCII}[min]})
				if len(r.Errors) > 0 {
					continue
				}
				for _, of := range r.OutputFiles {
					if strings.HasSuffix(of.Path, ".js") {
						add(string(of.Contents), fmt.Sprintf("bundle-%v-min%v", f, min), false)
					}
				}
			}
		}
	}
	fmt.Println("total outputs:", len(outs))

	// V8 verdicts
	var codes []string
	for _, o := range outs {
		codes = append(codes, o.Code)
	}
	jb, _ := json.Marshal(codes)
	os.WriteFile(filepath.Join(tmp, "in.json"), jb, 0o644)
	verd := make([][2]bool, len(outs))
	for _, node := range []string{"/usr/bin/node", "/root/.nvm/versions/node/v22.22.2/bin/node"} {
		outFile := filepath.Join(tmp, "out.json")
		cmd := exec.Command(node, "--experimental-vm-modules", "--no-warnings", "/verif/harness/jsref/testdata/check.js", filepath.Join(tmp, "in.json"), outFile)
		if b, err := cmd.CombinedOutput(); err != nil {
			panic(string(b))
		}
		ob, _ := os.ReadFile(outFile)
		var v [][2]bool
		json.Unmarshal(ob, &v)
		for i := range v {
			verd[i][0] = verd[i][0] || v[i][0]
			verd[i][1] = verd[i][1] || v[i][1]
		}
	}
	pairs, fails, jsxN, jsxFail, v8rejects := 0, 0, 0, 0, 0
	type cand struct {
		idx    int
		module bool
		feats  map[jsref.Feature]int
	}
	var cands []cand
	for i, o := range outs {
		if o.JSX {
			jsxN++
			p, err := jsref.Parse(o.Code, jsref.Options{Module: true, JSX: true})
			if err != nil {
				jsxFail++
				if jsxFail < 15 {
					fmt.Printf("JSX FAIL %v\n%s\n----\n", err, o.Code)
				}
			} else {
				cands = append(cands, cand{i, true, p.Features})
			}
			continue
		}
		if !verd[i][0] && !verd[i][1] {
			v8rejects++
		}
		for g := 0; g < 2; g++ {
			if !verd[i][g] {
				continue
			}
			pairs++
			p, err := jsref.Parse(o.Code, jsref.Options{Module: g == 1})
			if err != nil {
				fails++
				if fails < 30 {
					c := o.Code
					if len(c) > 600 {
						c = c[:600]
					}
					fmt.Printf("FAIL mode=%s module=%v: %v\n%s\n----\n", o.Mode, g == 1, err, c)
				}
			} else if g == 1 || !verd[i][1] {
				cands = append(cands, cand{i, g == 1, p.Features})
			}
		}
	}
	fmt.Printf("outputs=%d v8-accepted pairs=%d jsref failures=%d; v8 rejects both goals=%d; jsx outputs=%d jsx failures=%d\n", len(outs), pairs, fails, v8rejects, jsxN, jsxFail)

	// choose ~220 outputs greedily by new (feature, mode) coverage, then the largest bundles
	covered := map[string]bool{}
	var chosen []cand
	sort.SliceStable(cands, func(a, b int) bool { return len(cands[a].feats) > len(cands[b].feats) })
	for _, c := range cands {
		if len(chosen) >= 170 {
			break
		}
		isNew := false
		for f := range c.feats {
			k := string(f) + "|" + outs[c.idx].Mode
			if !covered[k] {
				isNew = true
				covered[k] = true
			}
		}
		if isNew && len(outs[c.idx].Code) < 20000 {
			chosen = append(chosen, c)
		}
	}
	picked := map[int]bool{}
	for _, c := range chosen {
		picked[c.idx] = true
	}
	sort.SliceStable(cands, func(a, b int) bool { return len(outs[cands[a].idx].Code) > len(outs[cands[b].idx].Code) })
	n := 0
	for _, c := range cands {
		if n >= 50 {
			break
		}
		if strings.HasPrefix(outs[c.idx].Mode, "bundle") && !picked[c.idx] && len(outs[c.idx].Code) < 30000 {
			chosen = append(chosen, c)
			picked[c.idx] = true
			n++
		}
	}
	os.RemoveAll("/verif/harness/jsref/testdata/esbuild")
	os.MkdirAll("/verif/harness/jsref/testdata/esbuild", 0o755)
	for i, c := range chosen {
		o := outs[c.idx]
		goal := "script"
		if c.module {
			goal = "module"
		}
		if o.JSX {
			goal = "jsx"
		}
		name := fmt.Sprintf("%03d_%s.%s.js", i, strings.NewReplacer("=", "", " ", "").Replace(o.Mode), goal)
		os.WriteFile(filepath.Join("/verif/harness/jsref/testdata/esbuild", name), []byte(o.Code), 0o644)
	}
	fmt.Println("saved", len(chosen), "files")
}

package jsref

import (
	"math"
	"math/big"
	"strconv"
	"strings"
	"unicode/utf8"
)

func isDigit(c byte) bool { return c >= '0' && c <= '9' }

func appendUTF16(u []uint16, r rune) []uint16 {
	if r >= 0x10000 {
		r -= 0x10000
		return append(u, uint16(0xD800+(r>>10)), uint16(0xDC00+(r&0x3FF)))
	}
	return append(u, uint16(r))
}

// UTF16 converts a Go string to UTF-16 code units (invalid UTF-8 bytes become U+FFFD).
func UTF16(s string) []uint16 {
	u := make([]uint16, 0, len(s))
	for _, r := range s {
		u = appendUTF16(u, r)
	}
	return u
}

// UTF16ToString converts UTF-16 code units to a Go string; lone surrogates
// become U+FFFD.
func UTF16ToString(u []uint16) string {
	var sb strings.Builder
	for i := 0; i < len(u); i++ {
		c := rune(u[i])
		if c >= 0xD800 && c < 0xDC00 && i+1 < len(u) && u[i+1] >= 0xDC00 && u[i+1] < 0xE000 {
			c = 0x10000 + (c-0xD800)<<10 + rune(u[i+1]-0xDC00)
			i++
		} else if c >= 0xD800 && c < 0xE000 {
			c = 0xFFFD
		}
		sb.WriteRune(c)
	}
	return sb.String()
}

// trackNewlines updates the line bookkeeping for line terminators in src[from:to].
func (l *lexer) trackNewlines(from, to int) {
	s := l.src
	for i := from; i < to; {
		c := s[i]
		switch {
		case c == '\n':
			i++
			l.newlineAt(i)
		case c == '\r':
			i++
			if i < to && s[i] == '\n' {
				i++
			}
			l.newlineAt(i)
		case c == 0xE2 && i+2 < len(s) && s[i+1] == 0x80 && (s[i+2] == 0xA8 || s[i+2] == 0xA9):
			i += 3
			l.newlineAt(i)
		default:
			i++
		}
	}
}

func (l *lexer) scanDigits(valid func(byte) bool, tok *Token) string {
	start := l.pos
	sep := false
	for l.pos < len(l.src) {
		c := l.src[l.pos]
		if c == '_' {
			sep = true
			tok.feat |= tfNumSep
			l.pos++
			continue
		}
		if !valid(c) {
			break
		}
		l.pos++
	}
	s := l.src[start:l.pos]
	if sep {
		s = strings.ReplaceAll(s, "_", "")
	}
	return s
}

func (l *lexer) scanNumber(tok *Token) {
	tok.Kind = TNum
	c := l.src[l.pos]
	c1 := l.byteAt(l.pos + 1)
	if c == '0' && (c1 == 'x' || c1 == 'X' || c1 == 'o' || c1 == 'O' || c1 == 'b' || c1 == 'B') {
		base := 16
		valid := func(b byte) bool { return hexVal(b) >= 0 }
		switch c1 {
		case 'o', 'O':
			base = 8
			valid = func(b byte) bool { return b >= '0' && b <= '7' }
			tok.feat |= tfOctBin
		case 'b', 'B':
			base = 2
			valid = func(b byte) bool { return b == '0' || b == '1' }
			tok.feat |= tfOctBin
		}
		l.pos += 2
		digits := l.scanDigits(valid, tok)
		if digits == "" {
			l.fail(tok, "missing digits in numeric literal")
			return
		}
		l.finishInteger(tok, digits, base)
		return
	}
	if c == '0' && isDigit(c1) {
		// legacy octal or "08"-style decimal
		start := l.pos
		octal := true
		for l.pos < len(l.src) && isDigit(l.src[l.pos]) {
			if l.src[l.pos] >= '8' {
				octal = false
			}
			l.pos++
		}
		tok.feat |= tfLegacyOctal
		if octal {
			l.finishInteger2(tok, l.src[start:l.pos], 8, false)
			return
		}
		l.pos = start // re-scan as decimal below (without bigint suffix)
		l.scanDecimal(tok, false)
		return
	}
	l.scanDecimal(tok, true)
}

func (l *lexer) scanDecimal(tok *Token, allowBigInt bool) {
	var sb strings.Builder
	isInt := true
	sb.WriteString(l.scanDigits(isDigit, tok))
	if allowBigInt && l.byteAt(l.pos) == 'n' && sb.Len() > 0 {
		l.finishInteger(tok, sb.String(), 10)
		return
	}
	if l.byteAt(l.pos) == '.' {
		isInt = false
		l.pos++
		sb.WriteByte('.')
		sb.WriteString(l.scanDigits(isDigit, tok))
	}
	if c := l.byteAt(l.pos); c == 'e' || c == 'E' {
		p := l.pos + 1
		if b := l.byteAt(p); b == '+' || b == '-' {
			p++
		}
		if !isDigit(l.byteAt(p)) {
			l.fail(tok, "missing exponent digits")
			return
		}
		isInt = false
		sb.WriteString(l.src[l.pos:p])
		l.pos = p
		sb.WriteString(l.scanDigits(isDigit, tok))
	}
	_ = isInt
	text := sb.String()
	if text == "." || text == "" {
		l.fail(tok, "invalid number")
		return
	}
	f, _ := strconv.ParseFloat(text, 64) // ±Inf on overflow, which is what JS gives too
	tok.Num = f
	l.checkAfterNumber(tok)
}

func (l *lexer) finishInteger(tok *Token, digits string, base int) {
	l.finishInteger2(tok, digits, base, true)
}

func (l *lexer) finishInteger2(tok *Token, digits string, base int, allowBigInt bool) {
	if allowBigInt && l.byteAt(l.pos) == 'n' {
		l.pos++
		v, ok := new(big.Int).SetString(digits, base)
		if !ok {
			l.fail(tok, "invalid bigint literal")
			return
		}
		tok.Kind = TBigInt
		tok.BigInt = v.String()
		l.checkAfterNumber(tok)
		return
	}
	tok.Num = parseIntegerFloat(digits, base)
	l.checkAfterNumber(tok)
}

// parseIntegerFloat converts an integer spelling in the given base to the
// nearest float64 (ties to even).
func parseIntegerFloat(digits string, base int) float64 {
	if base == 10 {
		f, _ := strconv.ParseFloat(digits, 64)
		return f
	}
	if u, err := strconv.ParseUint(digits, base, 64); err == nil && u < 1<<53 {
		return float64(u)
	}
	v, ok := new(big.Int).SetString(digits, base)
	if !ok {
		return math.NaN()
	}
	f, _ := new(big.Float).SetPrec(uint(v.BitLen()) + 8).SetInt(v).Float64()
	return f
}

func (l *lexer) checkAfterNumber(tok *Token) {
	r, _ := l.peekRune()
	if r == '\\' || isIDStart(r) || r >= '0' && r <= '9' {
		l.fail(tok, "identifier or digit directly after numeric literal")
	}
}

// scanEscape decodes the escape sequence after a backslash (l.pos is just
// after the backslash). It appends the cooked units, and returns ok=false for
// sequences that are invalid in templates (NotEscapeSequence); in that case
// the position is left just after the character following the backslash.
func (l *lexer) scanEscape(u []uint16, tok *Token, template bool) ([]uint16, bool) {
	r, w := l.peekRune()
	if w == 0 {
		return u, false
	}
	after := l.pos + w
	l.pos = after
	switch r {
	case 'n':
		return append(u, '\n'), true
	case 'r':
		return append(u, '\r'), true
	case 't':
		return append(u, '\t'), true
	case 'b':
		return append(u, '\b'), true
	case 'f':
		return append(u, '\f'), true
	case 'v':
		return append(u, '\v'), true
	case '\r':
		if l.byteAt(l.pos) == '\n' {
			l.pos++
		}
		l.newlineAt(l.pos)
		return u, true
	case '\n', 0x2028, 0x2029:
		l.newlineAt(l.pos)
		return u, true
	case 'x':
		h1, h2 := hexVal(l.byteAt(l.pos)), hexVal(l.byteAt(l.pos+1))
		if h1 < 0 || h2 < 0 || l.pos+1 >= len(l.src) {
			l.pos = after
			return u, false
		}
		l.pos += 2
		return append(u, uint16(h1*16+h2)), true
	case 'u':
		cp, ok, brace := l.scanUnicodeEscapeBody()
		if !ok {
			l.pos = after
			return u, false
		}
		if brace {
			tok.feat |= tfBraceEscape
		}
		return appendUTF16(u, cp), true
	case '0', '1', '2', '3', '4', '5', '6', '7':
		next := l.byteAt(l.pos)
		if r == '0' && !isDigit(next) {
			return append(u, 0), true
		}
		if template {
			return u, false
		}
		tok.feat |= tfLegacyOctal
		v := int(r - '0')
		if next >= '0' && next <= '7' {
			v = v*8 + int(next-'0')
			l.pos++
			if n2 := l.byteAt(l.pos); r <= '3' && n2 >= '0' && n2 <= '7' {
				v = v*8 + int(n2-'0')
				l.pos++
			}
		}
		return append(u, uint16(v)), true
	case '8', '9':
		if template {
			return u, false
		}
		tok.feat |= tfLegacyOctal
		return append(u, uint16(r)), true
	}
	if r == utf8.RuneError && w == 1 {
		return append(u, 0xFFFD), true
	}
	return appendUTF16(u, r), true
}

func (l *lexer) scanString(tok *Token) {
	quote := l.src[l.pos]
	l.pos++
	bodyStart := l.pos
	u := make([]uint16, 0, 16)
	for {
		if l.pos >= len(l.src) {
			l.fail(tok, "unterminated string literal")
			return
		}
		c := l.src[l.pos]
		switch {
		case c == quote:
			tok.Kind = TString
			tok.Str = u
			tok.StrRaw = l.src[bodyStart:l.pos]
			l.pos++
			return
		case c == '\\':
			l.pos++
			tok.Escaped = true
			var ok bool
			u, ok = l.scanEscape(u, tok, false)
			if !ok {
				l.fail(tok, "invalid escape sequence in string")
				return
			}
		case c == '\n' || c == '\r':
			l.fail(tok, "unterminated string literal")
			return
		case c < utf8.RuneSelf:
			u = append(u, uint16(c))
			l.pos++
		default:
			r, w := utf8.DecodeRuneInString(l.src[l.pos:])
			l.pos += w
			if r == 0x2028 || r == 0x2029 {
				l.newlineAt(l.pos)
			}
			u = appendUTF16(u, r)
		}
	}
}

// scanTemplate scans a template chunk starting at '`' (head=true) or at the
// '}' that ends a substitution.
func (l *lexer) scanTemplate(tok *Token, head bool) {
	l.pos++ // ` or }
	u := make([]uint16, 0, 16)
	var raw strings.Builder
	invalid := false
	for {
		if l.pos >= len(l.src) {
			l.fail(tok, "unterminated template literal")
			return
		}
		c := l.src[l.pos]
		switch {
		case c == '`':
			l.pos++
			if head {
				tok.Kind = TTemplateNoSub
			} else {
				tok.Kind = TTemplateTail
			}
			goto done
		case c == '$' && l.byteAt(l.pos+1) == '{':
			l.pos += 2
			if head {
				tok.Kind = TTemplateHead
			} else {
				tok.Kind = TTemplateMiddle
			}
			goto done
		case c == '\\':
			escStart := l.pos
			l.pos++
			tok.Escaped = true
			var ok bool
			u, ok = l.scanEscape(u, tok, true)
			if !ok {
				invalid = true
			}
			// raw text of the escape, with CR / CRLF normalised
			raw.WriteString(normalizeNewlines(l.src[escStart:l.pos]))
		case c == '\r':
			l.pos++
			if l.byteAt(l.pos) == '\n' {
				l.pos++
			}
			l.newlineAt(l.pos)
			u = append(u, '\n')
			raw.WriteByte('\n')
		case c == '\n':
			l.pos++
			l.newlineAt(l.pos)
			u = append(u, '\n')
			raw.WriteByte('\n')
		case c < utf8.RuneSelf:
			u = append(u, uint16(c))
			raw.WriteByte(c)
			l.pos++
		default:
			r, w := utf8.DecodeRuneInString(l.src[l.pos:])
			raw.WriteString(l.src[l.pos : l.pos+w])
			l.pos += w
			if r == 0x2028 || r == 0x2029 {
				l.newlineAt(l.pos)
			}
			u = appendUTF16(u, r)
		}
	}
done:
	tok.StrRaw = raw.String()
	if invalid {
		tok.CookedInvalid = true
		tok.Str = nil
	} else {
		tok.Str = u
	}
}

func normalizeNewlines(s string) string {
	if !strings.Contains(s, "\r") {
		return s
	}
	s = strings.ReplaceAll(s, "\r\n", "\n")
	return strings.ReplaceAll(s, "\r", "\n")
}

// scanRegex scans a regular expression literal starting at '/'.
func (l *lexer) scanRegex(tok *Token) {
	l.pos++
	bodyStart := l.pos
	inClass := false
	for {
		if l.pos >= len(l.src) {
			l.fail(tok, "unterminated regular expression")
			return
		}
		r, w := l.peekRune()
		if isLineTerminator(r) {
			l.fail(tok, "unterminated regular expression")
			return
		}
		l.pos += w
		switch r {
		case '\\':
			r2, w2 := l.peekRune()
			if w2 == 0 || isLineTerminator(r2) {
				l.fail(tok, "unterminated regular expression")
				return
			}
			l.pos += w2
		case '[':
			inClass = true
		case ']':
			inClass = false
		case '/':
			if !inClass {
				tok.RegexBody = l.src[bodyStart : l.pos-1]
				flagStart := l.pos
				for l.pos < len(l.src) {
					r, w := l.peekRune()
					if r == '\\' || !isIDContinue(r) {
						break
					}
					l.pos += w
				}
				tok.RegexFlags = l.src[flagStart:l.pos]
				tok.Kind = TRegex
				if tok.RegexBody == "" {
					l.fail(tok, "empty regular expression")
				}
				return
			}
		}
	}
}

// scanJSXTag scans one token inside a JSX tag.
func (l *lexer) scanJSXTag(tok *Token) {
	if l.pos >= len(l.src) {
		tok.Kind = TEOF
		return
	}
	c := l.src[l.pos]
	switch c {
	case '<', '>', '/', '=', '{', '}', '.', ':':
		tok.Kind = TPunct
		l.pos++
	case '"', '\'':
		l.pos++
		start := l.pos
		i := strings.IndexByte(l.src[l.pos:], c)
		if i < 0 {
			l.fail(tok, "unterminated JSX string")
			return
		}
		l.pos += i
		tok.Kind = TJSXString
		tok.StrRaw = l.src[start:l.pos]
		tok.Str = UTF16(tok.StrRaw)
		l.trackNewlines(start, l.pos)
		l.pos++
	default:
		l.scanIdentifier(tok, true)
	}
}

// scanJSXChild scans JSX text up to the next '{' or '<', or that punctuator
// if there is no text.
func (l *lexer) scanJSXChild(tok *Token) {
	if l.pos >= len(l.src) {
		tok.Kind = TEOF
		return
	}
	if c := l.src[l.pos]; c == '{' || c == '<' {
		tok.Kind = TPunct
		l.pos++
		return
	}
	start := l.pos
	i := strings.IndexAny(l.src[l.pos:], "{<")
	if i < 0 {
		l.pos = len(l.src)
		l.fail(tok, "unterminated JSX element")
		return
	}
	l.pos += i
	l.trackNewlines(start, l.pos)
	tok.Kind = TJSXText
	tok.StrRaw = l.src[start:l.pos]
	tok.Str = UTF16(tok.StrRaw)
}

package jsref

// Parse tokenizes and parses src and computes all products.
func Parse(src string, opts Options) (prog *Program, err error) {
	p := &parser{opts: opts, feats: map[Feature]int{}}
	p.lx = lexer{src: src, module: opts.Module}
	p.toks = make([]Token, 0, len(src)/4+16)
	defer func() {
		if r := recover(); r != nil {
			if ab, ok := r.(parseAbort); ok {
				prog, err = nil, ab.err
				return
			}
			panic(r)
		}
	}()
	p.fill(0)
	p.setCur()
	body := p.parseProgram()
	prog = &Program{Source: src, Module: opts.Module, Body: body, Features: p.feats}
	// drop the EOF token (and any duplicates of it created by lookahead)
	toks := p.toks
	for len(toks) > 0 && toks[len(toks)-1].Kind == TEOF {
		toks = toks[:len(toks)-1]
	}
	prog.Tokens = toks
	prog.Comments = p.lx.comments
	for _, c := range prog.Comments {
		switch c.Kind {
		case "hashbang":
			prog.Hashbang = src[c.Start:c.End]
			p.note(FeatHashbang, c.Start)
		case "html-open", "html-close":
			p.note(FeatHTMLComment, c.Start)
		}
	}
	p.tokenFeatures(toks)
	p.analyze(prog)
	prog.Imports = p.imports
	prog.Exports = p.exports
	prog.Literals = collectLiterals(toks)
	return prog, nil
}

// Tokenize returns the token stream of src. The program is parsed so that
// regular expressions, divisions and template continuations are told apart
// correctly; a syntax error is reported like in Parse.
func Tokenize(src string, opts Options) ([]Token, error) {
	prog, err := Parse(src, opts)
	if err != nil {
		return nil, err
	}
	return prog.Tokens, nil
}

func collectLiterals(toks []Token) []Literal {
	var out []Literal
	for i := range toks {
		t := &toks[i]
		l := Literal{Token: i, Offset: t.Start}
		switch t.Kind {
		case TNum:
			l.Kind, l.Num = LitNumber, t.Num
		case TBigInt:
			l.Kind, l.BigInt = LitBigInt, t.BigInt
		case TString:
			l.Kind, l.Str, l.Raw = LitString, t.Str, t.StrRaw
		case TTemplateNoSub, TTemplateHead, TTemplateMiddle, TTemplateTail:
			l.Kind, l.Str, l.Raw, l.CookedInvalid = LitTemplateChunk, t.Str, t.StrRaw, t.CookedInvalid
		case TRegex:
			l.Kind, l.RegexBody, l.RegexFlags = LitRegExp, t.RegexBody, t.RegexFlags
		default:
			continue
		}
		out = append(out, l)
	}
	return out
}

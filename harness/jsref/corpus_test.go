package jsref

import (
	"encoding/json"
	"go/ast"
	goparser "go/parser"
	"go/token"
	"os"
	"os/exec"
	"path/filepath"
	"sort"
	"strconv"
	"strings"
	"testing"
)

// nodeBinaries returns the node executables to use as ground truth.
func nodeBinaries() []string {
	var out []string
	seen := map[string]bool{}
	add := func(p string) {
		if p == "" || seen[p] {
			return
		}
		if _, err := os.Stat(p); err == nil {
			seen[p] = true
			out = append(out, p)
		}
	}
	if p, err := exec.LookPath("node"); err == nil {
		add(p)
	}
	add("/usr/bin/node")
	if m, _ := filepath.Glob("/root/.nvm/versions/node/v22*/bin/node"); len(m) > 0 {
		add(m[len(m)-1])
	}
	return out
}

type verdict struct{ script, module bool }

// v8Check asks every available node whether each snippet parses as a script
// and as a module; the verdicts are OR-ed over the node versions.
func v8Check(t testing.TB, snippets []string) []verdict {
	nodes := nodeBinaries()
	if len(nodes) == 0 {
		t.Skip("node not found")
	}
	res := make([]verdict, len(snippets))
	for _, node := range nodes {
		for j, v := range v8CheckOne(t, node, snippets) {
			res[j].script = res[j].script || v[0]
			res[j].module = res[j].module || v[1]
		}
	}
	return res
}

// v8CheckOne runs one node process over the batch. Some node versions abort
// while decorating certain syntax errors; then the batch is bisected and an
// input that crashes node on its own counts as rejected.
func v8CheckOne(t testing.TB, node string, snippets []string) [][2]bool {
	if len(snippets) == 0 {
		return nil
	}
	dir := t.TempDir()
	in, outFile := filepath.Join(dir, "in.json"), filepath.Join(dir, "out.json")
	data, err := json.Marshal(snippets)
	if err != nil {
		t.Fatal(err)
	}
	if err := os.WriteFile(in, data, 0o644); err != nil {
		t.Fatal(err)
	}
	script, _ := filepath.Abs("testdata/check.js")
	cmd := exec.Command(node, "--experimental-vm-modules", "--no-warnings", script, in, outFile)
	if msg, err := cmd.CombinedOutput(); err != nil {
		if len(snippets) == 1 {
			t.Logf("%s crashes on %q: %v", node, snippets[0], err)
			return [][2]bool{{false, false}}
		}
		_ = msg
		mid := len(snippets) / 2
		return append(v8CheckOne(t, node, snippets[:mid]), v8CheckOne(t, node, snippets[mid:])...)
	}
	b, err := os.ReadFile(outFile)
	if err != nil {
		t.Fatal(err)
	}
	var out [][2]bool
	if err := json.Unmarshal(b, &out); err != nil || len(out) != len(snippets) {
		t.Fatalf("bad output from %s: %v", node, err)
	}
	return out
}

// constString evaluates a Go expression made of string literals and '+'.
func goConstString(e ast.Expr) (string, bool) {
	switch e := e.(type) {
	case *ast.BasicLit:
		if e.Kind == token.STRING {
			s, err := strconv.Unquote(e.Value)
			return s, err == nil
		}
	case *ast.BinaryExpr:
		if e.Op == token.ADD {
			a, ok1 := goConstString(e.X)
			b, ok2 := goConstString(e.Y)
			return a + b, ok1 && ok2
		}
	case *ast.ParenExpr:
		return goConstString(e.X)
	}
	return "", false
}

// harvestCorpus extracts JavaScript snippets from esbuild's own tests.
func harvestCorpus(t testing.TB) []string {
	files := []string{
		"/repo/internal/js_parser/js_parser_test.go",
		"/repo/internal/js_printer/js_printer_test.go",
		"/repo/internal/js_lexer/js_lexer_test.go",
	}
	more, _ := filepath.Glob("/repo/internal/bundler_tests/*_test.go")
	files = append(files, more...)
	set := map[string]bool{}
	found := false
	for _, f := range files {
		fset := token.NewFileSet()
		af, err := goparser.ParseFile(fset, f, nil, 0)
		if err != nil {
			continue
		}
		found = true
		ast.Inspect(af, func(n ast.Node) bool {
			switch n := n.(type) {
			case *ast.CallExpr:
				name := ""
				switch fn := n.Fun.(type) {
				case *ast.Ident:
					name = fn.Name
				case *ast.SelectorExpr:
					name = fn.Sel.Name
				}
				if strings.HasPrefix(name, "expect") {
					for _, a := range n.Args {
						if s, ok := goConstString(a); ok && s != "" {
							set[s] = true
						}
					}
				}
			case *ast.KeyValueExpr:
				k, ok1 := goConstString(n.Key)
				v, ok2 := goConstString(n.Value)
				if ok1 && ok2 && (strings.HasSuffix(k, ".js") || strings.HasSuffix(k, ".mjs") || strings.HasSuffix(k, ".cjs")) {
					set[v] = true
				}
			}
			return true
		})
	}
	if !found {
		t.Skip("esbuild test sources not found under /repo")
	}
	// expected bundler outputs: "---------- /out.js ----------" sections
	snaps, _ := filepath.Glob("/repo/internal/bundler_tests/snapshots/*.txt")
	for _, f := range snaps {
		b, err := os.ReadFile(f)
		if err != nil {
			continue
		}
		for _, test := range strings.Split(string(b), "\n================================================================================\n") {
			parts := strings.Split(test, "\n---------- ")
			for _, part := range parts[1:] {
				nl := strings.IndexByte(part, '\n')
				if nl < 0 {
					continue
				}
				name := strings.TrimSuffix(part[:nl], " ----------")
				if strings.HasSuffix(name, ".js") || strings.HasSuffix(name, ".mjs") || strings.HasSuffix(name, ".cjs") {
					set[part[nl+1:]] = true
				}
			}
		}
	}
	out := make([]string, 0, len(set))
	for s := range set {
		out = append(out, s)
	}
	sort.Strings(out)
	return out
}

func firstLines(s string, n int) string {
	if len(s) > n {
		return s[:n] + "..."
	}
	return s
}

// TestCorpusAcceptance: whatever V8 accepts, jsref must accept.
func TestCorpusAcceptance(t *testing.T) {
	corpus := harvestCorpus(t)
	if dump := os.Getenv("JSREF_DUMP_CORPUS"); dump != "" {
		b, _ := json.Marshal(corpus)
		os.WriteFile(dump, b, 0o644)
	}
	verdicts := v8Check(t, corpus)
	accepted, failures := 0, 0
	for i, src := range corpus {
		v := verdicts[i]
		for _, goal := range []struct {
			ok     bool
			module bool
		}{{v.script, false}, {v.module, true}} {
			if !goal.ok {
				continue
			}
			accepted++
			prog, err := Parse(src, Options{Module: goal.module})
			if err != nil {
				failures++
				if failures <= 40 {
					t.Errorf("module=%v: %v\n%s", goal.module, err, firstLines(src, 300))
				}
				continue
			}
			checkInvariants(t, firstLines(src, 80), src, prog)
		}
	}
	t.Logf("corpus: %d snippets, %d (snippet,goal) pairs accepted by V8, %d jsref failures", len(corpus), accepted, failures)
}

package jsref

import (
	"unicode"
	"unicode/utf8"
)

type lexMode uint8

const (
	modeNormal       lexMode = iota
	modeRegex                // current position is at the '/' that opens a regular expression
	modeTemplateCont         // current position is at the '}' that closes a substitution
	modeJSXTag               // inside a JSX tag
	modeJSXChild             // between JSX tags
)

// lexer is a pull scanner. It never decides between division and regular
// expressions, nor whether a '}' continues a template: the parser asks for a
// re-scan in the appropriate mode.
type lexer struct {
	src    string
	pos    int
	line   int
	colPos int // byte offset up to which col16 has been counted on this line
	col16  int
	module bool

	comments []Comment
	sawToken bool // a token has been produced already (for --> at start of input)
}

func (l *lexer) newlineAt(after int) {
	l.line++
	l.colPos = after
	l.col16 = 0
}

func (l *lexer) colAt(off int) int {
	if off > l.colPos {
		l.col16 += utf16Len(l.src[l.colPos:off])
		l.colPos = off
	}
	return l.col16
}

func utf16Len(s string) int {
	n := 0
	for i := 0; i < len(s); {
		c := s[i]
		if c < utf8.RuneSelf {
			n++
			i++
			continue
		}
		r, w := utf8.DecodeRuneInString(s[i:])
		if r >= 0x10000 {
			n += 2
		} else {
			n++
		}
		i += w
	}
	return n
}

// rewind positions the lexer at the start of tok (which must be the most
// recently scanned token that is kept, or later).
func (l *lexer) rewind(tok *Token) {
	l.pos = tok.Start
	l.line = tok.Line
	l.colPos = tok.Start
	l.col16 = tok.Col16
	for len(l.comments) > 0 && l.comments[len(l.comments)-1].Start >= tok.Start {
		l.comments = l.comments[:len(l.comments)-1]
	}
}

// rewindAfter positions the lexer just after tok. tok must not contain line
// terminators after its first line unless it is the last scanned token; to be
// safe the line/column are recomputed from the token's start.
func (l *lexer) rewindAfter(tok *Token) {
	l.rewind(tok)
	// re-walk the token text to keep line/col right (templates and strings may span lines)
	s := l.src[tok.Start:tok.End]
	for i := 0; i < len(s); {
		r, w := utf8.DecodeRuneInString(s[i:])
		i += w
		if r == '\r' {
			if i < len(s) && s[i] == '\n' {
				i++
			}
			l.newlineAt(tok.Start + i)
		} else if r == '\n' || r == 0x2028 || r == 0x2029 {
			l.newlineAt(tok.Start + i)
		}
	}
	l.pos = tok.End
	l.colAt(l.pos)
}

func (l *lexer) peekRune() (rune, int) {
	if l.pos >= len(l.src) {
		return -1, 0
	}
	c := l.src[l.pos]
	if c < utf8.RuneSelf {
		return rune(c), 1
	}
	return utf8.DecodeRuneInString(l.src[l.pos:])
}

func (l *lexer) byteAt(i int) byte {
	if i < len(l.src) {
		return l.src[i]
	}
	return 0
}

func isLineTerminator(r rune) bool {
	return r == '\n' || r == '\r' || r == 0x2028 || r == 0x2029
}

func isWhitespace(r rune) bool {
	switch r {
	case '\t', '\v', '\f', ' ', 0xA0, 0xFEFF:
		return true
	}
	return r >= 0x80 && unicode.Is(unicode.Zs, r)
}

func isIDStart(r rune) bool {
	if r < utf8.RuneSelf {
		return r >= 'a' && r <= 'z' || r >= 'A' && r <= 'Z' || r == '$' || r == '_'
	}
	return unicode.IsLetter(r) || unicode.Is(unicode.Nl, r) || unicode.Is(unicode.Other_ID_Start, r)
}

func isIDContinue(r rune) bool {
	if r < utf8.RuneSelf {
		return r >= 'a' && r <= 'z' || r >= 'A' && r <= 'Z' || r == '$' || r == '_' || r >= '0' && r <= '9'
	}
	if r == 0x200C || r == 0x200D || r == 0x30FB || r == 0xFF65 { // the last two: Other_ID_Continue since Unicode 15.1
		return true
	}
	return unicode.IsLetter(r) || unicode.Is(unicode.Nl, r) || unicode.Is(unicode.Other_ID_Start, r) ||
		unicode.Is(unicode.Mn, r) || unicode.Is(unicode.Mc, r) || unicode.Is(unicode.Nd, r) ||
		unicode.Is(unicode.Pc, r) || unicode.Is(unicode.Other_ID_Continue, r)
}

// skipTrivia skips white space, line terminators and comments and reports
// whether a line terminator was crossed.
func (l *lexer) skipTrivia(htmlComments bool) (nl bool) {
	for l.pos < len(l.src) {
		c := l.src[l.pos]
		switch {
		case c == ' ' || c == '\t' || c == '\v' || c == '\f':
			l.pos++
		case c == '\n':
			l.pos++
			l.newlineAt(l.pos)
			nl = true
		case c == '\r':
			l.pos++
			if l.byteAt(l.pos) == '\n' {
				l.pos++
			}
			l.newlineAt(l.pos)
			nl = true
		case c == '/' && l.byteAt(l.pos+1) == '/':
			start := l.pos
			l.skipLineComment()
			l.comments = append(l.comments, Comment{Start: start, End: l.pos, Kind: "line"})
		case c == '/' && l.byteAt(l.pos+1) == '*':
			start := l.pos
			closed, sawNL := l.skipBlockComment()
			if !closed {
				l.pos = start
				return nl // the '/' will be reported as an error by next()
			}
			nl = nl || sawNL
			l.comments = append(l.comments, Comment{Start: start, End: l.pos, Kind: "block"})
		case htmlComments && c == '<' && l.byteAt(l.pos+1) == '!' && l.byteAt(l.pos+2) == '-' && l.byteAt(l.pos+3) == '-':
			start := l.pos
			l.skipLineComment()
			l.comments = append(l.comments, Comment{Start: start, End: l.pos, Kind: "html-open"})
		case htmlComments && c == '-' && l.byteAt(l.pos+1) == '-' && l.byteAt(l.pos+2) == '>' && (nl || !l.sawToken):
			start := l.pos
			l.skipLineComment()
			l.comments = append(l.comments, Comment{Start: start, End: l.pos, Kind: "html-close"})
		case c >= utf8.RuneSelf:
			r, w := utf8.DecodeRuneInString(l.src[l.pos:])
			if r == 0x2028 || r == 0x2029 {
				l.pos += w
				l.newlineAt(l.pos)
				nl = true
			} else if isWhitespace(r) {
				l.pos += w
			} else {
				return nl
			}
		default:
			return nl
		}
	}
	return nl
}

func (l *lexer) skipLineComment() {
	for l.pos < len(l.src) {
		r, w := l.peekRune()
		if isLineTerminator(r) {
			return
		}
		l.pos += w
	}
}

func (l *lexer) skipBlockComment() (closed, nl bool) {
	l.pos += 2
	for l.pos < len(l.src) {
		c := l.src[l.pos]
		switch {
		case c == '*' && l.byteAt(l.pos+1) == '/':
			l.pos += 2
			return true, nl
		case c == '\n':
			l.pos++
			l.newlineAt(l.pos)
			nl = true
		case c == '\r':
			l.pos++
			if l.byteAt(l.pos) == '\n' {
				l.pos++
			}
			l.newlineAt(l.pos)
			nl = true
		case c >= utf8.RuneSelf:
			r, w := utf8.DecodeRuneInString(l.src[l.pos:])
			l.pos += w
			if r == 0x2028 || r == 0x2029 {
				l.newlineAt(l.pos)
				nl = true
			}
		default:
			l.pos++
		}
	}
	return false, nl
}

// next scans one token in the given mode. For modeRegex and modeTemplateCont
// the lexer must have been rewound to the start of the token to re-scan and
// nlBefore carries the NewlineBefore flag of the token being replaced.
func (l *lexer) next(mode lexMode, nlBefore bool) Token {
	var tok Token
	switch mode {
	case modeNormal:
		// hashbang only at the very start
		if l.pos == 0 && len(l.src) >= 2 && l.src[0] == '#' && l.src[1] == '!' {
			l.skipLineComment()
			l.comments = append(l.comments, Comment{Start: 0, End: l.pos, Kind: "hashbang"})
		}
		tok.NewlineBefore = l.skipTrivia(!l.module)
	case modeJSXTag:
		tok.NewlineBefore = l.skipTrivia(false)
	case modeJSXChild:
	default:
		tok.NewlineBefore = nlBefore
	}
	tok.Start = l.pos
	tok.Line = l.line
	tok.Col16 = l.colAt(l.pos)
	switch mode {
	case modeNormal:
		l.scanNormal(&tok)
	case modeRegex:
		l.scanRegex(&tok)
	case modeTemplateCont:
		l.scanTemplate(&tok, false)
	case modeJSXTag:
		l.scanJSXTag(&tok)
	case modeJSXChild:
		l.scanJSXChild(&tok)
	}
	tok.End = l.pos
	tok.Raw = l.src[tok.Start:tok.End]
	l.sawToken = true
	return tok
}

func (l *lexer) fail(tok *Token, msg string) {
	tok.Kind = tError
	tok.errMsg = msg
	if l.pos <= tok.Start && l.pos < len(l.src) {
		_, w := l.peekRune()
		l.pos += w
	}
}

func (l *lexer) scanNormal(tok *Token) {
	if l.pos >= len(l.src) {
		tok.Kind = TEOF
		return
	}
	c := l.src[l.pos]
	switch {
	case c >= 'a' && c <= 'z' || c >= 'A' && c <= 'Z' || c == '$' || c == '_' || c == '\\' || c >= utf8.RuneSelf:
		l.scanIdentifier(tok, false)
	case c >= '0' && c <= '9':
		l.scanNumber(tok)
	case c == '.' && l.byteAt(l.pos+1) >= '0' && l.byteAt(l.pos+1) <= '9':
		l.scanNumber(tok)
	case c == '"' || c == '\'':
		l.scanString(tok)
	case c == '`':
		l.scanTemplate(tok, true)
	case c == '#':
		l.pos++
		r, _ := l.peekRune()
		if r == '\\' || isIDStart(r) {
			l.scanIdentifier(tok, false)
			if tok.Kind != tError {
				tok.Kind = TPrivateName
			}
		} else {
			l.fail(tok, "unexpected '#'")
		}
	default:
		n := punctLen(l.src[l.pos:])
		if n == 0 {
			l.fail(tok, "unexpected character")
			return
		}
		tok.Kind = TPunct
		l.pos += n
	}
}

// punctLen returns the length of the longest punctuator at the start of s.
func punctLen(s string) int {
	at := func(i int) byte {
		if i < len(s) {
			return s[i]
		}
		return 0
	}
	switch s[0] {
	case '{', '}', '(', ')', '[', ']', ';', ',', '~', ':', '@':
		return 1
	case '.':
		if at(1) == '.' && at(2) == '.' {
			return 3
		}
		return 1
	case '<':
		if at(1) == '<' {
			if at(2) == '=' {
				return 3
			}
			return 2
		}
		if at(1) == '=' {
			return 2
		}
		return 1
	case '>':
		if at(1) == '>' {
			if at(2) == '>' {
				if at(3) == '=' {
					return 4
				}
				return 3
			}
			if at(2) == '=' {
				return 3
			}
			return 2
		}
		if at(1) == '=' {
			return 2
		}
		return 1
	case '=':
		if at(1) == '=' {
			if at(2) == '=' {
				return 3
			}
			return 2
		}
		if at(1) == '>' {
			return 2
		}
		return 1
	case '!':
		if at(1) == '=' {
			if at(2) == '=' {
				return 3
			}
			return 2
		}
		return 1
	case '+', '-':
		if at(1) == s[0] || at(1) == '=' {
			return 2
		}
		return 1
	case '*':
		if at(1) == '*' {
			if at(2) == '=' {
				return 3
			}
			return 2
		}
		if at(1) == '=' {
			return 2
		}
		return 1
	case '/', '%', '^':
		if at(1) == '=' {
			return 2
		}
		return 1
	case '&', '|':
		if at(1) == s[0] {
			if at(2) == '=' {
				return 3
			}
			return 2
		}
		if at(1) == '=' {
			return 2
		}
		return 1
	case '?':
		if at(1) == '?' {
			if at(2) == '=' {
				return 3
			}
			return 2
		}
		if at(1) == '.' && !(at(2) >= '0' && at(2) <= '9') {
			return 2
		}
		return 1
	}
	return 0
}

// scanIdentifier scans an IdentifierName (the '#' of a private name has been
// consumed already). With jsx set, '-' is allowed after the first character.
func (l *lexer) scanIdentifier(tok *Token, jsx bool) {
	start := l.pos
	// fast path: pure ASCII without escapes
	for l.pos < len(l.src) {
		c := l.src[l.pos]
		if c >= 'a' && c <= 'z' || c >= 'A' && c <= 'Z' || c == '$' || c == '_' || c >= '0' && c <= '9' && l.pos > start || jsx && c == '-' && l.pos > start {
			l.pos++
			continue
		}
		break
	}
	if l.pos >= len(l.src) || (l.src[l.pos] < utf8.RuneSelf && l.src[l.pos] != '\\') {
		if l.pos == start {
			l.fail(tok, "expected identifier")
			return
		}
		tok.Ident = l.src[start:l.pos]
		tok.Kind = TIdent
		if reservedWords[tok.Ident] {
			tok.Kind = TKeyword
		}
		return
	}
	// slow path
	buf := []rune(l.src[start:l.pos])
	first := l.pos == start
	for l.pos < len(l.src) {
		r, w := l.peekRune()
		if r == '\\' {
			if l.byteAt(l.pos+1) != 'u' {
				l.fail(tok, "invalid escape in identifier")
				return
			}
			l.pos += 2
			cp, ok, brace := l.scanUnicodeEscapeBody()
			if !ok {
				l.fail(tok, "invalid unicode escape in identifier")
				return
			}
			if brace {
				tok.feat |= tfBraceEscape
			}
			if first && !isIDStart(cp) || !first && !isIDContinue(cp) {
				l.fail(tok, "invalid escaped character in identifier")
				return
			}
			tok.Escaped = true
			buf = append(buf, cp)
		} else if first && isIDStart(r) || !first && (isIDContinue(r) || jsx && r == '-') {
			buf = append(buf, r)
			l.pos += w
		} else {
			break
		}
		first = false
	}
	if len(buf) == 0 {
		l.fail(tok, "expected identifier")
		return
	}
	tok.Ident = string(buf)
	tok.Kind = TIdent
	if !tok.Escaped && reservedWords[tok.Ident] {
		tok.Kind = TKeyword
	}
}

// scanUnicodeEscapeBody scans what follows "\u": either XXXX or {X+}.
func (l *lexer) scanUnicodeEscapeBody() (cp rune, ok bool, brace bool) {
	if l.byteAt(l.pos) == '{' {
		l.pos++
		n := 0
		v := 0
		for l.pos < len(l.src) && l.src[l.pos] != '}' {
			h := hexVal(l.src[l.pos])
			if h < 0 {
				return 0, false, true
			}
			v = v*16 + h
			if v > 0x10FFFF {
				return 0, false, true
			}
			n++
			l.pos++
		}
		if n == 0 || l.byteAt(l.pos) != '}' {
			return 0, false, true
		}
		l.pos++
		return rune(v), true, true
	}
	v := 0
	for i := 0; i < 4; i++ {
		h := hexVal(l.byteAt(l.pos))
		if h < 0 || l.pos >= len(l.src) {
			return 0, false, false
		}
		v = v*16 + h
		l.pos++
	}
	return rune(v), true, false
}

func hexVal(c byte) int {
	switch {
	case c >= '0' && c <= '9':
		return int(c - '0')
	case c >= 'a' && c <= 'f':
		return int(c-'a') + 10
	case c >= 'A' && c <= 'F':
		return int(c-'A') + 10
	}
	return -1
}

package jsref

import (
	"fmt"
	"reflect"
	"sort"
	"strings"
	"testing"
)

func TestFreeNames(t *testing.T) {
	cases := []struct {
		src    string
		free   string // space separated, sorted
		module bool
	}{
		{"x; var x", "", false},
		{"f(); function f(){}", "", false},
		{"{ function f(){} } f()", "", false},                // sloppy block function hoists
		{"'use strict'; { function f(){} } f()", "f", false}, // strict: block scoped
		{"{ function f(){} } f()", "f", true},                // modules are strict
		{"{ async function f(){} } f()", "f", false},         // only plain functions hoist
		{"function g(){ 'use strict'; { function f(){} } f() }", "f", false},
		{"function g(){ { function f(){} } f() }", "", false},
		{"if (a) function f(){} \n f", "a", false},
		{"{ let x; const y = 1; class C {} } x; y; C", "C x y", false},
		{"{ var x } x", "", false},
		{"function f(){ var x } x", "x", false},
		{"function f(a, b = a, {c, d: [e]}, ...r) { a; b; c; e; r; d }", "d", false},
		{"function f(a, b = () => x) { var x }", "x", false}, // default closure does not see body var
		{"function f(a, b = () => a) { var a; }", "", false},
		{"var f = function g(){ g }; g", "g", false},
		{"var C = class D { m(){ D } }; D", "D", false},
		{"class C { m(){ C } } C", "", false},
		{"class C extends C2 { static x = C; [k](){ } static { var v; let l; v; l; } } v; l", "C2 k l v", false},
		{"try {} catch (e) { e; var v } e; v", "e", false},
		{"try {} catch ({a, b: [c]}) { a; c } a; c", "a c", false},
		{"try {} catch { x }", "x", false},
		{"a: for(;;) { break a } ", "", false},
		{"a: a", "a", false},
		{"({b}); ({b: c}); ({[d]: 1}); ({e(){}, get f(){return g}})", "b c d g", false},
		{"a.b.c; a?.d; a[e]", "a e", false},
		{"({b} = x); ({b: c, ...d} = x); [e, ...f] = x;", "b c d e f x", false},
		{"var {a, b: {c}, ...d} = x; a; c; d; b", "b x", false},
		{"function f(){ arguments; return () => arguments }", "", false},
		{"arguments; () => arguments", "arguments", false},
		{"typeof x; typeof (y); typeof z.w", "x y z", false},
		{"for (let i = 0; i < n; i++) { i } i", "i n", false},
		{"for (var i of xs) ; i", "xs", false},
		{"for (const k in o) k; k", "k o", false},
		{"for (x of xs); for (y.z in o);", "o x xs y", false},
		{"switch (a) { case b: let c; default: c }", "a b", false},
		{"x => x + y; (a, {b}, [c], d = e, ...r) => a + b + c + d + r", "e y", false},
		{"async x => await x; async (y) => y; async(z)", "async z", false},
		{"label: { break label }; label", "label", false},
		{"class A { #x; m(){ this.#x; #x in this } }", "", false},
		{"import a, {b as c, d} from 'x'; import * as ns from 'y'; a; c; d; ns; b", "b", true},
		{"export {a as b}; var a", "", true},
		{"export default function f(){}; f", "", true},
		{"export default class K {}; K", "", true},
		{"export function f(){} export class C{} export let [x] = y; f; C; x", "y", true},
		{"with (o) { p } p", "o p", false},
		{"new.target; import.meta; this; super.x", "", true},
		{"let x = x; const y = () => y", "", false},
		{"function f(f){ f } ", "", false},
		{"function f(){ function g(){ h } var h }", "", false},
		{"(function(){ x = 1; var x })(); x", "x", false},
		{"`${a}` + tag`${b}`", "a b tag", false},
		{"a ? b : c; a ?? d; a ||= e", "a b c d e", false},
		{"x = class { static #p = q; static { r } [s] = t }", "q r s t x", false},
		{"var let; let; async; of; yield; await", "async await of yield", false},
		{"function* g(){ yield x } async function h(){ await y }", "x y", false},
		{"using u = v; u", "v", true},
		{"@dec class A { @mdec m(){} }", "dec mdec", false},
		{"function f(){ { var v; let l; function g(){} } v; l; g }", "l", false},
		{"if (a) { var b } else { var c } b; c", "a", false},
		{"do var d = 1; while (e); d", "e", false},
		{"function f(x = y) { var y }", "y", false},
		{"function f(x) { var x; let y; { let x; x } x }", "", false},
		{"({ m(a){ a; b }, get g(){ return c }, [d]: e, async *h(){ yield f } })", "b c d e f", false},
	}
	for _, c := range cases {
		p, err := Parse(c.src, Options{Module: c.module})
		if err != nil {
			t.Errorf("%q: %v", c.src, err)
			continue
		}
		checkInvariants(t, c.src, c.src, p)
		if got := strings.Join(p.FreeNames, " "); got != c.free {
			t.Errorf("%q: free names %q want %q", c.src, got, c.free)
		}
	}
}

func TestFreeNamesJSX(t *testing.T) {
	p := mustParse(t, "x = <Foo a={b} {...c} d='e' f:g=\"h\"><div>{i}text{/*c*/}<a.b/><></></div></Foo>", Options{JSX: true})
	if got := strings.Join(p.FreeNames, " "); got != "Foo a b c i x" {
		t.Errorf("free names %q", got)
	}
	if _, ok := p.Features[FeatJSX]; !ok {
		t.Errorf("jsx feature missing")
	}
	mustParse(t, "x = <a>it's {`${<b/>}`} > } </a> / 2 / <c d=<e/> />", Options{JSX: true})
}

func TestAssignedNames(t *testing.T) {
	cases := []struct{ src, want string }{
		{"x = 1", "x:free"},
		{"var x; x = 1; x += 2; x++; --x", "x:global x:global x:global x:global"},
		{"let x = 1", ""},
		{"function f(a){ a = 1; b = 2; let c; c ||= 3 }", "a:function b:free c:function"},
		{"function f(a = 1, {b} = {}){ var v; v = a; b = 0 }", "v:function-body b:function"},
		{"({a, b: c, d = 1, ...e} = o)", "a:free c:free d:free e:free"},
		{"[a, [b], ...c] = o; [d.e] = o", "a:free b:free c:free"},
		{"for (x of y); for (z in y); for ([p, q] of y);", "x:free z:free p:free q:free"},
		{"for (let x of y) x = 1", "x:for"},
		{"try {} catch (e) { e = 1 }", "e:catch"},
		{"{ let b; b = 1 }", "b:block"},
		{"(x) = 1; (y)++", "x:free y:free"},
		{"class C { m(){ C = 1 } }", "C:class"},
		{"(function f(){ f = 1 })", "f:function-name"},
		{"a.b = 1; a[c] = 2; a.b++", ""},
		{"x = y = z", "x:free y:free"},
	}
	for _, c := range cases {
		p := mustParse(t, c.src, Options{})
		var got []string
		for _, a := range p.AssignedNames {
			got = append(got, a.Name+":"+string(a.Scope))
		}
		if g := strings.Join(got, " "); g != c.want {
			t.Errorf("%q: assigned %q want %q", c.src, g, c.want)
		}
	}
	p := mustParse(t, "x += 1; y = 2; typeof z; w", Options{})
	type flags struct{ assign, read, typeof bool }
	want := map[string]flags{"x": {true, true, false}, "y": {true, false, false}, "z": {false, true, true}, "w": {false, true, false}}
	for _, r := range p.FreeRefs {
		if got := (flags{r.IsAssignTarget, r.IsRead, r.IsTypeofOperand}); got != want[r.Name] {
			t.Errorf("ref %s flags %+v", r.Name, got)
		}
	}
}

func TestTopLevelDeclsAndScopes(t *testing.T) {
	p := mustParse(t, "import i from 'm'; var a; let b; const c = 1; function d(){} class e {} { var f; let g; function h(){} } using u = x; for (var j;;); try{}catch(k){var l}", Options{Module: true})
	var got []string
	for _, d := range p.TopLevelDecls {
		got = append(got, d.Name+":"+string(d.Kind))
	}
	sort.Strings(got)
	want := "a:var b:let c:const d:function e:class f:var i:import j:var l:var u:using"
	if g := strings.Join(got, " "); g != want {
		t.Errorf("top-level decls %q want %q", g, want)
	}
	// scope tree shape
	p = mustParse(t, "function f(a, b = 1) { let c; { let d } } var g = function h(){}; class K { static { } x = 1; m(){} } try {} catch (e) {} for (let i;;) {} switch (0) {} with (o) ;", Options{})
	var dump func(s *Scope) string
	dump = func(s *Scope) string {
		var names []string
		for _, d := range s.Decls {
			names = append(names, d.Name)
		}
		out := string(s.Kind) + "[" + strings.Join(names, ",") + "]"
		if len(s.Children) > 0 {
			var kids []string
			for _, c := range s.Children {
				kids = append(kids, dump(c))
			}
			out += "{" + strings.Join(kids, " ") + "}"
		}
		return out
	}
	wantTree := "global[f,g,K]{function[a,b]{function-body[c]{block[d]}} function-name[h]{function[]} class[K]{class-static-block[] class-field[] function[]} block[] catch[e]{block[]} for[i]{block[]} switch[] with[]}"
	if got := dump(p.Scopes); got != wantTree {
		t.Errorf("scope tree\n got  %s\n want %s", got, wantTree)
	}
	// resolution targets and decl indices
	p = mustParse(t, "var x; function f(x){ x; { let x; x } } x", Options{})
	var res []string
	for _, r := range p.Refs {
		res = append(res, fmt.Sprintf("%s@%d->%s#%d", r.Name, r.Offset, r.Decl.Scope.Kind, r.Decl.Index))
	}
	if want := []string{"x@22->function#2", "x@34->block#3", "x@40->global#0"}; !reflect.DeepEqual(res, want) {
		t.Errorf("resolution %v want %v", res, want)
	}
	// sloppy block function: both bindings exist
	p = mustParse(t, "{ function f(){} f } f", Options{})
	if p.Refs[0].Decl.Scope.Kind != ScopeBlock || p.Refs[1].Decl.Scope.Kind != ScopeGlobal || !p.Refs[1].Decl.HoistedBlockFunction {
		t.Errorf("block function resolution wrong")
	}
	p = mustParse(t, "with (o) { x } eval('1'); (0, eval)('2')", Options{})
	if !p.HasWith || !p.HasDirectEval || !p.FreeRefs[1].ThroughWith || p.FreeRefs[0].ThroughWith {
		t.Errorf("with/eval flags wrong: %+v", p.FreeRefs)
	}
}

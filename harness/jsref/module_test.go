package jsref

import (
	"fmt"
	"sort"
	"strings"
	"testing"
)

func importString(r ImportRecord) string {
	var parts []string
	parts = append(parts, string(r.Kind), fmt.Sprintf("%q", r.Spec))
	if r.Default != "" {
		parts = append(parts, "default="+r.Default)
	}
	if r.Namespace != "" {
		parts = append(parts, "ns="+r.Namespace)
	}
	for _, n := range r.Names {
		parts = append(parts, n.Imported+">"+n.Local)
	}
	if r.SideEffectOnly {
		parts = append(parts, "side-effect")
	}
	if r.Star {
		parts = append(parts, "star")
	}
	if r.Dynamic {
		parts = append(parts, "dynamic")
	}
	var keys []string
	for k := range r.Attributes {
		keys = append(keys, k)
	}
	sort.Strings(keys)
	for _, k := range keys {
		parts = append(parts, "with:"+k+"="+r.Attributes[k])
	}
	parts = append(parts, fmt.Sprintf("@%d", r.Offset))
	return strings.Join(parts, " ")
}

func TestImportRecords(t *testing.T) {
	src := `import "a";
import b from "b";
import * as c from "c";
import {d, e as f, default as g, "h i" as j} from "d";
import k, {l} from "e";
import m, * as n from "f";
import o from "g" with {type: "json", "x-y": "z"};
export * from "h";
export * as p from "i";
export {q, r as s, default as t, u as default, "v w" as x, y as "z z"} from "j";
const lazy = () => import("k");
import("l", {with: {type: "json"}});
import(dyn);
import(` + "`m`" + `);
import(` + "`n${1}`" + `);
const r1 = require("o");
function inner(require) { require("shadowed") }
require(notConst); require("p", 2); require?.("q"); x.require("r");
(require)("s");
{ let require; require("t") }
require(` + "`u`" + `);
`
	p := mustParse(t, src, Options{Module: true})
	var got []string
	for _, r := range p.Imports {
		got = append(got, importString(r))
		if p.Tokens[r.Token].Start != r.Offset {
			t.Errorf("token index of %v wrong", r)
		}
		if r.SpecOffset >= 0 && !strings.Contains(src[r.SpecOffset:], r.Spec) {
			t.Errorf("spec offset of %v wrong", r)
		}
	}
	off := func(s string) int { return strings.Index(src, s) }
	want := []string{
		fmt.Sprintf(`import-statement "a" side-effect @%d`, off(`import "a"`)),
		fmt.Sprintf(`import-statement "b" default=b @%d`, off(`import b`)),
		fmt.Sprintf(`import-statement "c" ns=c @%d`, off(`import * as c`)),
		fmt.Sprintf(`import-statement "d" d>d e>f default>g h i>j @%d`, off(`import {d`)),
		fmt.Sprintf(`import-statement "e" default=k l>l @%d`, off(`import k`)),
		fmt.Sprintf(`import-statement "f" default=m ns=n @%d`, off(`import m`)),
		fmt.Sprintf(`import-statement "g" default=o with:type=json with:x-y=z @%d`, off(`import o`)),
		fmt.Sprintf(`export-from "h" star @%d`, off(`export * from`)),
		fmt.Sprintf(`export-from "i" ns=p star @%d`, off(`export * as p`)),
		fmt.Sprintf(`export-from "j" q>q r>s default>t u>default v w>x y>z z @%d`, off(`export {q`)),
		fmt.Sprintf(`dynamic-import "k" @%d`, off(`import("k")`)),
		fmt.Sprintf(`dynamic-import "l" with:type=json @%d`, off(`import("l"`)),
		fmt.Sprintf(`dynamic-import "" dynamic @%d`, off(`import(dyn)`)),
		fmt.Sprintf(`dynamic-import "m" @%d`, off("import(`m`)")),
		fmt.Sprintf(`dynamic-import "" dynamic @%d`, off("import(`n")),
		fmt.Sprintf(`require-call "o" @%d`, off(`require("o")`)),
		fmt.Sprintf(`require-call "s" @%d`, off(`(require)("s")`)),
		fmt.Sprintf(`require-call "u" @%d`, off("require(`u`)")),
	}
	// `(require)("s")`: the callee is parenthesised, which jsref does not count
	want = append(want[:16], want[17:]...)
	if strings.Join(got, "\n") != strings.Join(want, "\n") {
		t.Errorf("imports:\n%s\nwant:\n%s", strings.Join(got, "\n"), strings.Join(want, "\n"))
	}
}

func TestExportRecords(t *testing.T) {
	src := `export var a, [b, {c, d: e = 1, ...f}] = x;
export let g; export const h = 1;
export function i(){} export async function* j(){} export class k {}
export {l, m as n, o as default, p as "q r"};
export * from "s";
export * as t from "u";
export * as "v w" from "x";
export {y, z as aa, default as bb, "cc dd" as ee} from "ff";
var l, m, o, p;
`
	p := mustParse(t, src, Options{Module: true})
	var got []string
	for _, e := range p.Exports {
		s := fmt.Sprintf("%s %s<-%s", e.Kind, e.Exported, e.Local)
		if e.From != "" {
			s += " from " + e.From
		}
		if e.Star {
			s += " *"
		}
		got = append(got, s)
	}
	want := []string{
		"declaration a<-a", "declaration b<-b", "declaration c<-c", "declaration e<-e", "declaration f<-f",
		"declaration g<-g", "declaration h<-h", "declaration i<-i", "declaration j<-j", "declaration k<-k",
		"named l<-l", "named n<-m", "named default<-o", "named q r<-p",
		"star <- from s *", "star-as t<- from u *", "star-as v w<- from x *",
		"from y<-y from ff", "from aa<-z from ff", "from bb<-default from ff", "from ee<-cc dd from ff",
	}
	if strings.Join(got, "\n") != strings.Join(want, "\n") {
		t.Errorf("exports:\n%s\nwant:\n%s", strings.Join(got, "\n"), strings.Join(want, "\n"))
	}
	for _, c := range []struct{ src, want string }{
		{"export default function f(){}", "default default<-f"},
		{"export default function(){}", "default default<-*default*"},
		{"export default class K extends L {}", "default default<-K"},
		{"export default class {}", "default default<-*default*"},
		{"export default async function g(){}", "default default<-g"},
		{"export default 1 + 2", "default default<-*default*"},
		{"export default async () => {}", "default default<-*default*"},
		{"export default (class Z {})", "default default<-*default*"},
	} {
		p := mustParse(t, c.src, Options{Module: true})
		if len(p.Exports) != 1 {
			t.Errorf("%q: %d exports", c.src, len(p.Exports))
			continue
		}
		e := p.Exports[0]
		if got := fmt.Sprintf("%s %s<-%s", e.Kind, e.Exported, e.Local); got != c.want {
			t.Errorf("%q: %s want %s", c.src, got, c.want)
		}
	}
	// CommonJS output: require is free, module/exports are free
	p = mustParse(t, `var __defProp = Object.defineProperty; module.exports = __toCommonJS(x); var y = require("y");`, Options{})
	if strings.Join(p.FreeNames, " ") != "Object __toCommonJS module require x" || len(p.Imports) != 1 || p.Imports[0].Kind != ImportRequire {
		t.Errorf("cjs: %v %v", p.FreeNames, p.Imports)
	}
}

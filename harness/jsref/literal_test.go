package jsref

import (
	"encoding/json"
	"fmt"
	"math"
	"math/rand"
	"os"
	"os/exec"
	"path/filepath"
	"reflect"
	"strconv"
	"strings"
	"testing"
)

type litCase struct {
	Kind string `json:"kind"`
	Text string `json:"text"`
}

type litResult struct {
	Bits   string   `json:"bits"`
	Big    string   `json:"big"`
	Units  []uint16 `json:"units"`
	Cooked []uint16 `json:"cooked"`
	Raw    []uint16 `json:"raw"`
	Error  string   `json:"error"`
}

func genNumber(r *rand.Rand) string {
	digits := func(set string, n int, sep bool) string {
		var sb strings.Builder
		for i := 0; i < n; i++ {
			if sep && i > 0 && r.Intn(4) == 0 {
				sb.WriteByte('_')
			}
			sb.WriteByte(set[r.Intn(len(set))])
		}
		return sb.String()
	}
	sep := r.Intn(3) == 0
	switch r.Intn(10) {
	case 0:
		return "0x" + digits("0123456789abcdefABCDEF", 1+r.Intn(24), sep)
	case 1:
		return "0b" + digits("01", 1+r.Intn(80), sep)
	case 2:
		return "0o" + digits("01234567", 1+r.Intn(30), sep)
	case 3:
		return "0" + digits("01234567", 1+r.Intn(25), false)
	case 4:
		s := "0" + digits("0123456789", 1+r.Intn(20), false)
		if strings.ContainsAny(s, "89") && r.Intn(2) == 0 {
			s += "." + digits("0123456789", r.Intn(5), false)
		}
		return s
	case 5:
		// integers around 2^53..2^64 where rounding matters
		v := uint64(1)<<uint(53+r.Intn(11)) + uint64(r.Intn(8192))
		if r.Intn(2) == 0 {
			return "0x" + strconv.FormatUint(v, 16)
		}
		return strconv.FormatUint(v, 10)
	case 6:
		return "." + digits("0123456789", 1+r.Intn(25), sep) + exponent(r)
	default:
		first := digits("123456789", 1, false)
		s := first + digits("0123456789", r.Intn(25), false)
		if sep && len(s) > 2 {
			s = s[:1] + "_" + s[1:]
		}
		switch r.Intn(3) {
		case 0:
			s += "."
		case 1:
			s += "." + digits("0123456789", 1+r.Intn(25), sep)
		}
		return s + exponent(r)
	}
}

func exponent(r *rand.Rand) string {
	if r.Intn(2) == 0 {
		return ""
	}
	return string("eE"[r.Intn(2)]) + []string{"", "+", "-"}[r.Intn(3)] + strconv.Itoa(r.Intn([]int{5, 30, 330, 400}[r.Intn(4)]))
}

func genBigInt(r *rand.Rand) string {
	s := genNumber(r)
	for strings.ContainsAny(s, ".eE") && !strings.HasPrefix(s, "0x") || len(s) > 1 && s[0] == '0' && s[1] >= '0' && s[1] <= '9' {
		s = genNumber(r)
	}
	return s + "n"
}

var stringPieces = []string{
	"a", "Z", " ", "0", "7", "8", "é", "→", "😀", "\u2028", "\u2029", "$", "{", "}", "/", "\t",
	`\n`, `\r`, `\t`, `\b`, `\f`, `\v`, `\0`, `\'`, `\"`, `\\`, `\a`, `\z`, `\é`, `\😀`, "\\`",
	`\x41`, `\xff`, `\x00`, `A`, `\uD83D`, `\uDE00`, `😀`, `￿`,
	`\u{0}`, `\u{41}`, `\u{1F600}`, `\u{10FFFF}`, `\u{000000041}`, `\u{D800}`,
	"\\\n", "\\\r", "\\\r\n", "\\\u2028", "\\\u2029", "\\u0041", "\\u00e9", "\\uffff", "\\uFFFF\\uD83D\\uDE00",
}

var legacyPieces = []string{`\1`, `\7`, `\8`, `\9`, `\00`, `\01`, `\08`, `\09`, `\12`, `\18`, `\37`, `\377`, `\378`, `\400`, `\47`, `\477`, `\0a`, `\1234`}

var templateOnlyPieces = []string{"\n", "\r", "\r\n", "\n\r", "\\$", "\\${", "$ {", "$$"}

var invalidTemplatePieces = []string{`\xZ`, `\x4`, `\u12`, `\u{110000}`, `\u{}`, `\u{12`, `\u{z}`, `\u`, `\x`, `\ux`, `\01`, `\1`, `\9`, `\00`, `\u{1F600`}

func genString(r *rand.Rand) string {
	quote := `"'`[r.Intn(2)]
	var sb strings.Builder
	sb.WriteByte(quote)
	for n := r.Intn(8); n > 0; n-- {
		pool := stringPieces
		if r.Intn(4) == 0 {
			pool = legacyPieces
		}
		sb.WriteString(pool[r.Intn(len(pool))])
	}
	if r.Intn(4) == 0 {
		sb.WriteString(`'"`[quote&1 : quote&1+1]) // the other quote, unescaped
	}
	sb.WriteByte(quote)
	return sb.String()
}

func genTemplate(r *rand.Rand) string {
	var sb strings.Builder
	sb.WriteByte('`')
	for n := r.Intn(8); n > 0; n-- {
		pool := stringPieces
		switch r.Intn(6) {
		case 0:
			pool = templateOnlyPieces
		case 1:
			pool = invalidTemplatePieces
		}
		p := pool[r.Intn(len(pool))]
		if p == "\\`" || !strings.Contains(p, "`") {
			sb.WriteString(p)
		}
	}
	sb.WriteByte('`')
	return sb.String()
}

func runNodeJSON(t *testing.T, script string, in, out interface{}) {
	nodes := nodeBinaries()
	if len(nodes) == 0 {
		t.Skip("node not found")
	}
	dir := t.TempDir()
	inFile, outFile := filepath.Join(dir, "in.json"), filepath.Join(dir, "out.json")
	b, err := json.Marshal(in)
	if err != nil {
		t.Fatal(err)
	}
	os.WriteFile(inFile, b, 0o644)
	abs, _ := filepath.Abs(script)
	if msg, err := exec.Command(nodes[len(nodes)-1], abs, inFile, outFile).CombinedOutput(); err != nil {
		t.Fatalf("node: %v\n%s", err, msg)
	}
	b, err = os.ReadFile(outFile)
	if err != nil {
		t.Fatal(err)
	}
	if err := json.Unmarshal(b, out); err != nil {
		t.Fatal(err)
	}
}

// TestLiteralDecodersAgainstV8 compares decoded literal values with V8's.
func TestLiteralDecodersAgainstV8(t *testing.T) {
	r := rand.New(rand.NewSource(20260923))
	cases := []litCase{}
	for _, s := range []string{"0", "0.", ".0", "0.0", "5.", ".5", "5..", "1e+5", "1E-5", "0x0", "0XfF", "0B11", "0O17", "017", "08", "09.5", "0777", "0888",
		"9007199254740993", "9007199254740992", "9007199254740991", "0x20000000000001", "0x20000000000003", "0x3fffffffffffff", "0x7ffffffffffffc00", "0xfffffffffffffbff", "0xfffffffffffffc00",
		"1e309", "1.7976931348623157e308", "1.7976931348623159e308", "5e-324", "2.4703282292062327e-324", "2.4703282292062328e-324", "2.2250738585072011e-308",
		"1_000", "1_0.0_1e1_0", "0x_1", "123456789012345678901234567890", "0.000000000000000000000000000000000000000000001", "4.35", "0.1", "1e23", "8.41e21",
		"0b" + strings.Repeat("1", 1030), "0o1" + strings.Repeat("7", 400), "0x1" + strings.Repeat("0", 255), "0x1" + strings.Repeat("0", 256), "1" + strings.Repeat("0", 400)} {
		cases = append(cases, litCase{"number", s})
	}
	for _, s := range []string{"0n", "1_000n", "0xFFn", "0b101n", "0o777n", "123456789012345678901234567890n", "0x" + strings.Repeat("f", 40) + "n"} {
		cases = append(cases, litCase{"bigint", s})
	}
	for i := 0; i < 2500; i++ {
		cases = append(cases, litCase{"number", genNumber(r)})
	}
	for i := 0; i < 500; i++ {
		cases = append(cases, litCase{"bigint", genBigInt(r)})
	}
	for i := 0; i < 2500; i++ {
		cases = append(cases, litCase{"string", genString(r)})
	}
	for i := 0; i < 2500; i++ {
		cases = append(cases, litCase{"template", genTemplate(r)})
	}
	var results []litResult
	runNodeJSON(t, "testdata/evallit.js", cases, &results)
	if len(results) != len(cases) {
		t.Fatalf("got %d results for %d cases", len(results), len(cases))
	}
	valid, bad := 0, 0
	fail := func(c litCase, format string, args ...interface{}) {
		bad++
		if bad < 30 {
			t.Errorf("%s %q: %s", c.Kind, c.Text, fmt.Sprintf(format, args...))
		}
	}
	for i, c := range cases {
		res := results[i]
		if res.Error != "" {
			continue // V8 rejects the spelling; nothing to compare
		}
		valid++
		src := "x = " + c.Text
		if c.Kind == "template" {
			src = "x = f" + c.Text
		}
		prog, err := Parse(src, Options{})
		if err != nil {
			fail(c, "jsref rejects: %v", err)
			continue
		}
		if len(prog.Literals) != 1 {
			fail(c, "want exactly one literal, got %d", len(prog.Literals))
			continue
		}
		l := prog.Literals[0]
		switch c.Kind {
		case "number":
			if got := strconv.FormatUint(math.Float64bits(l.Num), 16); l.Kind != LitNumber || got != res.Bits {
				fail(c, "bits %s want %s", got, res.Bits)
			}
		case "bigint":
			if l.Kind != LitBigInt || l.BigInt != res.Big {
				fail(c, "got %s want %s", l.BigInt, res.Big)
			}
		case "string":
			if l.Kind != LitString || !reflect.DeepEqual(append([]uint16{}, l.Str...), append([]uint16{}, res.Units...)) {
				fail(c, "got %v want %v", l.Str, res.Units)
			}
		case "template":
			if l.Kind != LitTemplateChunk {
				fail(c, "wrong kind")
			}
			if (res.Cooked == nil) != l.CookedInvalid || !l.CookedInvalid && !reflect.DeepEqual(append([]uint16{}, l.Str...), append([]uint16{}, res.Cooked...)) {
				fail(c, "cooked %v (invalid=%v) want %v", l.Str, l.CookedInvalid, res.Cooked)
			}
			if got := UTF16(l.Raw); !reflect.DeepEqual(append([]uint16{}, got...), append([]uint16{}, res.Raw...)) {
				fail(c, "raw %v want %v", got, res.Raw)
			}
		}
	}
	t.Logf("%d literal spellings, %d valid in V8, %d mismatches", len(cases), valid, bad)
	if valid < len(cases)/2 {
		t.Errorf("too few valid cases: %d of %d", valid, len(cases))
	}
}

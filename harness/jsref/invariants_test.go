package jsref

import (
	"os"
	"path/filepath"
	"strings"
	"testing"
	"unicode/utf8"
)

// lineColTable independently computes (line, col16) for every byte offset.
func lineColTable(src string) (lines, cols []int) {
	lines = make([]int, len(src)+1)
	cols = make([]int, len(src)+1)
	line, col := 0, 0
	for i := 0; i < len(src); {
		r, w := utf8.DecodeRuneInString(src[i:])
		for k := 0; k < w; k++ {
			lines[i+k], cols[i+k] = line, col
		}
		i += w
		switch {
		case r == '\r' && i < len(src) && src[i] == '\n':
			lines[i], cols[i] = line, col+1
			i++
			line, col = line+1, 0
		case r == '\r' || r == '\n' || r == 0x2028 || r == 0x2029:
			line, col = line+1, 0
		case r >= 0x10000:
			col += 2
		default:
			col++
		}
	}
	lines[len(src)], cols[len(src)] = line, col
	return
}

// checkInvariants verifies properties of the products that must hold for every program.
func checkInvariants(t *testing.T, name, src string, prog *Program) {
	t.Helper()
	lines, cols := lineColTable(src)
	prevEnd := 0
	ci := 0
	for i, tok := range prog.Tokens {
		if tok.Start < prevEnd || tok.End <= tok.Start || tok.End > len(src) {
			t.Fatalf("%s: token %d has bad range [%d,%d) after %d", name, i, tok.Start, tok.End, prevEnd)
		}
		if tok.Raw != src[tok.Start:tok.End] {
			t.Fatalf("%s: token %d raw mismatch", name, i)
		}
		if tok.Line != lines[tok.Start] || tok.Col16 != cols[tok.Start] {
			t.Fatalf("%s: token %d %q at offset %d: got line/col %d:%d want %d:%d", name, i, tok.Raw, tok.Start, tok.Line, tok.Col16, lines[tok.Start], cols[tok.Start])
		}
		// the gap before the token consists of white space and comments only
		gap := prevEnd
		sawNL := false
		for gap < tok.Start {
			if ci < len(prog.Comments) && prog.Comments[ci].Start == gap {
				c := prog.Comments[ci]
				if strings.ContainsAny(src[c.Start:c.End], "\n\r\u2028\u2029") {
					sawNL = true
				}
				gap = c.End
				ci++
				continue
			}
			r, w := utf8.DecodeRuneInString(src[gap:])
			if isLineTerminator(r) {
				sawNL = true
			} else if !isWhitespace(r) {
				t.Fatalf("%s: non-trivia %q between tokens at offset %d", name, r, gap)
			}
			gap += w
		}
		if tok.Kind != TJSXText && tok.NewlineBefore != sawNL && i > 0 {
			t.Fatalf("%s: token %d %q NewlineBefore=%v want %v", name, i, tok.Raw, tok.NewlineBefore, sawNL)
		}
		prevEnd = tok.End
	}
	tokAt := map[int]*Token{}
	for i := range prog.Tokens {
		tokAt[prog.Tokens[i].Start] = &prog.Tokens[i]
	}
	for _, r := range prog.Refs {
		tok := tokAt[r.Offset]
		if tok == nil || (tok.Kind != TIdent && tok.Kind != TKeyword) || tok.Ident != r.Name {
			t.Fatalf("%s: ref %q at %d does not sit on a matching identifier token", name, r.Name, r.Offset)
		}
		if r.Decl != nil {
			found := false
			for s := r.Scope; s != nil; s = s.Parent {
				if s == r.Decl.Scope {
					found = true
				}
			}
			if !found {
				t.Fatalf("%s: ref %q resolved to a scope that does not enclose it", name, r.Name)
			}
		}
	}
	var walk func(s *Scope)
	walk = func(s *Scope) {
		for _, d := range s.Decls {
			if d.Kind == DeclArguments {
				continue
			}
			tok := tokAt[d.Offset]
			if tok == nil || tok.Ident != d.Name {
				t.Fatalf("%s: decl %q at %d does not sit on a matching identifier token", name, d.Name, d.Offset)
			}
		}
		for _, c := range s.Children {
			if c.Parent != s || c.Start < s.Start || c.End > s.End {
				t.Fatalf("%s: scope %s [%d,%d) not nested in parent %s [%d,%d)", name, c.Kind, c.Start, c.End, s.Kind, s.Start, s.End)
			}
			walk(c)
		}
	}
	walk(prog.Scopes)
	for _, l := range prog.Literals {
		if l.Token < 0 || l.Token >= len(prog.Tokens) || prog.Tokens[l.Token].Start != l.Offset {
			t.Fatalf("%s: literal token index wrong", name)
		}
	}
	for f, off := range prog.Features {
		if off < 0 || off > len(src) {
			t.Fatalf("%s: feature %s has bad offset %d", name, f, off)
		}
		if FeatureEdition(f) == 0 {
			t.Fatalf("%s: feature %s has no edition", name, f)
		}
	}
}

// TestEsbuildOutputs parses saved outputs of the real esbuild (all printer
// modes, bundles with runtime helpers) and compares acceptance with V8.
func TestEsbuildOutputs(t *testing.T) {
	files, _ := filepath.Glob("testdata/esbuild/*.js")
	if len(files) == 0 {
		t.Skip("no testdata")
	}
	var srcs []string
	for _, f := range files {
		b, err := os.ReadFile(f)
		if err != nil {
			t.Fatal(err)
		}
		srcs = append(srcs, string(b))
	}
	var verdicts []verdict
	if len(nodeBinaries()) > 0 {
		verdicts = v8Check(t, srcs)
	}
	for i, f := range files {
		src := srcs[i]
		if strings.HasSuffix(f, ".jsx.js") {
			prog, err := Parse(src, Options{Module: true, JSX: true})
			if err != nil {
				t.Errorf("%s: %v", f, err)
				continue
			}
			checkInvariants(t, f, src, prog)
			continue
		}
		v := verdict{script: strings.HasSuffix(f, ".script.js"), module: strings.HasSuffix(f, ".module.js")}
		if verdicts != nil {
			v = verdicts[i]
			if !v.script && !v.module {
				t.Errorf("%s: V8 rejects the file in both goals", f)
			}
		}
		for _, module := range []bool{false, true} {
			if module && !v.module || !module && !v.script {
				continue
			}
			prog, err := Parse(src, Options{Module: module})
			if err != nil {
				t.Errorf("%s (module=%v): %v", f, module, err)
				continue
			}
			checkInvariants(t, f, src, prog)
		}
	}
}

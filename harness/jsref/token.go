package jsref

// TokenKind classifies a Token.
type TokenKind uint8

// Token kinds. Punctuators and reserved words are distinguished by their Raw
// text (for example Kind == TPunct && Raw == "=>" or Kind == TKeyword &&
// Raw == "function").
const (
	TEOF TokenKind = iota
	// TIdent is an IdentifierName that is not a reserved word. Contextual
	// keywords (let, async, of, get, set, static, yield, await, ...) are TIdent.
	// An identifier name spelled with escapes is always TIdent.
	TIdent
	// TKeyword is one of the always-reserved words, spelled without escapes.
	TKeyword
	TPunct
	TNum
	TBigInt
	TString
	TTemplateNoSub  // `abc`
	TTemplateHead   // `abc${
	TTemplateMiddle // }abc${
	TTemplateTail   // }abc`
	TRegex
	TPrivateName // #name ; Ident holds the name without '#'
	TJSXText     // text between JSX tags
	TJSXString   // JSX attribute string (no escape processing)
	tError       // internal: a lexical error, raised when the parser consumes it
)

var tokenKindNames = [...]string{
	TEOF: "eof", TIdent: "ident", TKeyword: "keyword", TPunct: "punct", TNum: "num", TBigInt: "bigint",
	TString: "string", TTemplateNoSub: "template-nosub", TTemplateHead: "template-head",
	TTemplateMiddle: "template-middle", TTemplateTail: "template-tail", TRegex: "regex",
	TPrivateName: "private-name", TJSXText: "jsx-text", TJSXString: "jsx-string", tError: "error",
}

func (k TokenKind) String() string {
	if int(k) < len(tokenKindNames) {
		return tokenKindNames[k]
	}
	return "?"
}

// Token is one input element of the program (comments and white space are not
// tokens).
type Token struct {
	Kind TokenKind
	// Start and End are byte offsets into the source (End is exclusive).
	Start, End int
	// Line is the 0-based line number of the first character of the token.
	Line int
	// Col16 is the 0-based column of the first character of the token,
	// counted in UTF-16 code units from the start of the line.
	Col16 int
	// NewlineBefore is true when at least one line terminator (possibly
	// inside a multi-line comment) separates this token from the previous one.
	NewlineBefore bool
	// Raw is the source text src[Start:End].
	Raw string

	// Ident is the decoded name for TIdent, TKeyword and TPrivateName (and the
	// JSX identifier, which may contain '-').
	Ident string
	// Escaped is true when an identifier name or string contains an escape.
	Escaped bool
	// Num is the value of a TNum token.
	Num float64
	// BigInt is the decimal spelling of the value of a TBigInt token.
	BigInt string
	// Str is the value (cooked value for templates) of TString, TTemplate*,
	// TJSXString and TJSXText tokens as UTF-16 code units. It is nil for a
	// template chunk whose cooked value is undefined (CookedInvalid).
	Str []uint16
	// StrRaw is the template raw value (CR and CRLF normalised to LF). For
	// strings it is the source text between the quotes.
	StrRaw string
	// CookedInvalid is set for template chunks containing an invalid escape.
	CookedInvalid bool
	// RegexBody and RegexFlags are the two parts of a TRegex token.
	RegexBody  string
	RegexFlags string

	feat   uint16 // lexical feature bits (tf*)
	errMsg string // for tError
}

// lexical feature bits stored in Token.feat
const (
	tfNumSep      uint16 = 1 << iota // numeric separator
	tfOctBin                         // 0o / 0b literal
	tfLegacyOctal                    // 017, 08, or \1 style escapes
	tfBraceEscape                    // \u{...}
)

var reservedWords = map[string]bool{
	"break": true, "case": true, "catch": true, "class": true, "const": true, "continue": true,
	"debugger": true, "default": true, "delete": true, "do": true, "else": true, "enum": true,
	"export": true, "extends": true, "false": true, "finally": true, "for": true, "function": true,
	"if": true, "import": true, "in": true, "instanceof": true, "new": true, "null": true,
	"return": true, "super": true, "switch": true, "this": true, "throw": true, "true": true,
	"try": true, "typeof": true, "var": true, "void": true, "while": true, "with": true,
}

// Comment is a comment found in the source.
type Comment struct {
	Start, End int
	// Kind is "line", "block", "html-open" (<!--), "html-close" (-->) or "hashbang".
	Kind string
}

// SyntaxError is the error type returned by Parse and Tokenize.
type SyntaxError struct {
	Msg    string
	Offset int // byte offset
	Line   int // 0-based
	Col16  int // 0-based, UTF-16 code units
}

func (e *SyntaxError) Error() string {
	return "jsref: " + e.Msg + " at " + itoa(e.Line+1) + ":" + itoa(e.Col16+1) + " (offset " + itoa(e.Offset) + ")"
}

func itoa(n int) string {
	if n == 0 {
		return "0"
	}
	neg := n < 0
	if neg {
		n = -n
	}
	var b [20]byte
	i := len(b)
	for n > 0 {
		i--
		b[i] = byte('0' + n%10)
		n /= 10
	}
	if neg {
		i--
		b[i] = '-'
	}
	return string(b[i:])
}

package jsref

// parseModuleExportName parses an identifier name or a string literal used
// as an import/export name.
func (p *parser) parseModuleExportName() (name string, isString bool, tok Token) {
	tok = p.t
	switch p.t.Kind {
	case TIdent, TKeyword:
		name = p.t.Ident
	case TString:
		name = UTF16ToString(p.t.Str)
		isString = true
		p.note(FeatArbitraryModuleNamespace, p.t.Start)
	default:
		p.fail("expected identifier or string")
	}
	p.next()
	return
}

func (p *parser) parseFromClause() (spec string, off int) {
	if !p.isId("from") {
		p.fail("expected 'from'")
	}
	p.next()
	return p.parseModuleSpecifier()
}

func (p *parser) parseModuleSpecifier() (spec string, off int) {
	if p.t.Kind != TString {
		p.fail("expected module specifier")
	}
	spec, off = UTF16ToString(p.t.Str), p.t.Start
	p.next()
	return
}

// parseImportAttributes parses an optional `with {...}` / `assert {...}` clause.
func (p *parser) parseImportAttributes() map[string]string {
	if !(p.isK("with") || p.isId("assert") && !p.t.NewlineBefore) || !tokIsP(p.peek(1), "{") {
		return nil
	}
	p.note(FeatImportAttributes, p.t.Start)
	p.next()
	p.next()
	attrs := map[string]string{}
	for !p.isP("}") {
		key, _, _ := p.parseModuleExportName()
		p.expectP(":")
		if p.t.Kind != TString {
			p.fail("expected string")
		}
		attrs[key] = UTF16ToString(p.t.Str)
		p.next()
		if !p.isP("}") {
			p.expectP(",")
		}
	}
	p.next()
	return attrs
}

func (p *parser) parseImport() *Node {
	n := p.start(NImportDecl)
	rec := ImportRecord{Kind: ImportStatement, Offset: p.t.Start, Token: p.pos, SpecOffset: -1}
	p.next()
	if p.t.Kind == TString {
		rec.SideEffectOnly = true
		rec.Spec, rec.SpecOffset = p.parseModuleSpecifier()
	} else {
		// import defer * as ns / import source x (phase modifiers)
		if (p.isId("defer") || p.isId("source")) && !tokIsId(p.peek(1), "from") && !tokIsP(p.peek(1), ",") {
			p.next()
		} else if (p.isId("defer") || p.isId("source")) && tokIsId(p.peek(1), "from") && tokIsId(p.peek(2), "from") {
			p.next()
		}
		if p.t.Kind == TIdent {
			id := p.parseIdentNode()
			rec.Default = id.Name
			n.List = append(n.List, id)
			if !p.isId("from") {
				p.expectP(",")
			}
		}
		if p.isP("*") {
			p.next()
			if !p.isId("as") {
				p.fail("expected 'as'")
			}
			p.next()
			id := p.parseIdentNode()
			rec.Namespace = id.Name
			n.List = append(n.List, id)
		} else if p.isP("{") {
			p.next()
			for !p.isP("}") {
				imported, isStr, tok := p.parseModuleExportName()
				var local *Node
				if p.isId("as") {
					p.next()
					local = p.parseIdentNode()
				} else {
					if isStr || tok.Kind != TIdent {
						p.failAt(&tok, "expected 'as' after import name")
					}
					local = &Node{Type: NIdent, Name: imported, Start: tok.Start, End: tok.End, Tok: p.pos - 1}
				}
				rec.Names = append(rec.Names, ImportName{Imported: imported, Local: local.Name})
				n.List = append(n.List, local)
				if !p.isP("}") {
					p.expectP(",")
				}
			}
			p.next()
		}
		rec.Spec, rec.SpecOffset = p.parseFromClause()
	}
	rec.Attributes = p.parseImportAttributes()
	p.semicolon()
	p.imports = append(p.imports, rec)
	return p.finish(n)
}

func (p *parser) parseExport(decos []*Node) *Node {
	n := p.start(NExportDecl)
	if len(decos) > 0 {
		n.Start, n.Tok = decos[0].Start, decos[0].Tok
	}
	off, tokIdx := p.t.Start, p.pos
	p.expectK("export")
	switch {
	case p.isP("*"):
		n.Name = "star"
		p.next()
		rec := ImportRecord{Kind: ImportExportFrom, Offset: off, Token: tokIdx, Star: true}
		ex := ExportRecord{Kind: ExportStar, Star: true, Offset: off}
		if p.isId("as") {
			p.next()
			p.note(FeatExportStarAs, off)
			name, _, _ := p.parseModuleExportName()
			rec.Namespace = name
			ex.Kind = ExportStarAs
			ex.Exported = name
		}
		rec.Spec, rec.SpecOffset = p.parseFromClause()
		ex.From = rec.Spec
		rec.Attributes = p.parseImportAttributes()
		p.semicolon()
		p.imports = append(p.imports, rec)
		p.exports = append(p.exports, ex)
	case p.isP("{"):
		n.Name = "named"
		p.next()
		type spec struct {
			local, exported string
			node            *Node
			tok             Token
		}
		var specs []spec
		for !p.isP("}") {
			tokIndex := p.pos
			local, _, tok := p.parseModuleExportName()
			exported := local
			if p.isId("as") {
				p.next()
				exported, _, _ = p.parseModuleExportName()
			}
			s := &Node{Type: NExportSpec, Start: tok.Start, Tok: tokIndex, Name: exported}
			p.finish(s)
			specs = append(specs, spec{local, exported, s, tok})
			n.List = append(n.List, s)
			if !p.isP("}") {
				p.expectP(",")
			}
		}
		p.next()
		if p.isId("from") {
			rec := ImportRecord{Kind: ImportExportFrom, Offset: off, Token: tokIdx}
			rec.Spec, rec.SpecOffset = p.parseFromClause()
			rec.Attributes = p.parseImportAttributes()
			for _, s := range specs {
				rec.Names = append(rec.Names, ImportName{Imported: s.local, Local: s.exported})
				p.exports = append(p.exports, ExportRecord{Kind: ExportFrom, Exported: s.exported, Local: s.local, From: rec.Spec, Offset: off})
			}
			p.imports = append(p.imports, rec)
		} else {
			for _, s := range specs {
				if s.tok.Kind == TString {
					p.failAt(&s.tok, "string literal cannot be used as a local export name")
				}
				s.node.A = &Node{Type: NIdent, Name: s.local, Start: s.tok.Start, End: s.tok.End, Tok: s.node.Tok}
				p.exports = append(p.exports, ExportRecord{Kind: ExportNamed, Exported: s.exported, Local: s.local, Offset: off})
			}
		}
		p.semicolon()
	case p.isK("default"):
		n.Name = "default"
		p.next()
		local := "*default*"
		switch {
		case p.isK("function") || p.isId("async") && tokIsK(p.peek(1), "function") && !p.peek(1).NewlineBefore:
			n.A = p.parseFunction(true, true)
			if n.A.A != nil {
				local = n.A.A.Name
			}
		case p.isK("class"):
			n.A = p.parseClass(true, true, decos)
			if n.A.A != nil {
				local = n.A.A.Name
			}
		case p.isP("@"):
			n.A = p.parseClass(true, true, p.parseDecorators())
			if n.A.A != nil {
				local = n.A.A.Name
			}
		default:
			n.A = p.parseAssign()
			p.semicolon()
		}
		p.exports = append(p.exports, ExportRecord{Kind: ExportDefault, Exported: "default", Local: local, Offset: off})
	default:
		n.Name = "declaration"
		switch {
		case p.isK("var") || p.isK("const"):
			n.A = p.parseVarDecl(p.t.Raw)
			p.semicolon()
		case p.isLetDecl():
			n.A = p.parseVarDecl("let")
			p.semicolon()
		case p.isK("function") || p.isId("async") && tokIsK(p.peek(1), "function") && !p.peek(1).NewlineBefore:
			n.A = p.parseFunction(true, false)
		case p.isK("class"):
			n.A = p.parseClass(true, false, decos)
		case p.isP("@"):
			n.A = p.parseClass(true, false, p.parseDecorators())
		default:
			if kind, ok := p.isUsingDecl(false); ok {
				n.A = p.parseVarDecl(kind)
				p.semicolon()
			} else {
				p.fail("unexpected token after 'export'")
			}
		}
		var names []string
		switch n.A.Type {
		case NVarDecl:
			for _, d := range n.A.List {
				names = boundNames(d.A, names)
			}
		default:
			if n.A.A != nil {
				names = append(names, n.A.A.Name)
			}
		}
		for _, name := range names {
			p.exports = append(p.exports, ExportRecord{Kind: ExportDeclaration, Exported: name, Local: name, Offset: off})
		}
	}
	return p.finish(n)
}

// boundNames appends the identifiers bound by a binding target or pattern.
func boundNames(t *Node, out []string) []string {
	if t == nil {
		return out
	}
	switch t.Type {
	case NIdent:
		out = append(out, t.Name)
	case NAssign, NSpread, NParen:
		out = boundNames(t.A, out)
	case NArray:
		for _, e := range t.List {
			out = boundNames(e, out)
		}
	case NObject:
		for _, e := range t.List {
			if e.Type == NProperty {
				out = boundNames(e.B, out)
			} else {
				out = boundNames(e, out)
			}
		}
	}
	return out
}

package jsref

// parseExpression parses a comma expression.
func (p *parser) parseExpression() *Node {
	first := p.parseAssign()
	if !p.isP(",") {
		return first
	}
	n := p.startAt(NSeq, first)
	n.List = []*Node{first}
	for p.isP(",") {
		p.next()
		n.List = append(n.List, p.parseAssign())
	}
	return p.finish(n)
}

var assignOps = map[string]bool{
	"=": true, "+=": true, "-=": true, "*=": true, "/=": true, "%=": true, "**=": true, "<<=": true,
	">>=": true, ">>>=": true, "&=": true, "|=": true, "^=": true, "&&=": true, "||=": true, "??=": true,
}

func (p *parser) noteAssignTarget(t *Node) {
	if t.Type == NArray || t.Type == NObject {
		p.note(FeatDestructuring, t.Start)
	}
}

func (p *parser) parseAssign() *Node {
	if p.ctx.generator && p.isId("yield") {
		return p.parseYield()
	}
	left := p.parseConditional()
	if left.Type == NArrow {
		return left
	}
	if p.t.Kind == TPunct && assignOps[p.t.Raw] {
		n := p.startAt(NAssign, left)
		n.Name = p.t.Raw
		switch n.Name {
		case "**=":
			p.note(FeatExponent, p.t.Start)
		case "&&=", "||=", "??=":
			p.note(FeatLogicalAssignment, p.t.Start)
		case "=":
			p.noteAssignTarget(left)
		}
		p.next()
		n.A = left
		n.B = p.parseAssign()
		return p.finish(n)
	}
	return left
}

func (p *parser) parseYield() *Node {
	n := p.start(NYield)
	p.next()
	if p.t.NewlineBefore {
		return p.finish(n)
	}
	if p.isP("*") {
		n.Flags |= FlagDelegate
		p.next()
		n.A = p.parseAssign()
		return p.finish(n)
	}
	if p.startsExpression() {
		n.A = p.parseAssign()
	}
	return p.finish(n)
}

// startsExpression reports whether the current token can begin an expression.
func (p *parser) startsExpression() bool {
	switch p.t.Kind {
	case TIdent, TNum, TBigInt, TString, TTemplateNoSub, TTemplateHead, TRegex, TPrivateName:
		return true
	case TKeyword:
		switch p.t.Raw {
		case "function", "class", "new", "this", "super", "null", "true", "false", "typeof", "void", "delete", "import":
			return true
		}
	case TPunct:
		switch p.t.Raw {
		case "(", "[", "{", "+", "-", "!", "~", "++", "--", "/", "/=", "@":
			return true
		case "<":
			return p.opts.JSX
		}
	}
	return false
}

func (p *parser) parseConditional() *Node {
	test := p.parseBinary(0)
	if test.Type == NArrow || !p.isP("?") {
		return test
	}
	n := p.startAt(NCond, test)
	n.A = test
	p.next()
	old := p.noIn
	p.noIn = false
	n.B = p.parseAssign()
	p.noIn = old
	p.expectP(":")
	n.C = p.parseAssign()
	return p.finish(n)
}

// binaryPrec returns the precedence of the current token as a binary
// operator, or 0.
func (p *parser) binaryPrec() int {
	switch p.t.Kind {
	case TPunct:
		switch p.t.Raw {
		case "??":
			return 1
		case "||":
			return 2
		case "&&":
			return 3
		case "|":
			return 4
		case "^":
			return 5
		case "&":
			return 6
		case "==", "!=", "===", "!==":
			return 7
		case "<", ">", "<=", ">=":
			return 8
		case "<<", ">>", ">>>":
			return 9
		case "+", "-":
			return 10
		case "*", "/", "%":
			return 11
		case "**":
			return 12
		}
	case TKeyword:
		switch p.t.Raw {
		case "instanceof":
			return 8
		case "in":
			if !p.noIn {
				return 8
			}
		}
	}
	return 0
}

func (p *parser) parseBinary(minPrec int) *Node {
	left := p.parseUnary()
	if left.Type == NArrow {
		return left
	}
	for {
		prec := p.binaryPrec()
		if prec == 0 || prec <= minPrec {
			return left
		}
		n := p.startAt(NBinary, left)
		n.Name = p.t.Raw
		switch n.Name {
		case "**":
			p.note(FeatExponent, p.t.Start)
		case "??":
			p.note(FeatNullishCoalescing, p.t.Start)
		case "in":
			if left.Type == NPrivateName {
				p.note(FeatClassPrivateBrandCheck, left.Start)
			}
		}
		p.next()
		n.A = left
		if prec == 12 {
			n.B = p.parseBinary(prec - 1) // right associative
		} else {
			n.B = p.parseBinary(prec)
		}
		left = p.finish(n)
	}
}

func (p *parser) parseUnary() *Node {
	switch p.t.Kind {
	case TPunct:
		switch p.t.Raw {
		case "!", "~", "+", "-":
			n := p.start(NUnary)
			n.Name = p.t.Raw
			p.next()
			n.A = p.parseUnary()
			return p.finish(n)
		case "++", "--":
			n := p.start(NUpdate)
			n.Name = p.t.Raw
			n.Flags |= FlagPrefix
			p.next()
			n.A = p.parseUnary()
			return p.finish(n)
		}
	case TKeyword:
		switch p.t.Raw {
		case "typeof", "void", "delete":
			n := p.start(NUnary)
			n.Name = p.t.Raw
			p.next()
			n.A = p.parseUnary()
			return p.finish(n)
		}
	case TIdent:
		if p.ctx.async && p.isId("await") {
			n := p.start(NAwait)
			p.noteAwait(p.t.Start)
			p.next()
			n.A = p.parseUnary()
			return p.finish(n)
		}
	}
	e := p.parseSubscripts(p.parsePrimary(), false)
	if e.Type == NArrow {
		return e
	}
	if (p.isP("++") || p.isP("--")) && !p.t.NewlineBefore {
		n := p.startAt(NUpdate, e)
		n.Name = p.t.Raw
		n.A = e
		p.next()
		return p.finish(n)
	}
	return e
}

// parseArguments parses a parenthesised, comma separated list of assignment
// expressions and spread elements. The current token is "(". It reports
// whether the list ended with a trailing comma.
func (p *parser) parseArguments() (list []*Node, trailingComma bool) {
	p.expectP("(")
	old := p.noIn
	p.noIn = false
	for !p.isP(")") {
		trailingComma = false
		if p.isP("...") {
			s := p.start(NSpread)
			p.note(FeatSpread, p.t.Start)
			p.next()
			s.A = p.parseAssign()
			list = append(list, p.finish(s))
		} else {
			list = append(list, p.parseAssign())
		}
		if !p.isP(")") {
			p.expectP(",")
			trailingComma = true
		}
	}
	p.noIn = old
	p.next()
	return list, trailingComma
}

func (p *parser) parsePropertyNameAfterDot(n *Node) {
	switch p.t.Kind {
	case TIdent, TKeyword:
		n.Name = p.t.Ident
	case TPrivateName:
		n.Name = "#" + p.t.Ident
		b := p.start(NPrivateName)
		b.Name = p.t.Ident
		b.End = p.t.End
		n.B = b
	default:
		p.fail("expected property name")
	}
	p.next()
}

func (p *parser) parseSubscripts(base *Node, noCall bool) *Node {
	for {
		if base.Type == NArrow {
			return base
		}
		switch p.t.Kind {
		case TPunct:
			switch p.t.Raw {
			case ".":
				n := p.startAt(NMember, base)
				n.A = base
				p.next()
				p.parsePropertyNameAfterDot(n)
				base = p.finish(n)
				continue
			case "?.":
				if noCall {
					// `new a?.b()` is not valid; stop here and let the caller fail
					return base
				}
				p.note(FeatOptionalChain, p.t.Start)
				p.next()
				switch {
				case p.isP("("):
					n := p.startAt(NCall, base)
					n.Flags |= FlagOptional
					n.A = base
					n.List, _ = p.parseArguments()
					base = p.finish(n)
				case p.isP("["):
					n := p.startAt(NIndex, base)
					n.Flags |= FlagOptional
					n.A = base
					p.next()
					old := p.noIn
					p.noIn = false
					n.B = p.parseExpression()
					p.noIn = old
					p.expectP("]")
					base = p.finish(n)
				default:
					n := p.startAt(NMember, base)
					n.Flags |= FlagOptional
					n.A = base
					p.parsePropertyNameAfterDot(n)
					base = p.finish(n)
				}
				continue
			case "[":
				n := p.startAt(NIndex, base)
				n.A = base
				p.next()
				old := p.noIn
				p.noIn = false
				n.B = p.parseExpression()
				p.noIn = old
				p.expectP("]")
				base = p.finish(n)
				continue
			case "(":
				if noCall {
					return base
				}
				n := p.startAt(NCall, base)
				n.A = base
				n.List, _ = p.parseArguments()
				base = p.finish(n)
				continue
			}
		case TTemplateNoSub, TTemplateHead:
			t := p.parseTemplate()
			t.A = base
			t.Start = base.Start
			t.Tok = base.Tok
			base = t
			continue
		}
		return base
	}
}

func (p *parser) parseTemplate() *Node {
	n := p.start(NTemplate)
	if p.t.Kind == TTemplateNoSub {
		p.next()
		return p.finish(n)
	}
	old := p.noIn
	p.noIn = false
	for {
		p.next()
		n.List = append(n.List, p.parseExpression())
		if !p.isP("}") {
			p.fail("expected '}' in template literal")
		}
		p.rescan(modeTemplateCont)
		if p.t.Kind == TTemplateTail {
			break
		}
	}
	p.noIn = old
	p.next()
	return p.finish(n)
}

func (p *parser) parseNew() *Node {
	n := p.start(NNew)
	p.next()
	if p.isP(".") {
		p.next()
		if !p.isId("target") {
			p.fail("expected 'target'")
		}
		p.next()
		n.Type = NMeta
		n.Name = "new.target"
		p.note(FeatNewTarget, n.Start)
		return p.finish(n)
	}
	var callee *Node
	if p.isK("new") {
		callee = p.parseNew()
	} else {
		callee = p.parsePrimary()
	}
	n.A = p.parseSubscripts(callee, true)
	if p.isP("(") {
		n.List, _ = p.parseArguments()
	}
	return p.finish(n)
}

func (p *parser) parseLiteral(t NodeType) *Node {
	n := p.start(t)
	p.next()
	return p.finish(n)
}

func (p *parser) parseIdentNode() *Node {
	if p.t.Kind != TIdent {
		p.fail("expected identifier")
	}
	n := p.start(NIdent)
	n.Name = p.t.Ident
	p.next()
	return p.finish(n)
}

func (p *parser) parsePrimary() *Node {
	switch p.t.Kind {
	case TIdent:
		if p.isId("async") {
			nx := p.peek(1)
			if !nx.NewlineBefore {
				if tokIsK(nx, "function") {
					return p.parseFunction(false, false)
				}
				if nx.Kind == TIdent && tokIsP(p.peek(2), "=>") {
					// async x => ...
					startTok := p.start(NArrow)
					p.next()
					param := p.parseIdentNode()
					return p.parseArrowFrom(startTok, []*Node{param}, true)
				}
				if tokIsP(nx, "(") {
					asyncIdent := p.parseIdentNode()
					args, _ := p.parseArguments()
					if p.isP("=>") && !p.t.NewlineBefore {
						return p.parseArrowFrom(p.startAt(NArrow, asyncIdent), args, true)
					}
					n := p.startAt(NCall, asyncIdent)
					n.A = asyncIdent
					n.List = args
					return p.finish(n)
				}
			}
		}
		id := p.parseIdentNode()
		if p.isP("=>") && !p.t.NewlineBefore {
			return p.parseArrowFrom(p.startAt(NArrow, id), []*Node{id}, false)
		}
		return id
	case TNum:
		return p.parseLiteral(NNum)
	case TBigInt:
		return p.parseLiteral(NBigInt)
	case TString:
		return p.parseLiteral(NStr)
	case TTemplateNoSub, TTemplateHead:
		return p.parseTemplate()
	case TRegex:
		return p.parseLiteral(NRegex)
	case TPrivateName:
		n := p.start(NPrivateName)
		n.Name = p.t.Ident
		p.next()
		return p.finish(n)
	case TKeyword:
		switch p.t.Raw {
		case "this":
			return p.parseLiteral(NThis)
		case "null", "true", "false":
			n := p.start(NIdent)
			n.Type = NMeta
			n.Name = p.t.Raw
			p.next()
			return p.finish(n)
		case "super":
			return p.parseLiteral(NSuper)
		case "function":
			return p.parseFunction(false, false)
		case "class":
			return p.parseClass(false, false, nil)
		case "new":
			return p.parseNew()
		case "import":
			return p.parseImportExpr()
		}
	case TPunct:
		switch p.t.Raw {
		case "/", "/=":
			p.rescan(modeRegex)
			return p.parseLiteral(NRegex)
		case "(":
			return p.parseParen()
		case "[":
			return p.parseArrayLiteral()
		case "{":
			return p.parseObjectLiteral()
		case "@":
			decos := p.parseDecorators()
			return p.parseClass(false, false, decos)
		case "<":
			if p.opts.JSX {
				return p.parseJSXElement(modeNormal)
			}
		}
	}
	p.fail("unexpected token")
	return nil
}

func (p *parser) parseImportExpr() *Node {
	n := p.start(NImportCall)
	p.next()
	if p.eatP(".") {
		if p.isId("meta") {
			p.next()
			n.Type = NMeta
			n.Name = "import.meta"
			p.note(FeatImportMeta, n.Start)
			return p.finish(n)
		}
		// import.source(...) / import.defer(...)
		if p.t.Kind != TIdent {
			p.fail("expected 'meta'")
		}
		n.Name = p.t.Ident
		p.next()
	}
	p.note(FeatDynamicImport, n.Start)
	p.expectP("(")
	old := p.noIn
	p.noIn = false
	n.A = p.parseAssign()
	if p.eatP(",") && !p.isP(")") {
		n.B = p.parseAssign()
		p.eatP(",")
	}
	p.noIn = old
	p.expectP(")")
	p.finish(n)
	rec := ImportRecord{Kind: ImportDynamic, Offset: n.Start, Token: n.Tok, SpecOffset: -1}
	if s, ok := p.constString(n.A); ok {
		rec.Spec = s
		rec.SpecOffset = n.A.Start
	} else {
		rec.Dynamic = true
	}
	if n.B != nil && n.B.Type == NObject {
		for _, prop := range n.B.List {
			if prop.Type == NProperty && !prop.Has(FlagComputed) && (p.keyName(prop.A) == "with" || p.keyName(prop.A) == "assert") && prop.B != nil && prop.B.Type == NObject {
				for _, a := range prop.B.List {
					if a.Type != NProperty || a.Has(FlagComputed) || a.B == nil {
						continue
					}
					if v, ok := p.constString(a.B); ok {
						if rec.Attributes == nil {
							rec.Attributes = map[string]string{}
						}
						rec.Attributes[p.keyName(a.A)] = v
					}
				}
			}
		}
	}
	p.imports = append(p.imports, rec)
	return n
}

// constString returns the value of a string literal or substitution-free
// template literal node.
func (p *parser) constString(n *Node) (string, bool) {
	if n == nil {
		return "", false
	}
	for n.Type == NParen {
		n = n.A
	}
	if n.Type == NStr {
		return UTF16ToString(p.toks[n.Tok].Str), true
	}
	if n.Type == NTemplate && n.A == nil && len(n.List) == 0 && p.toks[n.Tok].Kind == TTemplateNoSub && !p.toks[n.Tok].CookedInvalid {
		return UTF16ToString(p.toks[n.Tok].Str), true
	}
	return "", false
}

// keyName returns the static name of a non-computed property key node.
func (p *parser) keyName(k *Node) string {
	if k == nil {
		return ""
	}
	switch k.Type {
	case NIdent:
		return k.Name
	case NPrivateName:
		return "#" + k.Name
	case NStr:
		return UTF16ToString(p.toks[k.Tok].Str)
	case NNum, NBigInt:
		return p.toks[k.Tok].Raw
	}
	return ""
}

// parseParen parses a parenthesised expression or the parameter list of an
// arrow function (decided by the token after the closing parenthesis).
func (p *parser) parseParen() *Node {
	startNode := p.start(NParen)
	p.expectP("(")
	old := p.noIn
	p.noIn = false
	var items []*Node
	arrowOnly := false
	for !p.isP(")") {
		if p.isP("...") {
			s := p.start(NSpread)
			p.next()
			s.A = p.parseBindingTarget()
			if p.isP("=") { // invalid, but keep going for a better error later
				p.fail("rest parameter may not have a default")
			}
			items = append(items, p.finish(s))
			arrowOnly = true
		} else {
			items = append(items, p.parseAssign())
		}
		if !p.isP(")") {
			p.expectP(",")
			if p.isP(")") {
				arrowOnly = true
			}
		}
	}
	p.noIn = old
	p.next()
	if p.isP("=>") && !p.t.NewlineBefore {
		return p.parseArrowFrom(startNode, items, false)
	}
	if arrowOnly || len(items) == 0 {
		p.fail("expected '=>'")
	}
	n := startNode
	if len(items) == 1 {
		n.A = items[0]
	} else {
		seq := p.startAt(NSeq, items[0])
		seq.List = items
		seq.End = items[len(items)-1].End
		n.A = seq
	}
	return p.finish(n)
}

// parseArrowFrom parses "=> body"; the current token is "=>".
func (p *parser) parseArrowFrom(n *Node, params []*Node, async bool) *Node {
	n.Type = NArrow
	n.List = params
	p.note(FeatArrow, n.Start)
	if async {
		n.Flags |= FlagAsync
		p.note(FeatAsyncFunction, n.Start)
	}
	for _, prm := range params {
		p.noteParamFeatures(prm)
	}
	if !p.isP("=>") {
		p.fail("expected '=>'")
	}
	p.next()
	oldCtx := p.ctx
	p.ctx = fnCtx{async: async, strict: oldCtx.strict, function: oldCtx.function}
	if p.isP("{") {
		oldIn := p.noIn
		p.noIn = false
		n.B = p.parseFunctionBody()
		p.noIn = oldIn
		if p.ctx.strict {
			n.Flags |= FlagStrict
		}
		p.ctx = oldCtx
		return p.finish(n)
	}
	n.B = p.parseAssign()
	n.Flags |= FlagExprBody
	if p.ctx.strict {
		n.Flags |= FlagStrict
	}
	p.ctx = oldCtx
	return p.finish(n)
}

func (p *parser) noteParamFeatures(prm *Node) {
	switch prm.Type {
	case NSpread:
		p.note(FeatRestParams, prm.Start)
		p.noteParamFeatures(prm.A)
	case NAssign:
		p.note(FeatDefaultParams, prm.Start)
		p.noteParamFeatures(prm.A)
	case NArray, NObject:
		p.note(FeatDestructuring, prm.Start)
	}
}

func (p *parser) parseArrayLiteral() *Node {
	n := p.start(NArray)
	p.expectP("[")
	old := p.noIn
	p.noIn = false
	for !p.isP("]") {
		if p.isP(",") {
			e := p.start(NElision)
			e.End = e.Start
			n.List = append(n.List, e)
			p.next()
			continue
		}
		if p.isP("...") {
			s := p.start(NSpread)
			p.note(FeatSpread, p.t.Start)
			p.next()
			s.A = p.parseAssign()
			n.List = append(n.List, p.finish(s))
		} else {
			n.List = append(n.List, p.parseAssign())
		}
		if !p.isP("]") {
			p.expectP(",")
		}
	}
	p.noIn = old
	p.next()
	return p.finish(n)
}

// parsePropertyKey parses a property name (object literal or class member).
func (p *parser) parsePropertyKey(allowPrivate bool) (key *Node, computed bool) {
	switch p.t.Kind {
	case TIdent, TKeyword:
		n := p.start(NIdent)
		n.Name = p.t.Ident
		p.next()
		return p.finish(n), false
	case TString:
		return p.parseLiteral(NStr), false
	case TNum:
		return p.parseLiteral(NNum), false
	case TBigInt:
		return p.parseLiteral(NBigInt), false
	case TPrivateName:
		if allowPrivate {
			n := p.start(NPrivateName)
			n.Name = p.t.Ident
			p.next()
			return p.finish(n), false
		}
	case TPunct:
		if p.isP("[") {
			p.note(FeatComputedProperty, p.t.Start)
			p.next()
			old := p.noIn
			p.noIn = false
			e := p.parseAssign()
			p.noIn = old
			p.expectP("]")
			return e, true
		}
	}
	p.fail("expected property name")
	return nil, false
}

// endsPropertyName reports whether tok, following a word like get/set/async/
// static, shows that the word itself was the property name.
func endsPropertyName(t *Token) bool {
	if t.Kind == TEOF {
		return true
	}
	if t.Kind != TPunct {
		return false
	}
	switch t.Raw {
	case "(", ":", ",", "}", "=", ";":
		return true
	}
	return false
}

// startsPropertyKey reports whether t can begin a property name.
func startsPropertyKey(t *Token) bool {
	switch t.Kind {
	case TIdent, TKeyword, TString, TNum, TBigInt, TPrivateName:
		return true
	}
	return tokIsP(t, "[")
}

func (p *parser) parseObjectLiteral() *Node {
	n := p.start(NObject)
	p.expectP("{")
	oldIn := p.noIn
	p.noIn = false
	for !p.isP("}") {
		if p.isP("...") {
			s := p.start(NSpread)
			p.note(FeatObjectRestSpread, p.t.Start)
			p.next()
			s.A = p.parseAssign()
			n.List = append(n.List, p.finish(s))
		} else {
			n.List = append(n.List, p.parseObjectProperty())
		}
		if !p.isP("}") {
			p.expectP(",")
		}
	}
	p.noIn = oldIn
	p.next()
	return p.finish(n)
}

func (p *parser) parseObjectProperty() *Node {
	prop := p.start(NProperty)
	prop.Name = "init"
	async, gen := false, false
	if p.isId("async") {
		if nx := p.peek(1); !endsPropertyName(nx) && !nx.NewlineBefore {
			async = true
			p.next()
		}
	}
	if p.isP("*") {
		gen = true
		p.next()
	}
	if !async && !gen && (p.isId("get") || p.isId("set")) && startsPropertyKey(p.peek(1)) {
		prop.Name = p.t.Ident
		p.next()
	}
	keyTok := p.t
	key, computed := p.parsePropertyKey(false)
	prop.A = key
	if computed {
		prop.Flags |= FlagComputed
	}
	switch {
	case prop.Name != "init" || async || gen || p.isP("("):
		if prop.Name == "init" {
			prop.Name = "method"
		}
		p.note(FeatObjectShorthand, prop.Start)
		p.noteFunctionKind(prop.Start, async, gen)
		prop.B = p.parseMethodFunction(async, gen)
	case p.isP(":"):
		p.next()
		prop.B = p.parseAssign()
	default:
		// shorthand, possibly with a default (cover grammar for patterns)
		if computed || keyTok.Kind != TIdent {
			p.fail("expected ':'")
		}
		p.note(FeatObjectShorthand, prop.Start)
		prop.Flags |= FlagShorthand
		ref := &Node{Type: NIdent, Name: key.Name, Start: key.Start, End: key.End, Tok: key.Tok}
		prop.B = ref
		if p.isP("=") {
			a := p.startAt(NAssign, ref)
			a.Name = "="
			a.A = ref
			p.next()
			a.B = p.parseAssign()
			prop.B = p.finish(a)
		}
	}
	return p.finish(prop)
}

// parseBindingTarget parses a binding identifier or binding pattern.
func (p *parser) parseBindingTarget() *Node {
	switch {
	case p.t.Kind == TIdent:
		return p.parseIdentNode()
	case p.isP("["):
		n := p.start(NArray)
		n.Flags |= FlagPattern
		p.note(FeatDestructuring, n.Start)
		p.next()
		old := p.noIn
		p.noIn = false
		for !p.isP("]") {
			if p.isP(",") {
				e := p.start(NElision)
				e.End = e.Start
				n.List = append(n.List, e)
				p.next()
				continue
			}
			if p.isP("...") {
				s := p.start(NSpread)
				p.next()
				s.A = p.parseBindingTarget()
				n.List = append(n.List, p.finish(s))
			} else {
				n.List = append(n.List, p.parseBindingElement())
			}
			if !p.isP("]") {
				p.expectP(",")
			}
		}
		p.noIn = old
		p.next()
		return p.finish(n)
	case p.isP("{"):
		n := p.start(NObject)
		n.Flags |= FlagPattern
		p.note(FeatDestructuring, n.Start)
		p.next()
		old := p.noIn
		p.noIn = false
		for !p.isP("}") {
			if p.isP("...") {
				s := p.start(NSpread)
				p.note(FeatObjectRestSpread, p.t.Start)
				p.next()
				s.A = p.parseBindingTarget()
				n.List = append(n.List, p.finish(s))
			} else {
				prop := p.start(NProperty)
				prop.Name = "init"
				keyTok := p.t
				key, computed := p.parsePropertyKey(false)
				prop.A = key
				if computed {
					prop.Flags |= FlagComputed
				}
				if p.eatP(":") {
					prop.B = p.parseBindingElement()
				} else {
					if computed || keyTok.Kind != TIdent {
						p.fail("expected ':'")
					}
					prop.Flags |= FlagShorthand
					ref := &Node{Type: NIdent, Name: key.Name, Start: key.Start, End: key.End, Tok: key.Tok}
					prop.B = ref
					if p.isP("=") {
						a := p.startAt(NAssign, ref)
						a.Name = "="
						a.A = ref
						p.next()
						a.B = p.parseAssign()
						prop.B = p.finish(a)
					}
				}
				n.List = append(n.List, p.finish(prop))
			}
			if !p.isP("}") {
				p.expectP(",")
			}
		}
		p.noIn = old
		p.next()
		return p.finish(n)
	}
	p.fail("expected binding identifier or pattern")
	return nil
}

// parseBindingElement parses a binding target with an optional default.
func (p *parser) parseBindingElement() *Node {
	t := p.parseBindingTarget()
	if p.isP("=") {
		a := p.startAt(NAssign, t)
		a.Name = "="
		a.A = t
		p.next()
		a.B = p.parseAssign()
		return p.finish(a)
	}
	return t
}

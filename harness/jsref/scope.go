package jsref

import "sort"

type requireCandidate struct {
	ref     *Ref
	call    *Node
	spec    string
	specOff int
}

type analyzer struct {
	p        *parser
	prog     *Program
	scope    *Scope
	requires []requireCandidate
}

func (a *analyzer) push(kind ScopeKind, n *Node) *Scope {
	s := &Scope{Kind: kind, Parent: a.scope, names: map[string]*Decl{}}
	if n != nil {
		s.Start, s.End = n.Start, n.End
	}
	if a.scope != nil {
		s.Strict = a.scope.Strict
		a.scope.Children = append(a.scope.Children, s)
	}
	a.scope = s
	return s
}

func (a *analyzer) pop() { a.scope = a.scope.Parent }

func (a *analyzer) declare(s *Scope, name string, kind DeclKind, off int) *Decl {
	if d, ok := s.names[name]; ok {
		return d
	}
	d := &Decl{Name: name, Kind: kind, Offset: off, Scope: s}
	s.names[name] = d
	s.Decls = append(s.Decls, d)
	return d
}

// varScope returns the scope that receives var declarations made in the
// current scope.
func (a *analyzer) varScope() *Scope {
	s := a.scope
	for s.Parent != nil {
		switch s.Kind {
		case ScopeFunction, ScopeFunctionBody, ScopeStaticBlock, ScopeClassField, ScopeGlobal, ScopeModule:
			return s
		}
		s = s.Parent
	}
	return s
}

func (a *analyzer) ref(n *Node) *Ref {
	r := &Ref{Name: n.Name, Offset: n.Start, IsRead: true, Scope: a.scope}
	a.prog.Refs = append(a.prog.Refs, r)
	return r
}

func unparen(n *Node) *Node {
	for n != nil && n.Type == NParen {
		n = n.A
	}
	return n
}

// declarePattern declares the names bound by a binding target in scope s and
// visits the contained default values and computed keys.
func (a *analyzer) declarePattern(t *Node, kind DeclKind, s *Scope) {
	if t == nil {
		return
	}
	switch t.Type {
	case NIdent:
		a.declare(s, t.Name, kind, t.Start)
	case NAssign:
		a.declarePattern(t.A, kind, s)
		a.expr(t.B)
	case NSpread, NParen:
		a.declarePattern(t.A, kind, s)
	case NArray:
		for _, e := range t.List {
			a.declarePattern(e, kind, s)
		}
	case NObject:
		for _, e := range t.List {
			if e.Type == NProperty {
				if e.Has(FlagComputed) {
					a.expr(e.A)
				}
				a.declarePattern(e.B, kind, s)
			} else {
				a.declarePattern(e, kind, s)
			}
		}
	case NElision:
	default:
		a.expr(t)
	}
}

// assignPattern visits the target of an assignment (possibly a destructuring pattern).
func (a *analyzer) assignPattern(t *Node) {
	if t == nil {
		return
	}
	switch t.Type {
	case NIdent:
		r := a.ref(t)
		r.IsAssignTarget = true
		r.IsRead = false
	case NParen, NSpread:
		a.assignPattern(t.A)
	case NAssign:
		if t.Name == "=" {
			a.assignPattern(t.A)
			a.expr(t.B)
		} else {
			a.expr(t)
		}
	case NArray:
		for _, e := range t.List {
			a.assignPattern(e)
		}
	case NObject:
		for _, e := range t.List {
			if e.Type == NProperty {
				if e.Has(FlagComputed) {
					a.expr(e.A)
				}
				if e.Name == "init" {
					a.assignPattern(e.B)
				} else {
					a.expr(e.B)
				}
			} else {
				a.assignPattern(e)
			}
		}
	case NElision:
	default:
		a.expr(t)
	}
}

func (a *analyzer) stmts(list []*Node, top bool) {
	for _, s := range list {
		a.stmt(s, top)
	}
}

// stmt visits a statement. top is true when the statement is an immediate
// child of a function body, static block, or the program.
func (a *analyzer) stmt(n *Node, top bool) {
	if n == nil {
		return
	}
	switch n.Type {
	case NBlock:
		a.push(ScopeBlock, n)
		a.stmts(n.List, false)
		a.pop()
	case NEmpty, NDebugger, NBreak, NContinue:
	case NExprStmt, NReturn, NThrow:
		a.expr(n.A)
	case NIf:
		a.expr(n.A)
		a.substatement(n.B)
		a.substatement(n.C)
	case NFor, NForIn, NForOf:
		a.push(ScopeFor, n)
		if n.A != nil {
			if n.A.Type == NVarDecl {
				a.varDecl(n.A)
			} else if n.Type == NFor {
				a.expr(n.A)
			} else {
				a.assignPattern(n.A)
			}
		}
		a.expr(n.B)
		a.expr(n.C)
		a.substatement(n.D)
		a.pop()
	case NWhile:
		a.expr(n.A)
		a.substatement(n.D)
	case NDoWhile:
		a.substatement(n.D)
		a.expr(n.A)
	case NTry:
		a.stmt(n.A, false)
		if c := n.B; c != nil {
			a.push(ScopeCatch, c)
			a.declarePattern(c.A, DeclCatch, a.scope)
			a.stmt(c.B, false)
			a.pop()
		}
		a.stmt(n.C, false)
	case NSwitch:
		a.expr(n.A)
		a.push(ScopeSwitch, n)
		for _, c := range n.List {
			a.expr(c.A)
			a.stmts(c.List, false)
		}
		a.pop()
	case NLabeled:
		if n.A.Type == NFunctionDecl {
			a.stmt(n.A, top)
		} else {
			a.substatement(n.A)
		}
	case NWith:
		a.prog.HasWith = true
		a.expr(n.A)
		a.push(ScopeWith, n)
		a.substatement(n.B)
		a.pop()
	case NVarDecl:
		a.varDecl(n)
	case NFunctionDecl:
		a.functionDecl(n, top)
	case NClassDecl:
		a.class(n, true)
	case NImportDecl:
		for _, id := range n.List {
			a.declare(a.scope, id.Name, DeclImport, id.Start)
		}
	case NExportDecl:
		switch n.Name {
		case "named":
			for _, s := range n.List {
				if s.A != nil {
					a.ref(s.A).IsExportSpec = true
				}
			}
		case "default":
			switch n.A.Type {
			case NFunctionDecl, NClassDecl:
				a.stmt(n.A, top)
			default:
				a.expr(n.A)
			}
		case "declaration":
			a.stmt(n.A, top)
		}
	default:
		a.expr(n)
	}
}

// substatement visits the body of if/for/while/with/label: a function
// declaration there behaves as if it were wrapped in a block.
func (a *analyzer) substatement(n *Node) {
	if n == nil {
		return
	}
	if n.Type == NFunctionDecl {
		a.push(ScopeBlock, n)
		a.stmt(n, false)
		a.pop()
		return
	}
	a.stmt(n, false)
}

func (a *analyzer) varDecl(n *Node) {
	kind := DeclKind(n.Name)
	target := a.scope
	switch n.Name {
	case "var":
		target = a.varScope()
	case "await using":
		kind = DeclUsing
	}
	for _, d := range n.List {
		a.declarePattern(d.A, kind, target)
		a.expr(d.B)
	}
}

func (a *analyzer) functionDecl(n *Node, top bool) {
	if n.A != nil {
		if top {
			a.declare(a.varScope(), n.A.Name, DeclFunction, n.A.Start)
		} else {
			a.declare(a.scope, n.A.Name, DeclFunction, n.A.Start)
			if !a.scope.Strict && !n.Has(FlagAsync) && !n.Has(FlagGenerator) {
				vs := a.varScope()
				if _, exists := vs.names[n.A.Name]; !exists {
					a.declare(vs, n.A.Name, DeclFunction, n.A.Start).HoistedBlockFunction = true
				}
			}
		}
	}
	a.function(n, false)
}

// function visits parameters and body of any function-like node.
func (a *analyzer) function(n *Node, selfName bool) {
	if selfName && n.A != nil {
		a.push(ScopeFunctionName, n)
		a.declare(a.scope, n.A.Name, DeclFuncName, n.A.Start)
		defer a.pop()
	}
	fs := a.push(ScopeFunction, n)
	fs.Arrow = n.Type == NArrow
	if n.Has(FlagStrict) {
		fs.Strict = true
	}
	simple := true
	for _, prm := range n.List {
		if prm.Type != NIdent {
			simple = false
		}
	}
	for _, prm := range n.List {
		a.declarePattern(prm, DeclParam, fs)
	}
	if n.B != nil {
		if n.B.Type == NBlock && !n.Has(FlagExprBody) {
			if !simple {
				a.push(ScopeFunctionBody, n.B)
			}
			a.stmts(n.B.List, true)
			if !simple {
				a.pop()
			}
		} else {
			a.expr(n.B)
		}
	}
	a.pop()
}

func (a *analyzer) class(n *Node, isDecl bool) {
	if isDecl && n.A != nil {
		a.declare(a.scope, n.A.Name, DeclClass, n.A.Start)
	}
	if n.C != nil {
		a.expr(n.C)
	}
	cs := a.push(ScopeClass, n)
	cs.Strict = true
	if n.A != nil {
		a.declare(cs, n.A.Name, DeclClassName, n.A.Start)
	}
	a.expr(n.B)
	for _, m := range n.List {
		switch m.Type {
		case NMethod, NField:
			for _, d := range m.List {
				a.expr(d)
			}
			if m.Has(FlagComputed) {
				a.expr(m.A)
			}
			if m.Type == NMethod {
				a.function(m.B, false)
			} else if m.B != nil {
				a.push(ScopeClassField, m.B)
				a.expr(m.B)
				a.pop()
			}
		case NStaticBlock:
			a.push(ScopeStaticBlock, m)
			a.stmts(m.List, true)
			a.pop()
		}
	}
	a.pop()
}

func (a *analyzer) exprs(list []*Node) {
	for _, e := range list {
		a.expr(e)
	}
}

func (a *analyzer) expr(n *Node) {
	if n == nil {
		return
	}
	switch n.Type {
	case NIdent:
		a.ref(n)
	case NTemplate:
		a.expr(n.A)
		a.exprs(n.List)
	case NArray, NSeq:
		a.exprs(n.List)
	case NObject:
		for _, e := range n.List {
			if e.Type != NProperty {
				a.expr(e)
				continue
			}
			if e.Has(FlagComputed) {
				a.expr(e.A)
			}
			if e.Name == "init" {
				a.expr(e.B)
			} else {
				a.function(e.B, false)
			}
		}
	case NUnary:
		if n.Name == "typeof" {
			if t := unparen(n.A); t != nil && t.Type == NIdent {
				a.ref(t).IsTypeofOperand = true
				return
			}
		}
		a.expr(n.A)
	case NUpdate:
		if t := unparen(n.A); t != nil && t.Type == NIdent {
			a.ref(t).IsAssignTarget = true
			return
		}
		a.expr(n.A)
	case NAssign:
		if n.Name == "=" {
			a.assignPattern(n.A)
		} else if t := unparen(n.A); t != nil && t.Type == NIdent {
			a.ref(t).IsAssignTarget = true
		} else {
			a.expr(n.A)
		}
		a.expr(n.B)
	case NBinary:
		a.expr(n.A)
		a.expr(n.B)
	case NCond:
		a.expr(n.A)
		a.expr(n.B)
		a.expr(n.C)
	case NCall:
		if c := n.A; c.Type == NIdent {
			r := a.ref(c)
			switch c.Name {
			case "eval":
				a.prog.HasDirectEval = true
			case "require":
				if len(n.List) == 1 && !n.Has(FlagOptional) {
					if spec, ok := a.p.constString(n.List[0]); ok {
						a.requires = append(a.requires, requireCandidate{r, n, spec, n.List[0].Start})
					}
				}
			}
		} else {
			a.expr(c)
		}
		a.exprs(n.List)
	case NNew:
		a.expr(n.A)
		a.exprs(n.List)
	case NMember, NSpread, NAwait, NYield, NParen, NDecorator, NJSXSpreadAttr, NJSXExprContain, NJSXAttr:
		a.expr(n.A)
	case NIndex, NImportCall:
		a.expr(n.A)
		a.expr(n.B)
	case NFunctionExpr:
		a.function(n, true)
	case NArrow:
		a.function(n, false)
	case NClassExpr:
		a.class(n, false)
	case NJSXElement:
		if n.A != nil && n.A.A != nil {
			a.ref(n.A.A)
		}
		a.exprs(n.List)
	case NProperty:
		// only reachable through invalid trees
		a.expr(n.A)
		a.expr(n.B)
	}
}

func (a *analyzer) resolve(r *Ref) {
	for s := r.Scope; s != nil; s = s.Parent {
		if s.Kind == ScopeWith {
			r.ThroughWith = true
		}
		if d, ok := s.names[r.Name]; ok {
			r.Decl = d
			d.Refs = append(d.Refs, r)
			return
		}
		if r.Name == "arguments" && s.Kind == ScopeFunction && !s.Arrow {
			d := a.declare(s, "arguments", DeclArguments, s.Start)
			r.Decl = d
			d.Refs = append(d.Refs, r)
			return
		}
	}
}

func numberDecls(s *Scope, next *int) {
	for _, d := range s.Decls {
		d.Index = *next
		*next++
	}
	for _, c := range s.Children {
		numberDecls(c, next)
	}
}

// analyze runs the scope analysis and fills the scope related products.
func (p *parser) analyze(prog *Program) {
	a := &analyzer{p: p, prog: prog}
	kind := ScopeGlobal
	if prog.Module {
		kind = ScopeModule
	}
	root := a.push(kind, prog.Body)
	root.Strict = prog.Body.Has(FlagStrict)
	a.stmts(prog.Body.List, true)
	prog.Scopes = root

	sort.SliceStable(prog.Refs, func(i, j int) bool { return prog.Refs[i].Offset < prog.Refs[j].Offset })
	free := map[string]bool{}
	for _, r := range prog.Refs {
		a.resolve(r)
		if r.Decl == nil {
			free[r.Name] = true
			prog.FreeRefs = append(prog.FreeRefs, *r)
		}
		if r.IsAssignTarget {
			an := AssignedName{Name: r.Name, Offset: r.Offset, Scope: ScopeFree, Decl: r.Decl}
			if r.Decl != nil {
				an.Scope = r.Decl.Scope.Kind
			}
			prog.AssignedNames = append(prog.AssignedNames, an)
		}
	}
	prog.FreeNames = make([]string, 0, len(free))
	for name := range free {
		prog.FreeNames = append(prog.FreeNames, name)
	}
	sort.Strings(prog.FreeNames)
	idx := 0
	numberDecls(root, &idx)
	for _, d := range root.Decls {
		prog.TopLevelDecls = append(prog.TopLevelDecls, *d)
	}
	for _, c := range a.requires {
		if c.ref.Decl == nil {
			p.imports = append(p.imports, ImportRecord{Kind: ImportRequire, Spec: c.spec, Offset: c.call.Start,
				SpecOffset: c.specOff, Token: c.call.Tok})
		}
	}
	sort.SliceStable(p.imports, func(i, j int) bool { return p.imports[i].Offset < p.imports[j].Offset })
}

package jsref

import (
	"os"
	"path/filepath"
	"strings"
	"testing"
)

func BenchmarkParseBundle(b *testing.B) {
	files, _ := filepath.Glob("testdata/esbuild/*bundle*.module.js")
	var sb strings.Builder
	for _, f := range files {
		data, _ := os.ReadFile(f)
		sb.WriteString("{\n")
		sb.Write(data)
		sb.WriteString("\n}\n")
	}
	src := sb.String()
	if _, err := Parse(src, Options{Module: false}); err != nil {
		// import/export inside blocks is not valid; fall back to the largest single file
		src = ""
		for _, f := range files {
			data, _ := os.ReadFile(f)
			if len(data) > len(src) {
				src = string(data)
			}
		}
	}
	b.SetBytes(int64(len(src)))
	b.ResetTimer()
	for i := 0; i < b.N; i++ {
		if _, err := Parse(src, Options{Module: true}); err != nil {
			b.Fatal(err)
		}
	}
}

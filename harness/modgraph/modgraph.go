// Package modgraph generates module graphs (S6 in DESIGN.md): ES modules (.mjs), CommonJS modules
// (.cjs) and data files, connected by static/dynamic imports, require calls and re-exports, whose
// bodies are probe statements. The same tree can be loaded by Node's native loaders and bundled.
//
// Construction rules that keep native loading possible and the comparison sound (they mirror the
// exclusions of properties C02/C04/C10):
//   - ESM files never mention module/exports/require; CJS files export only through top-level
//     `exports.name = …` statements (detectable by Node's cjs-module-lexer) and never mutate their
//     exports after evaluation (Node snapshots CJS named exports for ESM importers);
//   - bindings exported from modules that take part in a cycle are `var` or function declarations
//     and are read by other modules only inside deferred reader functions or after evaluation,
//     so temporal-dead-zone errors do not arise from the generator (cases where they still do are
//     discarded by the checks);
//   - no top-level await, import.meta, direct eval;
//   - CJS modules are never `require`d by ESM and ESM modules are never `require`d (no require(esm)).
package modgraph

import (
	"fmt"
	"sort"
	"strings"

	"pgregory.net/rapid"
)

// Kind of a module file.
type Kind string

const (
	ESM Kind = "esm"
	CJS Kind = "cjs"
)

// Edge kinds.
const (
	ImportNamed   = "import-named"   // import { x as y } from
	ImportDefault = "import-default" // import d from
	ImportStar    = "import-star"    // import * as ns from
	ImportSide    = "import-side"    // import "./m"
	ExportFrom    = "export-from"    // export { x } from
	ExportStar    = "export-star"    // export * from
	ExportStarAs  = "export-star-as" // export * as ns from
	DynamicImport = "dynamic-import" // import("./m").then(...)
	Require       = "require"        // const r = require("./m.cjs")
)

// Module is one generated file.
type Module struct {
	Name    string   `json:"name"` // file name, e.g. m2.mjs
	Kind    Kind     `json:"kind"`
	Source  string   `json:"source"`
	Exports []string `json:"exports"` // names exported (excluding default)
	HasDflt bool     `json:"has_default"`
}

// Edge records one dependency (for labels and evidence).
type Edge struct {
	From, To int
	Kind     string
}

// Graph is a generated module graph; module 0 is the entry point.
type Graph struct {
	Modules []Module `json:"modules"`
	Edges   []Edge   `json:"-"`
	Labels  []string `json:"labels"`
}

// Files returns name -> source.
func (g *Graph) Files() map[string]string {
	m := map[string]string{}
	for _, mod := range g.Modules {
		m[mod.Name] = mod.Source
	}
	return m
}

// Config steers generation.
type Config struct {
	MaxModules          int  // default 5
	AllowCJS            bool // mix in CommonJS modules
	AllowCycles         bool
	AllowDynamic        bool
	AllowThrow          bool // a module may throw at top level
	ESMEntry            bool // force module 0 to be ESM
	MultiEntry          int  // >0: first k modules are entry points (ESM), used by C10
	MutableLets         bool // exported `let` counters mutated from other modules via exported functions
	Unused              bool // add declarations and whole modules that nothing uses (C04)
	DeferLive           bool // mutate shared counters without logging the value at once (C10: cross-module order may differ)
	CollidingLocals     bool // ESM modules declare their exports under short local names shared between modules (x, x2, …) and export them with `export { x as aN }`: scope hoisting and cross-chunk export aliases must keep them apart
	ThisOfNamespaceCall bool // also call ns.f() on a namespace import (receiver = the namespace object natively)
}

type gen struct {
	t      *rapid.T
	cfg    Config
	n      int
	kinds  []Kind
	edges  [][]Edge // outgoing per module
	inCyc  []bool
	dflt   []bool // ESM module i has a default export (decided before edges are drawn)
	labels map[string]bool
	nextID int
}

func (g *gen) intn(n int, label string) int {
	if n <= 1 {
		return 0
	}
	return rapid.IntRange(0, n-1).Draw(g.t, label)
}
func (g *gen) chance(p int, label string) bool { return rapid.IntRange(0, 99).Draw(g.t, label) < p }
func (g *gen) id() int                         { g.nextID++; return g.nextID }

func fileName(i int, k Kind) string {
	if k == CJS {
		return fmt.Sprintf("m%d.cjs", i)
	}
	return fmt.Sprintf("m%d.mjs", i)
}

// Generate draws a graph.
func Generate(t *rapid.T, cfg Config) *Graph {
	if cfg.MaxModules == 0 {
		cfg.MaxModules = 5
	}
	g := &gen{t: t, cfg: cfg, labels: map[string]bool{}}
	min := 2
	if cfg.MultiEntry > 0 {
		min = cfg.MultiEntry + 1
	}
	if cfg.MaxModules < min {
		cfg.MaxModules = min
	}
	g.n = rapid.IntRange(min, cfg.MaxModules).Draw(t, "nmodules")
	g.kinds = make([]Kind, g.n)
	for i := range g.kinds {
		g.kinds[i] = ESM
		if cfg.AllowCJS && g.chance(35, "cjs") && !(i == 0 && cfg.ESMEntry) && !(cfg.MultiEntry > 0 && i < cfg.MultiEntry) {
			g.kinds[i] = CJS
		}
	}
	g.edges = make([][]Edge, g.n)
	g.inCyc = make([]bool, g.n)
	g.dflt = make([]bool, g.n)
	for i := range g.dflt {
		g.dflt[i] = g.kinds[i] == CJS || g.chance(60, "hasdefault")
	}
	// a spanning structure so that every module is reachable from an entry: module i>entries is
	// imported by some earlier module; extra forward edges; optional back edges (cycles)
	entries := 1
	if cfg.MultiEntry > 0 {
		entries = cfg.MultiEntry
	}
	for i := entries; i < g.n; i++ {
		from := g.intn(i, "parent")
		g.addEdge(from, i)
		if cfg.MultiEntry > 0 && g.chance(50, "shared") {
			other := g.intn(i, "parent2")
			if other != from {
				g.addEdge(other, i)
			}
		}
	}
	extra := g.intn(g.n+1, "extra")
	for k := 0; k < extra; k++ {
		a, b := g.intn(g.n, "ea"), g.intn(g.n, "eb")
		if a == b {
			if cfg.AllowCycles && g.kinds[a] == ESM && g.chance(30, "selfimport") {
				g.addEdge(a, a)
				g.inCyc[a] = true
				g.labels["self-import"] = true
			}
			continue
		}
		if a > b && !cfg.AllowCycles {
			a, b = b, a
		}
		if cfg.MultiEntry > 0 && b < cfg.MultiEntry {
			continue // nothing imports an entry point (keeps the C10 oracle simple)
		}
		g.addEdge(a, b)
	}
	g.markCycles()
	gr := &Graph{}
	for i := 0; i < g.n; i++ {
		gr.Modules = append(gr.Modules, g.body(i))
	}
	for i := range g.edges {
		gr.Edges = append(gr.Edges, g.edges[i]...)
	}
	for l := range g.labels {
		gr.Labels = append(gr.Labels, l)
	}
	sort.Strings(gr.Labels)
	return gr
}

// starTarget reports whether some module has an `export *` edge to module i.
func (g *gen) starTarget(i int) bool {
	for _, es := range g.edges {
		for _, e := range es {
			if e.To == i && e.Kind == ExportStar {
				return true
			}
		}
	}
	return false
}

func (g *gen) anyCycle() bool {
	for _, c := range g.inCyc {
		if c {
			return true
		}
	}
	return false
}

func (g *gen) inDegree(i int) int {
	n := 0
	for _, es := range g.edges {
		for _, e := range es {
			if e.To == i {
				n++
			}
		}
	}
	return n
}

func (g *gen) addEdge(from, to int) {
	fk, tk := g.kinds[from], g.kinds[to]
	var kind string
	switch {
	case fk == CJS && tk == CJS:
		kind = Require
	case fk == CJS && tk == ESM:
		// require(esm) is excluded: turn the importer's dependency into a dynamic import if allowed, else drop.
		// Only entry points issue dynamic imports, and they chain them one after the other: the relative
		// timing of independent import() chains is host-defined and differs between loaders and bundles.
		if !g.cfg.AllowDynamic || !g.isEntry(from) {
			return
		}
		kind = DynamicImport
	case fk == ESM && tk == CJS:
		kind = []string{ImportNamed, ImportDefault, ImportStar, ImportSide, ExportStar, ExportStarAs}[g.intn(6, "edgekind-cjs")]
		g.labels["esm-imports-cjs"] = true
		if kind == ExportStar {
			g.labels["export-star-from-cjs"] = true
		}
	default:
		opts := []string{ImportNamed, ImportNamed, ImportDefault, ImportStar, ImportSide, ExportFrom, ExportStar, ExportStarAs}
		if g.cfg.AllowDynamic && g.isEntry(from) {
			opts = append(opts, DynamicImport)
		}
		kind = opts[g.intn(len(opts), "edgekind")]
		if kind == ImportDefault && !g.dflt[to] {
			kind = ImportNamed // importing a missing default is a link-time SyntaxError, not a program
		}
	}
	for _, e := range g.edges[from] {
		if e.To == to && e.Kind == kind {
			return
		}
	}
	g.edges[from] = append(g.edges[from], Edge{from, to, kind})
	g.labels[kind] = true
}

func (g *gen) isEntry(i int) bool {
	if g.cfg.MultiEntry > 0 {
		return i < g.cfg.MultiEntry
	}
	return i == 0
}

func (g *gen) markCycles() {
	// static edges only
	reach := make([][]bool, g.n)
	for i := range reach {
		reach[i] = make([]bool, g.n)
		for _, e := range g.edges[i] {
			if e.Kind != DynamicImport {
				reach[i][e.To] = true
			}
		}
	}
	for k := 0; k < g.n; k++ {
		for i := 0; i < g.n; i++ {
			for j := 0; j < g.n; j++ {
				if reach[i][k] && reach[k][j] {
					reach[i][j] = true
				}
			}
		}
	}
	for i := 0; i < g.n; i++ {
		if reach[i][i] {
			g.inCyc[i] = true
			g.labels["cycle"] = true
		}
	}
}

// exportsOf decides deterministically (from the module index) which names a module exports, so that
// importers can be generated independently of the exporter's body.
func exportNames(i int) []string {
	return []string{fmt.Sprintf("a%d", i), fmt.Sprintf("f%d", i), fmt.Sprintf("c%d", i), fmt.Sprintf("inc%d", i), fmt.Sprintf("read%d", i)}
}

func (g *gen) body(i int) Module {
	var sb strings.Builder
	k := g.kinds[i]
	name := fileName(i, k)
	m := Module{Name: name, Kind: k}
	tag := fmt.Sprintf("m%d", i)
	w := func(format string, args ...interface{}) { fmt.Fprintf(&sb, format+"\n", args...) }

	if k == CJS {
		w(`log("%s:start");`, tag)
		var reads []string
		var cjsDyn []string
		for _, e := range g.edges[i] {
			switch e.Kind {
			case Require:
				v := fmt.Sprintf("r%d_%d", i, e.To)
				w(`var %s = require("./%s");`, v, fileName(e.To, g.kinds[e.To]))
				w(`log("%s:required m%d", Object.keys(%s).sort().join(","), typeof %s.f%d === "function" ? %s.f%d() : "nofn");`, tag, e.To, v, v, e.To, v, e.To)
				reads = append(reads, v)
			case DynamicImport:
				cjsDyn = append(cjsDyn, fmt.Sprintf(`.then(function () { return import("./%s"); }).then(function (ns) { log("%s:dyn m%d", Object.keys(ns).sort().join(","), ns.a%d); }, function (e) { log("%s:dyn m%d failed", e); })`, fileName(e.To, g.kinds[e.To]), tag, e.To, e.To, tag, e.To))
			}
		}
		if len(cjsDyn) > 0 {
			w(`Promise.resolve()%s;`, strings.Join(cjsDyn, ""))
		}
		w(`exports.a%d = p(%d, "A%d");`, i, g.id(), i)
		w(`exports.f%d = function () { return "F%d" + (this == null || this === globalThis ? "" : ":recv"); };`, i, i)
		w(`exports.c%d = %d;`, i, i*10)
		// `__esModule` is a name like any other for `export *`: two starred CommonJS modules that both set it
		// make it ambiguous natively, which is the province of C02's bounded-exhaustive star family (and of
		// its classified known deviations). Here the flag is only given to modules no `export *` points at.
		if flag := g.chance(25, "esmodule-flag"); flag && g.starTarget(i) {
			g.labels["esmodule-flag-suppressed-on-star-target"] = true
		} else if flag {
			w(`exports.__esModule = true;`)
			w(`exports.default = "cjs-default-%d";`, i)
			g.labels["cjs-__esModule"] = true
		}
		// a CommonJS module that throws is evaluated again by the bundle when a second importer asks for it
		// (known finding C02-throwing-cjs-reexecuted; Node's own behaviour there is a loader quirk), so a
		// throwing CommonJS module has a single importer by construction
		if thr := g.cfg.AllowThrow && i != 0 && g.chance(8, "throw"); thr && g.inDegree(i) > 1 {
			g.labels["cjs-throw-suppressed-multiple-importers"] = true
		} else if thr && g.anyCycle() {
			// When the evaluation of an import cycle fails, every module of the cycle is marked as failed natively
			// (importing any of them later rejects); the bundle only remembers the failure of the module whose
			// initialiser threw (known finding C02-errored-cycle-member-importable). Graphs with cycles get no throws.
			g.labels["throw-suppressed-in-cyclic-graph"] = true
		} else if thr {
			w(`if (p(%d, true)) throw new TypeError("boom %d");`, g.id(), i)
			g.labels["top-level-throw"] = true
		}
		w(`log("%s:end");`, tag)
		m.Exports = []string{fmt.Sprintf("a%d", i), fmt.Sprintf("f%d", i), fmt.Sprintf("c%d", i)}
		m.Source = sb.String()
		return m
	}

	// ESM: imports first (they are hoisted anyway), then body
	type use struct{ expr, what string }
	var uses []use
	var deferred []string
	for _, e := range g.edges[i] {
		to := e.To
		spec := "./" + fileName(to, g.kinds[to])
		tcjs := g.kinds[to] == CJS
		switch e.Kind {
		case ImportNamed:
			l1, l2 := fmt.Sprintf("a%d_in%d", to, i), fmt.Sprintf("f%d_in%d", to, i)
			w(`import { a%d as %s, f%d as %s } from "%s";`, to, l1, to, l2, spec)
			// the receiver an imported function sees must not change: plain call, tagged template,
			// optional call and parenthesised call all pass `this` = undefined natively
			call := []string{l2 + "()", l2 + "`t`", l2 + "?.()", "(" + l2 + ")()"}[g.intn(4, "callstyle")]
			uses = append(uses, use{l1, "named"}, use{call, "namedcall"})
			if !tcjs && g.cfg.MutableLets {
				l3, l4 := fmt.Sprintf("c%d_in%d", to, i), fmt.Sprintf("inc%d_in%d", to, i)
				w(`import { c%d as %s, inc%d as %s } from "%s";`, to, l3, to, l4, spec)
				if g.cfg.DeferLive {
					uses = append(uses, use{"(" + l4 + "(), typeof " + l3 + ")", "live-binding"})
				} else {
					uses = append(uses, use{"(" + l4 + "(), " + l3 + ")", "live-binding"})
				}
				g.labels["live-binding-mutation"] = true
			}
		case ImportDefault:
			l := fmt.Sprintf("d%d_in%d", to, i)
			w(`import %s from "%s";`, l, spec)
			if tcjs {
				uses = append(uses, use{"Object.keys(" + l + ").sort().join(\",\")", "default-of-cjs"})
			} else {
				uses = append(uses, use{l, "default"})
			}
		case ImportStar:
			l := fmt.Sprintf("ns%d_in%d", to, i)
			w(`import * as %s from "%s";`, l, spec)
			uses = append(uses, use{"Object.keys(" + l + ").sort().join(\",\")", "namespace-keys"}, use{fmt.Sprintf("%s.a%d", l, to), "namespace-member"})
			if g.cfg.ThisOfNamespaceCall {
				g.labels["namespace-call"] = true
				uses = append(uses, use{fmt.Sprintf("%s.f%d()", l, to), "namespace-call"})
			}
		case ImportSide:
			w(`import "%s";`, spec)
		case ExportFrom:
			w(`export { a%d as re_a%d_via%d } from "%s";`, to, to, i, spec)
			m.Exports = append(m.Exports, fmt.Sprintf("re_a%d_via%d", to, i))
		case ExportStar:
			w(`export * from "%s";`, spec)
			g.labels["export-star"] = true
		case ExportStarAs:
			w(`export * as star%d_via%d from "%s";`, to, i, spec)
			m.Exports = append(m.Exports, fmt.Sprintf("star%d_via%d", to, i))
		case DynamicImport:
			deferred = append(deferred, fmt.Sprintf(`.then(function () { return import("%s"); }).then(function (ns) { log("%s:dyn m%d", Object.keys(ns).sort().join(","), ns.a%d); }, function (e) { log("%s:dyn m%d failed", e); })`, spec, tag, to, to, tag, to))
		}
	}
	w(`log("%s:start");`, tag)
	// own exports. In a cycle, other modules may run first and call our functions: keep them hoisting-safe.
	decl := "var"
	if !g.inCyc[i] && g.chance(60, "letconst") {
		decl = []string{"let", "const"}[g.intn(2, "lc")]
	}
	cdecl := "var"
	if !g.inCyc[i] {
		cdecl = "let"
	}
	if g.cfg.CollidingLocals && g.chance(70, "colliding") {
		// the same few local names in every module; the suffixed ones are what a renamer would generate
		pool := []string{"x", "x2", "y", "x22", "x3", "y2", "x1", "x23"}
		off := g.intn(len(pool), "localoff")
		la, lf, lc, li := pool[off%len(pool)], pool[(off+1)%len(pool)], pool[(off+2)%len(pool)], pool[(off+3)%len(pool)]
		g.labels["colliding-locals"] = true
		w(`%s %s = p(%d, "A%d");`, decl, la, g.id(), i)
		w(`function %s() { return "F%d" + (this == null || this === globalThis ? "" : ":recv"); }`, lf, i)
		w(`%s %s = %d;`, cdecl, lc, i*10)
		w(`function %s() { %s++; }`, li, lc)
		w(`export { %s as a%d, %s as f%d, %s as c%d, %s as inc%d };`, la, i, lf, i, lc, i, li, i)
	} else {
		w(`export %s a%d = p(%d, "A%d");`, decl, i, g.id(), i)
		w(`export function f%d() { return "F%d" + (this == null || this === globalThis ? "" : ":recv"); }`, i, i)
		w(`export %s c%d = %d;`, cdecl, i, i*10)
		w(`export function inc%d() { c%d++; }`, i, i)
	}
	m.Exports = append(m.Exports, exportNames(i)...)
	// read the imports: immediately when safe, else inside a deferred reader
	var readParts []string
	for _, u := range uses {
		readParts = append(readParts, u.expr)
	}
	if len(readParts) > 0 {
		g.labels["reads-imports"] = true
		if g.inCyc[i] {
			w(`export function read%d() { return [%s]; }`, i, strings.Join(readParts, ", "))
		} else {
			w(`log("%s:sees", %s);`, tag, strings.Join(readParts, ", "))
			w(`export function read%d() { return [%s]; }`, i, strings.Join(readParts, ", "))
		}
	} else {
		w(`export function read%d() { return []; }`, i)
	}
	if g.dflt[i] {
		m.HasDflt = true
		switch g.intn(4, "defkind") {
		case 0:
			w(`export default p(%d, "D%d");`, g.id(), i)
		case 1:
			w(`export default function () { return "DF%d"; }`, i)
		case 2:
			w(`export default class Dflt%d {}`, i)
		default:
			w(`var dv%d = { d: %d }; export { dv%d as default };`, i, i, i)
		}
	}
	if thr := g.cfg.AllowThrow && i != 0 && !g.inCyc[i] && g.chance(8, "throw"); thr && g.anyCycle() {
		// known finding C02-errored-cycle-member-importable: see the CommonJS site above
		g.labels["throw-suppressed-in-cyclic-graph"] = true
	} else if thr {
		w(`if (p(%d, true)) throw new RangeError("boom %d");`, g.id(), i)
		g.labels["top-level-throw"] = true
	}
	if g.cfg.Unused {
		// declarations nobody uses, some with hidden effects (C04 adds richer ones itself)
		w(`var unused%d = p(%d, "U%d");`, i, g.id(), i)
		w(`function unusedFn%d() { log("never called"); }`, i)
	}
	if len(deferred) > 0 {
		w(`Promise.resolve()%s;`, strings.Join(deferred, ""))
	}
	w(`log("%s:end");`, tag)
	if i == 0 || (g.cfg.MultiEntry > 0 && i < g.cfg.MultiEntry) {
		// after evaluation of the whole static graph, the entry exercises every deferred reader it can reach
		for _, e := range g.edges[i] {
			if e.Kind == ImportStar && g.kinds[e.To] == ESM {
				if g.cfg.DeferLive {
					w(`log("%s:late", ns%d_in%d.read%d());`, tag, e.To, i, e.To)
				} else {
					w(`log("%s:late", ns%d_in%d.read%d(), ns%d_in%d.c%d);`, tag, e.To, i, e.To, e.To, i, e.To)
				}
			}
		}
	}
	m.Source = sb.String()
	return m
}

package corpus

import (
	"os"
	"testing"
	"time"
)

func TestHarvest(t *testing.T) {
	repo := os.Getenv("VERIF_REPO")
	if repo == "" {
		repo = "/repo"
	}
	t0 := time.Now()
	c, err := Load(repo, "")
	if err != nil {
		t.Fatal(err)
	}
	t.Logf("harvested in %v: files=%d trees=%d pkgjson=%d tsconfig=%d", time.Since(t0), c.Files, len(c.Trees), len(c.PkgJSON), len(c.TSConfig))
	for _, l := range Loaders {
		t.Logf("%s: %d", l, len(c.Snippets[l]))
		if len(c.Snippets[l]) == 0 {
			t.Errorf("no snippets for %s", l)
		}
	}
	if len(c.Trees) == 0 || len(c.PkgJSON) == 0 || len(c.TSConfig) == 0 {
		t.Errorf("missing trees/config files")
	}
}

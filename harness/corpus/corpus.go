// Package corpus (S9 in DESIGN.md) harvests inputs from the test-suite of the esbuild checkout under
// test: the string-literal arguments of the expectPrinted*/expectParseError* helpers in the parser and
// printer tests and the `files:` maps of the bundler tests. The harvest happens at run time with
// go/parser (nothing is copied into /verif); the result is cached under <verif>/.cache/corpus/ keyed
// by (path, size, mtime) of every test file that was read, and is rebuilt when the cache is absent or
// stale. The order of the snippets is deterministic (file name order, then source position).
package corpus

import (
	"crypto/sha256"
	"encoding/hex"
	"encoding/json"
	"fmt"
	"go/ast"
	"go/parser"
	"go/token"
	"os"
	"path/filepath"
	"sort"
	"strconv"
	"strings"
	"sync"
)

// Kinds of snippets (the loader they were written for).
const (
	JS   = "js"
	JSX  = "jsx"
	TS   = "ts"
	TSX  = "tsx"
	CSS  = "css"
	JSON = "json"
)

// Loaders lists the snippet kinds in a fixed order.
var Loaders = []string{JS, JSX, TS, TSX, CSS, JSON}

// Tree is one `files:` map of a bundler test.
type Tree struct {
	Test  string            `json:"test"`
	Files map[string]string `json:"files"`
}

// Corpus is everything harvested from one checkout.
type Corpus struct {
	Repo     string              `json:"repo"`
	Key      string              `json:"key"`
	Snippets map[string][]string `json:"snippets"` // loader → distinct snippets, deterministic order
	Trees    []Tree              `json:"trees"`    // bundler test file trees
	PkgJSON  []string            `json:"pkgjson"`  // contents of every package.json in the trees (distinct)
	TSConfig []string            `json:"tsconfig"` // contents of every tsconfig*.json / jsconfig.json (distinct)
	Files    int                 `json:"files_parsed"`
	FromDisk bool                `json:"-"` // true when served from the cache
}

// Count returns the total number of snippets.
func (c *Corpus) Count() int {
	n := 0
	for _, l := range c.Snippets {
		n += len(l)
	}
	return n
}

// For returns the snippets usable as a base for the given esbuild loader name
// (local-css/global-css share the CSS pool).
func (c *Corpus) For(loader string) []string {
	switch loader {
	case "local-css", "global-css":
		loader = CSS
	}
	return c.Snippets[loader]
}

var (
	mu    sync.Mutex
	cache = map[string]*Corpus{}
)

func testFiles(repo string) ([]string, error) {
	var files []string
	for _, pat := range []string{
		"internal/js_parser/*_test.go", "internal/js_printer/*_test.go",
		"internal/css_parser/*_test.go", "internal/css_printer/*_test.go",
		"internal/css_lexer/*_test.go", "internal/js_lexer/*_test.go",
		"internal/bundler_tests/*_test.go",
	} {
		m, err := filepath.Glob(filepath.Join(repo, pat))
		if err != nil {
			return nil, err
		}
		files = append(files, m...)
	}
	sort.Strings(files)
	if len(files) == 0 {
		return nil, fmt.Errorf("corpus: no test files found under %s", repo)
	}
	return files, nil
}

func keyOf(files []string) string {
	h := sha256.New()
	fmt.Fprintf(h, "v3\n")
	for _, f := range files {
		st, err := os.Stat(f)
		if err != nil {
			fmt.Fprintf(h, "%s !\n", f)
			continue
		}
		fmt.Fprintf(h, "%s %d %d\n", f, st.Size(), st.ModTime().UnixNano())
	}
	return hex.EncodeToString(h.Sum(nil))[:24]
}

// Load returns the corpus of the checkout at repo; cacheRoot is the /verif directory ("" disables
// the on-disk cache). Safe for concurrent use by several processes (the cache file is written to a
// temporary name and renamed).
func Load(repo, cacheRoot string) (*Corpus, error) {
	mu.Lock()
	defer mu.Unlock()
	if c := cache[repo]; c != nil {
		return c, nil
	}
	files, err := testFiles(repo)
	if err != nil {
		return nil, err
	}
	key := keyOf(files)
	var cachePath string
	if cacheRoot != "" {
		cachePath = filepath.Join(cacheRoot, ".cache", "corpus", key+".json")
		if b, err := os.ReadFile(cachePath); err == nil {
			var c Corpus
			if json.Unmarshal(b, &c) == nil && c.Key == key && c.Count() > 0 {
				c.FromDisk = true
				cache[repo] = &c
				return &c, nil
			}
		}
	}
	c, err := harvest(repo, files)
	if err != nil {
		return nil, err
	}
	c.Key = key
	if cachePath != "" {
		// best effort; a read-only tree just means the harvest is repeated next time
		if os.MkdirAll(filepath.Dir(cachePath), 0o755) == nil {
			if b, err := json.Marshal(c); err == nil {
				tmp := fmt.Sprintf("%s.%d.tmp", cachePath, os.Getpid())
				if os.WriteFile(tmp, b, 0o644) == nil {
					if os.Rename(tmp, cachePath) != nil {
						os.Remove(tmp)
					}
				}
			}
		}
	}
	cache[repo] = c
	return c, nil
}

// constString evaluates a Go expression made of string literals and `+`.
func constString(e ast.Expr) (string, bool) {
	switch x := e.(type) {
	case *ast.BasicLit:
		if x.Kind != token.STRING {
			return "", false
		}
		s, err := strconv.Unquote(x.Value)
		if err != nil {
			return "", false
		}
		return s, true
	case *ast.ParenExpr:
		return constString(x.X)
	case *ast.BinaryExpr:
		if x.Op != token.ADD {
			return "", false
		}
		l, ok := constString(x.X)
		if !ok {
			return "", false
		}
		r, ok := constString(x.Y)
		if !ok {
			return "", false
		}
		return l + r, true
	}
	return "", false
}

func loaderOfHelper(name, dir string) string {
	switch dir {
	case "css_parser", "css_printer", "css_lexer":
		return CSS
	}
	switch {
	case strings.Contains(name, "JSON"):
		return JSON
	case strings.Contains(name, "TSX"):
		return TSX
	case strings.Contains(name, "TS"):
		return TS
	case strings.Contains(name, "JSX"):
		return JSX
	}
	return JS
}

func loaderOfPath(p string) string {
	base := filepath.Base(p)
	switch strings.ToLower(filepath.Ext(base)) {
	case ".js", ".mjs", ".cjs":
		return JS
	case ".jsx":
		return JSX
	case ".ts", ".mts", ".cts":
		return TS
	case ".tsx":
		return TSX
	case ".css":
		return CSS
	case ".json":
		return JSON
	}
	return ""
}

// looksLikeLog filters the expected-log arguments ("<stdin>: ERROR: …").
func looksLikeLog(s string) bool {
	return strings.HasPrefix(s, "<stdin>: ") || strings.HasPrefix(s, "<stdin>:") || strings.Contains(s, "\n<stdin>: ") || strings.HasPrefix(s, "NOTE: ")
}

func harvest(repo string, files []string) (*Corpus, error) {
	c := &Corpus{Repo: repo, Snippets: map[string][]string{}}
	seen := map[string]bool{}
	add := func(loader, s string) {
		if s == "" || len(s) > 32*1024 || loader == "" {
			return
		}
		k := loader + "\x00" + s
		if seen[k] {
			return
		}
		seen[k] = true
		c.Snippets[loader] = append(c.Snippets[loader], s)
	}
	seenCfg := map[string]bool{}
	fset := token.NewFileSet()
	for _, f := range files {
		af, err := parser.ParseFile(fset, f, nil, parser.SkipObjectResolution)
		if err != nil {
			// a test file that does not parse is the tree's problem; the remaining files still give seeds
			continue
		}
		c.Files++
		dir := filepath.Base(filepath.Dir(f))
		curTest := ""
		ast.Inspect(af, func(n ast.Node) bool {
			switch x := n.(type) {
			case *ast.FuncDecl:
				curTest = x.Name.Name
			case *ast.CallExpr:
				name := ""
				switch fn := x.Fun.(type) {
				case *ast.Ident:
					name = fn.Name
				case *ast.SelectorExpr:
					name = fn.Sel.Name
				}
				if strings.HasPrefix(name, "expect") && name != "expectBundled" && !strings.HasPrefix(name, "expectBundled") {
					loader := loaderOfHelper(name, dir)
					for _, a := range x.Args {
						if s, ok := constString(a); ok && !looksLikeLog(s) {
							add(loader, s)
						}
					}
				}
			case *ast.KeyValueExpr:
				if id, ok := x.Key.(*ast.Ident); ok && id.Name == "files" {
					if cl, ok := x.Value.(*ast.CompositeLit); ok {
						tr := Tree{Test: filepath.Base(f) + ":" + curTest, Files: map[string]string{}}
						for _, el := range cl.Elts {
							kv, ok := el.(*ast.KeyValueExpr)
							if !ok {
								continue
							}
							p, ok1 := constString(kv.Key)
							s, ok2 := constString(kv.Value)
							if !ok1 || !ok2 {
								continue
							}
							tr.Files[p] = s
							add(loaderOfPath(p), s)
							base := filepath.Base(p)
							switch {
							case base == "package.json":
								if !seenCfg["p"+s] {
									seenCfg["p"+s] = true
									c.PkgJSON = append(c.PkgJSON, s)
								}
							case strings.HasPrefix(base, "tsconfig") && strings.HasSuffix(base, ".json"), base == "jsconfig.json":
								if !seenCfg["t"+s] {
									seenCfg["t"+s] = true
									c.TSConfig = append(c.TSConfig, s)
								}
							}
						}
						if len(tr.Files) > 0 {
							c.Trees = append(c.Trees, tr)
						}
					}
				}
			}
			return true
		})
	}
	if c.Count() == 0 {
		return nil, fmt.Errorf("corpus: nothing harvested from %d files under %s", len(files), repo)
	}
	return c, nil
}

// Package smref is an independent source-map (revision 3) reader: base64-VLQ decoding, structural
// validation, and line/column arithmetic with ECMAScript line terminators and UTF-16 columns (S8).
package smref

import (
	"encoding/base64"
	"encoding/json"
	"fmt"
	"sort"
	"strings"
	"unicode/utf8"
)

// Segment is one decoded mapping.
type Segment struct {
	GenLine, GenCol   int // 0-based; column in UTF-16 code units
	HasSource         bool
	Source            int
	OrigLine, OrigCol int
	HasName           bool
	Name              int
}

// Map is a decoded source map.
type Map struct {
	Version        int       `json:"version"`
	File           string    `json:"file"`
	SourceRoot     string    `json:"sourceRoot"`
	Sources        []string  `json:"sources"`
	SourcesContent []*string `json:"sourcesContent"`
	Names          []string  `json:"names"`
	Mappings       string    `json:"mappings"`
	Segments       []Segment `json:"-"`
}

const b64 = "ABCDEFGHIJKLMNOPQRSTUVWXYZabcdefghijklmnopqrstuvwxyz0123456789+/"

// Parse decodes and validates a source map document.
func Parse(data []byte) (*Map, error) { return parse(data, false) }

// ParseUnsorted is Parse for maps written by other tools: the segments of a line may come in any order (they are
// returned sorted by generated column, stable).
func ParseUnsorted(data []byte) (*Map, error) { return parse(data, true) }

func parse(data []byte, allowUnsorted bool) (*Map, error) {
	var m Map
	if err := json.Unmarshal(data, &m); err != nil {
		return nil, fmt.Errorf("not JSON: %v", err)
	}
	if m.Version != 3 {
		return nil, fmt.Errorf("version is %d, want 3", m.Version)
	}
	if m.SourcesContent != nil && len(m.SourcesContent) != len(m.Sources) {
		return nil, fmt.Errorf("sourcesContent has %d entries for %d sources", len(m.SourcesContent), len(m.Sources))
	}
	var dec [256]int
	for i := range dec {
		dec[i] = -1
	}
	for i := 0; i < len(b64); i++ {
		dec[b64[i]] = i
	}
	genLine, genCol, src, ol, oc, name := 0, 0, 0, 0, 0, 0
	s := m.Mappings
	i := 0
	prevCol := -1
	for i <= len(s) {
		if i == len(s) {
			break
		}
		switch s[i] {
		case ';':
			genLine++
			genCol = 0
			prevCol = -1
			i++
			continue
		case ',':
			i++
			continue
		}
		var fields []int
		for i < len(s) && s[i] != ',' && s[i] != ';' {
			value, shift := 0, uint(0)
			for {
				if i >= len(s) {
					return nil, fmt.Errorf("truncated VLQ at end of mappings")
				}
				d := dec[s[i]]
				if d < 0 {
					return nil, fmt.Errorf("invalid base64 character %q in mappings at offset %d", s[i], i)
				}
				i++
				value |= (d & 31) << shift
				shift += 5
				if d&32 == 0 {
					break
				}
				if shift > 60 {
					return nil, fmt.Errorf("VLQ value too long at offset %d", i)
				}
			}
			if value&1 != 0 {
				value = -(value >> 1)
			} else {
				value >>= 1
			}
			fields = append(fields, value)
		}
		if n := len(fields); n != 1 && n != 4 && n != 5 {
			return nil, fmt.Errorf("segment with %d fields on generated line %d", n, genLine)
		}
		genCol += fields[0]
		if genCol < 0 {
			return nil, fmt.Errorf("negative generated column on line %d", genLine)
		}
		if genCol < prevCol && !allowUnsorted {
			return nil, fmt.Errorf("mappings not sorted by generated column on line %d (%d after %d)", genLine, genCol, prevCol)
		}
		prevCol = genCol
		seg := Segment{GenLine: genLine, GenCol: genCol}
		if len(fields) >= 4 {
			src += fields[1]
			ol += fields[2]
			oc += fields[3]
			if src < 0 || src >= len(m.Sources) {
				return nil, fmt.Errorf("source index %d out of range (%d sources)", src, len(m.Sources))
			}
			if ol < 0 || oc < 0 {
				return nil, fmt.Errorf("negative original position %d:%d", ol, oc)
			}
			seg.HasSource, seg.Source, seg.OrigLine, seg.OrigCol = true, src, ol, oc
		}
		if len(fields) == 5 {
			name += fields[4]
			if name < 0 || name >= len(m.Names) {
				return nil, fmt.Errorf("name index %d out of range (%d names)", name, len(m.Names))
			}
			seg.HasName, seg.Name = true, name
		}
		m.Segments = append(m.Segments, seg)
	}
	if allowUnsorted {
		sort.SliceStable(m.Segments, func(i, j int) bool {
			a, b := m.Segments[i], m.Segments[j]
			return a.GenLine < b.GenLine || a.GenLine == b.GenLine && a.GenCol < b.GenCol
		})
	}
	return &m, nil
}

// Lines splits text at ECMAScript line terminators (CRLF counts once) and returns the byte offset of
// each line start.
func Lines(text string) []int {
	starts := []int{0}
	for i := 0; i < len(text); {
		r, w := utf8.DecodeRuneInString(text[i:])
		switch r {
		case '\r':
			if i+1 < len(text) && text[i+1] == '\n' {
				w = 2
			}
			starts = append(starts, i+w)
		case '\n', '\u2028', '\u2029':
			starts = append(starts, i+w)
		}
		i += w
	}
	return starts
}

// Offset converts (line, UTF-16 column) to a byte offset in text, or -1 when out of range.
func Offset(text string, lineStarts []int, line, col16 int) int {
	if line < 0 || line >= len(lineStarts) {
		return -1
	}
	i := lineStarts[line]
	end := len(text)
	if line+1 < len(lineStarts) {
		end = lineStarts[line+1]
	}
	c := 0
	for i < end && c < col16 {
		r, w := utf8.DecodeRuneInString(text[i:])
		if r >= 0x10000 {
			c += 2
		} else {
			c++
		}
		i += w
	}
	if c != col16 {
		return -1
	}
	return i
}

// InlineURL extracts the payload of a trailing `//# sourceMappingURL=data:application/json;base64,…` comment.
func InlineURL(code string) ([]byte, bool) {
	const marker = "sourceMappingURL=data:application/json;base64,"
	i := strings.LastIndex(code, marker)
	if i < 0 {
		return nil, false
	}
	rest := code[i+len(marker):]
	if j := strings.IndexAny(rest, " \n\r*"); j >= 0 {
		rest = rest[:j]
	}
	b, err := base64.StdEncoding.DecodeString(rest)
	if err != nil {
		return nil, false
	}
	return b, true
}

package cssref

import (
	"strings"
)

// tri is a Kleene truth value (Media Queries 4 §3.1).
type tri int8

const (
	triFalse tri = iota
	triTrue
	triUnknown
)

func triNot(a tri) tri {
	switch a {
	case triTrue:
		return triFalse
	case triFalse:
		return triTrue
	}
	return triUnknown
}

func triAnd(a, b tri) tri {
	if a == triFalse || b == triFalse {
		return triFalse
	}
	if a == triTrue && b == triTrue {
		return triTrue
	}
	return triUnknown
}

func triOr(a, b tri) tri {
	if a == triTrue || b == triTrue {
		return triTrue
	}
	if a == triFalse && b == triFalse {
		return triFalse
	}
	return triUnknown
}

func fromBool(b bool) tri {
	if b {
		return triTrue
	}
	return triFalse
}

// condCtx says what a size feature is measured against and collects problems.
type condCtx struct {
	e          *Env
	width      float64
	opaqueNS   string
	rangeFree  bool // range syntax needs no separate feature (@container)
	unmodelled *string
}

func (c *condCtx) fail(why string) {
	if *c.unmodelled == "" {
		*c.unmodelled = why
	}
}

// EvalMedia evaluates a media query list against env. unmodelled is set when the list contains
// something this model does not interpret.
func EvalMedia(prelude []CV, e *Env) (result bool, unmodelled string) {
	prelude = trimWS(prelude)
	if len(prelude) == 0 {
		return true, ""
	}
	ctx := &condCtx{e: e, width: e.Width, opaqueNS: "mq:", unmodelled: &unmodelled}
	for _, q := range splitComma(prelude) {
		if evalMediaQuery(nonWS(q), ctx) == triTrue {
			result = true
		}
	}
	return
}

func evalMediaQuery(q []CV, ctx *condCtx) tri {
	if len(q) == 0 {
		return triFalse
	}
	// [not|only]? <media-type> [and <condition-without-or>]?
	i := 0
	neg := false
	if q[0].Kind == Ident && !q[0].Block {
		if q[0].IsIdent("not") && len(q) > 1 && q[1].Kind == Ident {
			neg = true
			i = 1
		} else if q[0].IsIdent("only") {
			i = 1
		}
		if i < len(q) && q[i].Kind == Ident && !q[i].IsIdent("not") {
			typ := strings.ToLower(q[i].Value)
			if typ == "and" || typ == "or" || typ == "only" || typ == "layer" {
				return triFalse
			}
			res := fromBool(typ == "all" || typ == ctx.e.MediaType)
			i++
			if i < len(q) {
				if !q[i].IsIdent("and") || i+1 >= len(q) {
					return triFalse
				}
				c, ok := evalCondition(q[i+1:], ctx, false)
				if !ok {
					return triFalse
				}
				res = triAnd(res, c)
			}
			if neg {
				res = triNot(res)
			}
			return res
		}
		if i > 0 {
			return triFalse
		}
	}
	c, ok := evalCondition(q, ctx, true)
	if !ok {
		return triFalse
	}
	return c
}

// evalCondition: <media-not> | <in-parens> [and <in-parens>]* | <in-parens> [or <in-parens>]*
func evalCondition(q []CV, ctx *condCtx, allowOr bool) (tri, bool) {
	if len(q) == 0 {
		return triFalse, false
	}
	if q[0].IsIdent("not") {
		if len(q) != 2 {
			return triFalse, false
		}
		v, ok := evalInParens(q[1], ctx)
		return triNot(v), ok
	}
	v, ok := evalInParens(q[0], ctx)
	if !ok {
		return triFalse, false
	}
	op := ""
	for i := 1; i < len(q); i += 2 {
		if i+1 >= len(q) || q[i].Kind != Ident {
			return triFalse, false
		}
		o := strings.ToLower(q[i].Value)
		if o != "and" && (o != "or" || !allowOr) {
			return triFalse, false
		}
		if op != "" && op != o {
			return triFalse, false
		}
		op = o
		w, ok := evalInParens(q[i+1], ctx)
		if !ok {
			return triFalse, false
		}
		if op == "and" {
			v = triAnd(v, w)
		} else {
			v = triOr(v, w)
		}
	}
	return v, true
}

func evalInParens(c CV, ctx *condCtx) (tri, bool) {
	if c.Kind == Function {
		ctx.fail("general-enclosed:" + strings.ToLower(c.Value))
		return triUnknown, true
	}
	if !c.Block || c.Kind != LParen {
		return triFalse, false
	}
	inner := nonWS(c.Children)
	if len(inner) == 0 {
		return triFalse, false
	}
	// nested condition?
	if inner[0].IsIdent("not") || (inner[0].Block && inner[0].Kind == LParen) || inner[0].Kind == Function {
		return evalCondition(inner, ctx, true)
	}
	return evalFeature(inner, ctx)
}

func pxValue(c CV, ctx *condCtx) (float64, bool) {
	switch c.Kind {
	case Dimension:
		switch strings.ToLower(c.Unit) {
		case "px":
			return c.Num, true
		}
		ctx.fail("media-unit:" + strings.ToLower(c.Unit))
		return 0, false
	case Number:
		if c.Num == 0 {
			return 0, true
		}
	}
	return 0, false
}

func cmpOp(q []CV, i int) (string, int) {
	if i < len(q) && q[i].Kind == Delim {
		switch q[i].Value {
		case "<", ">":
			if i+1 < len(q) && q[i+1].IsDelim("=") {
				return q[i].Value + "=", i + 2
			}
			return q[i].Value, i + 1
		case "=":
			return "=", i + 1
		}
	}
	return "", i
}

func compare(a float64, op string, b float64) bool {
	switch op {
	case "<":
		return a < b
	case "<=":
		return a <= b
	case ">":
		return a > b
	case ">=":
		return a >= b
	}
	return a == b
}

func evalFeature(q []CV, ctx *condCtx) (tri, bool) {
	// boolean: (name)
	if len(q) == 1 && q[0].Kind == Ident {
		name := strings.ToLower(q[0].Value)
		if name == "width" {
			return fromBool(ctx.width != 0), true
		}
		if strings.HasSuffix(name, "width") || strings.HasSuffix(name, "height") {
			ctx.fail("media-feature:" + name)
		}
		return fromBool(ctx.e.opaqueTruth(ctx.opaqueNS + name)), true
	}
	// plain: (name: value)
	if len(q) >= 3 && q[0].Kind == Ident && q[1].Kind == Colon {
		name := strings.ToLower(q[0].Value)
		switch name {
		case "width", "min-width", "max-width":
			if len(q) != 3 {
				return triFalse, false
			}
			v, ok := pxValue(q[2], ctx)
			if !ok {
				return triFalse, false
			}
			switch name {
			case "width":
				return fromBool(ctx.width == v), true
			case "min-width":
				return fromBool(ctx.width >= v), true
			}
			return fromBool(ctx.width <= v), true
		}
		if strings.HasSuffix(name, "height") {
			ctx.fail("media-feature:" + name)
		}
		return fromBool(ctx.e.opaqueTruth(ctx.opaqueNS + name + ":" + strings.ToLower(Serialize(q[2:])))), true
	}
	// range forms
	hasCmp := false
	for _, c := range q {
		if c.Kind == Delim && (c.Value == "<" || c.Value == ">" || c.Value == "=") {
			hasCmp = true
		}
	}
	if !hasCmp {
		return triFalse, false
	}
	if !ctx.rangeFree && !ctx.e.Understands(FMediaRange) {
		return triFalse, false
	}
	// value op name | name op value | value op name op value
	i := 0
	var left, right *CV
	var lop, rop string
	if !(q[0].Kind == Ident) {
		left = &q[0]
		i = 1
		lop, i = cmpOp(q, i)
		if lop == "" {
			return triFalse, false
		}
	}
	if i >= len(q) || q[i].Kind != Ident {
		return triFalse, false
	}
	name := strings.ToLower(q[i].Value)
	i++
	if i < len(q) {
		rop, i = cmpOp(q, i)
		if rop == "" || i >= len(q) {
			return triFalse, false
		}
		right = &q[i]
		i++
	}
	if i != len(q) || (left == nil && right == nil) {
		return triFalse, false
	}
	if left != nil && right != nil {
		if lop == "=" || rop == "=" || lop[0] != rop[0] {
			return triFalse, false
		}
	}
	if name != "width" {
		ctx.fail("range-on:" + name)
		return triFalse, false
	}
	res := true
	if left != nil {
		v, ok := pxValue(*left, ctx)
		if !ok {
			return triFalse, false
		}
		res = res && compare(v, lop, ctx.width)
	}
	if right != nil {
		v, ok := pxValue(*right, ctx)
		if !ok {
			return triFalse, false
		}
		res = res && compare(ctx.width, rop, v)
	}
	return fromBool(res), true
}

// MediaFeatures returns the syntax features a media query list uses.
func MediaFeatures(prelude []CV) FeatureSet {
	fs := FeatureSet{}
	var walk func(cvs []CV)
	walk = func(cvs []CV) {
		for _, c := range cvs {
			if c.Kind == Delim && (c.Value == "<" || c.Value == ">" || c.Value == "=") {
				fs.Add(FMediaRange)
			}
			if c.Block || c.Kind == Function {
				walk(c.Children)
			}
		}
	}
	walk(prelude)
	return fs
}

// EvalContainer evaluates an @container prelude: [name]? condition.
func EvalContainer(prelude []CV, e *Env) (result bool, unmodelled string) {
	q := nonWS(prelude)
	if len(q) > 0 && q[0].Kind == Ident && !q[0].IsIdent("not") {
		q = q[1:]
	}
	ctx := &condCtx{e: e, width: e.ContainerWidth, opaqueNS: "cq:", rangeFree: true, unmodelled: &unmodelled}
	if len(q) == 0 {
		return false, ""
	}
	v, ok := evalCondition(q, ctx, true)
	return ok && v == triTrue, unmodelled
}

// EvalSupports evaluates an @supports condition.
func EvalSupports(prelude []CV, e *Env) (result bool, unmodelled string) {
	ctx := &condCtx{e: e, unmodelled: &unmodelled}
	v, ok := evalSupportsCond(nonWS(prelude), ctx)
	return ok && v == triTrue, unmodelled
}

func evalSupportsCond(q []CV, ctx *condCtx) (tri, bool) {
	if len(q) == 0 {
		return triFalse, false
	}
	if q[0].IsIdent("not") {
		if len(q) != 2 {
			return triFalse, false
		}
		v, ok := evalSupportsInParens(q[1], ctx)
		return triNot(v), ok
	}
	v, ok := evalSupportsInParens(q[0], ctx)
	if !ok {
		return triFalse, false
	}
	op := ""
	for i := 1; i < len(q); i += 2 {
		if i+1 >= len(q) || q[i].Kind != Ident {
			return triFalse, false
		}
		o := strings.ToLower(q[i].Value)
		if (o != "and" && o != "or") || (op != "" && op != o) {
			return triFalse, false
		}
		op = o
		w, ok := evalSupportsInParens(q[i+1], ctx)
		if !ok {
			return triFalse, false
		}
		if op == "and" {
			v = triAnd(v, w)
		} else {
			v = triOr(v, w)
		}
	}
	return v, true
}

func evalSupportsInParens(c CV, ctx *condCtx) (tri, bool) {
	if c.IsFunc("selector") {
		l := ParseSelectorList(c.Children, false)
		if l.Unmodelled != "" {
			ctx.fail("supports-selector:" + l.Unmodelled)
		}
		if l.Invalid || len(l.Sels) != 1 {
			return triFalse, true
		}
		// selector() is true when the selector parses; forgiving arguments do not count
		return fromBool(l.ValidIn(ctx.e) && ctx.e.UnderstandsAll(l.AllFeatures())), true
	}
	if c.Kind == Function {
		ctx.fail("supports-function:" + strings.ToLower(c.Value))
		return triUnknown, true
	}
	if !c.Block || c.Kind != LParen {
		return triFalse, false
	}
	inner := nonWS(c.Children)
	if len(inner) == 0 {
		return triFalse, false
	}
	if inner[0].Kind == Ident && len(inner) >= 2 && inner[1].Kind == Colon && !inner[0].IsIdent("not") {
		return evalSupportsDecl(inner, ctx), true
	}
	return evalSupportsCond(inner, ctx)
}

func evalSupportsDecl(inner []CV, ctx *condCtx) tri {
	name := inner[0].Value
	val := inner[2:]
	if n := len(val); n >= 2 && val[n-1].IsIdent("important") && val[n-2].IsDelim("!") {
		val = val[:n-2]
	}
	if !strings.HasPrefix(name, "--") {
		name = strings.ToLower(name)
		fs := ValueFeatures(name, val)
		if !ctx.e.UnderstandsAll(fs) {
			return triFalse
		}
	}
	return fromBool(ctx.e.opaqueTruth("supports:" + name + ":" + strings.ToLower(Serialize(val))))
}

// SupportsFeatures returns the syntax features used inside an @supports condition.
func SupportsFeatures(prelude []CV) FeatureSet {
	fs := FeatureSet{}
	var walk func(cvs []CV)
	walk = func(cvs []CV) {
		for _, c := range cvs {
			if c.IsFunc("selector") {
				fs.AddAll(ParseSelectorList(c.Children, false).AllFeatures())
				continue
			}
			if c.Block && c.Kind == LParen {
				inner := nonWS(c.Children)
				if len(inner) >= 2 && inner[0].Kind == Ident && inner[1].Kind == Colon {
					fs.AddAll(ValueFeatures(strings.ToLower(inner[0].Value), inner[2:]))
					continue
				}
				walk(c.Children)
			}
		}
	}
	walk(prelude)
	return fs
}

package cssref

import (
	"strconv"
	"strings"
)

// CV is a component value (§5.4.7): a preserved token, a function or a simple block.
// Functions have Kind == Function, blocks have Kind == LBrace / LParen / LBracket and Block == true.
type CV struct {
	Token
	Block    bool
	Children []CV
}

// IsFunc reports whether the component value is the function name (ASCII case-insensitive).
func (c CV) IsFunc(name string) bool {
	return c.Kind == Function && strings.EqualFold(c.Value, name)
}

// IsIdent reports whether the component value is the identifier name (ASCII case-insensitive).
func (c CV) IsIdent(name string) bool {
	return c.Kind == Ident && !c.Block && strings.EqualFold(c.Value, name)
}

// IsDelim reports whether the component value is the given delimiter.
func (c CV) IsDelim(d string) bool { return c.Kind == Delim && c.Value == d }

func closer(k Kind) Kind {
	switch k {
	case LBrace:
		return RBrace
	case LParen, Function:
		return RParen
	case LBracket:
		return RBracket
	}
	return EOF
}

// buildCVs nests blocks and functions. Unmatched closing tokens stay as plain tokens (they are
// parse errors wherever they turn up); unclosed blocks are closed by EOF as the specification says.
func buildCVs(toks []Token) []CV {
	pos := 0
	var parse func(end Kind) []CV
	parse = func(end Kind) []CV {
		var out []CV
		for pos < len(toks) {
			t := toks[pos]
			if end != EOF && t.Kind == end {
				pos++
				return out
			}
			pos++
			switch t.Kind {
			case LBrace, LParen, LBracket:
				out = append(out, CV{Token: t, Block: true, Children: parse(closer(t.Kind))})
			case Function:
				out = append(out, CV{Token: t, Children: parse(RParen)})
			default:
				out = append(out, CV{Token: t})
			}
		}
		return out
	}
	return parse(EOF)
}

// ParseCVs tokenizes text and returns its component values.
func ParseCVs(src string) []CV { return buildCVs(Tokenize(src)) }

// Decl is a declaration.
type Decl struct {
	Name      string // ASCII lower-cased unless it is a custom property
	Value     []CV   // without leading/trailing whitespace and without !important
	Important bool
}

// Item is one entry of a block's contents: a declaration or a rule.
type Item struct {
	Decl *Decl
	Rule *Rule
}

// Rule is a qualified rule (At == "") or an at-rule.
type Rule struct {
	At       string // lower-cased at-keyword name
	Prelude  []CV
	HasBlock bool
	Body     []CV   // raw block contents
	Items    []Item // interpreted contents (style rules and conditional group rules / @layer blocks)
	Nested   bool   // appears inside a style rule (directly or through group rules)
}

// Sheet is a parsed style sheet.
type Sheet struct {
	Rules []*Rule
}

// groupRule reports whether an at-rule's block contains rules that take part in the cascade.
func groupRule(name string) bool {
	switch name {
	case "media", "supports", "layer", "container":
		return true
	}
	return false
}

// Parse reads a style sheet (§5.3.3 "parse a stylesheet").
func Parse(src string) *Sheet {
	cvs := ParseCVs(src)
	return &Sheet{Rules: consumeRuleList(cvs, true)}
}

func trimWS(cvs []CV) []CV {
	for len(cvs) > 0 && cvs[0].Kind == Whitespace {
		cvs = cvs[1:]
	}
	for len(cvs) > 0 && cvs[len(cvs)-1].Kind == Whitespace {
		cvs = cvs[:len(cvs)-1]
	}
	return cvs
}

// consumeRuleList: "consume a list of rules" for the top level and for top-level group rules.
func consumeRuleList(cvs []CV, topLevel bool) []*Rule {
	var out []*Rule
	i := 0
	for i < len(cvs) {
		c := cvs[i]
		switch {
		case c.Kind == Whitespace:
			i++
		case c.Kind == CDO || c.Kind == CDC:
			if topLevel {
				i++
				continue
			}
			var r *Rule
			r, i = consumeQualifiedRule(cvs, i, false)
			if r != nil {
				out = append(out, r)
			}
		case c.Kind == AtKeyword:
			var r *Rule
			r, i = consumeAtRule(cvs, i, false)
			out = append(out, r)
		default:
			var r *Rule
			r, i = consumeQualifiedRule(cvs, i, false)
			if r != nil {
				out = append(out, r)
			}
		}
	}
	return out
}

func consumeAtRule(cvs []CV, i int, nested bool) (*Rule, int) {
	r := &Rule{At: strings.ToLower(cvs[i].Value), Nested: nested}
	i++
	start := i
	for i < len(cvs) {
		c := cvs[i]
		if c.Kind == Semicolon {
			r.Prelude = trimWS(cvs[start:i])
			return r, i + 1
		}
		if c.Block && c.Kind == LBrace {
			r.Prelude = trimWS(cvs[start:i])
			r.HasBlock = true
			r.Body = c.Children
			if groupRule(r.At) {
				if nested {
					r.Items = consumeBlockContents(c.Children)
				} else {
					for _, sub := range consumeRuleList(c.Children, false) {
						r.Items = append(r.Items, Item{Rule: sub})
					}
				}
			}
			return r, i + 1
		}
		i++
	}
	r.Prelude = trimWS(cvs[start:i])
	return r, i
}

// consumeQualifiedRule returns nil for a parse error (nothing is produced).
func consumeQualifiedRule(cvs []CV, i int, nested bool) (*Rule, int) {
	start := i
	for i < len(cvs) {
		c := cvs[i]
		if nested && c.Kind == Semicolon {
			return nil, i + 1
		}
		if c.Block && c.Kind == LBrace {
			r := &Rule{Prelude: trimWS(cvs[start:i]), HasBlock: true, Body: c.Children, Nested: nested}
			r.Items = consumeBlockContents(c.Children)
			return r, i + 1
		}
		i++
	}
	return nil, i
}

// consumeBlockContents: declarations, nested rules and at-rules in order (css-syntax-3 with nesting).
func consumeBlockContents(cvs []CV) []Item {
	var out []Item
	i := 0
	for i < len(cvs) {
		c := cvs[i]
		switch {
		case c.Kind == Whitespace || c.Kind == Semicolon:
			i++
		case c.Kind == AtKeyword:
			var r *Rule
			r, i = consumeAtRule(cvs, i, true)
			out = append(out, Item{Rule: r})
		default:
			if d, next, ok := consumeDeclaration(cvs, i); ok {
				i = next
				if d != nil {
					out = append(out, Item{Decl: d})
				}
				continue
			}
			var r *Rule
			r, i = consumeQualifiedRule(cvs, i, true)
			if r != nil {
				out = append(out, Item{Rule: r})
			}
		}
	}
	return out
}

// consumeDeclaration tries to read a declaration starting at i. ok == false means "this is not a
// declaration, re-read it as a nested rule"; ok == true with d == nil means a bad declaration that
// was dropped (error recovery up to the next semicolon).
func consumeDeclaration(cvs []CV, i int) (d *Decl, next int, ok bool) {
	end := i
	for end < len(cvs) && cvs[end].Kind != Semicolon {
		end++
	}
	next = end
	if next < len(cvs) {
		next++
	}
	if cvs[i].Kind != Ident || cvs[i].Block {
		// not an identifier: a rule if a {}-block follows before the semicolon, otherwise garbage up to ';'
		for j := i; j < end; j++ {
			if cvs[j].Block && cvs[j].Kind == LBrace {
				return nil, 0, false
			}
		}
		return nil, next, true
	}
	name := cvs[i].Value
	j := i + 1
	for j < end && cvs[j].Kind == Whitespace {
		j++
	}
	if j >= end || cvs[j].Kind != Colon {
		for k := i; k < end; k++ {
			if cvs[k].Block && cvs[k].Kind == LBrace {
				return nil, 0, false
			}
		}
		return nil, next, true
	}
	val := trimWS(cvs[j+1 : end])
	custom := strings.HasPrefix(name, "--")
	if !custom {
		hasBrace, other := false, false
		for _, v := range val {
			if v.Block && v.Kind == LBrace {
				hasBrace = true
			} else if v.Kind != Whitespace {
				other = true
			}
		}
		if hasBrace && other {
			// a:hover { ... } and the like: the {}-block ends the rule, not the semicolon
			return nil, 0, false
		}
	}
	important := false
	if n := len(val); n >= 2 {
		k := n - 1
		if val[k].IsIdent("important") {
			k--
			for k >= 0 && val[k].Kind == Whitespace {
				k--
			}
			if k >= 0 && val[k].IsDelim("!") {
				important = true
				val = trimWS(val[:k])
			}
		}
	}
	if !custom {
		name = strings.ToLower(name)
	}
	return &Decl{Name: name, Value: val, Important: important}, next, true
}

// ---------------------------------------------------------------------------- serialisation

func fmtNum(f float64) string {
	if f == 0 {
		return "0"
	}
	s := strconv.FormatFloat(f, 'g', 12, 64)
	if strings.Contains(s, "e") {
		s = strconv.FormatFloat(f, 'f', -1, 64)
	}
	return s
}

// serializeIdent escapes an identifier so that it reads back as the same value.
func serializeIdent(s string) string {
	var sb strings.Builder
	rs := []rune(s)
	for i, r := range rs {
		switch {
		case r == 0:
			sb.WriteRune(0xFFFD)
		case (r >= 1 && r <= 0x1f) || r == 0x7f:
			sb.WriteString("\\" + strconv.FormatInt(int64(r), 16) + " ")
		case i == 0 && isDigit(r):
			sb.WriteString("\\" + strconv.FormatInt(int64(r), 16) + " ")
		case i == 1 && isDigit(r) && rs[0] == '-':
			sb.WriteString("\\" + strconv.FormatInt(int64(r), 16) + " ")
		case i == 0 && r == '-' && len(rs) == 1:
			sb.WriteString("\\-")
		case r >= 0x80 || r == '-' || r == '_' || isDigit(r) || isLetter(r):
			sb.WriteRune(r)
		default:
			sb.WriteRune('\\')
			sb.WriteRune(r)
		}
	}
	return sb.String()
}

func serializeString(s string) string {
	var sb strings.Builder
	sb.WriteByte('"')
	for _, r := range s {
		switch {
		case r == '"' || r == '\\':
			sb.WriteRune('\\')
			sb.WriteRune(r)
		case r == '\n' || (r >= 1 && r <= 0x1f) || r == 0x7f:
			sb.WriteString("\\" + strconv.FormatInt(int64(r), 16) + " ")
		default:
			sb.WriteRune(r)
		}
	}
	sb.WriteByte('"')
	return sb.String()
}

// Serialize writes component values in a normal form: whitespace collapsed to one space between
// tokens (none inside brackets' edges), numbers in shortest round-trip form, identifiers re-escaped.
// Two token sequences that differ only in spelling (escapes, quotes, number formatting, comments,
// whitespace amount) serialise identically. Case is preserved.
func Serialize(cvs []CV) string {
	var parts []string
	for _, c := range cvs {
		if c.Kind == Whitespace {
			continue
		}
		parts = append(parts, serializeOne(c))
	}
	return strings.Join(parts, " ")
}

func serializeOne(c CV) string {
	switch c.Kind {
	case Ident:
		return serializeIdent(c.Value)
	case Function:
		return serializeIdent(c.Value) + "(" + Serialize(c.Children) + ")"
	case AtKeyword:
		return "@" + serializeIdent(c.Value)
	case Hash:
		return "#" + serializeIdent(c.Value)
	case String:
		return serializeString(c.Value)
	case BadString:
		return "<bad-string>"
	case URL:
		return "url(" + serializeString(c.Value) + ")"
	case BadURL:
		return "<bad-url>"
	case Delim:
		return c.Value
	case Number:
		return fmtNum(c.Num)
	case Percentage:
		return fmtNum(c.Num) + "%"
	case Dimension:
		return fmtNum(c.Num) + serializeIdent(c.Unit)
	case CDO:
		return "<!--"
	case CDC:
		return "-->"
	case Colon:
		return ":"
	case Semicolon:
		return ";"
	case Comma:
		return ","
	case LBrace:
		if c.Block {
			return "{" + Serialize(c.Children) + "}"
		}
		return "{"
	case LParen:
		if c.Block {
			return "(" + Serialize(c.Children) + ")"
		}
		return "("
	case LBracket:
		if c.Block {
			return "[" + Serialize(c.Children) + "]"
		}
		return "["
	case RBrace:
		return "}"
	case RParen:
		return ")"
	case RBracket:
		return "]"
	}
	return ""
}

// nonWS returns the component values without whitespace tokens.
func nonWS(cvs []CV) []CV {
	out := make([]CV, 0, len(cvs))
	for _, c := range cvs {
		if c.Kind != Whitespace {
			out = append(out, c)
		}
	}
	return out
}

// splitComma splits at top-level commas.
func splitComma(cvs []CV) [][]CV {
	var out [][]CV
	start := 0
	for i, c := range cvs {
		if c.Kind == Comma {
			out = append(out, cvs[start:i])
			start = i + 1
		}
	}
	return append(out, cvs[start:])
}

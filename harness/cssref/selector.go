package cssref

import (
	"strings"
)

// Element is a node of the small DOM trees selectors are evaluated against.
type Element struct {
	Tag      string
	ID       string
	Classes  []string
	Attrs    map[string]string
	States   map[string]bool // hover, focus, focus-visible, active, ... and any unknown pseudo-class name
	Parent   *Element
	Children []*Element
}

// Link sets Parent pointers below e.
func (e *Element) Link() {
	for _, c := range e.Children {
		c.Parent = e
		c.Link()
	}
}

// All returns e and its descendants in document order.
func (e *Element) All() []*Element {
	out := []*Element{e}
	for _, c := range e.Children {
		out = append(out, c.All()...)
	}
	return out
}

func (e *Element) root() *Element {
	for e.Parent != nil {
		e = e.Parent
	}
	return e
}

func (e *Element) index() int {
	if e.Parent == nil {
		return 0
	}
	for i, c := range e.Parent.Children {
		if c == e {
			return i
		}
	}
	return -1
}

func (e *Element) hasClass(c string) bool {
	for _, x := range e.Classes {
		if x == c {
			return true
		}
	}
	return false
}

// Specificity is (ids, classes, types).
type Specificity [3]int

// Less orders specificities.
func (a Specificity) Less(b Specificity) bool {
	for i := 0; i < 3; i++ {
		if a[i] != b[i] {
			return a[i] < b[i]
		}
	}
	return false
}

func (a Specificity) add(b Specificity) Specificity {
	return Specificity{a[0] + b[0], a[1] + b[1], a[2] + b[2]}
}

func maxSpec(a, b Specificity) Specificity {
	if a.Less(b) {
		return b
	}
	return a
}

type simpleKind uint8

const (
	sClass simpleKind = iota
	sID
	sAttr
	sPseudo
	sPseudoFn
)

// Simple is a subclass selector.
type Simple struct {
	Kind   simpleKind
	Name   string
	Op     string // attribute matcher: "" (presence) = ~= |= ^= $= *=
	Val    string
	CaseI  bool
	Args   []*Complex // :is/:where/:not/:has
	ArgBad bool       // a syntactically invalid argument was present (fatal unless the list is forgiving)
}

// Compound is a compound selector.
type Compound struct {
	Tag      string // "" = none, "*" = universal
	Nest     int    // number of "&"
	Subs     []Simple
	PseudoEl string
}

// Part is a compound selector with the combinator that precedes it.
type Part struct {
	Comb byte // 0 (first), ' ', '>', '+', '~'
	C    Compound
}

// Complex is a complex selector (relative if Parts[0].Comb != 0).
type Complex struct {
	Parts []Part
	Feats FeatureSet // features needed to parse this selector, outside the arguments of functional pseudo-classes
}

// SelectorList is a parsed selector list.
type SelectorList struct {
	Sels       []*Complex
	Invalid    bool   // syntactically invalid in every environment
	Unmodelled string // contains something this model does not interpret
}

// ParentSel is the nesting context: the selector list "&" stands for.
type ParentSel struct {
	List *SelectorList
	Up   *ParentSel
}

var baselinePseudoClasses = map[string]bool{
	"hover": true, "active": true, "focus": true, "link": true, "visited": true, "first-child": true, "last-child": true,
	"only-child": true, "root": true, "empty": true, "checked": true, "disabled": true, "enabled": true, "target": true,
}

var legacyPseudoElements = map[string]bool{"before": true, "after": true, "first-line": true, "first-letter": true}

type selParser struct {
	unmodelled string
}

// ParseSelectorList parses a selector list. nested: the list belongs to a nested style rule
// (relative selectors allowed, implicit "&" added).
func ParseSelectorList(cvs []CV, nested bool) *SelectorList {
	p := &selParser{}
	out := &SelectorList{}
	cvs = trimWS(cvs)
	if len(cvs) == 0 {
		out.Invalid = true
		return out
	}
	for _, part := range splitComma(cvs) {
		cx := p.parseComplex(part, nested)
		if cx == nil {
			out.Invalid = true
			out.Unmodelled = p.unmodelled
			return out
		}
		if nested {
			cx = addImplicitNest(cx)
		}
		out.Sels = append(out.Sels, cx)
	}
	out.Unmodelled = p.unmodelled
	return out
}

func containsNest(cx *Complex) bool {
	for _, pt := range cx.Parts {
		if pt.C.Nest > 0 {
			return true
		}
		for _, s := range pt.C.Subs {
			for _, a := range s.Args {
				if containsNest(a) {
					return true
				}
			}
		}
	}
	return false
}

func addImplicitNest(cx *Complex) *Complex {
	amp := Part{C: Compound{Nest: 1}}
	if cx.Parts[0].Comb != 0 {
		cx.Parts = append([]Part{amp}, cx.Parts...)
		cx.Feats.Add(FNesting)
		return cx
	}
	if !containsNest(cx) {
		cx.Parts[0].Comb = ' '
		cx.Parts = append([]Part{amp}, cx.Parts...)
	}
	cx.Feats.Add(FNesting)
	return cx
}

func isCombDelim(c CV) bool {
	return c.Kind == Delim && (c.Value == ">" || c.Value == "+" || c.Value == "~")
}

func (p *selParser) parseComplex(cvs []CV, allowRelative bool) *Complex {
	cvs = trimWS(cvs)
	if len(cvs) == 0 {
		return nil
	}
	cx := &Complex{Feats: FeatureSet{}}
	i := 0
	var comb byte
	if isCombDelim(cvs[0]) {
		if !allowRelative {
			return nil
		}
		comb = cvs[0].Value[0]
		i = 1
		for i < len(cvs) && cvs[i].Kind == Whitespace {
			i++
		}
	}
	for {
		start := i
		for i < len(cvs) && cvs[i].Kind != Whitespace && !isCombDelim(cvs[i]) {
			i++
		}
		if i == start {
			return nil // a combinator without a compound selector
		}
		c, ok := p.parseCompound(cvs[start:i], cx.Feats)
		if !ok {
			return nil
		}
		cx.Parts = append(cx.Parts, Part{Comb: comb, C: c})
		if i >= len(cvs) {
			break
		}
		comb = ' '
		for i < len(cvs) && cvs[i].Kind == Whitespace {
			i++
		}
		if i < len(cvs) && isCombDelim(cvs[i]) {
			comb = cvs[i].Value[0]
			i++
			for i < len(cvs) && cvs[i].Kind == Whitespace {
				i++
			}
		}
		if i >= len(cvs) {
			return nil // trailing combinator
		}
	}
	for k, pt := range cx.Parts {
		if pt.C.PseudoEl != "" && k != len(cx.Parts)-1 {
			return nil
		}
	}
	return cx
}

func (p *selParser) parseCompound(cvs []CV, feats FeatureSet) (Compound, bool) {
	var c Compound
	i := 0
	n := len(cvs)
	seenOther := false
	for i < n {
		t := cvs[i]
		if c.PseudoEl != "" {
			// pseudo-classes after a pseudo-element are legal in a few cases; not modelled
			p.unmodelled = "selector-after-pseudo-element"
			return c, false
		}
		switch {
		case t.IsDelim("&"):
			c.Nest++
			feats.Add(FNesting)
			i++
		case t.Kind == Ident && !t.Block:
			if c.Tag != "" || seenOther {
				return c, false
			}
			c.Tag = strings.ToLower(t.Value)
			i++
		case t.IsDelim("*"):
			if c.Tag != "" || seenOther {
				return c, false
			}
			c.Tag = "*"
			i++
		case t.IsDelim("|"):
			p.unmodelled = "namespace"
			return c, false
		case t.Kind == Hash:
			if !t.IDish {
				return c, false
			}
			c.Subs = append(c.Subs, Simple{Kind: sID, Name: t.Value})
			seenOther = true
			i++
		case t.IsDelim("."):
			if i+1 >= n || cvs[i+1].Kind != Ident {
				return c, false
			}
			c.Subs = append(c.Subs, Simple{Kind: sClass, Name: cvs[i+1].Value})
			seenOther = true
			i += 2
		case t.Block && t.Kind == LBracket:
			s, ok := p.parseAttr(t.Children, feats)
			if !ok {
				return c, false
			}
			c.Subs = append(c.Subs, s)
			seenOther = true
			i++
		case t.Kind == Colon:
			seenOther = true
			if i+1 < n && cvs[i+1].Kind == Colon {
				// pseudo-element
				if i+2 >= n {
					return c, false
				}
				nm := cvs[i+2]
				if nm.Kind == Ident {
					c.PseudoEl = strings.ToLower(nm.Value)
					if !legacyPseudoElements[c.PseudoEl] {
						feats.Add("pe:" + c.PseudoEl)
					}
					i += 3
					continue
				}
				if nm.Kind == Function {
					p.unmodelled = "functional-pseudo-element"
				}
				return c, false
			}
			if i+1 >= n {
				return c, false
			}
			nm := cvs[i+1]
			switch {
			case nm.Kind == Ident:
				name := strings.ToLower(nm.Value)
				if legacyPseudoElements[name] {
					c.PseudoEl = name
				} else {
					if !baselinePseudoClasses[name] {
						feats.Add("pc:" + name)
					}
					c.Subs = append(c.Subs, Simple{Kind: sPseudo, Name: name})
				}
				i += 2
			case nm.Kind == Function:
				name := strings.ToLower(nm.Value)
				s := Simple{Kind: sPseudoFn, Name: name}
				switch name {
				case "is", "where", "not", "has":
					args := trimWS(nm.Children)
					if len(args) == 0 {
						if name == "not" || name == "has" {
							return c, false
						}
					} else {
						for _, a := range splitComma(args) {
							cx := p.parseComplex(a, name == "has")
							if cx == nil {
								if p.unmodelled != "" {
									return c, false
								}
								s.ArgBad = true
								continue
							}
							if name == "has" && cx.Parts[0].Comb == 0 {
								cx.Parts[0].Comb = ' '
							}
							for _, pt := range cx.Parts {
								if pt.C.PseudoEl != "" {
									// pseudo-elements are not valid inside these pseudo-classes
									cx = nil
									break
								}
							}
							if cx == nil {
								s.ArgBad = true
								continue
							}
							s.Args = append(s.Args, cx)
						}
					}
					switch name {
					case "is":
						feats.Add(FIs)
					case "where":
						feats.Add("pc:where")
					case "has":
						feats.Add("pc:has")
					case "not":
						if len(s.Args) != 1 || len(s.Args[0].Parts) != 1 || s.ArgBad {
							feats.Add("pc:not-list")
						} else {
							for _, sub := range s.Args[0].Parts[0].C.Subs {
								if sub.Kind == sPseudoFn {
									feats.Add("pc:not-list")
								}
							}
						}
					}
				default:
					p.unmodelled = "functional-pseudo-class:" + name
					return c, false
				}
				c.Subs = append(c.Subs, s)
				i += 2
			default:
				return c, false
			}
		default:
			return c, false
		}
	}
	if c.Tag == "" && c.Nest == 0 && len(c.Subs) == 0 && c.PseudoEl == "" {
		return c, false
	}
	return c, true
}

func (p *selParser) parseAttr(cvs []CV, feats FeatureSet) (Simple, bool) {
	s := Simple{Kind: sAttr}
	cvs = nonWS(cvs)
	if len(cvs) == 0 || cvs[0].Kind != Ident {
		if len(cvs) > 0 && (cvs[0].IsDelim("|") || cvs[0].IsDelim("*")) {
			p.unmodelled = "namespace"
		}
		return s, false
	}
	s.Name = strings.ToLower(cvs[0].Value)
	if len(cvs) == 1 {
		return s, true
	}
	i := 1
	if cvs[i].IsDelim("=") {
		s.Op = "="
		i++
	} else if cvs[i].Kind == Delim && strings.Contains("~|^$*", cvs[i].Value) && i+1 < len(cvs) && cvs[i+1].IsDelim("=") {
		s.Op = cvs[i].Value + "="
		i += 2
	} else {
		if cvs[i].IsDelim("|") {
			p.unmodelled = "namespace"
		}
		return s, false
	}
	if i >= len(cvs) || (cvs[i].Kind != Ident && cvs[i].Kind != String) {
		return s, false
	}
	s.Val = cvs[i].Value
	i++
	if i < len(cvs) {
		if cvs[i].IsIdent("i") {
			s.CaseI = true
			feats.Add(FAttrMod)
		} else if cvs[i].IsIdent("s") {
			feats.Add(FAttrMod)
		} else {
			return s, false
		}
		i++
	}
	return s, i == len(cvs)
}

// ---------------------------------------------------------------------------- validity

// validIn reports whether the complex selector parses in the environment.
func (cx *Complex) validIn(e *Env) bool {
	if !e.UnderstandsAll(cx.Feats) {
		return false
	}
	for _, pt := range cx.Parts {
		for _, s := range pt.C.Subs {
			if s.Kind != sPseudoFn {
				continue
			}
			forgiving := s.Name == "is" || s.Name == "where"
			if forgiving {
				continue
			}
			if s.ArgBad {
				return false
			}
			for _, a := range s.Args {
				if !a.validIn(e) {
					return false
				}
			}
		}
	}
	return true
}

// ValidIn reports whether the whole list parses in the environment (one bad selector spoils the list).
func (l *SelectorList) ValidIn(e *Env) bool {
	if l.Invalid {
		return false
	}
	for _, cx := range l.Sels {
		if !cx.validIn(e) {
			return false
		}
	}
	return true
}

// AllFeatures returns every feature mentioned anywhere in the list (including forgiving arguments).
func (l *SelectorList) AllFeatures() FeatureSet {
	fs := FeatureSet{}
	var walk func(cx *Complex)
	walk = func(cx *Complex) {
		fs.AddAll(cx.Feats)
		for _, pt := range cx.Parts {
			for _, s := range pt.C.Subs {
				for _, a := range s.Args {
					walk(a)
				}
			}
		}
	}
	for _, cx := range l.Sels {
		walk(cx)
	}
	return fs
}

// ---------------------------------------------------------------------------- specificity

func (cx *Complex) specificity(e *Env, parent *ParentSel) Specificity {
	var sp Specificity
	for _, pt := range cx.Parts {
		c := pt.C
		if c.Tag != "" && c.Tag != "*" {
			sp[2]++
		}
		if c.PseudoEl != "" {
			sp[2]++
		}
		if c.Nest > 0 {
			ps := parentSpecificity(e, parent)
			for k := 0; k < c.Nest; k++ {
				sp = sp.add(ps)
			}
		}
		for _, s := range c.Subs {
			switch s.Kind {
			case sID:
				sp[0]++
			case sClass, sAttr, sPseudo:
				sp[1]++
			case sPseudoFn:
				if s.Name == "where" {
					continue
				}
				var m Specificity
				for _, a := range s.Args {
					if (s.Name == "is") && !a.validIn(e) {
						continue
					}
					m = maxSpec(m, a.specificity(e, parent))
				}
				sp = sp.add(m)
			}
		}
	}
	return sp
}

// parentSpecificity is the specificity of "&": the largest among the parent list (like :is()).
func parentSpecificity(e *Env, parent *ParentSel) Specificity {
	var m Specificity
	if parent == nil {
		return m
	}
	for _, cx := range parent.List.Sels {
		m = maxSpec(m, cx.specificity(e, parent.Up))
	}
	return m
}

// ---------------------------------------------------------------------------- matching

type matcher struct {
	e *Env
}

func (m *matcher) matchSimple(s Simple, el *Element, parent *ParentSel) bool {
	switch s.Kind {
	case sClass:
		return el.hasClass(s.Name)
	case sID:
		return el.ID == s.Name
	case sAttr:
		v, ok := el.Attrs[s.Name]
		if !ok {
			return false
		}
		w := s.Val
		if s.CaseI {
			v, w = strings.ToLower(v), strings.ToLower(w)
		}
		switch s.Op {
		case "":
			return true
		case "=":
			return v == w
		case "~=":
			if w == "" || strings.ContainsAny(w, " \t\n") {
				return false
			}
			for _, f := range strings.Fields(v) {
				if f == w {
					return true
				}
			}
			return false
		case "|=":
			return v == w || strings.HasPrefix(v, w+"-")
		case "^=":
			return w != "" && strings.HasPrefix(v, w)
		case "$=":
			return w != "" && strings.HasSuffix(v, w)
		case "*=":
			return w != "" && strings.Contains(v, w)
		}
		return false
	case sPseudo:
		switch s.Name {
		case "first-child":
			return el.Parent != nil && el.index() == 0
		case "last-child":
			return el.Parent != nil && el.index() == len(el.Parent.Children)-1
		case "only-child":
			return el.Parent != nil && len(el.Parent.Children) == 1
		case "root":
			return el.Parent == nil
		case "empty":
			return len(el.Children) == 0
		}
		return el.States[s.Name]
	case sPseudoFn:
		switch s.Name {
		case "is", "where":
			for _, a := range s.Args {
				if a.validIn(m.e) && m.matchComplex(a, el, "", parent, nil) {
					return true
				}
			}
			return false
		case "not":
			for _, a := range s.Args {
				if m.matchComplex(a, el, "", parent, nil) {
					return false
				}
			}
			return true
		case "has":
			for _, a := range s.Args {
				for _, x := range el.root().All() {
					if x != el && m.matchComplex(a, x, "", parent, el) {
						return true
					}
				}
			}
			return false
		}
	}
	return false
}

func (m *matcher) matchCompound(c Compound, el *Element, parent *ParentSel) bool {
	if c.Tag != "" && c.Tag != "*" && c.Tag != el.Tag {
		return false
	}
	for _, s := range c.Subs {
		if !m.matchSimple(s, el, parent) {
			return false
		}
	}
	if c.Nest > 0 {
		if parent == nil {
			// outside a style rule "&" represents :scope, i.e. the root element
			if el.Parent != nil {
				return false
			}
		} else {
			ok := false
			for _, cx := range parent.List.Sels {
				if m.matchComplex(cx, el, "", parent.Up, nil) {
					ok = true
					break
				}
			}
			if !ok {
				return false
			}
		}
	}
	return true
}

// matchComplex: does the selector match (el, pseudo-element pe)? anchor != nil makes the selector
// relative: the leftmost compound must stand in relation Parts[0].Comb to the anchor.
func (m *matcher) matchComplex(cx *Complex, el *Element, pe string, parent *ParentSel, anchor *Element) bool {
	last := len(cx.Parts) - 1
	if cx.Parts[last].C.PseudoEl != pe {
		return false
	}
	return m.matchFrom(cx, last, el, parent, anchor)
}

func related(comb byte, left, right *Element) bool {
	switch comb {
	case ' ':
		for p := right.Parent; p != nil; p = p.Parent {
			if p == left {
				return true
			}
		}
	case '>':
		return right.Parent == left
	case '+':
		return right.Parent != nil && right.Parent == left.Parent && right.index() == left.index()+1
	case '~':
		return right.Parent != nil && right.Parent == left.Parent && right.index() > left.index()
	}
	return false
}

func (m *matcher) matchFrom(cx *Complex, idx int, el *Element, parent *ParentSel, anchor *Element) bool {
	pt := cx.Parts[idx]
	if !m.matchCompound(pt.C, el, parent) {
		return false
	}
	if idx == 0 {
		if pt.Comb == 0 || anchor == nil {
			return pt.Comb == 0 || anchor != nil
		}
		return related(pt.Comb, anchor, el)
	}
	switch pt.Comb {
	case ' ':
		for p := el.Parent; p != nil; p = p.Parent {
			if m.matchFrom(cx, idx-1, p, parent, anchor) {
				return true
			}
		}
	case '>':
		if el.Parent != nil {
			return m.matchFrom(cx, idx-1, el.Parent, parent, anchor)
		}
	case '+':
		if el.Parent != nil {
			if i := el.index(); i > 0 {
				return m.matchFrom(cx, idx-1, el.Parent.Children[i-1], parent, anchor)
			}
		}
	case '~':
		if el.Parent != nil {
			for i := el.index() - 1; i >= 0; i-- {
				if m.matchFrom(cx, idx-1, el.Parent.Children[i], parent, anchor) {
					return true
				}
			}
		}
	}
	return false
}

// MatchList reports whether the list matches (el, pe) in env and with which specificity
// (the highest among the matching complex selectors). The list must be valid in env.
func MatchList(l *SelectorList, el *Element, pe string, e *Env, parent *ParentSel) (bool, Specificity) {
	m := &matcher{e: e}
	matched := false
	var best Specificity
	for _, cx := range l.Sels {
		if m.matchComplex(cx, el, pe, parent, nil) {
			sp := cx.specificity(e, parent)
			if !matched || best.Less(sp) {
				best = sp
			}
			matched = true
		}
	}
	return matched, best
}

// Specificities returns the specificity of each complex selector of the list.
func Specificities(l *SelectorList, e *Env, parent *ParentSel) []Specificity {
	out := make([]Specificity, len(l.Sels))
	for i, cx := range l.Sels {
		out[i] = cx.specificity(e, parent)
	}
	return out
}

package cssref

import (
	"sort"
	"strings"
)

// Target is what a declaration applies to: an element or one of its pseudo-elements.
type Target struct {
	El *Element
	PE string // "" or the pseudo-element name
}

// Winner is the cascaded value of one longhand.
type Winner struct {
	Val       Value
	Important bool
	Where     string // human-readable origin (selector text), for messages
}

// Result is the outcome of evaluating a sheet in one environment.
type Result struct {
	Winners    []map[string]Winner // per target, per longhand
	LayerOrder []string            // named layers that contain style rules, lowest priority first ("a", "a.b", ...)
	Unmodelled string              // non-empty: the sheet contains something the model does not interpret
}

type layerNode struct {
	name     string
	full     string
	children []*layerNode
	parent   *layerNode
	rank     int
	used     bool // a style rule lives in this layer or below it
}

func (n *layerNode) child(name string) *layerNode {
	for _, c := range n.children {
		if c.name == name {
			return c
		}
	}
	full := name
	if n.full != "" {
		full = n.full + "." + name
	}
	c := &layerNode{name: name, full: full, parent: n}
	n.children = append(n.children, c)
	return c
}

type cand struct {
	val       Value
	important bool
	layer     *layerNode
	spec      Specificity
	order     int
	where     string
}

type styleCtx struct {
	list    *SelectorList
	parent  *ParentSel // context for "&" inside list
	matched []bool
	specs   []Specificity
	text    string
}

type evaluator struct {
	env     *Env
	targets []Target
	root    *layerNode
	anon    int
	order   int
	cands   []map[string][]cand
	unmod   string
	cache   map[*Rule]*SelectorList
}

// SelectorCache lets repeated evaluations of the same sheet share parsed selectors.
type SelectorCache map[*Rule]*SelectorList

// Evaluate computes the cascade for each target in env.
func Evaluate(sheet *Sheet, env *Env, targets []Target, cache SelectorCache) *Result {
	if cache == nil {
		cache = SelectorCache{}
	}
	ev := &evaluator{env: env, targets: targets, root: &layerNode{}, cache: cache}
	ev.cands = make([]map[string][]cand, len(targets))
	for i := range ev.cands {
		ev.cands[i] = map[string][]cand{}
	}
	items := make([]Item, len(sheet.Rules))
	for i, r := range sheet.Rules {
		items[i] = Item{Rule: r}
	}
	ev.walk(items, ev.root, nil)

	// rank layers: children (in order of first declaration) below the layer's own rules
	rank := 0
	var order []string
	var assign func(n *layerNode)
	assign = func(n *layerNode) {
		for _, c := range n.children {
			assign(c)
		}
		n.rank = rank
		rank++
	}
	assign(ev.root)
	var names func(n *layerNode)
	names = func(n *layerNode) {
		for _, c := range n.children {
			if !strings.Contains(c.full, "⟨") && c.used {
				order = append(order, c.full)
			}
			names(c)
		}
	}
	names(ev.root)

	res := &Result{LayerOrder: order, Unmodelled: ev.unmod}
	res.Winners = make([]map[string]Winner, len(targets))
	for i := range targets {
		w := map[string]Winner{}
		for prop, cs := range ev.cands[i] {
			best := cs[0]
			for _, c := range cs[1:] {
				if beats(c, best) {
					best = c
				}
			}
			w[prop] = Winner{Val: best.val, Important: best.important, Where: best.where}
		}
		res.Winners[i] = w
	}
	return res
}

func beats(a, b cand) bool {
	if a.important != b.important {
		return a.important
	}
	if a.layer.rank != b.layer.rank {
		if a.important {
			return a.layer.rank < b.layer.rank
		}
		return a.layer.rank > b.layer.rank
	}
	if a.spec != b.spec {
		return b.spec.Less(a.spec)
	}
	return a.order > b.order
}

func (ev *evaluator) fail(why string) {
	if ev.unmod == "" {
		ev.unmod = why
	}
}

func parseLayerName(cvs []CV) ([]string, bool) {
	// ident [ '.' ident ]* without whitespace
	var out []string
	expectIdent := true
	for _, c := range cvs {
		if expectIdent {
			if c.Kind != Ident || c.Block {
				return nil, false
			}
			out = append(out, c.Value)
			expectIdent = false
		} else {
			if !c.IsDelim(".") {
				return nil, false
			}
			expectIdent = true
		}
	}
	return out, len(out) > 0 && !expectIdent
}

func (ev *evaluator) selectorList(r *Rule) *SelectorList {
	if l, ok := ev.cache[r]; ok {
		return l
	}
	l := ParseSelectorList(r.Prelude, r.Nested)
	ev.cache[r] = l
	return l
}

func (ev *evaluator) walk(items []Item, layer *layerNode, style *styleCtx) {
	for _, it := range items {
		if it.Decl != nil {
			if style != nil {
				ev.declare(it.Decl, layer, style)
			}
			continue
		}
		r := it.Rule
		if r.Nested && !ev.env.Understands(FNesting) {
			continue
		}
		switch r.At {
		case "":
			l := ev.selectorList(r)
			if l.Unmodelled != "" {
				ev.fail("selector:" + l.Unmodelled)
				continue
			}
			if !l.ValidIn(ev.env) {
				continue
			}
			var parent *ParentSel
			if style != nil {
				parent = &ParentSel{List: style.list, Up: style.parent}
			}
			for n := layer; n != nil; n = n.parent {
				n.used = true
			}
			sc := &styleCtx{list: l, parent: parent, text: Serialize(r.Prelude)}
			sc.matched = make([]bool, len(ev.targets))
			sc.specs = make([]Specificity, len(ev.targets))
			for i, t := range ev.targets {
				sc.matched[i], sc.specs[i] = MatchList(l, t.El, t.PE, ev.env, parent)
			}
			ev.walk(r.Items, layer, sc)
		case "media":
			ok, un := EvalMedia(r.Prelude, ev.env)
			if un != "" {
				ev.fail("media:" + un)
			}
			if ok && r.HasBlock {
				ev.walk(r.Items, layer, style)
			}
		case "supports":
			ok, un := EvalSupports(r.Prelude, ev.env)
			if un != "" {
				ev.fail("supports:" + un)
			}
			if ok && r.HasBlock {
				ev.walk(r.Items, layer, style)
			}
		case "container":
			if !ev.env.Understands(FAtContainer) {
				continue
			}
			ok, un := EvalContainer(r.Prelude, ev.env)
			if un != "" {
				ev.fail("container:" + un)
			}
			if ok && r.HasBlock {
				ev.walk(r.Items, layer, style)
			}
		case "layer":
			if !ev.env.Understands(FAtLayer) {
				continue
			}
			pre := r.Prelude
			if r.HasBlock {
				target := layer
				if len(nonWS(pre)) == 0 {
					ev.anon++
					target = layer.child("⟨anon " + fmtNum(float64(ev.anon)) + "⟩")
				} else {
					names, ok := parseLayerName(trimWS(pre))
					if !ok {
						continue
					}
					for _, n := range names {
						target = target.child(n)
					}
				}
				ev.walk(r.Items, target, style)
			} else {
				var all [][]string
				ok := true
				for _, part := range splitComma(pre) {
					names, good := parseLayerName(trimWS(part))
					if !good {
						ok = false
						break
					}
					all = append(all, names)
				}
				if !ok {
					continue
				}
				for _, names := range all {
					t := layer
					for _, n := range names {
						t = t.child(n)
					}
				}
			}
		case "import":
			ev.fail("import-rule")
		}
	}
}

func (ev *evaluator) declare(d *Decl, layer *layerNode, style *styleCtx) {
	any := false
	for _, m := range style.matched {
		if m {
			any = true
			break
		}
	}
	ev.order++
	if !any {
		return
	}
	if !ev.env.UnderstandsAll(ValueFeatures(d.Name, d.Value)) {
		return
	}
	longs, ok := Expand(d.Name, d.Value)
	if !ok {
		return
	}
	for i, m := range style.matched {
		if !m {
			continue
		}
		for _, l := range longs {
			ev.cands[i][l.Prop] = append(ev.cands[i][l.Prop], cand{val: l.Val, important: d.Important, layer: layer, spec: style.specs[i], order: ev.order, where: style.text})
		}
	}
}

// SheetFeatures lists every syntax feature that occurs anywhere in the sheet.
func SheetFeatures(sheet *Sheet) FeatureSet {
	fs := FeatureSet{}
	var walk func(items []Item)
	walk = func(items []Item) {
		for _, it := range items {
			if it.Decl != nil {
				fs.AddAll(ValueFeatures(it.Decl.Name, it.Decl.Value))
				continue
			}
			r := it.Rule
			if r.Nested {
				fs.Add(FNesting)
			}
			switch r.At {
			case "":
				fs.AddAll(ParseSelectorList(r.Prelude, r.Nested).AllFeatures())
			case "media":
				fs.AddAll(MediaFeatures(r.Prelude))
			case "supports":
				fs.AddAll(SupportsFeatures(r.Prelude))
			case "container":
				fs.Add(FAtContainer)
			case "layer":
				fs.Add(FAtLayer)
			}
			walk(r.Items)
		}
	}
	items := make([]Item, len(sheet.Rules))
	for i, r := range sheet.Rules {
		items[i] = Item{Rule: r}
	}
	walk(items)
	return fs
}

// WinnersString renders one target's winners (sorted) for messages.
func WinnersString(w map[string]Winner) string {
	var ks []string
	for k := range w {
		ks = append(ks, k)
	}
	sort.Strings(ks)
	var sb strings.Builder
	for _, k := range ks {
		sb.WriteString(k + ": " + w[k].Val.String())
		if w[k].Important {
			sb.WriteString(" !important")
		}
		sb.WriteString("  ⟵ " + w[k].Where + "\n")
	}
	return sb.String()
}

package cssref

import (
	"math"
	"testing"
)

func TestTokenizer(t *testing.T) {
	toks := Tokenize(`a\26 b #1x #-x .5e-2px +3% url( x\)y ) url("q") "a\
b" 'x
 <!-- --> @media U+26 \41`)
	want := []struct {
		k Kind
		v string
	}{{Ident, "a&b"}, {Whitespace, ""}, {Hash, "1x"}, {Whitespace, ""}, {Hash, "-x"}, {Whitespace, ""}, {Dimension, ""}, {Whitespace, ""}, {Percentage, ""}, {Whitespace, ""},
		{URL, "x)y"}, {Whitespace, ""}, {Function, "url"}, {String, "q"}, {RParen, ""}, {Whitespace, ""}, {String, "ab"}, {Whitespace, ""}, {BadString, ""}, {Whitespace, ""},
		{CDO, ""}, {Whitespace, ""}, {CDC, ""}, {Whitespace, ""}, {AtKeyword, "media"}, {Whitespace, ""}, {Ident, "U"}, {Number, ""}, {Whitespace, ""}, {Ident, "A"}}
	if len(toks) != len(want) {
		t.Fatalf("got %d tokens want %d: %+v", len(toks), len(want), toks)
	}
	for i, w := range want {
		if toks[i].Kind != w.k || (w.v != "" && toks[i].Value != w.v) {
			t.Errorf("token %d: got %v %q want %v %q", i, toks[i].Kind, toks[i].Value, w.k, w.v)
		}
	}
	if toks[2].IDish || !toks[4].IDish {
		t.Errorf("id flags wrong")
	}
	if toks[6].Num != 0.005 || toks[6].Unit != "px" || toks[8].Num != 3 {
		t.Errorf("numbers wrong: %+v %+v", toks[6], toks[8])
	}
}

func near(a, b, tol float64) bool { return math.Abs(a-b) <= tol }

func TestColors(t *testing.T) {
	cases := []struct {
		src     string
		r, g, b float64
		tol     float64
	}{
		{"lab(100 0 0)", 1, 1, 1, 1e-3},
		{"lab(29.2345% 39.3825 20.0664)", 125.0 / 255, 35.0 / 255, 41.0 / 255, 1.0 / 255},
		{"oklab(0.62796 0.22486 0.12585)", 1, 0, 0, 1e-3},
		{"oklch(62.796% 0.25768 29.234)", 1, 0, 0, 2e-3},
		{"lab(54.29 80.8 69.89)", 1, 0, 0, 2e-3},
		{"lch(54.29 106.84 40.86)", 1, 0, 0, 3e-3},
		{"color(display-p3 1 0 0)", 1.093, -0.2267, -0.1501, 2e-3},
		{"color(srgb-linear 0.5 0.5 0.5)", 0.7354, 0.7354, 0.7354, 1e-3},
		{"color(xyz-d65 0.9505 1 1.089)", 1, 1, 1, 2e-3},
		{"color(xyz-d50 0.9642 1 0.8251)", 1, 1, 1, 2e-3},
		{"color(a98-rgb 1 1 1)", 1, 1, 1, 1e-3},
		{"color(prophoto-rgb 1 1 1)", 1, 1, 1, 1e-3},
		{"color(rec2020 1 1 1)", 1, 1, 1, 1e-3},
		{"color(a98-rgb 0 1 0)", -0.6638, 1, -0.2291, 2e-3},
		{"hsl(120deg 100% 25%)", 0, 0.5, 0, 1e-9},
		{"hwb(0 20% 20%)", 0.8, 0.2, 0.2, 1e-9},
		{"hwb(90 60% 60%)", 0.5, 0.5, 0.5, 1e-9},
		{"rgb(50% 0% 100%)", 0.5, 0, 1, 1e-9},
		{"#f80", 1, 0x88 / 255.0, 0, 1e-9},
		{"rebeccapurple", 0x66 / 255.0, 0x33 / 255.0, 0x99 / 255.0, 1e-9},
	}
	for _, c := range cases {
		cvs := nonWS(ParseCVs(c.src))
		info, ok := ParseColor(cvs[0])
		if !ok {
			t.Errorf("%s: not parsed", c.src)
			continue
		}
		if !near(info.R, c.r, c.tol) || !near(info.G, c.g, c.tol) || !near(info.B, c.b, c.tol) {
			t.Errorf("%s: got %.4f %.4f %.4f want %.4f %.4f %.4f", c.src, info.R, info.G, info.B, c.r, c.g, c.b)
		}
	}
	// round trips through every space
	for _, sp := range []string{"lab", "lch", "oklab", "oklch", "srgb-linear", "display-p3", "a98-rgb", "prophoto-rgb", "rec2020", "xyz", "xyz-d50"} {
		for _, rgb := range [][3]float64{{0.2, 0.4, 0.9}, {1, 1, 1}, {0, 0, 0}, {0.01, 0.5, 0.02}, {1, 0, 0.5}} {
			back, _ := ToSRGB(sp, SRGBTo(sp, rgb))
			for i := range back {
				if !near(back[i], rgb[i], 1e-6) {
					t.Errorf("round trip %s %v -> %v", sp, rgb, back)
				}
			}
		}
	}
}

func TestCalc(t *testing.T) {
	eq := func(a, b string, want bool) {
		x := CanonicalValue("margin-top", ParseCVs(a))
		y := CanonicalValue("margin-top", ParseCVs(b))
		if EqualValues(x, y, DefaultTolerance) != want {
			t.Errorf("%s vs %s: want %v (%s | %s)", a, b, want, x, y)
		}
	}
	eq("calc(1px + 2px)", "3px", true)
	eq("calc(1px + 2px * 3)", "7px", true)
	eq("calc((1px + 2px) * 3)", "9px", true)
	eq("calc(1in + 4px)", "100px", true)
	eq("calc(100% - 2 * 5px)", "calc(100% - 10px)", true)
	eq("calc(100% - 10px)", "calc(-10px + 100%)", true)
	eq("calc(100% - 10px)", "calc(100% + 10px)", false)
	eq("calc(var(--x) * 2 + 1px + 1px)", "calc(2px + 2 * var(--x))", true)
	eq("calc(1px - (2px - 3px))", "2px", true)
	eq("calc(6px / 4)", "1.5px", true)
	eq("calc(1px -2px)", "calc(1px - 2px)", false)
	eq("calc(1em + 2px)", "calc(2px + 1em)", true)
	eq("0", "0px", true)
	eq("0em", "0", true)
	eq("1PX", "1px", true)
}

func mkDoc() (*Element, []*Element) {
	// <div id=x class="a"><p class="a b" title="Hi there"></p><span class=b data-k="v-1"></span><p></p></div>
	root := &Element{Tag: "div", ID: "x", Classes: []string{"a"}, States: map[string]bool{}}
	p1 := &Element{Tag: "p", Classes: []string{"a", "b"}, Attrs: map[string]string{"title": "Hi there"}, States: map[string]bool{"hover": true}}
	sp := &Element{Tag: "span", Classes: []string{"b"}, Attrs: map[string]string{"data-k": "v-1"}, States: map[string]bool{}}
	p2 := &Element{Tag: "p", States: map[string]bool{}}
	root.Children = []*Element{p1, sp, p2}
	root.Link()
	return root, root.All()
}

func evalOne(t *testing.T, css string, env *Env, el *Element, pe string) map[string]Winner {
	t.Helper()
	r := Evaluate(Parse(css), env, []Target{{el, pe}}, nil)
	if r.Unmodelled != "" {
		t.Fatalf("unmodelled: %s", r.Unmodelled)
	}
	return r.Winners[0]
}

func TestCascade(t *testing.T) {
	_, els := mkDoc()
	root, p1, sp, p2 := els[0], els[1], els[2], els[3]
	env := &Env{Width: 800, MediaType: "screen", ContainerWidth: 300, Not: map[string]bool{}}
	check := func(css string, el *Element, pe, prop, want string) {
		t.Helper()
		w := evalOne(t, css, env, el, pe)
		got := ""
		if x, ok := w[prop]; ok {
			got = x.Val.String()
		}
		if got != want {
			t.Errorf("%s\n  %s on <%s>%s: got %q want %q", css, prop, el.Tag, pe, got, want)
		}
	}
	check(`p{z-index:1} .a{z-index:2} p{z-index:3}`, p1, "", "z-index", "2")
	check(`p{z-index:1 !important} #x p{z-index:2}`, p1, "", "z-index", "1")
	check(`div > p:first-child{z-index:1} div p{z-index:2}`, p1, "", "z-index", "1")
	check(`div > p:first-child{z-index:1} div p{z-index:2}`, p2, "", "z-index", "2")
	check(`span + p{z-index:1} p ~ p{z-index:2}`, p2, "", "z-index", "2")
	check(`:is(#x, p) {z-index:1} p.a.b{z-index:2}`, p1, "", "z-index", "1")
	check(`:where(#x, p) {z-index:1} p{z-index:2} :where(p){z-index:3}`, p1, "", "z-index", "2")
	check(`p:not(.a){z-index:1}`, p1, "", "z-index", "")
	check(`p:not(.a){z-index:1}`, p2, "", "z-index", "1")
	check(`div:has(> span.b){z-index:1}`, root, "", "z-index", "1")
	check(`div:has(+ span){z-index:1}`, root, "", "z-index", "")
	check(`p:has(~ p){z-index:1}`, p1, "", "z-index", "1")
	check(`[title~="there"]{z-index:1} [data-k|=v]{z-index:2} [title^=hi i]{z-index:3}`, p1, "", "z-index", "3")
	check(`[title~="there"]{z-index:1} [data-k|=v]{z-index:2}`, sp, "", "z-index", "2")
	check(`p::before{z-index:1} p{z-index:2}`, p1, "before", "z-index", "1")
	check(`p::before{z-index:1} p{z-index:2}`, p1, "", "z-index", "2")
	check(`p:hover{z-index:1}`, p2, "", "z-index", "")
	// nesting
	check(`div{ & p{z-index:1} .b{z-index:2} > span{z-index:3} }`, sp, "", "z-index", "2")
	check(`div{ & p{z-index:1} > span{z-index:3} }`, sp, "", "z-index", "3")
	check(`div{ .a &{z-index:1} }`, root, "", "z-index", "")
	check(`.a{ p&{z-index:1} }`, p1, "", "z-index", "1")
	check(`#x, p { & span{z-index:1} } div .b.b{z-index:2}`, sp, "", "z-index", "1") // & has specificity of #x
	check(`p{ @media (min-width:700px){ z-index:1; &:hover{z-index:2} } }`, p1, "", "z-index", "2")
	check(`p{ @media (min-width:900px){ z-index:1 } }`, p1, "", "z-index", "")
	// media
	check(`@media print{p{z-index:1}} @media screen and (max-width:800px){p{z-index:2}}`, p1, "", "z-index", "2")
	check(`@media (600px < width <= 800px){p{z-index:1}} @media (width > 800px){p{z-index:2}}`, p1, "", "z-index", "1")
	check(`@media not screen{p{z-index:1}} @media not (width < 100px){p{z-index:2}}`, p1, "", "z-index", "2")
	check(`@media (width >= 100px) and (not (width >= 900px)){p{z-index:1}}`, p1, "", "z-index", "1")
	check(`@container (min-width: 200px){p{z-index:1}} @container side (width > 400px){p{z-index:2}}`, p1, "", "z-index", "1")
	// layers
	check(`@layer a{p{z-index:1}} @layer b{p{z-index:2}} @layer a{p.a.b{z-index:3}}`, p1, "", "z-index", "2")
	check(`@layer b, a; @layer a{p{z-index:1}} @layer b{p{z-index:2}}`, p1, "", "z-index", "1")
	check(`p{z-index:0} @layer a{p.a{z-index:1}}`, p1, "", "z-index", "0")
	check(`@layer a{p{z-index:1!important}} @layer b{p{z-index:2!important}} p{z-index:3!important}`, p1, "", "z-index", "1")
	check(`@layer a{ @layer b{p{z-index:1}} p{z-index:2} } @layer a.b{p.a{z-index:3}}`, p1, "", "z-index", "2")
	check(`@layer {p{z-index:1}} @layer {p{z-index:2}} @layer a{p{z-index:3}}`, p1, "", "z-index", "3")
	check(`@media print{@layer x;} @layer y{p{z-index:1}} @layer x{p{z-index:2}}`, p1, "", "z-index", "2")
	check(`@media screen{@layer x;} @layer y{p{z-index:1}} @layer x{p{z-index:2}}`, p1, "", "z-index", "1")
	// shorthands
	check(`p{margin:1px 2px; margin-left:3px}`, p1, "", "margin-left", "3px")
	check(`p{margin:1px 2px; margin-left:3px}`, p1, "", "margin-bottom", "1px")
	check(`p{margin-left:3px; margin:1px 2px 4px}`, p1, "", "margin-left", "2px")
	check(`p{inset:1px 2px 3px 4px; top:auto}`, p1, "", "left", "4px")
	check(`p{border-radius:1px 2px / 3px}`, p1, "", "border-top-right-radius", "2px 3px")
	check(`p{margin-top:1px; margin-block-start:5px}`, p1, "", "margin-top", "5px")
	check(`p{margin: 1px 2}`, p1, "", "margin-top", "")
	check(`p{border-color: red #00f}`, p1, "", "border-left-color", "rgba(0 0 255 / 1)")
	// error recovery
	check(`p{z-index:1; z-index: ; color: red; : 4; z-index 5; z-index:2 !important}`, p1, "", "z-index", "2")
	check(`p{z-index:1} p,{z-index:2} p{}`, p1, "", "z-index", "1")
	check(`p{z-index:1;} } p{z-index:2}`, p1, "", "z-index", "1")
	// environment
	old := &Env{Width: 800, MediaType: "screen", Not: map[string]bool{"pe:-moz-placeholder": true, FIs: true, "fn:foo": true}}
	w := evalOne(t, `p, p::-moz-placeholder{z-index:1} :is(p){z-index:2} p{z-index:3; z-index:foo(1)}`, old, p1, "")
	if w["z-index"].Val.String() != "3" {
		t.Errorf("old env: %v", w["z-index"].Val)
	}
	w = evalOne(t, `p, p::-moz-placeholder{z-index:1} :is(p){z-index:2} p{z-index:3; z-index:foo(1)}`, env, p1, "")
	if w["z-index"].Val.String() != "foo(1)" {
		t.Errorf("new env: %v", w["z-index"].Val)
	}
}

package cssref

import (
	"hash/fnv"
	"sort"
	"strings"
)

// Feature names. The "table" features use the same public names as esbuild's `Supported` option
// (they are part of its documented API); everything else is "free" syntax that any browser may lack.
const (
	FNesting       = "nesting"
	FIs            = "is-pseudo-class"
	FInset         = "inset-property"
	FColorFuncs    = "color-functions"
	FHWB           = "hwb"
	FHexRGBA       = "hex-rgba"
	FModernRGBHSL  = "modern-rgb-hsl"
	FRebeccaPurple = "rebecca-purple"
	FMediaRange    = "media-range"

	FAtLayer     = "at:layer"
	FAtContainer = "at:container"
	FLogical     = "prop:logical"
	FAttrMod     = "sel:attr-modifier"
)

// TableFeatures lists the features esbuild's compat table knows about (and that this model
// implements); all others are free.
var TableFeatures = []string{FNesting, FIs, FInset, FColorFuncs, FHWB, FHexRGBA, FModernRGBHSL, FRebeccaPurple, FMediaRange}

// IsTableFeature reports whether f is one of TableFeatures.
func IsTableFeature(f string) bool {
	for _, t := range TableFeatures {
		if t == f {
			return true
		}
	}
	return false
}

// Env is a browser environment: what is true about the device and which syntax is understood.
type Env struct {
	Width          float64 // viewport width in px
	MediaType      string  // screen | print
	ContainerWidth float64 // width of every query container in px
	Seed           uint64  // decides the truth of opaque @supports declarations and opaque media features
	Not            map[string]bool
}

// Understands reports whether the environment understands feature f.
func (e *Env) Understands(f string) bool { return !e.Not[f] }

// UnderstandsAll reports whether every feature of the set is understood.
func (e *Env) UnderstandsAll(fs FeatureSet) bool {
	for f := range fs {
		if e.Not[f] {
			return false
		}
	}
	return true
}

// Superset reports whether e understands at least everything o understands, with the same device facts.
func (e *Env) Superset(o *Env) bool {
	if e.Width != o.Width || e.MediaType != o.MediaType || e.ContainerWidth != o.ContainerWidth || e.Seed != o.Seed {
		return false
	}
	for f := range e.Not {
		if e.Not[f] && !o.Not[f] {
			return false
		}
	}
	return true
}

// String is a stable description of the environment.
func (e *Env) String() string {
	var nots []string
	for f, v := range e.Not {
		if v {
			nots = append(nots, f)
		}
	}
	sort.Strings(nots)
	return "w=" + fmtNum(e.Width) + " " + e.MediaType + " cw=" + fmtNum(e.ContainerWidth) + " seed=" + fmtNum(float64(e.Seed)) + " lacks[" + strings.Join(nots, ",") + "]"
}

// opaqueTruth gives the environment's answer to a question it is simply told the answer to
// (an @supports declaration, a media feature outside the width family).
func (e *Env) opaqueTruth(key string) bool {
	h := fnv.New64a()
	h.Write([]byte(key))
	v := h.Sum64() ^ (e.Seed * 0x9E3779B97F4A7C15)
	v ^= v >> 29
	v *= 0xBF58476D1CE4E5B9
	v ^= v >> 32
	return v&1 == 1
}

// FeatureSet is a set of feature names.
type FeatureSet map[string]struct{}

// Add inserts features.
func (s FeatureSet) Add(fs ...string) {
	for _, f := range fs {
		s[f] = struct{}{}
	}
}

// AddAll inserts all features of o.
func (s FeatureSet) AddAll(o FeatureSet) {
	for f := range o {
		s[f] = struct{}{}
	}
}

// Sorted lists the features.
func (s FeatureSet) Sorted() []string {
	out := make([]string, 0, len(s))
	for f := range s {
		out = append(out, f)
	}
	sort.Strings(out)
	return out
}

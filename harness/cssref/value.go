package cssref

import (
	"math"
	"strings"
)

// Atom is one item of a canonical value.
type Atom struct {
	K   byte // i ident, n number, d dimension, p percentage, c colour, s string, u url, f function, k calc form, x delimiter, h hash, v pending-substitution
	S   string
	N   float64
	U   string
	C   RGBA
	L   Linear
	Sub Value
}

// Value is a canonical value: spelling differences (case of keywords and units, number formatting,
// quote style, equivalent colour notations, reducible calc()) are removed.
type Value []Atom

// String renders the canonical value for messages and opaque keys.
func (v Value) String() string {
	var parts []string
	for _, a := range v {
		switch a.K {
		case 'i', 'x', 'v':
			parts = append(parts, a.S)
		case 'h':
			parts = append(parts, "#"+a.S)
		case 'n':
			parts = append(parts, fmtNum(a.N))
		case 'd':
			parts = append(parts, fmtNum(a.N)+a.U)
		case 'p':
			parts = append(parts, fmtNum(a.N)+"%")
		case 'c':
			parts = append(parts, "rgba("+fmtNum(round6(a.C.R*255))+" "+fmtNum(round6(a.C.G*255))+" "+fmtNum(round6(a.C.B*255))+" / "+fmtNum(round6(a.C.A))+")")
		case 's':
			parts = append(parts, serializeString(a.S))
		case 'u':
			parts = append(parts, "url("+serializeString(a.S)+")")
		case 'f':
			parts = append(parts, a.S+"("+a.Sub.String()+")")
		case 'k':
			parts = append(parts, "calc"+a.L.String())
		}
	}
	return strings.Join(parts, " ")
}

func round6(f float64) float64 { return math.Round(f*1e4) / 1e4 }

// Tolerance bounds what still counts as the same value.
type Tolerance struct {
	LegacyColor float64 // per channel, in 1/255 units, when both sides are 8-bit sRGB notations
	WideColor   float64 // per channel, in 1/255 units, when a side is lab/lch/oklab/oklch/color()
	Alpha       float64 // alpha, in 1/255 units (8-bit quantisation plus three-decimal printing)
	Number      float64 // relative
	// OOGFallback: an in-gamut sRGB colour is accepted as the stand-in for an out-of-gamut wide colour
	// (a fallback for browsers without the wide notation can only be a gamut-mapped approximation)
	OOGFallback bool
}

// DefaultTolerance is what DESIGN.md C12.b/c allow.
var DefaultTolerance = Tolerance{LegacyColor: 0.51, WideColor: 1.5, Alpha: 0.64, Number: 1e-9, OOGFallback: true}

func numEq(a, b, rel float64) bool {
	d := math.Abs(a - b)
	return d <= 1e-12 || d <= rel*math.Max(math.Abs(a), math.Abs(b))
}

// EqualValues compares canonical values.
func EqualValues(a, b Value, tol Tolerance) bool {
	if len(a) != len(b) {
		return false
	}
	for i := range a {
		x, y := a[i], b[i]
		if x.K != y.K {
			return false
		}
		switch x.K {
		case 'i', 'x', 's', 'u', 'h', 'v':
			if x.S != y.S {
				return false
			}
		case 'n', 'p':
			if !numEq(x.N, y.N, tol.Number) {
				return false
			}
		case 'd':
			if x.U != y.U || !numEq(x.N, y.N, tol.Number) {
				return false
			}
		case 'c':
			if x.C.OOG != y.C.OOG && tol.OOGFallback {
				if math.Abs(x.C.A-y.C.A)*255 > tol.Alpha {
					return false
				}
				continue
			}
			t := tol.WideColor
			if x.C.Legacy && y.C.Legacy {
				t = tol.LegacyColor
			}
			if math.Abs(x.C.R-y.C.R)*255 > t || math.Abs(x.C.G-y.C.G)*255 > t || math.Abs(x.C.B-y.C.B)*255 > t || math.Abs(x.C.A-y.C.A)*255 > math.Max(tol.Alpha, 0) {
				return false
			}
		case 'f':
			if x.S != y.S || !EqualValues(x.Sub, y.Sub, tol) {
				return false
			}
		case 'k':
			if !EqualLinear(x.L, y.L, tol.Number) {
				return false
			}
		}
	}
	return true
}

// ---------------------------------------------------------------------------- property table

type propKind uint8

const (
	pkOpaque      propKind = iota
	pkLength               // <length-percentage>
	pkLengthAuto           // <length-percentage> | auto
	pkBorderWidth          // <length> | thin | medium | thick
	pkBorderStyle
	pkColor
	pkRadius // <length-percentage>{1,2}
)

var sides = [4]string{"top", "right", "bottom", "left"}
var corners = [4]string{"top-left", "top-right", "bottom-right", "bottom-left"}

type boxFamily struct {
	shorthand string
	longhands [4]string
	kind      propKind
}

var boxFamilies = []boxFamily{
	{"margin", [4]string{"margin-top", "margin-right", "margin-bottom", "margin-left"}, pkLengthAuto},
	{"padding", [4]string{"padding-top", "padding-right", "padding-bottom", "padding-left"}, pkLength},
	{"inset", [4]string{"top", "right", "bottom", "left"}, pkLengthAuto},
	{"border-width", [4]string{"border-top-width", "border-right-width", "border-bottom-width", "border-left-width"}, pkBorderWidth},
	{"border-style", [4]string{"border-top-style", "border-right-style", "border-bottom-style", "border-left-style"}, pkBorderStyle},
	{"border-color", [4]string{"border-top-color", "border-right-color", "border-bottom-color", "border-left-color"}, pkColor},
}

var radiusLonghands = [4]string{"border-top-left-radius", "border-top-right-radius", "border-bottom-right-radius", "border-bottom-left-radius"}

var longhandKinds = map[string]propKind{}
var shorthandFamily = map[string]*boxFamily{}

// logical longhands/shorthands of the three box families, mapped for writing-mode horizontal-tb, direction ltr
var logicalLonghand = map[string]string{}
var logicalPair = map[string][2]string{}

var colorProps = []string{"color", "background-color", "outline-color", "caret-color", "text-decoration-color", "column-rule-color", "fill", "stroke"}

func init() {
	for i := range boxFamilies {
		f := &boxFamilies[i]
		shorthandFamily[f.shorthand] = f
		for _, l := range f.longhands {
			longhandKinds[l] = f.kind
		}
	}
	for _, l := range radiusLonghands {
		longhandKinds[l] = pkRadius
	}
	for _, p := range colorProps {
		longhandKinds[p] = pkColor
	}
	for _, fam := range []string{"margin", "padding"} {
		logicalLonghand[fam+"-block-start"] = fam + "-top"
		logicalLonghand[fam+"-block-end"] = fam + "-bottom"
		logicalLonghand[fam+"-inline-start"] = fam + "-left"
		logicalLonghand[fam+"-inline-end"] = fam + "-right"
		logicalPair[fam+"-block"] = [2]string{fam + "-top", fam + "-bottom"}
		logicalPair[fam+"-inline"] = [2]string{fam + "-left", fam + "-right"}
	}
	logicalLonghand["inset-block-start"] = "top"
	logicalLonghand["inset-block-end"] = "bottom"
	logicalLonghand["inset-inline-start"] = "left"
	logicalLonghand["inset-inline-end"] = "right"
	logicalPair["inset-block"] = [2]string{"top", "bottom"}
	logicalPair["inset-inline"] = [2]string{"left", "right"}
	logicalLonghand["border-start-start-radius"] = "border-top-left-radius"
	logicalLonghand["border-start-end-radius"] = "border-top-right-radius"
	logicalLonghand["border-end-start-radius"] = "border-bottom-left-radius"
	logicalLonghand["border-end-end-radius"] = "border-bottom-right-radius"
}

func kindOf(prop string) propKind {
	if k, ok := longhandKinds[prop]; ok {
		return k
	}
	return pkOpaque
}

// IsShorthand reports whether the model expands the property.
func IsShorthand(prop string) bool {
	if _, ok := shorthandFamily[prop]; ok {
		return true
	}
	if _, ok := logicalPair[prop]; ok {
		return true
	}
	return prop == "border-radius"
}

var baselineUnits = map[string]bool{"px": true, "em": true, "cm": true, "mm": true, "in": true, "pt": true, "pc": true, "deg": true, "s": true, "ms": true}
var lengthUnits = map[string]bool{"px": true, "em": true, "cm": true, "mm": true, "in": true, "pt": true, "pc": true, "q": true, "rem": true, "ex": true, "ch": true,
	"vw": true, "vh": true, "vmin": true, "vmax": true, "lh": true, "rlh": true, "svw": true, "svh": true, "dvw": true, "dvh": true, "lvw": true, "lvh": true, "cqw": true, "cqh": true}

var knownFunctions = map[string]bool{"calc": true, "var": true, "url": true}

func hasVar(cvs []CV) bool {
	for _, c := range cvs {
		if c.IsFunc("var") {
			return true
		}
		if len(c.Children) > 0 && hasVar(c.Children) {
			return true
		}
	}
	return false
}

// PropertyFeatures returns the features needed to understand the property name itself.
func PropertyFeatures(prop string) FeatureSet {
	fs := FeatureSet{}
	if prop == "inset" {
		fs.Add(FInset)
	}
	if _, ok := logicalLonghand[prop]; ok {
		fs.Add(FLogical)
	}
	if _, ok := logicalPair[prop]; ok {
		fs.Add(FLogical)
	}
	if strings.HasPrefix(prop, "-") && !strings.HasPrefix(prop, "--") {
		fs.Add("prop:" + prop)
	}
	return fs
}

// ValueFeatures returns the syntax features a declaration needs (property and value).
func ValueFeatures(prop string, val []CV) FeatureSet {
	fs := PropertyFeatures(prop)
	if strings.HasPrefix(prop, "--") || hasVar(val) {
		return fs
	}
	colorCtx := kindOf(prop) == pkColor || prop == "border-color"
	var walk func(cvs []CV, inColorFn bool)
	walk = func(cvs []CV, inColorFn bool) {
		for _, c := range cvs {
			switch {
			case c.Kind == Function:
				name := strings.ToLower(c.Value)
				if colorCtx && LooksLikeColor(c) {
					if info, ok := ParseColor(c); ok {
						fs.AddAll(info.Feats)
					} else {
						fs.Add("fn:" + name)
					}
					continue
				}
				if !knownFunctions[name] {
					fs.Add("fn:" + name)
				}
				walk(c.Children, false)
			case c.Block:
				walk(c.Children, false)
			case c.Kind == Dimension:
				if u := strings.ToLower(c.Unit); !baselineUnits[u] {
					fs.Add("unit:" + u)
				}
			case c.Kind == Hash:
				if colorCtx {
					if info, ok := ParseColor(c); ok {
						fs.AddAll(info.Feats)
					}
				}
			case c.Kind == Ident:
				if colorCtx {
					if info, ok := ParseColor(c); ok {
						fs.AddAll(info.Feats)
					}
				}
				if v := c.Value; len(v) > 2 && v[0] == '-' && v[1] != '-' {
					fs.Add("kw:" + strings.ToLower(v))
				}
			}
		}
	}
	walk(val, false)
	return fs
}

// ---------------------------------------------------------------------------- canonicalisation

var cssWide = map[string]bool{"inherit": true, "initial": true, "unset": true, "revert": true, "revert-layer": true}

// CanonicalValue canonicalises the value of a longhand (or any token sequence when prop == "").
func CanonicalValue(prop string, cvs []CV) Value {
	kind := kindOf(prop)
	return canonical(cvs, kind, prop == "" || kind == pkOpaque)
}

func canonical(cvs []CV, kind propKind, keepCase bool) Value {
	var out Value
	lengthCtx := kind == pkLength || kind == pkLengthAuto || kind == pkBorderWidth || kind == pkRadius
	for _, c := range cvs {
		switch {
		case c.Kind == Whitespace:
		case c.Kind == Ident && !c.Block:
			if kind == pkColor {
				if info, ok := ParseColor(c); ok {
					out = append(out, Atom{K: 'c', C: info.RGBA})
					continue
				}
			}
			s := c.Value
			if !keepCase || cssWide[strings.ToLower(s)] {
				s = strings.ToLower(s)
			}
			out = append(out, Atom{K: 'i', S: serializeIdent(s)})
		case c.Kind == Number:
			if lengthCtx && c.Num == 0 {
				out = append(out, Atom{K: 'd', N: 0, U: "px"})
			} else {
				out = append(out, Atom{K: 'n', N: c.Num})
			}
		case c.Kind == Percentage:
			out = append(out, Atom{K: 'p', N: c.Num})
		case c.Kind == Dimension:
			v, u := normUnit(c.Num, c.Unit)
			if v == 0 && lengthUnits[u] {
				u = "px" // every zero length is the same length
			}
			out = append(out, Atom{K: 'd', N: v, U: serializeIdent(u)})
		case c.Kind == Hash:
			if kind == pkColor {
				if info, ok := ParseColor(c); ok {
					out = append(out, Atom{K: 'c', C: info.RGBA})
					continue
				}
			}
			out = append(out, Atom{K: 'h', S: serializeIdent(c.Value)})
		case c.Kind == String:
			out = append(out, Atom{K: 's', S: c.Value})
		case c.Kind == URL:
			out = append(out, Atom{K: 'u', S: c.Value})
		case c.Kind == Function:
			name := strings.ToLower(c.Value)
			if kind == pkColor {
				if info, ok := ParseColor(c); ok {
					out = append(out, Atom{K: 'c', C: info.RGBA})
					continue
				}
			}
			if name == "calc" {
				if l, ok := ParseCalc(c.Children); ok {
					out = append(out, simplifyLinear(l, lengthCtx))
					continue
				}
			}
			if name == "url" {
				args := nonWS(c.Children)
				if len(args) == 1 && args[0].Kind == String {
					out = append(out, Atom{K: 'u', S: args[0].Value})
					continue
				}
			}
			out = append(out, Atom{K: 'f', S: name, Sub: canonical(c.Children, pkOpaque, true)})
		case c.Block:
			open := map[Kind]string{LParen: "(", LBracket: "[", LBrace: "{"}[c.Kind]
			out = append(out, Atom{K: 'f', S: open, Sub: canonical(c.Children, pkOpaque, true)})
		case c.Kind == Comma:
			out = append(out, Atom{K: 'x', S: ","})
		case c.Kind == Delim:
			out = append(out, Atom{K: 'x', S: c.Value})
		default:
			out = append(out, Atom{K: 'x', S: serializeOne(c)})
		}
	}
	return out
}

// simplifyLinear turns a calc form that is a single plain term into the plain value.
func simplifyLinear(l Linear, lengthCtx bool) Atom {
	ms := l.nonZero()
	if len(ms) == 0 {
		// everything cancelled: a zero of the expression's type (any zero length is 0px)
		hasLen, hasPct, other := false, false, ""
		for _, m := range l {
			if len(m.Opaque) != 0 {
				continue
			}
			switch {
			case m.Unit == "":
			case m.Unit == "%":
				hasPct = true
			case lengthUnits[m.Unit]:
				hasLen = true
			default:
				if other == "" || m.Unit < other {
					other = m.Unit
				}
			}
		}
		switch {
		case hasLen:
			return Atom{K: 'd', N: 0, U: "px"}
		case other != "":
			return Atom{K: 'd', N: 0, U: other}
		case hasPct:
			return Atom{K: 'p', N: 0}
		}
		if lengthCtx {
			return Atom{K: 'd', N: 0, U: "px"}
		}
		return Atom{K: 'n', N: 0}
	}
	if len(ms) == 1 && len(ms[0].Opaque) == 0 && len(l) == 1 {
		m := ms[0]
		switch m.Unit {
		case "":
			if lengthCtx && m.Coef == 0 {
				return Atom{K: 'd', N: 0, U: "px"}
			}
			return Atom{K: 'n', N: m.Coef}
		case "%":
			return Atom{K: 'p', N: m.Coef}
		default:
			return Atom{K: 'd', N: m.Coef, U: m.Unit}
		}
	}
	return Atom{K: 'k', L: l}
}

// ---------------------------------------------------------------------------- validity and expansion

// validComponent: is a single component value valid for the kind? (only what the model needs)
func validComponent(c CV, kind propKind) bool {
	if c.Kind == Function {
		name := strings.ToLower(c.Value)
		if kind == pkColor {
			if LooksLikeColor(c) {
				_, ok := ParseColor(c)
				return ok
			}
			return !knownFunctions[name] // an unknown function: validity is the environment's business
		}
		if kind == pkBorderStyle {
			return !knownFunctions[name]
		}
		if name == "calc" {
			_, ok := ParseCalc(c.Children)
			return ok
		}
		return name != "url"
	}
	switch kind {
	case pkLength, pkLengthAuto, pkRadius, pkBorderWidth:
		switch c.Kind {
		case Number:
			return c.Num == 0
		case Dimension:
			return lengthUnits[strings.ToLower(c.Unit)]
		case Percentage:
			return kind != pkBorderWidth
		case Ident:
			v := strings.ToLower(c.Value)
			if kind == pkLengthAuto && v == "auto" {
				return true
			}
			if kind == pkBorderWidth && (v == "thin" || v == "medium" || v == "thick") {
				return true
			}
			return len(v) > 2 && v[0] == '-' && v[1] != '-' // vendor keyword: environment's business
		}
		return false
	case pkBorderStyle:
		if c.Kind != Ident {
			return false
		}
		switch strings.ToLower(c.Value) {
		case "none", "hidden", "dotted", "dashed", "solid", "double", "groove", "ridge", "inset", "outset":
			return true
		}
		return false
	case pkColor:
		switch c.Kind {
		case Ident:
			if _, ok := ParseColor(c); ok {
				return true
			}
			v := strings.ToLower(c.Value)
			return v == "currentcolor" || (len(v) > 2 && v[0] == '-' && v[1] != '-')
		case Hash:
			_, ok := ParseColor(c)
			return ok
		}
		return false
	}
	return true
}

// hasBadToken: bad strings/urls and unmatched closing brackets make a declaration invalid (CSS Syntax 3 §5.4.x).
func hasBadToken(cvs []CV) bool {
	for _, c := range cvs {
		switch c.Kind {
		case BadString, BadURL, RBrace, RBracket, RParen:
			return true
		}
		if !c.Block && c.Kind == LBrace {
			return true
		}
		if len(c.Children) > 0 && hasBadToken(c.Children) {
			return true
		}
	}
	return false
}

// Longhand is one longhand declaration produced by expansion.
type Longhand struct {
	Prop string
	Val  Value
}

func pending(prop string, val []CV, part string) Value {
	return Value{Atom{K: 'v', S: "⟨" + prop + ": " + canonical(val, pkOpaque, true).String() + "⟩" + part}}
}

// Expand turns a declaration into longhand declarations with canonical values. ok == false: the
// declaration is invalid (in every environment) and is dropped. Properties outside the box families
// are single opaque longhands. Logical properties are mapped to physical ones for a horizontal-tb,
// ltr element (the only kind in the element universe).
func Expand(name string, val []CV) (out []Longhand, ok bool) {
	val = trimWS(val)
	if strings.HasPrefix(name, "--") {
		return []Longhand{{name, canonical(val, pkOpaque, true)}}, true
	}
	if len(val) == 0 || hasBadToken(val) {
		return nil, false
	}
	comps := nonWS(val)
	wide := len(comps) == 1 && comps[0].Kind == Ident && cssWide[strings.ToLower(comps[0].Value)]
	withVar := hasVar(val)

	targets := func() []string {
		if f, ok := shorthandFamily[name]; ok {
			return f.longhands[:]
		}
		if p, ok := logicalPair[name]; ok {
			return p[:]
		}
		if name == "border-radius" {
			return radiusLonghands[:]
		}
		if l, ok := logicalLonghand[name]; ok {
			return []string{l}
		}
		return []string{name}
	}()
	if wide {
		for _, t := range targets {
			out = append(out, Longhand{t, Value{Atom{K: 'i', S: strings.ToLower(comps[0].Value)}}})
		}
		return out, true
	}
	if withVar {
		if len(targets) == 1 {
			return []Longhand{{targets[0], canonical(val, pkOpaque, true)}}, true
		}
		for _, t := range targets {
			out = append(out, Longhand{t, pending(name, val, "#"+t)})
		}
		return out, true
	}

	if f, ok := shorthandFamily[name]; ok {
		if len(comps) < 1 || len(comps) > 4 {
			return nil, false
		}
		for _, c := range comps {
			if !validComponent(c, f.kind) {
				return nil, false
			}
		}
		idx := [4]int{0, 0, 0, 0}
		switch len(comps) {
		case 2:
			idx = [4]int{0, 1, 0, 1}
		case 3:
			idx = [4]int{0, 1, 2, 1}
		case 4:
			idx = [4]int{0, 1, 2, 3}
		}
		for i, l := range f.longhands {
			out = append(out, Longhand{l, canonical([]CV{comps[idx[i]]}, f.kind, false)})
		}
		return out, true
	}
	if p, ok := logicalPair[name]; ok {
		kind := kindOf(p[0])
		if len(comps) < 1 || len(comps) > 2 {
			return nil, false
		}
		for _, c := range comps {
			if !validComponent(c, kind) {
				return nil, false
			}
		}
		out = append(out, Longhand{p[0], canonical([]CV{comps[0]}, kind, false)})
		out = append(out, Longhand{p[1], canonical([]CV{comps[len(comps)-1]}, kind, false)})
		return out, true
	}
	if name == "border-radius" {
		var h, v []CV
		slash := -1
		for i, c := range comps {
			if c.IsDelim("/") {
				if slash >= 0 {
					return nil, false
				}
				slash = i
			}
		}
		if slash >= 0 {
			h, v = comps[:slash], comps[slash+1:]
		} else {
			h, v = comps, comps
		}
		if len(h) < 1 || len(h) > 4 || len(v) < 1 || len(v) > 4 {
			return nil, false
		}
		for _, c := range append(append([]CV{}, h...), v...) {
			if !validComponent(c, pkRadius) {
				return nil, false
			}
		}
		pick := func(list []CV, i int) CV {
			switch len(list) {
			case 1:
				return list[0]
			case 2:
				return list[[4]int{0, 1, 0, 1}[i]]
			case 3:
				return list[[4]int{0, 1, 2, 1}[i]]
			}
			return list[i]
		}
		for i, l := range radiusLonghands {
			out = append(out, Longhand{l, canonical([]CV{pick(h, i), pick(v, i)}, pkRadius, false)})
		}
		return out, true
	}
	target := targets[0]
	kind := kindOf(target)
	switch kind {
	case pkOpaque:
		return []Longhand{{target, canonical(val, pkOpaque, true)}}, true
	case pkRadius:
		if len(comps) < 1 || len(comps) > 2 {
			return nil, false
		}
		for _, c := range comps {
			if !validComponent(c, kind) {
				return nil, false
			}
		}
		return []Longhand{{target, canonical([]CV{comps[0], comps[len(comps)-1]}, kind, false)}}, true
	default:
		if len(comps) != 1 || !validComponent(comps[0], kind) {
			return nil, false
		}
		return []Longhand{{target, canonical(comps, kind, false)}}, true
	}
}

package cssref

import (
	"math"
	"strings"
)

// Colour conversion written from CSS Color 4 (§§5–10, 17), the CIE Lab definition, Björn Ottosson's
// OKLab definition and the published chromaticities of each RGB space. The RGB<->XYZ matrices are
// derived here from primaries and white points instead of being copied from anywhere.

// RGBA is a colour in gamma-encoded sRGB, components nominally in [0,1] (may exceed for wide gamut).
type RGBA struct {
	R, G, B, A float64
	Legacy     bool // came from a notation browsers resolve to 8-bit sRGB (hex, named, rgb(), hsl(), hwb())
	OOG        bool // a wide-gamut notation whose colour lies outside the sRGB gamut
}

type mat3 [3][3]float64

func (m mat3) mulVec(v [3]float64) [3]float64 {
	var o [3]float64
	for i := 0; i < 3; i++ {
		o[i] = m[i][0]*v[0] + m[i][1]*v[1] + m[i][2]*v[2]
	}
	return o
}

func (m mat3) mul(n mat3) mat3 {
	var o mat3
	for i := 0; i < 3; i++ {
		for j := 0; j < 3; j++ {
			for k := 0; k < 3; k++ {
				o[i][j] += m[i][k] * n[k][j]
			}
		}
	}
	return o
}

func (m mat3) inv() mat3 {
	a, b, c := m[0][0], m[0][1], m[0][2]
	d, e, f := m[1][0], m[1][1], m[1][2]
	g, h, i := m[2][0], m[2][1], m[2][2]
	A := e*i - f*h
	B := -(d*i - f*g)
	C := d*h - e*g
	det := a*A + b*B + c*C
	return mat3{
		{A / det, -(b*i - c*h) / det, (b*f - c*e) / det},
		{B / det, (a*i - c*g) / det, -(a*f - c*d) / det},
		{C / det, -(a*h - b*g) / det, (a*e - b*d) / det},
	}
}

func xyToXYZ(x, y float64) [3]float64 { return [3]float64{x / y, 1, (1 - x - y) / y} }

var (
	whiteD65 = xyToXYZ(0.3127, 0.3290)
	whiteD50 = xyToXYZ(0.3457, 0.3585)
)

// rgbToXYZMatrix derives the linear-RGB -> XYZ matrix from the chromaticities of the primaries and
// the white point (columns are the primaries scaled so that RGB(1,1,1) maps to the white point).
func rgbToXYZMatrix(xr, yr, xg, yg, xb, yb float64, white [3]float64) mat3 {
	r, g, b := xyToXYZ(xr, yr), xyToXYZ(xg, yg), xyToXYZ(xb, yb)
	p := mat3{{r[0], g[0], b[0]}, {r[1], g[1], b[1]}, {r[2], g[2], b[2]}}
	s := p.inv().mulVec(white)
	return mat3{
		{p[0][0] * s[0], p[0][1] * s[1], p[0][2] * s[2]},
		{p[1][0] * s[0], p[1][1] * s[1], p[1][2] * s[2]},
		{p[2][0] * s[0], p[2][1] * s[1], p[2][2] * s[2]},
	}
}

// Bradford cone response matrix (Lam 1985), used for linear chromatic adaptation as Color 4 does.
var bradford = mat3{{0.8951, 0.2664, -0.1614}, {-0.7502, 1.7135, 0.0367}, {0.0389, -0.0685, 1.0296}}

func adaptation(from, to [3]float64) mat3 {
	s := bradford.mulVec(from)
	d := bradford.mulVec(to)
	scale := mat3{{d[0] / s[0], 0, 0}, {0, d[1] / s[1], 0}, {0, 0, d[2] / s[2]}}
	return bradford.inv().mul(scale).mul(bradford)
}

var (
	mSRGB     = rgbToXYZMatrix(0.64, 0.33, 0.30, 0.60, 0.15, 0.06, whiteD65)
	mP3       = rgbToXYZMatrix(0.680, 0.320, 0.265, 0.690, 0.150, 0.060, whiteD65)
	mA98      = rgbToXYZMatrix(0.6400, 0.3300, 0.2100, 0.7100, 0.1500, 0.0600, whiteD65)
	mProPhoto = rgbToXYZMatrix(0.734699, 0.265301, 0.159597, 0.840403, 0.036598, 0.000105, whiteD50)
	mRec2020  = rgbToXYZMatrix(0.708, 0.292, 0.170, 0.797, 0.131, 0.046, whiteD65)
	mSRGBInv  = mSRGB.inv()
	d50ToD65  = adaptation(whiteD50, whiteD65)
	d65ToD50  = adaptation(whiteD65, whiteD50)
)

func signPow(v, e float64) float64 {
	if v < 0 {
		return -math.Pow(-v, e)
	}
	return math.Pow(v, e)
}

func srgbToLinear(v float64) float64 {
	a := math.Abs(v)
	if a <= 0.04045 {
		return v / 12.92
	}
	return math.Copysign(math.Pow((a+0.055)/1.055, 2.4), v)
}

func linearToSRGB(v float64) float64 {
	a := math.Abs(v)
	if a <= 0.0031308 {
		return v * 12.92
	}
	return math.Copysign(1.055*math.Pow(a, 1/2.4)-0.055, v)
}

func a98ToLinear(v float64) float64 { return signPow(v, 563.0/256.0) }
func linearToA98(v float64) float64 { return signPow(v, 256.0/563.0) }

func proPhotoToLinear(v float64) float64 {
	a := math.Abs(v)
	if a <= 16.0/512.0 {
		return v / 16
	}
	return math.Copysign(math.Pow(a, 1.8), v)
}

func linearToProPhoto(v float64) float64 {
	a := math.Abs(v)
	if a >= 1.0/512.0 {
		return math.Copysign(math.Pow(a, 1/1.8), v)
	}
	return 16 * v
}

const (
	rec2020Alpha = 1.09929682680944
	rec2020Beta  = 0.018053968510807
)

func rec2020ToLinear(v float64) float64 {
	a := math.Abs(v)
	if a < rec2020Beta*4.5 {
		return v / 4.5
	}
	return math.Copysign(math.Pow((a+rec2020Alpha-1)/rec2020Alpha, 1/0.45), v)
}

func linearToRec2020(v float64) float64 {
	a := math.Abs(v)
	if a > rec2020Beta {
		return math.Copysign(rec2020Alpha*math.Pow(a, 0.45)-(rec2020Alpha-1), v)
	}
	return 4.5 * v
}

func map3(v [3]float64, f func(float64) float64) [3]float64 {
	return [3]float64{f(v[0]), f(v[1]), f(v[2])}
}

// xyzD65ToSRGB converts CIE XYZ (D65) to gamma-encoded sRGB without gamut mapping.
func xyzD65ToSRGB(xyz [3]float64) [3]float64 {
	return map3(mSRGBInv.mulVec(xyz), linearToSRGB)
}

func srgbToXYZD65(rgb [3]float64) [3]float64 {
	return mSRGB.mulVec(map3(rgb, srgbToLinear))
}

// CIE Lab (D50)
const (
	labKappa   = 24389.0 / 27.0
	labEpsilon = 216.0 / 24389.0
)

func labToXYZD50(l, a, b float64) [3]float64 {
	fy := (l + 16) / 116
	fx := a/500 + fy
	fz := fy - b/200
	var x, y, z float64
	if fx*fx*fx > labEpsilon {
		x = fx * fx * fx
	} else {
		x = (116*fx - 16) / labKappa
	}
	if l > labKappa*labEpsilon {
		y = math.Pow((l+16)/116, 3)
	} else {
		y = l / labKappa
	}
	if fz*fz*fz > labEpsilon {
		z = fz * fz * fz
	} else {
		z = (116*fz - 16) / labKappa
	}
	return [3]float64{x * whiteD50[0], y * whiteD50[1], z * whiteD50[2]}
}

func xyzD50ToLab(xyz [3]float64) (l, a, b float64) {
	f := func(t float64) float64 {
		if t > labEpsilon {
			return math.Cbrt(t)
		}
		return (labKappa*t + 16) / 116
	}
	fx, fy, fz := f(xyz[0]/whiteD50[0]), f(xyz[1]/whiteD50[1]), f(xyz[2]/whiteD50[2])
	return 116*fy - 16, 500 * (fx - fy), 200 * (fy - fz)
}

// OKLab (Ottosson 2020; M1 is his XYZ(D65) -> LMS matrix, M2 the LMS' -> Lab matrix).
var (
	okM1 = mat3{{0.8189330101, 0.3618667424, -0.1288597137}, {0.0329845436, 0.9293118715, 0.0361456387}, {0.0482003018, 0.2643662691, 0.6338517070}}
	okM2 = mat3{{0.2104542553, 0.7936177850, -0.0040720468}, {1.9779984951, -2.4285922050, 0.4505937099}, {0.0259040371, 0.7827717662, -0.8086757660}}
)

func oklabToXYZD65(l, a, b float64) [3]float64 {
	lms := okM2.inv().mulVec([3]float64{l, a, b})
	lms = map3(lms, func(v float64) float64 { return v * v * v })
	return okM1.inv().mulVec(lms)
}

func xyzD65ToOKLab(xyz [3]float64) (l, a, b float64) {
	lms := map3(okM1.mulVec(xyz), math.Cbrt)
	o := okM2.mulVec(lms)
	return o[0], o[1], o[2]
}

func hslToRGB(h, s, l float64) [3]float64 {
	h = math.Mod(h, 360)
	if h < 0 {
		h += 360
	}
	f := func(n float64) float64 {
		k := math.Mod(n+h/30, 12)
		a := s * math.Min(l, 1-l)
		return l - a*math.Max(-1, math.Min(math.Min(k-3, 9-k), 1))
	}
	return [3]float64{f(0), f(8), f(4)}
}

func hwbToRGB(h, w, b float64) [3]float64 {
	if w+b >= 1 {
		g := w / (w + b)
		return [3]float64{g, g, g}
	}
	rgb := hslToRGB(h, 1, 0.5)
	for i := range rgb {
		rgb[i] = rgb[i]*(1-w-b) + w
	}
	return rgb
}

// RGBToHSL returns hue in degrees and s, l in [0,1].
func RGBToHSL(r, g, b float64) (h, s, l float64) {
	mx := math.Max(r, math.Max(g, b))
	mn := math.Min(r, math.Min(g, b))
	l = (mx + mn) / 2
	d := mx - mn
	if d != 0 {
		if l == 0 || l == 1 {
			s = 0
		} else {
			s = (mx - l) / math.Min(l, 1-l)
		}
		switch mx {
		case r:
			h = (g - b) / d
			if g < b {
				h += 6
			}
		case g:
			h = (b-r)/d + 2
		default:
			h = (r-g)/d + 4
		}
		h *= 60
	}
	return
}

// RGBToHWB returns hue in degrees and whiteness, blackness in [0,1].
func RGBToHWB(r, g, b float64) (h, w, bl float64) {
	h, _, _ = RGBToHSL(r, g, b)
	w = math.Min(r, math.Min(g, b))
	bl = 1 - math.Max(r, math.Max(g, b))
	return
}

// SRGBTo converts a gamma-encoded sRGB triple to the coordinates of another notation:
// lab, lch, oklab, oklch, srgb, srgb-linear, display-p3, a98-rgb, prophoto-rgb, rec2020, xyz, xyz-d65, xyz-d50.
func SRGBTo(space string, rgb [3]float64) [3]float64 {
	xyz := srgbToXYZD65(rgb)
	switch space {
	case "srgb":
		return rgb
	case "srgb-linear":
		return map3(rgb, srgbToLinear)
	case "display-p3":
		return map3(mP3.inv().mulVec(xyz), linearToSRGB)
	case "a98-rgb":
		return map3(mA98.inv().mulVec(xyz), linearToA98)
	case "prophoto-rgb":
		return map3(mProPhoto.inv().mulVec(d65ToD50.mulVec(xyz)), linearToProPhoto)
	case "rec2020":
		return map3(mRec2020.inv().mulVec(xyz), linearToRec2020)
	case "xyz", "xyz-d65":
		return xyz
	case "xyz-d50":
		return d65ToD50.mulVec(xyz)
	case "lab", "lch":
		l, a, b := xyzD50ToLab(d65ToD50.mulVec(xyz))
		if space == "lab" {
			return [3]float64{l, a, b}
		}
		h := math.Atan2(b, a) * 180 / math.Pi
		if h < 0 {
			h += 360
		}
		return [3]float64{l, math.Hypot(a, b), h}
	case "oklab", "oklch":
		l, a, b := xyzD65ToOKLab(xyz)
		if space == "oklab" {
			return [3]float64{l, a, b}
		}
		h := math.Atan2(b, a) * 180 / math.Pi
		if h < 0 {
			h += 360
		}
		return [3]float64{l, math.Hypot(a, b), h}
	}
	return rgb
}

// ToSRGB converts coordinates of a colour space to gamma-encoded sRGB (unclamped).
func ToSRGB(space string, c [3]float64) ([3]float64, bool) {
	switch space {
	case "srgb":
		return c, true
	case "srgb-linear":
		return map3(c, linearToSRGB), true
	case "display-p3":
		return xyzD65ToSRGB(mP3.mulVec(map3(c, srgbToLinear))), true
	case "a98-rgb":
		return xyzD65ToSRGB(mA98.mulVec(map3(c, a98ToLinear))), true
	case "prophoto-rgb":
		return xyzD65ToSRGB(d50ToD65.mulVec(mProPhoto.mulVec(map3(c, proPhotoToLinear)))), true
	case "rec2020":
		return xyzD65ToSRGB(mRec2020.mulVec(map3(c, rec2020ToLinear))), true
	case "xyz", "xyz-d65":
		return xyzD65ToSRGB(c), true
	case "xyz-d50":
		return xyzD65ToSRGB(d50ToD65.mulVec(c)), true
	case "lab":
		return xyzD65ToSRGB(d50ToD65.mulVec(labToXYZD50(c[0], c[1], c[2]))), true
	case "lch":
		h := c[2] * math.Pi / 180
		return xyzD65ToSRGB(d50ToD65.mulVec(labToXYZD50(c[0], c[1]*math.Cos(h), c[1]*math.Sin(h)))), true
	case "oklab":
		return xyzD65ToSRGB(oklabToXYZD65(c[0], c[1], c[2])), true
	case "oklch":
		h := c[2] * math.Pi / 180
		return xyzD65ToSRGB(oklabToXYZD65(c[0], c[1]*math.Cos(h), c[1]*math.Sin(h))), true
	}
	return c, false
}

// NamedColors is the subset of named colours the model knows (CSS Color 4 §6.1; values from the table).
var NamedColors = map[string]uint32{
	"black": 0x000000, "silver": 0xc0c0c0, "gray": 0x808080, "white": 0xffffff, "maroon": 0x800000, "red": 0xff0000,
	"purple": 0x800080, "fuchsia": 0xff00ff, "green": 0x008000, "lime": 0x00ff00, "olive": 0x808000, "yellow": 0xffff00,
	"navy": 0x000080, "blue": 0x0000ff, "teal": 0x008080, "aqua": 0x00ffff, "orange": 0xffa500, "tan": 0xd2b48c,
	"pink": 0xffc0cb, "gold": 0xffd700, "coral": 0xff7f50, "salmon": 0xfa8072, "khaki": 0xf0e68c, "plum": 0xdda0dd,
	"peru": 0xcd853f, "linen": 0xfaf0e6, "ivory": 0xfffff0, "azure": 0xf0ffff, "beige": 0xf5f5dc, "wheat": 0xf5deb3,
	"snow": 0xfffafa, "sienna": 0xa0522d, "orchid": 0xda70d6, "indigo": 0x4b0082, "crimson": 0xdc143c, "cyan": 0x00ffff,
	"magenta": 0xff00ff, "grey": 0x808080, "rebeccapurple": 0x663399, "cornflowerblue": 0x6495ed, "darkslategray": 0x2f4f4f,
	"lightgoldenrodyellow": 0xfafad2, "mediumspringgreen": 0x00fa9a, "tomato": 0xff6347, "violet": 0xee82ee, "bisque": 0xffe4c4,
}

func hexDigit(b byte) (int, bool) {
	switch {
	case b >= '0' && b <= '9':
		return int(b - '0'), true
	case b >= 'a' && b <= 'f':
		return int(b-'a') + 10, true
	case b >= 'A' && b <= 'F':
		return int(b-'A') + 10, true
	}
	return 0, false
}

// ColorInfo describes a parsed colour value.
type ColorInfo struct {
	RGBA
	Feats FeatureSet // syntax features the notation needs
	// OutOfGamut: a non-legacy colour whose sRGB coordinates fall outside [0,1] (beyond rounding noise)
	OutOfGamut bool
}

type colorArg struct {
	kind byte // 'n' number, 'p' percentage, 'a' angle (degrees), 'x' none
	v    float64
}

func angleDegrees(c CV) (float64, bool) {
	switch strings.ToLower(c.Unit) {
	case "deg":
		return c.Num, true
	case "grad":
		return c.Num * 360 / 400, true
	case "rad":
		return c.Num * 180 / math.Pi, true
	case "turn":
		return c.Num * 360, true
	}
	return 0, false
}

func colorArgOf(c CV) (colorArg, bool) {
	switch c.Kind {
	case Number:
		return colorArg{'n', c.Num}, true
	case Percentage:
		return colorArg{'p', c.Num}, true
	case Dimension:
		if d, ok := angleDegrees(c); ok {
			return colorArg{'a', d}, true
		}
	case Ident:
		if c.IsIdent("none") {
			return colorArg{'x', 0}, true
		}
	}
	return colorArg{}, false
}

func clamp01(v float64) float64 { return math.Max(0, math.Min(1, v)) }

// splitColorArgs reads "a b c [/ d]" or "a, b, c[, d]". legacy == comma syntax.
func splitColorArgs(cvs []CV) (args []colorArg, alpha *colorArg, legacy bool, ok bool) {
	cvs = nonWS(cvs)
	hasComma := false
	for _, c := range cvs {
		if c.Kind == Comma {
			hasComma = true
		}
	}
	if hasComma {
		parts := splitComma(cvs)
		if len(parts) != 3 && len(parts) != 4 {
			return nil, nil, true, false
		}
		for i, p := range parts {
			if len(p) != 1 {
				return nil, nil, true, false
			}
			a, ok := colorArgOf(p[0])
			if !ok || a.kind == 'x' {
				return nil, nil, true, false
			}
			if i == 3 {
				alpha = &a
			} else {
				args = append(args, a)
			}
		}
		return args, alpha, true, true
	}
	i := 0
	for ; i < len(cvs) && !cvs[i].IsDelim("/"); i++ {
		a, ok := colorArgOf(cvs[i])
		if !ok {
			return nil, nil, false, false
		}
		args = append(args, a)
	}
	if i < len(cvs) {
		if i+2 != len(cvs) {
			return nil, nil, false, false
		}
		a, ok := colorArgOf(cvs[i+1])
		if !ok {
			return nil, nil, false, false
		}
		alpha = &a
	}
	return args, alpha, false, true
}

func alphaValue(a *colorArg) (float64, bool) {
	if a == nil {
		return 1, true
	}
	switch a.kind {
	case 'n':
		return clamp01(a.v), true
	case 'p':
		return clamp01(a.v / 100), true
	case 'x':
		return 0, true
	}
	return 0, false
}

// ParseColor interprets one component value as a <color>. ok == false: not a colour this model knows.
func ParseColor(c CV) (ColorInfo, bool) {
	info := ColorInfo{Feats: FeatureSet{}}
	switch {
	case c.Kind == Ident && !c.Block:
		name := strings.ToLower(c.Value)
		if name == "transparent" {
			info.RGBA = RGBA{R: 0, G: 0, B: 0, A: 0, Legacy: true}
			return info, true
		}
		if v, ok := NamedColors[name]; ok {
			if name == "rebeccapurple" {
				info.Feats.Add(FRebeccaPurple)
			}
			info.RGBA = RGBA{R: float64(v>>16&255) / 255, G: float64(v>>8&255) / 255, B: float64(v&255) / 255, A: 1, Legacy: true}
			return info, true
		}
		return info, false
	case c.Kind == Hash:
		s := c.Value
		var d []int
		for i := 0; i < len(s); i++ {
			v, ok := hexDigit(s[i])
			if !ok {
				return info, false
			}
			d = append(d, v)
		}
		switch len(d) {
		case 3, 4:
			for i := range d {
				d[i] = d[i]*16 + d[i]
			}
			if len(d) == 4 {
				info.Feats.Add(FHexRGBA)
			} else {
				d = append(d, 255)
			}
		case 6, 8:
			var e []int
			for i := 0; i < len(d); i += 2 {
				e = append(e, d[i]*16+d[i+1])
			}
			d = e
			if len(d) == 4 {
				info.Feats.Add(FHexRGBA)
			} else {
				d = append(d, 255)
			}
		default:
			return info, false
		}
		info.RGBA = RGBA{R: float64(d[0]) / 255, G: float64(d[1]) / 255, B: float64(d[2]) / 255, A: float64(d[3]) / 255, Legacy: true}
		return info, true
	case c.Kind == Function:
		name := strings.ToLower(c.Value)
		switch name {
		case "rgb", "rgba", "hsl", "hsla", "hwb", "lab", "lch", "oklab", "oklch":
			args, alpha, legacy, ok := splitColorArgs(c.Children)
			if !ok || len(args) != 3 {
				return info, false
			}
			a, ok := alphaValue(alpha)
			if !ok {
				return info, false
			}
			num := func(i int, pctRef float64) (float64, bool) {
				switch args[i].kind {
				case 'n':
					return args[i].v, true
				case 'p':
					return args[i].v / 100 * pctRef, true
				case 'x':
					return 0, true
				}
				return 0, false
			}
			hue := func(i int) (float64, bool) {
				switch args[i].kind {
				case 'n', 'a':
					return args[i].v, true
				case 'x':
					return 0, true
				}
				return 0, false
			}
			hasNone := false
			for _, x := range args {
				if x.kind == 'x' {
					hasNone = true
				}
			}
			if alpha != nil && alpha.kind == 'x' {
				hasNone = true
			}
			switch name {
			case "rgb", "rgba":
				if legacy {
					// all numbers or all percentages
					if !(args[0].kind == args[1].kind && args[1].kind == args[2].kind) || (args[0].kind != 'n' && args[0].kind != 'p') {
						return info, false
					}
				}
				var v [3]float64
				for i := range v {
					x, ok := num(i, 255)
					if !ok || args[i].kind == 'a' {
						return info, false
					}
					v[i] = clamp01(x / 255)
				}
				modern := !legacy || hasNone || (name == "rgb" && alpha != nil) || (name == "rgba" && alpha == nil) || (alpha != nil && alpha.kind == 'p')
				if modern {
					info.Feats.Add(FModernRGBHSL)
				}
				info.RGBA = RGBA{R: v[0], G: v[1], B: v[2], A: a, Legacy: true}
				return info, true
			case "hsl", "hsla":
				h, ok := hue(0)
				if !ok {
					return info, false
				}
				if legacy && (args[1].kind != 'p' || args[2].kind != 'p') {
					return info, false
				}
				s, ok1 := num(1, 100)
				l, ok2 := num(2, 100)
				if !ok1 || !ok2 || args[1].kind == 'a' || args[2].kind == 'a' {
					return info, false
				}
				s, l = math.Max(0, s)/100, l/100
				if legacy {
					s = clamp01(s)
				}
				l = clamp01(l)
				rgb := hslToRGB(h, s, l)
				modern := !legacy || hasNone || args[0].kind == 'a' || (name == "hsl" && alpha != nil) || (name == "hsla" && alpha == nil) || (alpha != nil && alpha.kind == 'p')
				if modern {
					info.Feats.Add(FModernRGBHSL)
				}
				info.RGBA = RGBA{R: clamp01(rgb[0]), G: clamp01(rgb[1]), B: clamp01(rgb[2]), A: a, Legacy: true}
				return info, true
			case "hwb":
				if legacy {
					return info, false
				}
				h, ok := hue(0)
				w, ok1 := num(1, 100)
				b, ok2 := num(2, 100)
				if !ok || !ok1 || !ok2 || args[1].kind == 'a' || args[2].kind == 'a' {
					return info, false
				}
				rgb := hwbToRGB(h, clamp01(w/100), clamp01(b/100))
				info.Feats.Add(FHWB)
				info.RGBA = RGBA{R: clamp01(rgb[0]), G: clamp01(rgb[1]), B: clamp01(rgb[2]), A: a, Legacy: true}
				return info, true
			default:
				if legacy {
					return info, false
				}
				var v [3]float64
				var refs [3]float64
				switch name {
				case "lab":
					refs = [3]float64{100, 125, 125}
				case "lch":
					refs = [3]float64{100, 150, 0}
				case "oklab":
					refs = [3]float64{1, 0.4, 0.4}
				case "oklch":
					refs = [3]float64{1, 0.4, 0}
				}
				for i := range v {
					if i == 2 && (name == "lch" || name == "oklch") {
						x, ok := hue(i)
						if !ok {
							return info, false
						}
						v[i] = x
						continue
					}
					x, ok := num(i, refs[i])
					if !ok || args[i].kind == 'a' {
						return info, false
					}
					v[i] = x
				}
				// lightness is clamped, chroma is clamped at zero (Color 4 §9.3, §9.4)
				v[0] = math.Max(0, math.Min(refs[0], v[0]))
				if name == "lch" || name == "oklch" {
					v[1] = math.Max(0, v[1])
				}
				rgb, _ := ToSRGB(name, v)
				info.Feats.Add(FColorFuncs)
				info.OutOfGamut = outOfGamut(rgb)
				info.RGBA = RGBA{R: rgb[0], G: rgb[1], B: rgb[2], A: a, OOG: info.OutOfGamut}
				return info, true
			}
		case "color":
			cvs := nonWS(c.Children)
			if len(cvs) < 4 || cvs[0].Kind != Ident {
				return info, false
			}
			space := strings.ToLower(cvs[0].Value)
			args, alpha, legacy, ok := splitColorArgs(cvs[1:])
			if !ok || legacy || len(args) != 3 {
				return info, false
			}
			a, ok := alphaValue(alpha)
			if !ok {
				return info, false
			}
			var v [3]float64
			for i := range v {
				switch args[i].kind {
				case 'n':
					v[i] = args[i].v
				case 'p':
					v[i] = args[i].v / 100
				case 'x':
				default:
					return info, false
				}
			}
			rgb, ok := ToSRGB(space, v)
			if !ok {
				return info, false
			}
			info.Feats.Add(FColorFuncs)
			info.OutOfGamut = outOfGamut(rgb)
			info.RGBA = RGBA{R: rgb[0], G: rgb[1], B: rgb[2], A: a, OOG: info.OutOfGamut}
			return info, true
		}
	}
	return info, false
}

func outOfGamut(rgb [3]float64) bool {
	const eps = 1e-4
	for _, v := range rgb {
		if v < -eps || v > 1+eps {
			return true
		}
	}
	return false
}

// LooksLikeColor reports whether the component value is in a colour notation (known or not).
func LooksLikeColor(c CV) bool {
	if c.Kind == Function {
		switch strings.ToLower(c.Value) {
		case "rgb", "rgba", "hsl", "hsla", "hwb", "lab", "lch", "oklab", "oklch", "color", "color-mix":
			return true
		}
	}
	return false
}

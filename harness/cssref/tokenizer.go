// Package cssref is an independent reference reader and evaluator for CSS, written from the
// specifications (CSS Syntax 3, Selectors 4, Cascade 5, Nesting 1, Color 4, Values 4) with the
// standard library only. It deliberately shares no code with esbuild's css_lexer/css_parser.
// See DESIGN.md Appendix F.
package cssref

import (
	"math"
	"strconv"
	"strings"
	"unicode/utf8"
)

// Kind is a token type of CSS Syntax Level 3 §4.
type Kind uint8

const (
	EOF Kind = iota
	Ident
	Function
	AtKeyword
	Hash
	String
	BadString
	URL
	BadURL
	Delim
	Number
	Percentage
	Dimension
	Whitespace
	CDO
	CDC
	Colon
	Semicolon
	Comma
	LBracket
	RBracket
	LParen
	RParen
	LBrace
	RBrace
)

var kindNames = [...]string{"EOF", "ident", "function", "at-keyword", "hash", "string", "bad-string", "url", "bad-url", "delim", "number", "percentage", "dimension", "whitespace", "CDO", "CDC", ":", ";", ",", "[", "]", "(", ")", "{", "}"}

func (k Kind) String() string { return kindNames[k] }

// Token is one CSS token with decoded value.
type Token struct {
	Kind  Kind
	Value string  // decoded name / string value / url / delim character
	Num   float64 // number, percentage, dimension
	IsInt bool    // type flag "integer"
	Unit  string  // dimension unit (decoded, original case)
	IDish bool    // hash token type flag "id"
	Repr  string  // source spelling of the numeric part (number/percentage/dimension)
}

// preprocess implements §3.3: CRLF, CR, FF -> LF; NUL and surrogates -> U+FFFD.
func preprocess(s string) []rune {
	out := make([]rune, 0, len(s))
	for i := 0; i < len(s); {
		r, w := utf8.DecodeRuneInString(s[i:])
		i += w
		switch {
		case r == '\r':
			if i < len(s) && s[i] == '\n' {
				i++
			}
			out = append(out, '\n')
		case r == '\f':
			out = append(out, '\n')
		case r == 0:
			out = append(out, 0xFFFD)
		case r == utf8.RuneError && w == 1:
			out = append(out, 0xFFFD)
		default:
			out = append(out, r)
		}
	}
	return out
}

type tokenizer struct {
	in  []rune
	pos int
}

const eofRune = rune(-1)

func (t *tokenizer) peek(n int) rune {
	if t.pos+n < len(t.in) {
		return t.in[t.pos+n]
	}
	return eofRune
}

func isDigit(r rune) bool    { return r >= '0' && r <= '9' }
func isHexDigit(r rune) bool { return isDigit(r) || (r >= 'a' && r <= 'f') || (r >= 'A' && r <= 'F') }
func isLetter(r rune) bool   { return (r >= 'a' && r <= 'z') || (r >= 'A' && r <= 'Z') }
func isNonASCII(r rune) bool { return r >= 0x80 }
func isIdentStart(r rune) bool {
	return isLetter(r) || isNonASCII(r) || r == '_'
}
func isIdentChar(r rune) bool { return isIdentStart(r) || isDigit(r) || r == '-' }
func isNonPrintable(r rune) bool {
	return (r >= 0 && r <= 8) || r == 0xB || (r >= 0xE && r <= 0x1F) || r == 0x7F
}
func isNewline(r rune) bool { return r == '\n' }
func isWS(r rune) bool      { return r == '\n' || r == '\t' || r == ' ' }

func validEscape(a, b rune) bool { return a == '\\' && b != '\n' && b != eofRune }

func wouldStartIdent(a, b, c rune) bool {
	switch {
	case a == '-':
		return isIdentStart(b) || b == '-' || validEscape(b, c)
	case isIdentStart(a):
		return true
	case a == '\\':
		return validEscape(a, b)
	}
	return false
}

func wouldStartNumber(a, b, c rune) bool {
	switch {
	case a == '+' || a == '-':
		if isDigit(b) {
			return true
		}
		return b == '.' && isDigit(c)
	case a == '.':
		return isDigit(b)
	}
	return isDigit(a)
}

// consumeEscape assumes the backslash was consumed and the next code point is valid.
func (t *tokenizer) consumeEscape() rune {
	r := t.peek(0)
	if r == eofRune {
		return 0xFFFD
	}
	t.pos++
	if isHexDigit(r) {
		v := hexVal(r)
		for n := 1; n < 6 && isHexDigit(t.peek(0)); n++ {
			v = v*16 + hexVal(t.peek(0))
			t.pos++
		}
		if isWS(t.peek(0)) {
			t.pos++
		}
		if v == 0 || (v >= 0xD800 && v <= 0xDFFF) || v > 0x10FFFF {
			return 0xFFFD
		}
		return rune(v)
	}
	return r
}

func hexVal(r rune) int {
	switch {
	case isDigit(r):
		return int(r - '0')
	case r >= 'a' && r <= 'f':
		return int(r-'a') + 10
	}
	return int(r-'A') + 10
}

func (t *tokenizer) consumeName() string {
	var sb strings.Builder
	for {
		r := t.peek(0)
		switch {
		case r != eofRune && isIdentChar(r):
			sb.WriteRune(r)
			t.pos++
		case validEscape(r, t.peek(1)):
			t.pos++
			sb.WriteRune(t.consumeEscape())
		default:
			return sb.String()
		}
	}
}

func (t *tokenizer) consumeNumber() (val float64, isInt bool, repr string) {
	start := t.pos
	isInt = true
	if r := t.peek(0); r == '+' || r == '-' {
		t.pos++
	}
	for isDigit(t.peek(0)) {
		t.pos++
	}
	if t.peek(0) == '.' && isDigit(t.peek(1)) {
		t.pos += 2
		isInt = false
		for isDigit(t.peek(0)) {
			t.pos++
		}
	}
	if r := t.peek(0); r == 'e' || r == 'E' {
		if isDigit(t.peek(1)) {
			t.pos += 2
			isInt = false
			for isDigit(t.peek(0)) {
				t.pos++
			}
		} else if (t.peek(1) == '+' || t.peek(1) == '-') && isDigit(t.peek(2)) {
			t.pos += 3
			isInt = false
			for isDigit(t.peek(0)) {
				t.pos++
			}
		}
	}
	repr = string(t.in[start:t.pos])
	val, _ = strconv.ParseFloat(strings.TrimPrefix(repr, "+"), 64)
	if math.IsInf(val, 0) || math.IsNaN(val) {
		val = math.Copysign(math.MaxFloat64, val)
	}
	return
}

func (t *tokenizer) consumeNumeric() Token {
	val, isInt, repr := t.consumeNumber()
	if wouldStartIdent(t.peek(0), t.peek(1), t.peek(2)) {
		unit := t.consumeName()
		return Token{Kind: Dimension, Num: val, IsInt: isInt, Unit: unit, Repr: repr}
	}
	if t.peek(0) == '%' {
		t.pos++
		return Token{Kind: Percentage, Num: val, Repr: repr}
	}
	return Token{Kind: Number, Num: val, IsInt: isInt, Repr: repr}
}

func (t *tokenizer) consumeString(end rune) Token {
	var sb strings.Builder
	for {
		r := t.peek(0)
		switch {
		case r == end:
			t.pos++
			return Token{Kind: String, Value: sb.String()}
		case r == eofRune:
			return Token{Kind: String, Value: sb.String()}
		case r == '\n':
			return Token{Kind: BadString}
		case r == '\\':
			n := t.peek(1)
			if n == eofRune {
				t.pos++
			} else if n == '\n' {
				t.pos += 2
			} else {
				t.pos++
				sb.WriteRune(t.consumeEscape())
			}
		default:
			sb.WriteRune(r)
			t.pos++
		}
	}
}

func (t *tokenizer) consumeBadURLRemnants() {
	for {
		r := t.peek(0)
		if r == ')' || r == eofRune {
			if r == ')' {
				t.pos++
			}
			return
		}
		if validEscape(r, t.peek(1)) {
			t.pos++
			t.consumeEscape()
			continue
		}
		t.pos++
	}
}

func (t *tokenizer) consumeURL() Token {
	for isWS(t.peek(0)) {
		t.pos++
	}
	var sb strings.Builder
	for {
		r := t.peek(0)
		switch {
		case r == ')':
			t.pos++
			return Token{Kind: URL, Value: sb.String()}
		case r == eofRune:
			return Token{Kind: URL, Value: sb.String()}
		case isWS(r):
			for isWS(t.peek(0)) {
				t.pos++
			}
			if t.peek(0) == ')' || t.peek(0) == eofRune {
				if t.peek(0) == ')' {
					t.pos++
				}
				return Token{Kind: URL, Value: sb.String()}
			}
			t.consumeBadURLRemnants()
			return Token{Kind: BadURL}
		case r == '"' || r == '\'' || r == '(' || isNonPrintable(r):
			t.consumeBadURLRemnants()
			return Token{Kind: BadURL}
		case r == '\\':
			if validEscape(r, t.peek(1)) {
				t.pos++
				sb.WriteRune(t.consumeEscape())
			} else {
				t.consumeBadURLRemnants()
				return Token{Kind: BadURL}
			}
		default:
			sb.WriteRune(r)
			t.pos++
		}
	}
}

func (t *tokenizer) consumeIdentLike() Token {
	name := t.consumeName()
	if strings.EqualFold(name, "url") && t.peek(0) == '(' {
		t.pos++
		// while the next two input code points are whitespace, consume one
		for isWS(t.peek(0)) && isWS(t.peek(1)) {
			t.pos++
		}
		a, b := t.peek(0), t.peek(1)
		if a == '"' || a == '\'' || (isWS(a) && (b == '"' || b == '\'')) {
			return Token{Kind: Function, Value: name}
		}
		return t.consumeURL()
	}
	if t.peek(0) == '(' {
		t.pos++
		return Token{Kind: Function, Value: name}
	}
	return Token{Kind: Ident, Value: name}
}

func (t *tokenizer) next() Token {
	// comments
	for t.peek(0) == '/' && t.peek(1) == '*' {
		t.pos += 2
		for {
			if t.peek(0) == eofRune {
				break
			}
			if t.peek(0) == '*' && t.peek(1) == '/' {
				t.pos += 2
				break
			}
			t.pos++
		}
	}
	r := t.peek(0)
	if r == eofRune {
		return Token{Kind: EOF}
	}
	switch {
	case isWS(r):
		for isWS(t.peek(0)) {
			t.pos++
		}
		return Token{Kind: Whitespace}
	case r == '"' || r == '\'':
		t.pos++
		return t.consumeString(r)
	case r == '#':
		if (t.peek(1) != eofRune && isIdentChar(t.peek(1))) || validEscape(t.peek(1), t.peek(2)) {
			t.pos++
			idish := wouldStartIdent(t.peek(0), t.peek(1), t.peek(2))
			return Token{Kind: Hash, Value: t.consumeName(), IDish: idish}
		}
		t.pos++
		return Token{Kind: Delim, Value: "#"}
	case r == '(':
		t.pos++
		return Token{Kind: LParen}
	case r == ')':
		t.pos++
		return Token{Kind: RParen}
	case r == '+' || r == '.':
		if wouldStartNumber(r, t.peek(1), t.peek(2)) {
			return t.consumeNumeric()
		}
		t.pos++
		return Token{Kind: Delim, Value: string(r)}
	case r == ',':
		t.pos++
		return Token{Kind: Comma}
	case r == '-':
		if wouldStartNumber(r, t.peek(1), t.peek(2)) {
			return t.consumeNumeric()
		}
		if t.peek(1) == '-' && t.peek(2) == '>' {
			t.pos += 3
			return Token{Kind: CDC}
		}
		if wouldStartIdent(r, t.peek(1), t.peek(2)) {
			return t.consumeIdentLike()
		}
		t.pos++
		return Token{Kind: Delim, Value: "-"}
	case r == ':':
		t.pos++
		return Token{Kind: Colon}
	case r == ';':
		t.pos++
		return Token{Kind: Semicolon}
	case r == '<':
		if t.peek(1) == '!' && t.peek(2) == '-' && t.peek(3) == '-' {
			t.pos += 4
			return Token{Kind: CDO}
		}
		t.pos++
		return Token{Kind: Delim, Value: "<"}
	case r == '@':
		if wouldStartIdent(t.peek(1), t.peek(2), t.peek(3)) {
			t.pos++
			return Token{Kind: AtKeyword, Value: t.consumeName()}
		}
		t.pos++
		return Token{Kind: Delim, Value: "@"}
	case r == '[':
		t.pos++
		return Token{Kind: LBracket}
	case r == '\\':
		if validEscape(r, t.peek(1)) {
			return t.consumeIdentLike()
		}
		t.pos++
		return Token{Kind: Delim, Value: "\\"}
	case r == ']':
		t.pos++
		return Token{Kind: RBracket}
	case r == '{':
		t.pos++
		return Token{Kind: LBrace}
	case r == '}':
		t.pos++
		return Token{Kind: RBrace}
	case isDigit(r):
		return t.consumeNumeric()
	case isIdentStart(r):
		return t.consumeIdentLike()
	}
	t.pos++
	return Token{Kind: Delim, Value: string(r)}
}

// Tokenize turns source text into tokens (without the final EOF token).
func Tokenize(src string) []Token {
	t := &tokenizer{in: preprocess(src)}
	var out []Token
	for {
		tok := t.next()
		if tok.Kind == EOF {
			return out
		}
		out = append(out, tok)
	}
}

package cssref

import (
	"math"
	"sort"
	"strconv"
	"strings"
)

// Canonical form of a calc() expression (CSS Values 4 §10): a sum of monomials
//     coef · unit · Π opaqueᵢ^kᵢ
// where opaque atoms are var() references and anything else the model does not look into. Absolute
// lengths are expressed in px. Two expressions denote the same value iff their forms are equal.

type mono struct {
	Coef   float64
	Unit   string         // "" number, "%" percentage, otherwise lower-case unit
	Opaque map[string]int // atom text -> power
}

// Linear is the canonical sum, keyed by the monomial's unit and opaque part.
type Linear map[string]*mono

func monoKey(unit string, op map[string]int) string {
	var ks []string
	for k, p := range op {
		if p != 0 {
			ks = append(ks, k+"^"+strconv.Itoa(p))
		}
	}
	sort.Strings(ks)
	return unit + "|" + strings.Join(ks, "·")
}

func (l Linear) add(m *mono) {
	k := monoKey(m.Unit, m.Opaque)
	if ex, ok := l[k]; ok {
		ex.Coef += m.Coef
		return
	}
	cp := &mono{Coef: m.Coef, Unit: m.Unit, Opaque: map[string]int{}}
	for a, p := range m.Opaque {
		if p != 0 {
			cp.Opaque[a] = p
		}
	}
	l[k] = cp
}

var absLengthPx = map[string]float64{"px": 1, "in": 96, "cm": 96 / 2.54, "mm": 96 / 25.4, "q": 96 / 101.6, "pt": 96.0 / 72, "pc": 16}

func normUnit(v float64, unit string) (float64, string) {
	u := strings.ToLower(unit)
	if f, ok := absLengthPx[u]; ok {
		return v * f, "px"
	}
	switch u {
	case "grad":
		return v * 0.9, "deg"
	case "rad":
		return v * 180 / math.Pi, "deg"
	case "turn":
		return v * 360, "deg"
	case "ms":
		return v / 1000, "s"
	}
	return v, u
}

func constLinear(v float64, unit string) Linear {
	l := Linear{}
	l.add(&mono{Coef: v, Unit: unit})
	return l
}

func opaqueLinear(text string) Linear {
	l := Linear{}
	l.add(&mono{Coef: 1, Opaque: map[string]int{text: 1}})
	return l
}

func (l Linear) plus(o Linear, sign float64) Linear {
	out := Linear{}
	for _, m := range l {
		out.add(m)
	}
	for _, m := range o {
		out.add(&mono{Coef: sign * m.Coef, Unit: m.Unit, Opaque: m.Opaque})
	}
	return out
}

func (l Linear) times(o Linear) (Linear, bool) {
	out := Linear{}
	for _, a := range l {
		for _, b := range o {
			unit := a.Unit
			if unit == "" {
				unit = b.Unit
			} else if b.Unit != "" {
				return nil, false // length × length is not a CSS type
			}
			op := map[string]int{}
			for k, p := range a.Opaque {
				op[k] += p
			}
			for k, p := range b.Opaque {
				op[k] += p
			}
			out.add(&mono{Coef: a.Coef * b.Coef, Unit: unit, Opaque: op})
		}
	}
	return out, true
}

// String is a stable rendering of the form (used as the text of opaque divisors and in messages).
func (l Linear) String() string {
	var ks []string
	for k, m := range l {
		if m.Coef != 0 {
			ks = append(ks, k)
		}
	}
	sort.Strings(ks)
	var parts []string
	for _, k := range ks {
		parts = append(parts, strconv.FormatFloat(l[k].Coef, 'g', 10, 64)+"*"+k)
	}
	return "{" + strings.Join(parts, " + ") + "}"
}

func (l Linear) nonZero() []*mono {
	var out []*mono
	for _, m := range l {
		if m.Coef != 0 {
			out = append(out, m)
		}
	}
	return out
}

func (l Linear) inverse() (Linear, bool) {
	ms := l.nonZero()
	if len(ms) == 0 {
		return nil, false // division by zero
	}
	if len(ms) == 1 && ms[0].Unit == "" {
		op := map[string]int{}
		for k, p := range ms[0].Opaque {
			op[k] = -p
		}
		out := Linear{}
		out.add(&mono{Coef: 1 / ms[0].Coef, Opaque: op})
		return out, true
	}
	for _, m := range ms {
		if m.Unit != "" {
			return nil, false // dividing by a dimension
		}
	}
	out := Linear{}
	out.add(&mono{Coef: 1, Opaque: map[string]int{"(" + l.String() + ")": -1}})
	return out, true
}

// EqualLinear compares two forms: same monomials, coefficients equal within rel (relative) / 1e-12 (absolute).
func EqualLinear(a, b Linear, rel float64) bool {
	keys := map[string]bool{}
	for k := range a {
		keys[k] = true
	}
	for k := range b {
		keys[k] = true
	}
	for k := range keys {
		var x, y float64
		if m := a[k]; m != nil {
			x = m.Coef
		}
		if m := b[k]; m != nil {
			y = m.Coef
		}
		d := math.Abs(x - y)
		if d > 1e-12 && d > rel*math.Max(math.Abs(x), math.Abs(y)) {
			return false
		}
	}
	return true
}

type calcParser struct {
	toks []CV
	pos  int
	ok   bool
}

// ParseCalc reduces the contents of a calc() function (or a parenthesised sub-expression).
func ParseCalc(children []CV) (Linear, bool) {
	p := &calcParser{toks: children, ok: true}
	l := p.sum()
	p.skipWS()
	if !p.ok || p.pos != len(p.toks) || l == nil {
		return nil, false
	}
	return l, true
}

func (p *calcParser) skipWS() bool {
	saw := false
	for p.pos < len(p.toks) && p.toks[p.pos].Kind == Whitespace {
		p.pos++
		saw = true
	}
	return saw
}

func (p *calcParser) sum() Linear {
	l := p.product()
	for p.ok && l != nil {
		save := p.pos
		ws := p.skipWS()
		if p.pos >= len(p.toks) {
			break
		}
		t := p.toks[p.pos]
		if !(t.IsDelim("+") || t.IsDelim("-")) {
			p.pos = save
			break
		}
		p.pos++
		if !ws || !p.skipWS() {
			p.ok = false // + and - must be surrounded by whitespace
			return nil
		}
		r := p.product()
		if r == nil {
			p.ok = false
			return nil
		}
		if t.Value == "+" {
			l = l.plus(r, 1)
		} else {
			l = l.plus(r, -1)
		}
	}
	return l
}

func (p *calcParser) product() Linear {
	l := p.value()
	for p.ok && l != nil {
		save := p.pos
		p.skipWS()
		if p.pos >= len(p.toks) {
			p.pos = save
			break
		}
		t := p.toks[p.pos]
		if !(t.IsDelim("*") || t.IsDelim("/")) {
			p.pos = save
			break
		}
		p.pos++
		p.skipWS()
		r := p.value()
		if r == nil {
			p.ok = false
			return nil
		}
		if t.Value == "/" {
			inv, ok := r.inverse()
			if !ok {
				p.ok = false
				return nil
			}
			r = inv
		}
		var ok bool
		l, ok = l.times(r)
		if !ok {
			p.ok = false
			return nil
		}
	}
	return l
}

func (p *calcParser) value() Linear {
	p.skipWS()
	if p.pos >= len(p.toks) {
		p.ok = false
		return nil
	}
	t := p.toks[p.pos]
	p.pos++
	switch {
	case t.Kind == Number:
		return constLinear(t.Num, "")
	case t.Kind == Percentage:
		return constLinear(t.Num, "%")
	case t.Kind == Dimension:
		v, u := normUnit(t.Num, t.Unit)
		return constLinear(v, u)
	case t.Block && t.Kind == LParen, t.IsFunc("calc"):
		l, ok := ParseCalc(t.Children)
		if !ok {
			p.ok = false
			return nil
		}
		return l
	case t.Kind == Function:
		return opaqueLinear(strings.ToLower(t.Value) + "(" + canonicalText(t.Children) + ")")
	case t.Kind == Ident:
		return opaqueLinear(strings.ToLower(t.Value))
	}
	p.ok = false
	return nil
}

// canonicalText renders arbitrary component values with numbers normalised (used for opaque atoms).
func canonicalText(cvs []CV) string {
	v := CanonicalValue("", cvs)
	return v.String()
}

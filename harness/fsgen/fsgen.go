// Package fsgen (S5 in DESIGN.md) materialises generated project trees on a real directory, applies
// edit operations with explicit modification times, and snapshots trees.
//
// Modification times. esbuild's real file system trusts the "modification key" of a file (inode,
// size, mtime, mode, uid) only when the mtime is at least 3 seconds in the past
// (internal/fs/modkey_unix.go, modKeySafetyGap); younger files are compared by content. Both paths
// must be exercised, and the property under test (C09) is quantified over "modification times
// advancing normally". Therefore every write gets one of two kinds of mtime:
//
//   - old:   an explicit time Base+10s*tick, where Base lies years in the past and tick is a counter
//     that is strictly increasing over all operations of a history (so that an edited file always
//     has a strictly later mtime than before, as it would have with a real editor);
//   - fresh: whatever the operating system stamped (= now), i.e. inside the safety gap.
//
// A path that was written "fresh" must stay fresh for the rest of a history: a later "old" stamp
// would move its mtime backwards, which is not a normal progression. Keeping that invariant is the
// caller's job (the C09 generator keeps it in its model); Apply only executes.
package fsgen

import (
	"crypto/sha256"
	"encoding/hex"
	"fmt"
	"os"
	"path/filepath"
	"sort"
	"strings"
	"time"
)

// Base is the mtime of tick 0 (2017-07-14). Far older than any safety gap; independent of the clock.
const Base = int64(1500000000)

// TickTime is the explicit "old" modification time of a given tick.
func TickTime(tick int) time.Time { return time.Unix(Base+10*int64(tick), 0) }

// Op is one primitive file-system operation, relative to a project root. JSON-serialisable.
type Op struct {
	// write: create or overwrite a regular file (parents are created);
	// replace: like write but through a temporary file + rename (new inode);
	// remove: delete a file or a whole directory tree; rename: move Path to To;
	// touch: new mtime, same bytes; mkdir: create a directory; symlink: Path -> Content (target text).
	Op      string `json:"op"`
	Path    string `json:"path"`
	To      string `json:"to,omitempty"`
	Content string `json:"content,omitempty"`
	Fresh   bool   `json:"fresh,omitempty"` // leave the OS time stamp (inside esbuild's safety gap)
	Tick    int    `json:"tick,omitempty"`  // explicit mtime = TickTime(Tick) unless Fresh
	Mode    uint32 `json:"mode,omitempty"`  // file mode for write (default 0644)
}

func (o Op) String() string {
	switch o.Op {
	case "rename":
		return fmt.Sprintf("rename %s -> %s", o.Path, o.To)
	case "write", "replace":
		f := ""
		if o.Fresh {
			f = " (fresh)"
		}
		return fmt.Sprintf("%s %s%s %q", o.Op, o.Path, f, clip(o.Content, 60))
	case "symlink":
		return fmt.Sprintf("symlink %s -> %s", o.Path, o.Content)
	}
	return o.Op + " " + o.Path
}

func clip(s string, n int) string {
	if len(s) > n {
		return s[:n] + "…"
	}
	return s
}

func inside(root, rel string) (string, error) {
	if rel == "" || filepath.IsAbs(rel) {
		return "", fmt.Errorf("fsgen: bad relative path %q", rel)
	}
	p := filepath.Join(root, filepath.FromSlash(rel))
	if r, err := filepath.Rel(root, p); err != nil || r == ".." || strings.HasPrefix(r, ".."+string(filepath.Separator)) {
		return "", fmt.Errorf("fsgen: path %q escapes the root", rel)
	}
	return p, nil
}

// Apply executes one operation below root. Errors are harness/infra errors (the callers generate
// only operations that are applicable to the tree they model).
func Apply(root string, o Op) error {
	p, err := inside(root, o.Path)
	if err != nil {
		return err
	}
	stamp := func(path string) error {
		if o.Fresh {
			return nil
		}
		t := TickTime(o.Tick)
		return os.Chtimes(path, t, t)
	}
	mode := os.FileMode(0o644)
	if o.Mode != 0 {
		mode = os.FileMode(o.Mode)
	}
	switch o.Op {
	case "write":
		if err := os.MkdirAll(filepath.Dir(p), 0o755); err != nil {
			return err
		}
		if err := os.WriteFile(p, []byte(o.Content), mode); err != nil {
			return err
		}
		return stamp(p)
	case "replace":
		if err := os.MkdirAll(filepath.Dir(p), 0o755); err != nil {
			return err
		}
		tmp := p + ".fsgen-tmp"
		if err := os.WriteFile(tmp, []byte(o.Content), mode); err != nil {
			return err
		}
		if err := stamp(tmp); err != nil {
			return err
		}
		return os.Rename(tmp, p)
	case "remove":
		if _, err := os.Lstat(p); err != nil {
			return err
		}
		return os.RemoveAll(p)
	case "rename":
		q, err := inside(root, o.To)
		if err != nil {
			return err
		}
		if err := os.MkdirAll(filepath.Dir(q), 0o755); err != nil {
			return err
		}
		return os.Rename(p, q)
	case "touch":
		if o.Fresh {
			// a fresh touch is a rewrite of the same bytes (the OS stamps "now")
			b, err := os.ReadFile(p)
			if err != nil {
				return err
			}
			return os.WriteFile(p, b, mode)
		}
		return stamp(p)
	case "mkdir":
		return os.MkdirAll(p, 0o755)
	case "symlink":
		if err := os.MkdirAll(filepath.Dir(p), 0o755); err != nil {
			return err
		}
		os.Remove(p)
		return os.Symlink(o.Content, p)
	}
	return fmt.Errorf("fsgen: unknown op %q", o.Op)
}

// ApplyAll executes the operations in order.
func ApplyAll(root string, ops []Op) error {
	for _, o := range ops {
		if err := Apply(root, o); err != nil {
			return fmt.Errorf("%s: %w", o.String(), err)
		}
	}
	return nil
}

// Entry is what a snapshot records about one path. Symlinks are not followed.
type Entry struct {
	Kind   string `json:"kind"` // file | dir | symlink | other
	Mode   uint32 `json:"mode"` // permission bits
	Size   int64  `json:"size,omitempty"`
	SHA256 string `json:"sha256,omitempty"`
	Target string `json:"target,omitempty"`
	// MtimeNs is recorded for regular files only (a directory's mtime changes whenever an entry is added).
	// It makes a rewrite with identical bytes visible.
	MtimeNs int64 `json:"mtime_ns,omitempty"`
}

// Snap maps slash-separated paths relative to the snapshot root to entries. The root itself is absent.
type Snap map[string]Entry

// Snapshot walks root without following symlinks.
func Snapshot(root string) (Snap, error) {
	s := Snap{}
	err := filepath.Walk(root, func(p string, info os.FileInfo, err error) error {
		if err != nil {
			return err
		}
		if p == root {
			return nil
		}
		rel, err := filepath.Rel(root, p)
		if err != nil {
			return err
		}
		rel = filepath.ToSlash(rel)
		e := Entry{Mode: uint32(info.Mode().Perm())}
		switch {
		case info.Mode()&os.ModeSymlink != 0:
			e.Kind = "symlink"
			e.Target, err = os.Readlink(p)
			if err != nil {
				return err
			}
		case info.IsDir():
			e.Kind = "dir"
		case info.Mode().IsRegular():
			e.Kind = "file"
			b, err := os.ReadFile(p)
			if err != nil {
				return err
			}
			h := sha256.Sum256(b)
			e.Size = int64(len(b))
			e.SHA256 = hex.EncodeToString(h[:])
			e.MtimeNs = info.ModTime().UnixNano()
		default:
			e.Kind = "other"
		}
		s[rel] = e
		return nil
	})
	return s, err
}

// Hash is the hex SHA-256 of b (the same digest Snapshot records).
func Hash(b []byte) string {
	h := sha256.Sum256(b)
	return hex.EncodeToString(h[:])
}

// Delta is the difference between two snapshots (sorted path lists).
type Delta struct {
	Created  []string
	Modified []string // same path, any recorded attribute differs
	Deleted  []string
}

// Empty reports whether nothing changed.
func (d Delta) Empty() bool { return len(d.Created)+len(d.Modified)+len(d.Deleted) == 0 }

func (d Delta) String() string {
	return fmt.Sprintf("created=%v modified=%v deleted=%v", d.Created, d.Modified, d.Deleted)
}

// Diff compares two snapshots.
func Diff(before, after Snap) Delta {
	var d Delta
	for p, a := range after {
		b, ok := before[p]
		if !ok {
			d.Created = append(d.Created, p)
		} else if a != b {
			d.Modified = append(d.Modified, p)
		}
	}
	for p := range before {
		if _, ok := after[p]; !ok {
			d.Deleted = append(d.Deleted, p)
		}
	}
	sort.Strings(d.Created)
	sort.Strings(d.Modified)
	sort.Strings(d.Deleted)
	return d
}

// RealPath resolves symlinks in p. When p itself does not exist the longest existing ancestor is
// resolved and the remaining segments are appended (this is where a write to p would land).
func RealPath(p string) string {
	p = filepath.Clean(p)
	if r, err := filepath.EvalSymlinks(p); err == nil {
		return r
	}
	dir, rest := filepath.Dir(p), filepath.Base(p)
	for {
		if r, err := filepath.EvalSymlinks(dir); err == nil {
			return filepath.Join(r, rest)
		}
		parent := filepath.Dir(dir)
		if parent == dir {
			return p
		}
		rest = filepath.Join(filepath.Base(dir), rest)
		dir = parent
	}
}

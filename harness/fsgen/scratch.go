package fsgen

import (
	"fmt"
	"os"
	"path/filepath"
	"strconv"
	"strings"
	"sync"
)

// Scratch directories.
//
// The checks that work on real trees (C09, C17) create and delete a project of 25–45 files per case. On the
// sandbox's ext4 root (mounted with "discard") every unlink of a file with a data block costs ≈2 ms of system
// time, which made deletion 80 % of the run time. A memory-backed file system is an order of magnitude faster,
// so scratch trees are placed, in this order, under
//
//	$VERIF_SCRATCH            (explicit override)
//	/dev/shm                  (when it is a writable directory)
//	$TMPDIR                   (what the driver sets; always correct, only slower)
//
// Everything is created below one per-process directory "verif-scratch-<pid>-*", which RemoveScratch deletes;
// every case also removes its own tree. If a shard is killed its directory stays behind; the next process
// that calls Scratch removes the directories of processes that no longer exist.

var (
	scratchOnce sync.Once
	scratchBase string
)

func writableDir(d string) bool {
	info, err := os.Stat(d)
	if err != nil || !info.IsDir() {
		return false
	}
	f, err := os.CreateTemp(d, "verif-probe-")
	if err != nil {
		return false
	}
	f.Close()
	os.Remove(f.Name())
	return true
}

func sweepStale(parent string) {
	entries, err := os.ReadDir(parent)
	if err != nil {
		return
	}
	for _, e := range entries {
		name := e.Name()
		if !strings.HasPrefix(name, "verif-scratch-") {
			continue
		}
		parts := strings.Split(name, "-")
		if len(parts) < 3 {
			continue
		}
		pid, err := strconv.Atoi(parts[2])
		if err != nil || pid == os.Getpid() {
			continue
		}
		if _, err := os.Stat(fmt.Sprintf("/proc/%d", pid)); os.IsNotExist(err) {
			os.RemoveAll(filepath.Join(parent, name))
		}
	}
}

// Scratch returns the per-process scratch directory (created on first use).
func Scratch() (string, error) {
	var err error
	scratchOnce.Do(func() {
		parent := os.TempDir()
		if d := os.Getenv("VERIF_SCRATCH"); d != "" && writableDir(d) {
			parent = d
		} else if writableDir("/dev/shm") {
			parent = "/dev/shm"
		}
		sweepStale(parent)
		scratchBase, err = os.MkdirTemp(parent, fmt.Sprintf("verif-scratch-%d-", os.Getpid()))
	})
	if scratchBase == "" && err == nil {
		err = fmt.Errorf("fsgen: no scratch directory")
	}
	return scratchBase, err
}

// MkdirScratch creates a new empty directory for one case.
func MkdirScratch(prefix string) (string, error) {
	base, err := Scratch()
	if err != nil {
		return "", err
	}
	return os.MkdirTemp(base, prefix)
}

// RemoveScratch deletes the per-process scratch directory (call it when the test process is done).
func RemoveScratch() {
	if scratchBase != "" {
		os.RemoveAll(scratchBase)
	}
}

package cssgen

import (
	"fmt"
	"strings"

	"github.com/evanw/esbuild/verif/cssref"
	"pgregory.net/rapid"
)

// Opts selects which parts of the grammar are used.
type Opts struct {
	Nesting         bool // nested style rules and nested group rules
	Free            bool // syntax outside esbuild's compat table: vendor pseudo-elements, :has, :focus-visible, unknown functions/units
	Functional      bool // :is/:where/:not
	Layers          bool
	Container       bool
	Supports        bool
	Logical         bool // logical box properties (margin-block-start ...)
	DeclAfterNested bool // declarations after a nested rule in the same block
	MixedParents    bool // nested rules under parent lists whose selectors have different specificity
	Junk            bool // bad declarations that must be skipped by error recovery
	ZOnly           bool // declarations are "z-index: <integer>" only (used to calibrate cssref against a browser)
	NoStates        bool // no :hover/:active/:focus-visible (a headless browser cannot be put into those states)
	MaxRules        int
}

// G wraps a rapid.T with small helpers; every random choice is a rapid draw.
type G struct {
	T      *rapid.T
	O      Opts
	bodies []string
	sels   []string
	n      int
}

func (g *G) lbl(s string) string { g.n++; return fmt.Sprintf("%s%d", s, g.n) }

func (g *G) pick(label string, xs []string) string {
	return xs[rapid.IntRange(0, len(xs)-1).Draw(g.T, g.lbl(label))]
}
func (g *G) num(label string, lo, hi int) int { return rapid.IntRange(lo, hi).Draw(g.T, g.lbl(label)) }
func (g *G) chance(label string, pct int) bool {
	return rapid.IntRange(0, 99).Draw(g.T, g.lbl(label)) < pct
}

// weighted picks an index with the given weights.
func (g *G) weighted(label string, weights ...int) int {
	total := 0
	for _, w := range weights {
		total += w
	}
	r := rapid.IntRange(0, total-1).Draw(g.T, g.lbl(label))
	for i, w := range weights {
		if r < w {
			return i
		}
		r -= w
	}
	return len(weights) - 1
}

// ---------------------------------------------------------------------------- selectors

func (g *G) subclass() string {
	switch g.weighted("sub", 55, 12, 10, 14, 9) {
	case 0:
		c := g.pick("class", Classes)
		if g.chance("escaped", 4) {
			// the same class name spelled with an escape (the space ends the escape and is not a combinator)
			return "." + map[string]string{"a": "\\61 ", "b": "\\62 ", "c": "\\000063"}[c]
		}
		return "." + c
	case 1:
		return "#" + g.pick("id", IDs)
	case 2:
		return g.pick("attr", []string{`[title]`, `[title="t"]`, `[title=t]`, `[title~=there]`, `[data-k|="v"]`, `[data-k^=v]`, `[title$="re"]`, `[title*=i]`, `[data-k]`, `[title="T" i]`})
	case 3:
		if g.O.NoStates {
			return g.pick("pcs", []string{":first-child", ":last-child"})
		}
		return g.pick("pc", []string{":hover", ":first-child", ":last-child", ":active", ":hover", ":first-child"})
	default:
		if g.O.Free {
			if g.O.NoStates {
				return ":-moz-ui-invalid"
			}
			return g.pick("freepc", []string{":focus-visible", ":-moz-ui-invalid", ":focus-visible"})
		}
		if g.O.NoStates {
			return ":first-child"
		}
		return ":hover"
	}
}

func (g *G) tag() string {
	if g.chance("raretag", 8) {
		return g.pick("rt", RareTags)
	}
	return g.pick("tag", Tags)
}

// compound returns a compound selector without pseudo-element.
func (g *G) compound(depth int) string {
	var sb strings.Builder
	if g.chance("hastag", 50) {
		sb.WriteString(g.tag())
	} else if g.chance("star", 4) {
		sb.WriteString("*")
	}
	n := g.weighted("nsub", 35, 45, 20)
	if sb.Len() == 0 && n == 0 {
		n = 1
	}
	for i := 0; i < n; i++ {
		sb.WriteString(g.subclass())
	}
	if depth > 0 && g.O.Functional && g.chance("fn", 14) {
		switch g.weighted("fnkind", 40, 20, 25, 15) {
		case 0:
			sb.WriteString(":is(" + g.innerList(depth-1) + ")")
		case 1:
			sb.WriteString(":where(" + g.innerList(depth-1) + ")")
		case 2:
			sb.WriteString(":not(" + g.simpleCompound() + ")")
		default:
			if g.O.Free {
				sb.WriteString(":has(" + g.pick("hascomb", []string{"", "> ", "+ ", "~ "}) + g.simpleCompound() + ")")
			} else {
				sb.WriteString(":not(" + g.simpleCompound() + ")")
			}
		}
	}
	return sb.String()
}

func (g *G) simpleCompound() string {
	switch g.weighted("sc", 40, 30, 20, 10) {
	case 0:
		return "." + g.pick("class", Classes)
	case 1:
		return g.pick("tag", Tags)
	case 2:
		return g.pick("tag", Tags) + "." + g.pick("class", Classes)
	default:
		return "#" + g.pick("id", IDs)
	}
}

func (g *G) innerList(depth int) string {
	n := g.weighted("iln", 45, 40, 15) + 1
	var parts []string
	for i := 0; i < n; i++ {
		if g.chance("innercx", 25) {
			parts = append(parts, g.simpleCompound()+g.combinator()+g.simpleCompound())
		} else if g.O.Free && g.chance("innerfree", 8) {
			if g.O.NoStates {
				parts = append(parts, ":-moz-ui-invalid")
			} else {
				parts = append(parts, g.pick("forgiven", []string{":focus-visible", ":-moz-ui-invalid", ".a:focus-visible"}))
			}
		} else {
			parts = append(parts, g.compound(depth))
		}
	}
	return strings.Join(parts, g.pick("ilsep", []string{", ", ","}))
}

func (g *G) combinator() string {
	switch g.weighted("comb", 55, 28, 9, 8) {
	case 0:
		return " "
	case 1:
		return g.pick("gt", []string{" > ", ">"})
	case 2:
		return g.pick("plus", []string{" + ", "+"})
	}
	return g.pick("tilde", []string{" ~ ", "~"})
}

func (g *G) pseudoEl() string {
	if g.O.Free && g.chance("vendorpe", 45) {
		return "::" + g.pick("vpe", VendorPseudos)
	}
	return g.pick("pe", []string{"::before", "::after", ":before", "::before"})
}

// complex returns a complex selector (top level).
func (g *G) complex(allowPE bool) string {
	n := g.weighted("ncomp", 62, 30, 8) + 1
	var sb strings.Builder
	for i := 0; i < n; i++ {
		if i > 0 {
			sb.WriteString(g.combinator())
		}
		sb.WriteString(g.compound(1))
	}
	if allowPE && g.chance("pe", 10) {
		sb.WriteString(g.pseudoEl())
	}
	return sb.String()
}

func (g *G) selectorList(allowPE bool) string {
	if len(g.sels) > 0 && g.chance("reusesel", 18) {
		return g.pick("oldsel", g.sels)
	}
	n := g.weighted("nsel", 68, 24, 8) + 1
	var parts []string
	for i := 0; i < n; i++ {
		parts = append(parts, g.complex(allowPE))
	}
	s := strings.Join(parts, g.pick("selsep", []string{", ", ","}))
	g.sels = append(g.sels, s)
	return s
}

// uniformList returns a selector list whose complex selectors all have the same specificity shape
// (used as the parent of nested rules when MixedParents is off).
func (g *G) uniformList() string {
	switch g.weighted("uni", 30, 30, 15, 15, 10) {
	case 0:
		c := g.pick("class", Classes)
		if g.chance("two", 40) {
			d := g.pick("class", Classes)
			if d != c {
				return "." + c + ", ." + d
			}
		}
		return "." + c
	case 1:
		t := g.pick("tag", Tags)
		if g.chance("two", 40) {
			u := g.pick("tag", Tags)
			if u != t {
				return t + ", " + u
			}
		}
		return t
	case 2:
		return g.pick("tag", Tags) + "." + g.pick("class", Classes)
	case 3:
		return g.pick("tag", Tags) + " ." + g.pick("class", Classes) + ", " + g.pick("tag", Tags) + " > ." + g.pick("class", Classes)
	default:
		return "#" + g.pick("id", IDs)
	}
}

// nestedSelector returns the selector list of a nested style rule.
func (g *G) nestedSelector() string {
	one := func() string {
		switch g.weighted("nest", 22, 22, 12, 12, 10, 8, 6, 5, 3) {
		case 0:
			return "& " + g.compound(0)
		case 1:
			return "&" + g.subclass()
		case 2:
			return g.compound(0) + " &"
		case 3:
			return g.pick("relcomb", []string{"> ", "+ ", "~ ", ">"}) + g.compound(0)
		case 4:
			return g.compound(0) // implicit descendant
		case 5:
			return "&" + g.combinator() + "&"
		case 6:
			if g.O.Functional {
				return ":is(&, " + g.simpleCompound() + ") " + g.simpleCompound()
			}
			return "& > " + g.simpleCompound()
		case 7:
			return g.pick("tag", Tags) + "&"
		default:
			return "&&" + g.subclass()
		}
	}
	if g.chance("nest2", 20) {
		return one() + ", " + one()
	}
	return one()
}

// ---------------------------------------------------------------------------- values

var lengthsPlain = []string{"0", "0px", "1px", "2px", "3px", "10px", "1.50em", ".5em", "-1px", "5%", "0%", "1PX", "+2px", "1e1px", "0.0px", "0em", "2pt"}

func (g *G) length(auto bool) string {
	switch g.weighted("len", 70, 8, 8, 6, 8) {
	case 0:
		if auto && g.chance("auto", 15) {
			return "auto"
		}
		return g.pick("lp", lengthsPlain)
	case 1:
		return g.pick("calc", []string{"calc(1px + 2px)", "calc(100% - 10px)", "calc(2 * 3px)", "calc(1em + 2px)", "calc(10px / 4)", "calc(1px - -1px)", "calc(1px + var(--v))"})
	case 2:
		return g.pick("var", []string{"var(--v)", "var(--w, 1px)"})
	case 3:
		if g.O.Free {
			return g.pick("freelen", []string{"1vw", "2rem", "1Q", "3vh", "max(1px, 2px)", "env(safe-area-inset-top)", "foo(1px)", "1vw", "2vw"})
		}
		return "4px"
	default:
		return g.pick("lp2", []string{"0", "0px", "1px", "2px"})
	}
}

var wideTriples = [][3]float64{{0.2, 0.4, 0.6}, {0.8, 0.3, 0.3}, {0.5, 0.5, 0.5}, {0.1, 0.7, 0.2}}

// WideColor formats an in-gamut colour in a non-sRGB notation.
func WideColor(space string, rgb [3]float64, alpha string) string {
	c := cssref.SRGBTo(space, rgb)
	f := func(v float64) string { return strings.TrimRight(strings.TrimRight(fmt.Sprintf("%.4f", v), "0"), ".") }
	a := ""
	if alpha != "" {
		a = " / " + alpha
	}
	switch space {
	case "lab", "lch", "oklab", "oklch":
		return space + "(" + f(c[0]) + " " + f(c[1]) + " " + f(c[2]) + a + ")"
	}
	return "color(" + space + " " + f(c[0]) + " " + f(c[1]) + " " + f(c[2]) + a + ")"
}

var colorsPlain = []string{"red", "#f00", "#ff0000", "#FF0000", "blue", "#00f", "rgb(255,0,0)", "rgb(0, 0, 255)", "rgba(0,0,255,.5)", "rgba(0, 0, 255, 0.50)",
	"hsl(120,100%,25%)", "green", "#008000", "transparent", "currentColor", "black", "#000", "white", "#fff", "rgb(100%,0%,0%)", "#123456", "rgb(18,52,86)",
	"RED", "Rgb(255,0,0)"}
var colorsModern = []string{"rgb(0 0 255 / 50%)", "rgb(255 0 0)", "hsl(120deg 100% 25%)", "hsl(120 100% 25% / .5)", "hwb(0 20% 20%)", "hwb(120 0% 50%)", "#0000ff80", "#00f8", "#f000",
	"rebeccapurple", "rgba(255 0 0)", "hsla(240, 100%, 50%, 50%)", "rgb(127.5 0 0)"}

func (g *G) color() string {
	switch g.weighted("col", 55, 25, 12, 8) {
	case 0:
		return g.pick("cp", colorsPlain)
	case 1:
		return g.pick("cm", colorsModern)
	case 2:
		sp := g.pick("space", []string{"lab", "lch", "oklab", "oklch", "display-p3", "srgb", "srgb-linear", "a98-rgb", "prophoto-rgb", "rec2020", "xyz", "xyz-d50"})
		return WideColor(sp, wideTriples[g.num("triple", 0, len(wideTriples)-1)], g.pick("walpha", []string{"", "", "", ".5", "50%"}))
	default:
		if g.O.Free {
			return g.pick("freecol", []string{"foo(1)", "-webkit-text", "var(--c)"})
		}
		return "var(--c)"
	}
}

type propGen struct {
	name string
	val  func(g *G) string
}

var boxProps = map[string][]string{
	"margin":  {"margin", "margin-top", "margin-right", "margin-bottom", "margin-left"},
	"padding": {"padding", "padding-top", "padding-right", "padding-bottom", "padding-left"},
	"inset":   {"inset", "top", "right", "bottom", "left"},
}
var logicalProps = map[string][]string{
	"margin":  {"margin-block-start", "margin-block-end", "margin-inline-start", "margin-inline-end", "margin-block", "margin-inline"},
	"padding": {"padding-block-start", "padding-block-end", "padding-inline-start", "padding-inline-end", "padding-block", "padding-inline"},
	"inset":   {"inset-block-start", "inset-block-end", "inset-inline-start", "inset-inline-end", "inset-block", "inset-inline"},
}

func (g *G) quad(one func() string, max int) string {
	n := g.weighted("quadn", 35, 25, 15, 25) + 1
	if n > max {
		n = max
	}
	var parts []string
	for i := 0; i < n; i++ {
		parts = append(parts, one())
	}
	return strings.Join(parts, " ")
}

func (g *G) important() string {
	if g.chance("imp", 12) {
		return g.pick("impsp", []string{" !important", "!important", " ! important"})
	}
	return ""
}

// hazardBurst generates one of the shapes in which a shorthand tracker has to notice something
// between the declarations it would like to merge.
func (g *G) hazardBurst() []string {
	fam := g.pick("hfam", []string{"margin", "inset", "padding"})
	side := func(i int) string { return boxProps[fam][1+i%4] }
	plain := func() string { return g.pick("hlen", []string{"0", "1px", "2px", "0px", "3px", "5%", "1em"}) }
	special := func() string {
		xs := []string{"var(--v)", "calc(1px + var(--v))", "calc(100% - 10px)"}
		if g.O.Free {
			xs = append(xs, "foo(1px)", "max(1px, 2px)")
		}
		if fam != "padding" {
			xs = append(xs, "auto")
		}
		return g.pick("hspecial", xs)
	}
	s := g.num("hside", 0, 3)
	switch g.weighted("hazard", 22, 18, 18, 14, 14, 14) {
	case 0: // shorthand, un-trackable longhand, trackable longhand of another side
		return []string{fam + ": " + plain() + " " + plain(), side(s) + ": " + special(), side(s+1) + ": " + plain()}
	case 1: // four longhands, one of them replaced in between by something un-trackable
		return []string{side(0) + ": " + plain(), side(1) + ": " + plain(), side(2) + ": " + plain(), side(s) + ": " + special(), side(3) + ": " + plain()}
	case 2: // !important in the middle
		return []string{fam + ": " + plain() + " !important", side(s) + ": " + plain(), side(s+1) + ": " + plain() + " !important", side(s+2) + ": " + plain()}
	case 3: // all four sides, one important
		out := []string{}
		for i := 0; i < 4; i++ {
			d := side(i) + ": " + plain()
			if i == s {
				d += " !important"
			}
			out = append(out, d)
		}
		return out
	case 4: // longhand then shorthand then the same longhand (override chain)
		return []string{side(s) + ": " + plain(), fam + ": " + plain() + " " + plain() + " " + plain(), side(s) + ": " + special(), side(s) + ": " + plain()}
	default: // shorthand with an un-trackable value between two trackable shorthands
		sp := special()
		if fam == "inset" {
			sp = plain() // var() in the inset shorthand cannot be lowered by anybody: the four sides' number of values is unknown
		}
		return []string{fam + ": " + plain(), side(s) + ": " + plain(), fam + ": " + plain() + " " + sp, side(s+1) + ": " + plain()}
	}
}

// boxBurst generates 2-5 declarations of one box family, shorthand and longhands interleaved.
func (g *G) boxBurst() []string {
	if g.chance("hazard", 30) {
		return g.hazardBurst()
	}
	fam := g.pick("fam", []string{"margin", "padding", "inset", "margin", "inset"})
	auto := fam != "padding"
	n := 6 - g.num("burst", 1, 4) // rapid favours small draws: mostly 4–5 declarations
	var out []string
	imp := ""
	if g.chance("burstimp", 12) {
		imp = "!important"
	}
	for i := 0; i < n; i++ {
		var d string
		if g.O.Logical && g.chance("logical", 22) {
			p := g.pick("logp", logicalProps[fam])
			if strings.HasSuffix(p, "-block") || strings.HasSuffix(p, "-inline") {
				d = p + ": " + g.quad(func() string { return g.length(auto) }, 2)
			} else {
				d = p + ": " + g.length(auto)
			}
		} else {
			p := g.pick("boxp", boxProps[fam])
			if p == "inset" {
				// bare var()/unknown functions in the inset shorthand cannot be lowered by anybody (unknown number of values)
				d = p + ": " + g.quad(func() string {
					if g.chance("insetauto", 6) {
						return g.pick("insetspecial", []string{"auto", "calc(1px + 2px)"})
					}
					return g.pick("insetlen", lengthsPlain) // safe units only: lowering makes the four sides independently valid
				}, 4)
			} else if p == fam {
				d = p + ": " + g.quad(func() string { return g.length(auto) }, 4)
			} else {
				d = p + ": " + g.length(auto)
			}
		}
		di := imp
		if g.chance("flipimp", 8) {
			if di == "" {
				di = " !important"
			} else {
				di = ""
			}
		}
		out = append(out, d+di)
		if g.chance("interleave", 15) {
			out = append(out, g.otherDecl())
		}
	}
	return out
}

func (g *G) radiusBurst() []string {
	n := g.num("rburst", 1, 4)
	var out []string
	r := func() string {
		return g.pick("rad", []string{"0", "1px", "2px", "50%", "0px", "1em", "calc(1px + 1px)", "3px"})
	}
	for i := 0; i < n; i++ {
		if g.chance("rshort", 40) {
			v := g.quad(r, 4)
			if g.chance("rslash", 25) {
				v += " / " + g.quad(r, 4)
			}
			out = append(out, "border-radius: "+v)
		} else {
			p := g.pick("corner", []string{"border-top-left-radius", "border-top-right-radius", "border-bottom-right-radius", "border-bottom-left-radius"})
			if g.O.Logical && g.chance("lrad", 15) {
				p = g.pick("lcorner", []string{"border-start-start-radius", "border-start-end-radius", "border-end-end-radius", "border-end-start-radius"})
			}
			v := r()
			if g.chance("r2", 25) {
				v += " " + r()
			}
			out = append(out, p+": "+v)
		}
	}
	return out
}

func (g *G) otherDecl() string {
	switch g.weighted("other", 22, 14, 10, 16, 10, 8, 8, 6, 6) {
	case 0:
		return "z-index: " + g.pick("z", []string{"1", "2", "3", "+4", "05", "-1", "1e1", "auto"}) + g.important()
	case 1:
		return "opacity: " + g.pick("op", []string{"0.5", ".50", "0.50", "1", "1.0", "0", "50%", "+.5"}) + g.important()
	case 2:
		v := []string{"block", "none", "flex", "inline", "grid"}
		if g.O.Free {
			v = append(v, "-webkit-box", "-ms-flexbox")
		}
		return "display: " + g.pick("disp", v) + g.important()
	case 3:
		return g.pick("colprop", []string{"color", "background-color", "color", "outline-color"}) + ": " + g.color() + g.important()
	case 4:
		return g.pick("wh", []string{"width", "height", "min-width"}) + ": " + g.length(true) + g.important()
	case 5:
		return "content: " + g.pick("content", []string{`"x"`, `'x'`, `"a b"`, `'"'`, `"\41"`, `none`, `"\""`}) + g.important()
	case 6:
		return g.pick("custom", []string{"--v", "--w", "--c"}) + ": " + g.pick("customv", []string{"1px", "red", "0", " 2px", "{a:b}", "1px 2px", "#FF0000"}) + g.important()
	case 7:
		p := g.pick("bprop", []string{"border-color", "border-top-color", "border-left-color", "border-style", "border-width", "border-top-width", "border-bottom-style"})
		switch {
		case strings.HasSuffix(p, "color"):
			if p == "border-color" {
				return p + ": " + g.quad(func() string { return g.color() }, 4) + g.important()
			}
			return p + ": " + g.color() + g.important()
		case strings.HasSuffix(p, "style"):
			one := func() string { return g.pick("bstyle", []string{"solid", "none", "dotted", "dashed"}) }
			if p == "border-style" {
				return p + ": " + g.quad(one, 4) + g.important()
			}
			return p + ": " + one() + g.important()
		default:
			one := func() string { return g.pick("bwidth", []string{"0", "1px", "thin", "medium", "2px", "0px"}) }
			if p == "border-width" {
				return p + ": " + g.quad(one, 4) + g.important()
			}
			return p + ": " + one() + g.important()
		}
	default:
		return "position: " + g.pick("pos", []string{"absolute", "relative", "static", "fixed"}) + g.important()
	}
}

func (g *G) junkDecl() string {
	return g.pick("junk", []string{"color: ", ": 4", "z-index 5", "top:;", "margin-top: 1px 2px", "margin: 1px 2", "color: #ggg", "opacity: ]", "top: 1 px", "; ;"})
}

// declList returns the declarations of one rule body.
func (g *G) declList() []string {
	var out []string
	n := g.weighted("ndecl", 35, 35, 20, 10) + 1
	for i := 0; i < n; i++ {
		switch g.weighted("dkind", 45, 40, 10, 5) {
		case 0:
			out = append(out, g.otherDecl())
		case 1:
			out = append(out, g.boxBurst()...)
		case 2:
			out = append(out, g.radiusBurst()...)
		default:
			// duplicate property with a different value (fallback pattern)
			p := g.pick("dupprop", []string{"color", "top", "z-index", "width"})
			switch p {
			case "color":
				out = append(out, "color: "+g.color(), "color: "+g.color())
			case "top", "width":
				out = append(out, p+": "+g.length(true), p+": "+g.length(true))
			default:
				out = append(out, "z-index: 1", "z-index: 2")
			}
		}
		if g.O.Junk && g.chance("junk", 6) {
			out = append(out, g.junkDecl())
		}
	}
	return out
}

func (g *G) body() string {
	if g.O.ZOnly {
		b := "z-index: " + g.pick("zonly", []string{"1", "2", "3", "4", "5", "6", "7", "8", "9"}) + g.important()
		if g.chance("zonly2", 25) {
			b += "; z-index: " + g.pick("zonly", []string{"11", "12", "13"}) + g.important()
		}
		return b
	}
	if len(g.bodies) > 0 && g.chance("reusebody", 30) {
		return g.pick("oldbody", g.bodies)
	}
	b := strings.Join(g.declList(), "; ")
	if g.chance("trailingsemi", 50) {
		b += ";"
	}
	g.bodies = append(g.bodies, b)
	return b
}

// ---------------------------------------------------------------------------- rules

var mediaQueries = []string{"screen", "print", "(min-width:600px)", "(max-width: 599px)", "screen and (min-width: 400px)", "not print", "(width >= 600px)",
	"(400px <= width < 800px)", "(width < 800px)", "(width > 600px)", "(600px > width)", "(width <= 800px)", "(width = 600px)", "not (min-width: 800px)",
	"(min-width:400px) and (max-width:800px)", "(min-width: 800px) or (max-width: 300px)", "print, (min-width: 800px)", "(orientation: landscape)", "(hover)",
	"not (not (min-width:600px))", "not ((not (hover)) and (not (width >= 600px)))", "only screen and (max-width:800px)", "all", "not all", "(width>=400px) and (width<=800px)",
	"not (width < 600px)", "(min-width:600px)", "screen"}

var supportsConds = []string{"(display: grid)", "not (display: grid)", "(display:grid) and (gap: 1px)", "(display:grid) or (foo: bar)", "(display: flex)",
	"selector(:focus-visible)", "selector(a > b)", "selector(:has(a))", "(color: hwb(0 0% 0%))", "(top: 1vw)", "(not (display:grid)) and (display: flex)"}

var containerConds = []string{"(min-width: 400px)", "cn (width > 300px)", "(max-width: 250px)", "(width >= 500px)", "cn (min-width: 100px)"}

var layerNames = []string{"l1", "l2", "l1.s", "l3"}

func (g *G) nestedItems(depth int, parentHasPE bool) string {
	var sb strings.Builder
	n := g.weighted("nnest", 60, 30, 10) + 1
	for i := 0; i < n; i++ {
		switch g.weighted("nkind", 70, 18, 6, 6) {
		case 0:
			if parentHasPE {
				continue
			}
			sb.WriteString(" " + g.nestedSelector() + " { " + semi(g.body()))
			if depth > 0 && g.chance("deeper", 25) {
				sb.WriteString(g.nestedItems(depth-1, false))
			}
			sb.WriteString(" }")
		case 1:
			sb.WriteString(" @media " + g.pick("mq", mediaQueries) + " { " + semi(g.body()))
			if depth > 0 && !parentHasPE && g.chance("deeper", 40) {
				sb.WriteString(g.nestedItems(depth-1, false))
			}
			sb.WriteString(" }")
		case 2:
			if g.O.Supports {
				sb.WriteString(" @supports " + g.pick("sc", supportsConds) + " { " + g.body() + " }")
			}
		default:
			if g.O.Layers {
				sb.WriteString(" @layer " + g.pick("ln", layerNames) + " { " + g.body() + " }")
			}
		}
	}
	return sb.String()
}

// semi terminates a declaration list so that a rule can follow it.
func semi(body string) string {
	if strings.HasSuffix(strings.TrimSpace(body), ";") {
		return body
	}
	return body + ";"
}

func (g *G) styleRule() string {
	nest := g.O.Nesting && g.chance("nested", 35)
	if !nest {
		return g.selectorList(true) + " { " + g.body() + " }"
	}
	var sel string
	hasPE := false
	if g.O.MixedParents && g.chance("mixed", 50) {
		sel = g.selectorList(false)
	} else {
		sel = g.uniformList()
		if g.chance("peparent", 6) {
			sel = g.pick("tag", Tags) + "::before"
			hasPE = true
		}
	}
	var sb strings.Builder
	sb.WriteString(sel + " {")
	if g.chance("declsfirst", 75) {
		sb.WriteString(" " + g.body())
		if !strings.HasSuffix(strings.TrimSpace(sb.String()), ";") {
			sb.WriteString(";")
		}
	}
	sb.WriteString(g.nestedItems(1, hasPE))
	if g.O.DeclAfterNested && g.chance("declafter", 40) {
		if g.O.ZOnly {
			sb.WriteString(" " + g.body() + ";")
		} else {
			sb.WriteString(" " + g.otherDecl() + ";")
		}
	}
	sb.WriteString(" }")
	return sb.String()
}

func (g *G) ruleList(depth, max int) string {
	n := g.num("nrules", 1, max)
	var parts []string
	for i := 0; i < n; i++ {
		parts = append(parts, g.rule(depth))
	}
	return strings.Join(parts, "\n")
}

var passThroughRules = []string{
	"@keyframes spin { from { top: 0 } 50% { top: 1px } to { top: 2px } }",
	"@font-face { font-family: f; src: url(f.woff2) format(\"woff2\") }",
	"@page { margin: 1cm }",
	"@property --p { syntax: \"<length>\"; inherits: false; initial-value: 0px }",
	"@counter-style cs { system: cyclic; symbols: \"*\" }",
	"@unknown-rule foo { bar: baz }",
	"@unknown-statement foo;",
}

func (g *G) rule(depth int) string {
	if depth >= 2 && g.chance("passthrough", 4) {
		// rules without a cascade effect in this model: they must simply survive and not disturb their neighbours
		return g.pick("ptr", passThroughRules)
	}
	w := []int{62, 14, 0, 0, 0}
	if depth <= 0 {
		w[1] = 0
	}
	if g.O.Supports && depth > 0 {
		w[2] = 5
	}
	if g.O.Layers {
		w[3] = 12
	}
	if g.O.Container && depth > 0 {
		w[4] = 4
	}
	switch g.weighted("rkind", w...) {
	case 0:
		return g.styleRule()
	case 1:
		return "@media " + g.pick("mq", mediaQueries) + " {\n" + g.ruleList(depth-1, 3) + "\n}"
	case 2:
		return "@supports " + g.pick("sc", supportsConds) + " {\n" + g.ruleList(depth-1, 2) + "\n}"
	case 3:
		switch g.weighted("lkind", 45, 15, 20, 10, 10) {
		case 0:
			if depth <= 0 {
				return "@layer " + g.pick("ln", layerNames) + " { " + g.styleRule() + " }"
			}
			return "@layer " + g.pick("ln", layerNames) + " {\n" + g.ruleList(depth-1, 2) + "\n}"
		case 1:
			return "@layer { " + g.styleRule() + " }"
		case 2:
			return "@layer " + g.pick("ln", layerNames) + g.pick("lstmt", []string{";", ", " + g.pick("ln", layerNames) + ";"})
		case 3:
			return "@layer " + g.pick("ln", layerNames) + " {}"
		default:
			return "@layer " + g.pick("ln", []string{"l1", "l2", "l3"}) + " { @layer " + g.pick("ln", []string{"s", "t"}) + " { " + g.styleRule() + " } }"
		}
	default:
		return "@container " + g.pick("cc", containerConds) + " {\n" + g.ruleList(depth-1, 2) + "\n}"
	}
}

// Sheet generates one style sheet.
func Sheet(t *rapid.T, o Opts) string {
	g := &G{T: t, O: o}
	if o.MaxRules == 0 {
		o.MaxRules = 6
	}
	return g.ruleList(2, o.MaxRules) + "\n"
}

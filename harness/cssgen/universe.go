// Package cssgen generates style sheets, elements and environments for the C12 checks, restricted
// to the subset that package cssref models completely (DESIGN.md C12.a).
package cssgen

import (
	"github.com/evanw/esbuild/verif/cssref"
)

// Alphabets shared by the selector generator and the element universe.
var (
	Tags          = []string{"div", "p", "span"}
	RareTags      = []string{"main"} // not in any "safe everywhere" list
	Classes       = []string{"a", "b", "c"}
	IDs           = []string{"x", "y"}
	States        = []string{"hover", "focus-visible", "-moz-ui-invalid", "active"}
	PseudoEls     = []string{"before", "after", "-webkit-input-placeholder", "-moz-placeholder"}
	VendorPseudos = []string{"-webkit-input-placeholder", "-moz-placeholder"}
)

func el(tag, id string, classes []string, attrs map[string]string, states []string, kids ...*cssref.Element) *cssref.Element {
	e := &cssref.Element{Tag: tag, ID: id, Classes: classes, Attrs: attrs, States: map[string]bool{}, Children: kids}
	if e.Attrs == nil {
		e.Attrs = map[string]string{}
	}
	for _, s := range states {
		e.States[s] = true
	}
	return e
}

// Trees is the enumerated universe of documents. Every element of every tree is evaluated.
func Trees() []*cssref.Element {
	s := func(x ...string) []string { return x }
	t1 := el("div", "x", s("a"), nil, s("hover"),
		el("p", "", s("a", "b"), map[string]string{"title": "Hi there"}, s("hover"),
			el("span", "", s("c"), nil, s("focus-visible"))),
		el("span", "", s("b"), map[string]string{"data-k": "v-1"}, s("hover", "-moz-ui-invalid")),
		el("p", "", nil, nil, nil,
			el("span", "y", s("a", "c"), nil, s("hover", "focus-visible", "active"))),
	)
	t2 := el("main", "", s("c"), nil, nil,
		el("div", "", s("b"), nil, s("active"),
			el("div", "", s("a", "b"), map[string]string{"title": "t"}, s("hover"),
				el("p", "", s("c"), nil, s("focus-visible", "hover")))),
		el("p", "y", s("a"), map[string]string{"title": "t", "data-k": "v"}, s("-moz-ui-invalid")),
		el("span", "", nil, nil, s("hover")),
		el("span", "x", s("b", "c"), nil, nil),
	)
	t3 := el("div", "", nil, nil, nil,
		el("div", "", s("a"), nil, nil,
			el("div", "", s("b"), nil, s("hover"),
				el("div", "", s("c"), nil, nil,
					el("span", "", s("a", "b", "c"), nil, s("hover", "active"))))),
		el("p", "", s("a"), nil, s("hover")),
		el("p", "", s("b"), nil, nil),
		el("p", "", s("a", "b"), nil, s("focus-visible")),
	)
	out := []*cssref.Element{t1, t2, t3}
	for _, t := range out {
		t.Link()
	}
	return out
}

// Targets lists every element of every tree, alone and with each of the given pseudo-elements.
func Targets(trees []*cssref.Element, pseudoEls []string) []cssref.Target {
	var out []cssref.Target
	for _, t := range trees {
		for _, e := range t.All() {
			out = append(out, cssref.Target{El: e})
			for _, pe := range pseudoEls {
				out = append(out, cssref.Target{El: e, PE: pe})
			}
		}
	}
	return out
}

// Device is the factual part of an environment.
type Device struct {
	Width          float64
	MediaType      string
	ContainerWidth float64
	Seed           uint64
}

// Devices is the enumerated set of device facts (viewport widths sit on, between and beyond the
// breakpoints the generator uses: 400, 600, 800).
var Devices = []Device{
	{300, "screen", 200, 1},
	{600, "screen", 500, 2},
	{700, "print", 500, 3},
	{800, "screen", 200, 4},
	{1000, "screen", 900, 5},
}

// Env builds an environment from device facts and the set of features that are not understood.
func (d Device) Env(lacking []string) *cssref.Env {
	e := &cssref.Env{Width: d.Width, MediaType: d.MediaType, ContainerWidth: d.ContainerWidth, Seed: d.Seed, Not: map[string]bool{}}
	for _, f := range lacking {
		e.Not[f] = true
	}
	return e
}

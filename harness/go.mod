module github.com/evanw/esbuild/verif

go 1.23

toolchain go1.23.5

require (
	github.com/evanw/esbuild v0.0.0
	pgregory.net/rapid v1.3.0
)

require golang.org/x/sys v0.0.0-20220715151400-c0bba94af5f8 // indirect

replace github.com/evanw/esbuild => /repo

// Package jsutil holds small analyses of esbuild output built on the independent parser jsref.
package jsutil

import (
	"github.com/evanw/esbuild/verif/jsref"
)

// Walk visits every node of the AST in pre-order.
func Walk(n *jsref.Node, fn func(*jsref.Node)) {
	if n == nil {
		return
	}
	fn(n)
	Walk(n.A, fn)
	Walk(n.B, fn)
	Walk(n.C, fn)
	Walk(n.D, fn)
	for _, c := range n.List {
		Walk(c, fn)
	}
}

// NonASCIIOutsideExempt returns the byte offset of the first non-ASCII byte that is not inside a
// regular-expression literal, a comment, or the text of a tagged template (whose raw strings cannot
// be escaped without changing their value), or -1. err != nil when jsref cannot parse the text.
func NonASCIIOutsideExempt(src string, module bool, jsx bool) (int, error) {
	hasHigh := false
	for i := 0; i < len(src); i++ {
		if src[i] >= 0x80 {
			hasHigh = true
			break
		}
	}
	if !hasHigh {
		return -1, nil
	}
	prog, err := jsref.Parse(src, jsref.Options{Module: module, JSX: jsx})
	if err != nil {
		return -1, err
	}
	exempt := make([]bool, len(src))
	mark := func(a, b int) {
		for i := a; i < b && i < len(exempt); i++ {
			exempt[i] = true
		}
	}
	for _, c := range prog.Comments {
		mark(c.Start, c.End)
	}
	for _, t := range prog.Tokens {
		if t.Kind == jsref.TRegex {
			mark(t.Start, t.End)
		}
	}
	Walk(prog.Body, func(n *jsref.Node) {
		if n.Type == jsref.NTemplate && n.A != nil {
			for _, t := range prog.Tokens {
				if t.Start >= n.A.End && t.End <= n.End {
					switch t.Kind {
					case jsref.TTemplateNoSub, jsref.TTemplateHead, jsref.TTemplateMiddle, jsref.TTemplateTail:
						mark(t.Start, t.End)
					}
				}
			}
		}
	})
	for i := 0; i < len(src); i++ {
		if src[i] >= 0x80 && !exempt[i] {
			return i, nil
		}
	}
	return -1, nil
}

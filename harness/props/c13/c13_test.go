// C13 — valid input is accepted; output is valid and a fixed point. See DESIGN.md section 5 / C13.
package c13

import (
	"encoding/json"
	"fmt"
	"math"
	"regexp"
	"strings"
	"testing"

	"github.com/evanw/esbuild/pkg/api"
	"github.com/evanw/esbuild/verif/corpus"
	"github.com/evanw/esbuild/verif/jsgen"
	"github.com/evanw/esbuild/verif/jslib"
	"github.com/evanw/esbuild/verif/jsref"
	"github.com/evanw/esbuild/verif/jsutil"
	"github.com/evanw/esbuild/verif/noderun"
	"github.com/evanw/esbuild/verif/vdrv"
	"pgregory.net/rapid"
)

var H *vdrv.H
var W *noderun.Worker
var Corp *corpus.Corpus

type Case struct {
	Code   string `json:"code"`
	Goal   string `json:"goal"`   // script | module
	Source string `json:"source"` // rare | gen | mut
	// option variant applied in addition to the default-options run
	Format   string `json:"format,omitempty"`
	MinifyWS bool   `json:"minify_whitespace,omitempty"`
	ASCII    bool   `json:"ascii,omitempty"`
}

func v8Parses(code, goal string) (bool, string, error) {
	res, err := W.ParseAll([]string{code}, goal)
	if err != nil {
		return false, "", err
	}
	return res[0] == "ok", res[0], nil
}

// stripComments removes comment ranges (found by jsref) and trailing blanks, for the fixed-point comparison.
func stripComments(src string, module bool) (string, bool) {
	p, err := jsref.Parse(src, jsref.Options{Module: module})
	if err != nil {
		return "", false
	}
	var sb strings.Builder
	last := 0
	for _, c := range p.Comments {
		if c.Start < last {
			continue
		}
		sb.WriteString(src[last:c.Start])
		last = c.End
	}
	sb.WriteString(src[last:])
	lines := strings.Split(sb.String(), "\n")
	var keep []string
	for _, l := range lines {
		l = strings.TrimRight(l, " \t")
		if l != "" {
			keep = append(keep, l)
		}
	}
	return strings.Join(keep, "\n"), true
}

// isTopLevelAwaitIdentifier: known finding C13-script-await-identifier — a *script* that uses `await`
// as an identifier outside any function. Narrow signature: goal script, V8 accepts, the token stream
// (from jsref in script goal) contains the identifier `await` at function-nesting depth 0.
func isTopLevelAwaitIdentifier(code string) bool {
	p, err := jsref.Parse(code, jsref.Options{})
	if err != nil {
		return false
	}
	// collect byte ranges of function bodies
	type rng struct{ a, b int }
	var fns []rng
	var walk func(n *jsref.Node)
	walk = func(n *jsref.Node) {
		if n == nil {
			return
		}
		switch n.Type {
		case jsref.NFunctionDecl, jsref.NFunctionExpr:
			// parameters and body of a non-arrow function (its name belongs to the enclosing scope for
			// declarations; arrow functions at the top level inherit esbuild's top-level-await context)
			start := n.End
			if n.B != nil {
				start = n.B.Start
			}
			for _, p := range n.List {
				if p != nil && p.Start < start {
					start = p.Start
				}
			}
			fns = append(fns, rng{start, n.End})
		}
		walk(n.A)
		walk(n.B)
		walk(n.C)
		walk(n.D)
		for _, c := range n.List {
			walk(c)
		}
	}
	walk(p.Body)
	for _, t := range p.Tokens {
		if (t.Kind == jsref.TIdent || t.Kind == jsref.TKeyword) && t.Ident == "await" {
			inside := false
			for _, f := range fns {
				if t.Start >= f.a && t.End <= f.b {
					inside = true
					break
				}
			}
			if !inside {
				return true
			}
		}
	}
	return false
}

var legacyDecimalFraction = regexp.MustCompile(`^0[0-7]+[89][0-9]*[.eE]`)

// hasLegacyDecimalWithFraction: known finding C13-legacy-decimal-fraction — an Annex B "08"-style
// decimal literal that starts with octal digits (012…8…) and continues with a fraction or exponent.
func hasLegacyDecimalWithFraction(code string) bool {
	toks, err := jsref.Tokenize(code, jsref.Options{})
	if err != nil {
		return false
	}
	for _, t := range toks {
		if t.Kind == jsref.TNum && legacyDecimalFraction.MatchString(t.Raw) {
			return true
		}
	}
	return false
}

func hasComments(src string, module bool) bool {
	p, err := jsref.Parse(src, jsref.Options{Module: module})
	return err == nil && len(p.Comments) > 0
}

// shadowsTopLevelFunctionInBlock: a block-level function declaration (sloppy code) whose name is also
// declared by a top-level function/var: esbuild emulates Annex B hoisting with `var name = …`, which
// is a redeclaration error in module code (known finding C13-esm-annexb-block-function).
func shadowsTopLevelFunctionInBlock(code string) bool {
	p, err := jsref.Parse(code, jsref.Options{})
	if err != nil || p.Body == nil {
		return false
	}
	top := map[string]bool{}
	for _, s := range p.Body.List {
		if s != nil && (s.Type == jsref.NFunctionDecl || s.Type == jsref.NClassDecl) && s.A != nil {
			top[s.A.Name] = true
		}
	}
	found := false
	for _, s := range p.Body.List {
		if s == nil || s.Type == jsref.NFunctionDecl {
			continue
		}
		jsutil.Walk(s, func(n *jsref.Node) {
			if n.Type == jsref.NFunctionDecl && n.A != nil && top[n.A.Name] {
				found = true
			}
		})
	}
	return found
}

func unparen(n *jsref.Node) *jsref.Node {
	for n != nil && n.Type == jsref.NParen {
		n = n.A
	}
	return n
}

// hasCallAssignmentTarget: `f() = 1`, `++f()`, `for (f() in x)` are early errors in the specification;
// V8 accepts them for web compatibility and throws at run time. Such programs are outside the
// language grammar, so they are removed from the domain (they are not "valid programs").
func hasCallAssignmentTarget(code string, module bool) bool {
	p, err := jsref.Parse(code, jsref.Options{Module: module})
	if err != nil {
		return false
	}
	found := false
	jsutil.Walk(p.Body, func(n *jsref.Node) {
		switch n.Type {
		case jsref.NAssign, jsref.NUpdate:
			if t := unparen(n.A); t != nil && (t.Type == jsref.NCall || t.Type == jsref.NNew || t.Type == jsref.NImportCall) {
				found = true
			}
		case jsref.NForIn, jsref.NForOf:
			if t := unparen(n.A); t != nil && t.Type == jsref.NCall {
				found = true
			}
		}
	})
	return found
}

// hasDuplicateBlockFunctions: known finding C13-block-duplicate-function — two function declarations
// with the same name directly in one block (legal in sloppy code, Annex B.3.3.4).
func hasDuplicateBlockFunctions(code string) bool {
	p, err := jsref.Parse(code, jsref.Options{})
	if err != nil {
		return false
	}
	found := false
	check := func(list []*jsref.Node) {
		seen := map[string]bool{}
		for _, s := range list {
			if s != nil && s.Type == jsref.NFunctionDecl && s.A != nil {
				if seen[s.A.Name] {
					found = true
				}
				seen[s.A.Name] = true
			}
		}
	}
	jsutil.Walk(p.Body, func(n *jsref.Node) {
		if n.Type == jsref.NBlock || n.Type == jsref.NCase {
			check(n.List)
		}
	})
	return found
}

// hasDisguisedUseStrict: known finding C13-use-strict-parenthesized-or-escaped — a string literal
// whose value is "use strict" but which is not a directive because it is parenthesised or spelled
// with an escape / line continuation.
func hasDisguisedUseStrict(code string, module bool) bool {
	toks, err := jsref.Tokenize(code, jsref.Options{Module: module})
	if err != nil {
		return false
	}
	for i, t := range toks {
		if t.Kind == jsref.TString && jsref.UTF16ToString(t.Str) == "use strict" {
			if t.Raw != "'use strict'" && t.Raw != "\"use strict\"" {
				return true
			}
			if i > 0 && toks[i-1].Raw == "(" {
				return true
			}
		}
	}
	return false
}

// hasOverflowingNumber: a numeric literal whose value is Infinity (known finding C13-infinity-literal-statement).
func hasOverflowingNumber(code string, module bool) bool {
	toks, err := jsref.Tokenize(code, jsref.Options{Module: module})
	if err != nil {
		return false
	}
	for _, t := range toks {
		if t.Kind == jsref.TNum && math.IsInf(t.Num, 0) {
			return true
		}
	}
	return false
}

// ---- known finding C13-escaped-identifier-glued-to-keyword
//
// With charset=ascii a non-BMP code point in an identifier is printed as `\u{10000}`; with
// minify-whitespace the printer decides whether a space is needed before a following keyword by
// looking at the last character written, and `}` is not an identifier character: `\u{10000}in y`,
// `export{\u{10000}as x}from"p"`, `import \u{10000}from"p"`. The keyword becomes part of the name.
// The signature is an output repair: put the space back after every `\u{…}` that is directly
// followed by one of the five keywords that can follow an identifier; the case matches only if the
// repaired output is valid (so any other cause of an invalid output is still a violation).
var gluedEscape = regexp.MustCompile(`(\\u\{[0-9A-Fa-f]+\})(as|from|in|instanceof|of)\b`)

func ungluedIdentifierEscapes(out string) (string, bool) {
	if !gluedEscape.MatchString(out) {
		return "", false
	}
	return gluedEscape.ReplaceAllString(out, "$1 $2"), true
}

// ---- known finding C13-import-conditional-dead-branch

// hasImportOfConditional: an `import()` whose (unparenthesised) argument is a conditional expression.
func hasImportOfConditional(code string, module bool) bool {
	p, err := jsref.Parse(code, jsref.Options{Module: module})
	if err != nil {
		return false
	}
	found := false
	jsutil.Walk(p.Body, func(n *jsref.Node) {
		if n.Type == jsref.NImportCall {
			if a := unparen(n.A); a != nil && a.Type == jsref.NCond {
				found = true
			}
		}
	})
	return found
}

// onlyDeadImportsBecameNull: the token streams of the two outputs are identical except that one or
// more `import ( <string> )` of the first are the single token `null` in the second.
func onlyDeadImportsBecameNull(out, out2 string, module bool) bool {
	a, err1 := jsref.Tokenize(out, jsref.Options{Module: module})
	b, err2 := jsref.Tokenize(out2, jsref.Options{Module: module})
	if err1 != nil || err2 != nil {
		return false
	}
	i, j, n := 0, 0, 0
	for i < len(a) && j < len(b) {
		if a[i].Kind == b[j].Kind && a[i].Raw == b[j].Raw {
			i++
			j++
			continue
		}
		if b[j].Raw == "null" && i+3 < len(a) && a[i].Raw == "import" && a[i+1].Raw == "(" && a[i+2].Kind == jsref.TString && a[i+3].Raw == ")" {
			i += 4
			j++
			n++
			continue
		}
		return false
	}
	return i == len(a) && j == len(b) && n > 0
}

// ---- known finding C13-with-var-renamed

// bindingNames appends the names bound by a binding target.
func bindingNames(t *jsref.Node, out map[string]bool) {
	if t == nil {
		return
	}
	switch t.Type {
	case jsref.NIdent:
		out[t.Name] = true
	case jsref.NAssign, jsref.NSpread, jsref.NParen:
		bindingNames(t.A, out)
	case jsref.NArray:
		for _, e := range t.List {
			bindingNames(e, out)
		}
	case jsref.NObject:
		for _, e := range t.List {
			if e != nil && e.Type == jsref.NProperty {
				bindingNames(e.B, out)
			} else {
				bindingNames(e, out)
			}
		}
	}
}

// varNamesInsideWith returns the names that a `var` declaration (or a block-level function
// declaration, which sloppy code hoists like a var) declares inside the body of a `with` statement
// without an intervening function boundary.
func varNamesInsideWith(code string) map[string]bool {
	names := map[string]bool{}
	p, err := jsref.Parse(code, jsref.Options{})
	if err != nil {
		return names
	}
	var walk func(n *jsref.Node, inWith, top bool)
	walk = func(n *jsref.Node, inWith, top bool) {
		if n == nil {
			return
		}
		switch n.Type {
		case jsref.NFunctionDecl:
			if inWith && !top && n.A != nil {
				names[n.A.Name] = true
			}
			for _, c := range n.List {
				walk(c, false, false)
			}
			walk(n.B, false, true)
			return
		case jsref.NFunctionExpr, jsref.NArrow, jsref.NClassDecl, jsref.NClassExpr, jsref.NStaticBlock:
			inWith = false
		case jsref.NVarDecl:
			if inWith && n.Name == "var" {
				for _, d := range n.List {
					if d != nil {
						bindingNames(d.A, names)
					}
				}
			}
		case jsref.NWith:
			walk(n.A, inWith, false)
			walk(n.B, true, false)
			return
		}
		walk(n.A, inWith, false)
		walk(n.B, inWith, false)
		walk(n.C, inWith, false)
		walk(n.D, inWith, false)
		for _, c := range n.List {
			walk(c, inWith, false)
		}
	}
	walk(p.Body, false, true)
	return names
}

func isNameWithDigits(id string, names map[string]bool) string {
	base := strings.TrimRight(id, "0123456789")
	for k := len(base); k <= len(id); k++ {
		if names[id[:k]] {
			return id[:k]
		}
	}
	return ""
}

// onlyWithVarsRenamed: the two outputs have the same token stream except for identifier tokens, and
// every identifier that differs is, in both outputs, one of `names` followed by digits (the renamer
// appended another number to a variable that a `with` body declares).
func onlyWithVarsRenamed(out, out2 string, names map[string]bool) bool {
	if len(names) == 0 {
		return false
	}
	a, err1 := jsref.Tokenize(out, jsref.Options{})
	b, err2 := jsref.Tokenize(out2, jsref.Options{})
	if err1 != nil || err2 != nil || len(a) != len(b) {
		return false
	}
	n := 0
	for i := range a {
		if a[i].Kind == b[i].Kind && a[i].Raw == b[i].Raw {
			continue
		}
		if a[i].Kind != jsref.TIdent || b[i].Kind != jsref.TIdent {
			return false
		}
		na, nb := isNameWithDigits(a[i].Ident, names), isNameWithDigits(b[i].Ident, names)
		if na == "" || na != nb {
			return false
		}
		n++
	}
	return n > 0
}

// esbuild decides between script and module by the presence of ESM syntax; a module-goal case without
// any import/export would be ambiguous, so it gets an empty export list.
func markModule(c *Case) {
	if c.Goal == "module" && !strings.Contains(c.Code, "export") && !strings.Contains(c.Code, "import") {
		c.Code += "\nexport {};"
	}
}

func judge(c Case) vdrv.Verdict {
	markModule(&c)
	ok, _, err := v8Parses(c.Code, c.Goal)
	if err != nil {
		return vdrv.Skip("node-infra")
	}
	if !ok {
		return vdrv.Skip("v8-rejects") // outside the domain of this property (used by C16 only)
	}
	cls := []string{"src=" + c.Source, "goal=" + c.Goal}
	// 1. acceptance with default options
	r := api.Transform(c.Code, api.TransformOptions{LogLevel: api.LogLevelSilent})
	if len(r.Errors) > 0 {
		if hasCallAssignmentTarget(c.Code, c.Goal == "module") {
			return vdrv.Skip("v8-webcompat-call-expression-as-assignment-target")
		}
		v := vdrv.Fail("esbuild rejects a program that V8 accepts as a "+c.Goal+": "+r.Errors[0].Text, "accepted", fmtMsgs(r.Errors))
		switch {
		case c.Goal == "script" && isTopLevelAwaitIdentifier(c.Code):
			v.Known = "C13-script-await-identifier"
		case hasDisguisedUseStrict(c.Code, c.Goal == "module") && (strings.Contains(fmtMsgs(r.Errors), "strict mode") || strings.Contains(fmtMsgs(r.Errors), "\"use strict\" directive")):
			v.Known = "C13-use-strict-parenthesized-or-escaped"
		case hasLegacyDecimalWithFraction(c.Code):
			v.Known = "C13-legacy-decimal-fraction"
		}
		return v
	}
	out := string(r.Code)
	// 2. the output is valid in the same goal (no format conversion requested)
	ok, why, err := v8Parses(out, c.Goal)
	if err != nil {
		return vdrv.Skip("node-infra")
	}
	if !ok {
		v := vdrv.Fail("esbuild's output is not a valid "+c.Goal+" according to V8: "+why, "valid", out)
		switch {
		case c.Goal == "script" && isTopLevelAwaitIdentifier(c.Code):
			v.Known = "C13-script-await-identifier" // esbuild read the identifier as the keyword
		case c.Goal == "script" && hasDuplicateBlockFunctions(c.Code):
			v.Known = "C13-block-duplicate-function"
		}
		return v
	}
	if _, perr := jsref.Parse(out, jsref.Options{Module: c.Goal == "module"}); perr != nil {
		return vdrv.Skip("jsref-gap") // V8 accepts, our second parser does not: harness gap
	}
	// 3. fixed point of the default output
	r2 := api.Transform(out, api.TransformOptions{LogLevel: api.LogLevelSilent})
	if len(r2.Errors) > 0 {
		return vdrv.Fail("esbuild rejects its own default output: "+r2.Errors[0].Text, out, fmtMsgs(r2.Errors))
	}
	out2 := string(r2.Code)
	if out2 != out {
		a, ok1 := stripComments(out, c.Goal == "module")
		b, ok2 := stripComments(out2, c.Goal == "module")
		if !ok1 || !ok2 {
			return vdrv.Skip("jsref-gap")
		}
		if a != b && hasComments(out, c.Goal == "module") {
			// "Ignoring comments" is ill-defined when a comment sits inside an expression: esbuild keeps such
			// a comment by adding parentheses and line breaks, which the next pass sees as input structure.
			// For outputs that contain comments the check therefore demands only that the second output is
			// itself a fixed point (no oscillation / growth).
			r3 := api.Transform(out2, api.TransformOptions{LogLevel: api.LogLevelSilent})
			if len(r3.Errors) > 0 {
				return vdrv.Fail("esbuild rejects its own second-generation output: "+r3.Errors[0].Text, out2, fmtMsgs(r3.Errors))
			}
			a3, ok3 := stripComments(string(r3.Code), c.Goal == "module")
			if !ok3 {
				return vdrv.Skip("jsref-gap")
			}
			if a3 != b {
				return vdrv.Fail("output with comments does not reach a fixed point after two passes", out2, string(r3.Code))
			}
			cls = append(cls, "fixed-point-after-comment-normalisation")
		} else if a != b {
			v := vdrv.Fail("default output is not a fixed point (comments ignored)", out, out2)
			switch {
			case hasOverflowingNumber(c.Code, c.Goal == "module") && strings.Contains(out, "Infinity"):
				v.Known = "C13-infinity-literal-statement"
			case hasImportOfConditional(c.Code, c.Goal == "module") && onlyDeadImportsBecameNull(out, out2, c.Goal == "module"):
				v.Known = "C13-import-conditional-dead-branch"
			case c.Goal == "script" && onlyWithVarsRenamed(out, out2, varNamesInsideWith(c.Code)):
				v.Known = "C13-with-var-renamed"
			}
			return v
		}
		cls = append(cls, "differs-in-comments-only")
	}
	// 4. the option variant: if esbuild produces output it must be valid in the goal the format implies
	if c.Format != "" || c.MinifyWS || c.ASCII {
		o := api.TransformOptions{LogLevel: api.LogLevelSilent, MinifyWhitespace: c.MinifyWS}
		if c.ASCII {
			o.Charset = api.CharsetASCII
		} else {
			o.Charset = api.CharsetUTF8
		}
		goal := c.Goal
		wrap := func(s string) string { return s }
		switch c.Format {
		case "esm":
			o.Format = api.FormatESModule
			goal = "module"
		case "cjs":
			o.Format = api.FormatCommonJS
			goal = "script"
			wrap = func(s string) string {
				if strings.HasPrefix(s, "#!") { // a hashbang is only legal at the very start of the file
					if i := strings.IndexByte(s, '\n'); i >= 0 {
						s = s[i:]
					} else {
						s = ""
					}
				}
				return "(function (module, exports, require) {" + s + "\n})"
			}
		case "iife":
			o.Format = api.FormatIIFE
			goal = "script"
		}
		rv := api.Transform(c.Code, o)
		if len(rv.Errors) > 0 {
			cls = append(cls, "refused-under-options") // e.g. `with` or sloppy-only code converted to ESM: documented
		} else {
			ok, why, err := v8Parses(wrap(string(rv.Code)), goal)
			if err != nil {
				return vdrv.Skip("node-infra")
			}
			if !ok {
				v := vdrv.Fail(fmt.Sprintf("output for format=%q minify-whitespace=%v ascii=%v is not valid (%s): %s", c.Format, c.MinifyWS, c.ASCII, goal, why), "valid", string(rv.Code))
				if fixed, glued := ungluedIdentifierEscapes(string(rv.Code)); glued && c.ASCII && c.MinifyWS {
					// known finding C13-escaped-identifier-glued-to-keyword: the output is valid once the space
					// after the `\u{…}` escape that ends an identifier is put back
					if ok2, _, err := v8Parses(wrap(fixed), goal); err == nil && ok2 {
						v.Known = "C13-escaped-identifier-glued-to-keyword"
					}
				}
				if v.Known == "" && c.Format == "esm" && c.Goal == "script" {
					// known finding C13-esm-not-a-module: a script that is not valid *module* code (sloppy-only
					// constructs, `await` as an identifier) is converted to ESM without a diagnostic.
					// Signature: V8 rejects the input text itself when parsed with the module goal.
					if res, err := W.Call(noderun.Req{Kind: "parse", Goal: "module", Codes: []string{c.Code}}); err == nil && len(res.Results) == 1 && res.Results[0] != "ok" {
						v.Known = "C13-esm-not-a-module"
					} else if shadowsTopLevelFunctionInBlock(c.Code) {
						v.Known = "C13-esm-annexb-block-function"
					}
				}
				return v
			}
			cls = append(cls, "variant-ok")
		}
	}
	ntoks := 0
	if toks, err := jsref.Tokenize(c.Code, jsref.Options{Module: c.Goal == "module"}); err == nil {
		ntoks = len(toks)
	}
	v := vdrv.Pass(c.Source == "rare" || ntoks >= 12, cls...)
	v.Observed = clip(out, 300)
	return v
}

func clip(s string, n int) string {
	if len(s) > n {
		return s[:n] + "…"
	}
	return s
}

func fmtMsgs(ms []api.Message) string {
	var sb strings.Builder
	for _, m := range ms {
		sb.WriteString(m.Text)
		if m.Location != nil {
			fmt.Fprintf(&sb, " (%d:%d: %s)", m.Location.Line, m.Location.Column, m.Location.LineText)
		}
		sb.WriteString("\n")
	}
	return sb.String()
}

func replay(raw json.RawMessage) vdrv.Verdict {
	var c Case
	if json.Unmarshal(raw, &c) != nil {
		return vdrv.Skip("bad-replay")
	}
	v := judge(c)
	v.Known = ""
	return v
}

func drawVariant(rt *rapid.T, c *Case) {
	c.Format = rapid.SampledFrom([]string{"", "", "esm", "cjs", "iife"}).Draw(rt, "format")
	c.MinifyWS = rapid.Bool().Draw(rt, "minws")
	c.ASCII = rapid.Bool().Draw(rt, "ascii")
}

// wrapVariants places a snippet in the contexts that matter for validity: top level, function body,
// strict function, arrow body, class method, block, generator, async function.
var wrappers = []string{"@", "@", "function w() { @\n}", "function w() { 'use strict'; @\n}", "var w = () => { @\n}", "{ @\n}", "function* w() { @\n}", "async function w() { @\n}", "class W { m() { @\n} }", "if (1) { @\n}", "L: { @\n}", "'use strict'; @", "@\nexport {}", "export default function () { @\n}"}

func runRare(t *testing.T) {
	H.Rule("rare", fmt.Sprintf("rapid: sequences of 1–3 entries from a table of %d rare grammar productions (ASI boundaries, regex-vs-division, contextual keywords as identifiers, cover grammars, labelled functions, HTML comments, numeric separators, identifier escapes, class element combinations, `in` in for-initialisers, new/optional-chain/`**`/`??` grouping …) placed in 14 wrappers (top level, strict/sloppy function, arrow, generator, async, class method, block, module), script and module goal; domain = what V8 accepts in that goal; oracle: esbuild reports no error, output parses in V8 and jsref, Transform(output)==output modulo comments (default options), and every format/minify-whitespace/charset variant that is produced parses in the goal its format implies; non-trivial = every V8-accepted case from this table", len(jslib.RareSnippets)))
	H.SetupRapid("rare", H.N(6000, 250000))
	rapid.Check(t, func(rt *rapid.T) {
		n := rapid.IntRange(1, 3).Draw(rt, "n")
		var parts []string
		for i := 0; i < n; i++ {
			parts = append(parts, rapid.SampledFrom(jslib.RareSnippets).Draw(rt, "snippet"))
		}
		sep := rapid.SampledFrom([]string{"\n", ";\n", "\n;"}).Draw(rt, "sep")
		body := strings.Join(parts, sep)
		w := rapid.SampledFrom(wrappers).Draw(rt, "wrapper")
		c := Case{Code: strings.Replace(w, "@", body, 1), Source: "rare", Goal: "script"}
		if strings.Contains(w, "export") || rapid.IntRange(0, 5).Draw(rt, "asmodule") == 0 {
			c.Goal = "module"
		}
		drawVariant(rt, &c)
		H.Report(rt, "rare", fmt.Sprint(c), c, judge(c))
	})
}

// exhaustive pass over the table itself (each snippet × each wrapper × both goals)
func runRareTable(t *testing.T) {
	H.Rule("raretable", "bounded-exhaustive: every table entry × every wrapper × {script, module}")
	i := 0
	for _, s := range jslib.RareSnippets {
		for _, w := range wrappers {
			for _, goal := range []string{"script", "module"} {
				i++
				if !H.MySlice(i) {
					continue
				}
				if !H.Thorough() && uint64(i/H.NShards)%3 != H.Seed%3 && w != "@" {
					continue
				}
				c := Case{Code: strings.Replace(w, "@", s, 1), Source: "rare", Goal: goal}
				if strings.Contains(w, "export") && goal == "script" {
					continue
				}
				H.Report(t, "raretable", fmt.Sprint(c), c, judge(c))
			}
		}
	}
	H.Exhaustive("raretable", H.Thorough())
}

func runGen(t *testing.T) {
	H.Rule("gen", "rapid: jsgen programs (all ES2022 features, sloppy and strict, colliding identifier names), script goal; same oracle; non-trivial = ≥12 tokens")
	H.SetupRapid("gen", H.N(1500, 80000))
	rapid.Check(t, func(rt *rapid.T) {
		names := jsgen.NamesPlain
		if rapid.Bool().Draw(rt, "colliding") {
			names = jsgen.NamesColliding
		}
		code := jsgen.Program(rt, jsgen.Config{Features: jsgen.FAll, Strict: rapid.Bool().Draw(rt, "strict"), MaxDepth: 3, MaxStmts: 6, Names: names, WrapAsync: rapid.Bool().Draw(rt, "async")})
		c := Case{Code: code, Source: "gen", Goal: "script"}
		drawVariant(rt, &c)
		H.Report(rt, "gen", fmt.Sprint(c), c, judge(c))
	})
}

// ---- token-level mutation of the repository's own test inputs

func mutate(rt *rapid.T, src string, donor string) (string, bool) {
	toks, err := jsref.Tokenize(src, jsref.Options{})
	if err != nil || len(toks) < 2 {
		toks, err = jsref.Tokenize(src, jsref.Options{Module: true})
		if err != nil || len(toks) < 2 {
			return "", false
		}
	}
	n := len(toks)
	if toks[n-1].Kind == jsref.TEOF {
		n--
	}
	if n < 1 {
		return "", false
	}
	type piece struct{ gap, text string }
	var ps []piece
	prev := 0
	for i := 0; i < n; i++ {
		ps = append(ps, piece{src[prev:toks[i].Start], src[toks[i].Start:toks[i].End]})
		prev = toks[i].End
	}
	tail := src[prev:]
	i := rapid.IntRange(0, n-1).Draw(rt, "pos")
	switch rapid.IntRange(0, 6).Draw(rt, "mutation") {
	case 0: // delete
		ps = append(ps[:i:i], ps[i+1:]...)
	case 1: // duplicate
		ps = append(ps[:i+1:i+1], append([]piece{{" ", ps[i].text}}, ps[i+1:]...)...)
	case 2: // swap with next
		if i+1 < len(ps) {
			ps[i].text, ps[i+1].text = ps[i+1].text, ps[i].text
		}
	case 3: // splice a token from another snippet
		dt, err := jsref.Tokenize(donor, jsref.Options{})
		if err == nil && len(dt) > 1 {
			j := rapid.IntRange(0, len(dt)-2).Draw(rt, "donorpos")
			ps[i].text = donor[dt[j].Start:dt[j].End]
		}
	case 4: // newline before the token (ASI)
		ps[i].gap = "\n"
	case 5: // remove the whitespace before the token when both sides are punctuation-safe, else single space
		ps[i].gap = rapid.SampledFrom([]string{"", " ", "/**/", "\n\n", "\t"}).Draw(rt, "gap")
	case 6: // wrap token i..j in parentheses
		j := rapid.IntRange(i, n-1).Draw(rt, "end")
		if j < len(ps) {
			ps[i].text = "(" + ps[i].text
			ps[j].text = ps[j].text + ")"
		}
	}
	var sb strings.Builder
	for _, p := range ps {
		sb.WriteString(p.gap)
		sb.WriteString(p.text)
	}
	sb.WriteString(tail)
	return sb.String(), true
}

func runMut(t *testing.T) {
	snips := Corp.For("js")
	H.Rule("mut", fmt.Sprintf("rapid: token-level mutations (delete, duplicate, swap, splice from another snippet, newline insertion, gap change, parenthesise a token range) of the %d JavaScript inputs harvested from the repository's own parser/printer/bundler tests, and the unmutated inputs; domain = what V8 accepts; same oracle; non-trivial = ≥12 tokens", len(snips)))
	if len(snips) == 0 {
		t.Fatalf("INFRA: empty corpus")
	}
	H.SetupRapid("mut", H.N(12000, 600000))
	rapid.Check(t, func(rt *rapid.T) {
		s := snips[rapid.IntRange(0, len(snips)-1).Draw(rt, "snippet")]
		if len(s) > 4000 {
			s = s[:4000]
		}
		code := s
		if rapid.IntRange(0, 9).Draw(rt, "mutate") > 0 {
			d := snips[rapid.IntRange(0, len(snips)-1).Draw(rt, "donor")]
			m, ok := mutate(rt, s, d)
			if ok {
				code = m
			}
		}
		c := Case{Code: code, Source: "mut", Goal: rapid.SampledFrom([]string{"script", "script", "module"}).Draw(rt, "goal")}
		if rapid.IntRange(0, 2).Draw(rt, "variant") == 0 {
			drawVariant(rt, &c)
		}
		H.Report(rt, "mut", fmt.Sprint(c), c, judge(c))
	})
}

var subs = map[string]vdrv.ReplayFunc{"rare": replay, "raretable": replay, "gen": replay, "mut": replay}

func setup(t *testing.T) {
	H = vdrv.New("C13")
	var err error
	W, err = noderun.Start("")
	if err != nil {
		t.Fatalf("INFRA: %v", err)
	}
	Corp, err = corpus.Load(vdrv.RepoDir(), vdrv.Root())
	if err != nil {
		t.Fatalf("INFRA: corpus: %v", err)
	}
}

func TestCheck(t *testing.T) {
	setup(t)
	defer W.Close()
	complete := false
	defer func() { H.Finish(complete) }()
	H.RunReplays(t, subs)
	H.Sub(t, "raretable", runRareTable)
	H.Sub(t, "rare", runRare)
	H.Sub(t, "gen", runGen)
	H.Sub(t, "mut", runMut)
	complete = true
}

func TestReplay(t *testing.T) {
	setup(t)
	defer W.Close()
	H.ReplayOne(t, subs)
}

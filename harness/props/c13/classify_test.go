package c13

import (
	"encoding/json"
	"fmt"
	"os"
	"strings"
	"testing"

	"github.com/evanw/esbuild/verif/vdrv"
)

// TestClassify is a development aid (skipped unless VERIF_C13_CLASSIFY names replay files, separated
// by ':'): it prints the verdict of judge for each file *with* the known-finding attribution, which
// `./check C13 --replay` deliberately hides.
func TestClassify(t *testing.T) {
	files := os.Getenv("VERIF_C13_CLASSIFY")
	if files == "" {
		t.Skip("VERIF_C13_CLASSIFY not set")
	}
	setup(t)
	defer W.Close()
	for _, f := range strings.Split(files, ":") {
		r, err := vdrv.LoadReplay(f)
		if err != nil {
			t.Fatalf("%s: %v", f, err)
		}
		var c Case
		if err := json.Unmarshal(r.Case, &c); err != nil {
			t.Fatalf("%s: %v", f, err)
		}
		v := judge(c)
		fmt.Printf("CLASSIFY %s ok=%v known=%q discard=%q detail=%s\n", f, v.OK, v.Known, v.Discard, clip(v.Detail, 160))
	}
}

// C18 — [hash] in output names is a function of content and references; references resolve; no
// placeholder survives. See DESIGN.md section 5 / C18.
package c18

import (
	"bytes"
	"encoding/base64"
	"encoding/json"
	"fmt"
	"net/url"
	"os"
	"path"
	"regexp"
	"runtime/debug"
	"sort"
	"strings"
	"testing"

	"github.com/evanw/esbuild/pkg/api"
	"github.com/evanw/esbuild/verif/projgen"
	"github.com/evanw/esbuild/verif/vdrv"
	"pgregory.net/rapid"
)

var H *vdrv.H

// Edit is the single difference between build B1 and build B2.
type Edit struct {
	Kind string `json:"kind"` // code | comment | legal | asset | css | css-comment | css-legal | inmap | opt-publicpath | opt-entrynames | opt-chunknames | opt-assetnames | opt-sourcemap | opt-legal | none
	Path string `json:"path,omitempty"`
	Old  string `json:"old,omitempty"` // first occurrence of Old in the file is replaced by New
	New  string `json:"new,omitempty"`
	Opt  string `json:"opt,omitempty"` // new option value for opt-* edits
}

type Case struct {
	Project projgen.Project `json:"project"`
	Edit    Edit            `json:"edit"`
}

func isOptEdit(k string) bool { return strings.HasPrefix(k, "opt-") }

// apply returns the edited project (nil if the edit does not apply).
func apply(p projgen.Project, e Edit) *projgen.Project {
	q := p.Clone()
	switch e.Kind {
	case "none":
	case "opt-publicpath":
		q.Opts.PublicPath = e.Opt
	case "opt-entrynames":
		q.Opts.EntryNames = e.Opt
	case "opt-chunknames":
		q.Opts.ChunkNames = e.Opt
	case "opt-assetnames":
		q.Opts.AssetNames = e.Opt
	case "opt-sourcemap":
		q.Opts.Sourcemap = e.Opt
	case "opt-legal":
		q.Opts.LegalComments = e.Opt
	default:
		i := q.FileIndex(e.Path)
		if i < 0 {
			return nil
		}
		b := q.Files[i].Bytes()
		k := bytes.Index(b, []byte(e.Old))
		if k < 0 || e.Old == "" || e.Old == e.New {
			return nil
		}
		nb := append(append(append([]byte(nil), b[:k]...), []byte(e.New)...), b[k+len(e.Old):]...)
		q.Files[i].SetBytes(nb)
	}
	return &q
}

type build struct {
	outs  []projgen.Out
	byP   map[string][]byte
	refs  map[string][]string // output path → emitted paths it references (resolved)
	nExt  int
	nRefs int
}

var hashRe = regexp.MustCompile(`[A-Z2-7]{8}`)
var placeholderRe = regexp.MustCompile(`[A-Za-z0-9_-]{16}[AC][0-9]{8}`)
var markRe = regexp.MustCompile(`MARK_[a-z]+[0-9]*`)

// plainAsset reports whether the output at path is an ordinary (non-entry) file/copy asset of a project whose
// asset-names template has no [hash]: its name is then exactly the input's base name by the user's choice.
func plainAsset(p *projgen.Project, path string) bool {
	if p.Opts.AssetNames == "" || strings.Contains(p.Opts.AssetNames, "[hash]") {
		return false
	}
	base := path[strings.LastIndex(path, "/")+1:]
	for _, f := range p.Files {
		if (f.Kind == projgen.KCopy || f.Kind == projgen.KFile) && f.Path[strings.LastIndex(f.Path, "/")+1:] == base {
			for _, e := range p.Entries {
				if e == f.Path {
					return false
				}
			}
			return true
		}
	}
	return false
}

func isChunk(p string) bool { return strings.HasSuffix(p, ".js") || strings.HasSuffix(p, ".css") }
func isSidecar(p string) bool {
	return strings.HasSuffix(p, ".map") || strings.HasSuffix(p, ".LEGAL.txt")
}

func isExternalSpec(p *projgen.Project, spec string) bool {
	if strings.HasPrefix(spec, "https://ext.example/") {
		return true
	}
	for _, e := range p.Opts.External {
		if strings.HasSuffix(e, "*") && strings.HasPrefix(spec, strings.TrimSuffix(e, "*")) {
			return true
		}
		if e == spec {
			return true
		}
	}
	return false
}

// resolveRef maps a reference written into output file `from` onto a root-relative path.
func resolveRef(p *projgen.Project, from, spec string) (string, bool) {
	if pp := p.Opts.PublicPath; pp != "" {
		prefix := pp
		if !strings.HasSuffix(prefix, "/") {
			prefix += "/"
		}
		if !strings.HasPrefix(spec, prefix) {
			return "", false
		}
		return path.Join(p.Opts.Outdir, spec[len(prefix):]), true
	}
	if strings.HasPrefix(spec, "./") || strings.HasPrefix(spec, "../") {
		return path.Join(path.Dir(from), spec), true
	}
	return "", false
}

// analyse parses every output of a build and checks oracle (3): every reference names an emitted file.
func analyse(p *projgen.Project, outs []projgen.Out) (*build, *vdrv.Verdict) {
	b := &build{outs: outs, byP: map[string][]byte{}, refs: map[string][]string{}}
	for _, o := range outs {
		if _, dup := b.byP[o.Path]; dup {
			v := vdrv.Fail("the same output path is emitted twice in one build: "+o.Path, "distinct paths", o.Path)
			return nil, &v
		}
		b.byP[o.Path] = o.Contents
	}
	check := func(from, what, spec string) *vdrv.Verdict {
		if isExternalSpec(p, spec) {
			b.nExt++
			return nil
		}
		tgt, ok := resolveRef(p, from, spec)
		if !ok {
			v := vdrv.Fail(fmt.Sprintf("%s %q in %s is neither external nor of the form expected for PublicPath=%q", what, spec, from, p.Opts.PublicPath), "a relative or public-path reference to an emitted file", spec)
			return &v
		}
		if _, ok := b.byP[tgt]; !ok {
			v := vdrv.Fail(fmt.Sprintf("%s %q in %s resolves to %s, which this build did not emit", what, spec, from, tgt), "one of: "+strings.Join(paths(outs), " "), tgt)
			return &v
		}
		b.refs[from] = append(b.refs[from], tgt)
		b.nRefs++
		return nil
	}
	for _, o := range outs {
		var comments []string
		switch {
		case strings.HasSuffix(o.Path, ".js"):
			info, err := projgen.ScanJS(o.Contents)
			if err != nil {
				v := vdrv.Skip("jsscan-failed")
				return nil, &v
			}
			comments = info.Comments
			for _, im := range info.Imports {
				if v := check(o.Path, im.Kind, im.Spec); v != nil {
					return nil, v
				}
			}
			for _, s := range info.Strings {
				if (strings.HasSuffix(s, ".png") || strings.HasSuffix(s, ".bin")) && p.FileIndex(s) < 0 { // not the pretty path of an input (key of an __esm/__commonJS wrapper)
					if v := check(o.Path, "asset path string", s); v != nil {
						return nil, v
					}
				}
			}
		case strings.HasSuffix(o.Path, ".css"):
			info, err := projgen.ScanCSS(o.Contents)
			if err != nil {
				v := vdrv.Skip("cssscan-failed")
				return nil, &v
			}
			comments = info.Comments
			for _, im := range info.Imports {
				if strings.HasPrefix(im.Spec, "data:") {
					continue
				}
				if v := check(o.Path, im.Kind, im.Spec); v != nil {
					return nil, v
				}
			}
		default:
			continue
		}
		sm, legal := projgen.TrailerLinks(comments)
		for _, s := range sm {
			if strings.HasPrefix(s, "data:") {
				continue
			}
			u, err := url.PathUnescape(s)
			if err != nil {
				u = s
			}
			if p.Opts.PublicPath == "" {
				u = "./" + u
			}
			if v := check(o.Path, "sourceMappingURL", u); v != nil {
				return nil, v
			}
		}
		for _, s := range legal {
			if p.Opts.PublicPath == "" {
				s = "./" + s
			}
			if v := check(o.Path, "legal-comment link", s); v != nil {
				return nil, v
			}
		}
	}
	return b, nil
}

func paths(outs []projgen.Out) []string {
	var r []string
	for _, o := range outs {
		r = append(r, o.Path)
	}
	return r
}

// stripInlineMap removes inline source map comments (base64 is not input text) and returns the decoded maps.
func stripInlineMap(b []byte) ([]byte, [][]byte) {
	var maps [][]byte
	const tag = "# sourceMappingURL=data:application/json;base64,"
	for {
		i := bytes.Index(b, []byte(tag))
		if i < 0 {
			return b, maps
		}
		j := i + len(tag)
		k := j
		for k < len(b) && b[k] != '\n' && b[k] != ' ' && b[k] != '*' {
			k++
		}
		if dec, err := base64.StdEncoding.DecodeString(string(b[j:k])); err == nil {
			maps = append(maps, dec)
		}
		b = append(append([]byte(nil), b[:i]...), b[k:]...)
	}
}

var mappingsRe = regexp.MustCompile(`"mappings":\s*"[^"]*"`)

// placeholderScan looks for tokens shaped like esbuild's internal unique keys that do not come from the inputs.
func placeholderScan(p *projgen.Project, outs []projgen.Out) (string, string) {
	var hay [][]byte
	for _, f := range p.Files {
		b := f.Bytes()
		hay = append(hay, b, []byte(base64.StdEncoding.EncodeToString(b)))
	}
	if p.Stdin != nil {
		hay = append(hay, []byte(p.Stdin.Contents))
	}
	o := p.Opts
	for _, s := range []string{o.PublicPath, o.BannerJS, o.BannerCSS, o.FooterJS, o.FooterCSS, o.EntryNames, o.ChunkNames, o.AssetNames} {
		hay = append(hay, []byte(s))
	}
	fromInputs := func(tok []byte) bool {
		for _, h := range hay {
			if bytes.Contains(h, tok) {
				return true
			}
		}
		return false
	}
	for _, out := range outs {
		body, maps := stripInlineMap(out.Contents)
		regions := append([][]byte{body}, maps...)
		for ri, r := range regions {
			if ri > 0 || strings.HasSuffix(out.Path, ".map") {
				r = mappingsRe.ReplaceAll(r, []byte(`"mappings":""`))
			}
			// overlapping search: slide over every start offset of a word run
			for _, loc := range placeholderRe.FindAllIndex(r, -1) {
				// extend over the whole run of word characters so that every 25-byte window is examined
				s, e := loc[0], loc[1]
				for e < len(r) && isWord(r[e]) {
					e++
				}
				run := r[s:e]
				for k := 0; k+25 <= len(run); k++ {
					w := run[k : k+25]
					if placeholderRe.Match(w) && !fromInputs(w) {
						return out.Path, string(w)
					}
				}
			}
		}
	}
	return "", ""
}

func isWord(c byte) bool {
	return c == '_' || c == '-' || c >= '0' && c <= '9' || c >= 'a' && c <= 'z' || c >= 'A' && c <= 'Z'
}

// identity of a chunk/asset that is stable across an input edit: name with hashes masked + markers inside.
func identity(o projgen.Out) string {
	body, _ := stripInlineMap(o.Contents)
	set := map[string]bool{}
	for _, m := range markRe.FindAll(body, -1) {
		set[string(m)] = true
	}
	var ms []string
	for m := range set {
		ms = append(ms, m)
	}
	sort.Strings(ms)
	return hashRe.ReplaceAllString(o.Path, "*") + "|" + strings.Join(ms, ",")
}

func buildOnce(p *projgen.Project, root string) ([]projgen.Out, []api.Message, error) {
	r := api.Build(p.BuildOptions(root))
	if len(r.Errors) > 0 {
		return nil, r.Errors, nil
	}
	outs, err := projgen.RelOutputs(root, r)
	return outs, nil, err
}

func sameOutputs(a, b []projgen.Out) (string, bool) {
	if strings.Join(paths(a), "\n") != strings.Join(paths(b), "\n") {
		return "paths", false
	}
	for i := range a {
		if !bytes.Equal(a[i].Contents, b[i].Contents) {
			return a[i].Path, false
		}
	}
	return "", true
}

// trailerStripped removes trailing link comments (sourceMappingURL / legal link) from a chunk.
func trailerStripped(b []byte) string {
	lines := strings.Split(strings.TrimRight(string(b), "\n"), "\n")
	for len(lines) > 0 {
		l := strings.TrimSpace(lines[len(lines)-1])
		if strings.HasPrefix(l, "//# sourceMappingURL=") || strings.HasPrefix(l, "/*# sourceMappingURL=") || strings.HasPrefix(l, "/*! For license information please see ") {
			lines = lines[:len(lines)-1]
			continue
		}
		break
	}
	return strings.Join(lines, "\n")
}

// harness panics must never pass silently nor become verdicts: they are counted and turn the run into an INFRA error.
var harnessPanics []string

func judge(c Case) (v vdrv.Verdict) {
	defer func() {
		if r := recover(); r != nil {
			harnessPanics = append(harnessPanics, fmt.Sprintf("%v\n%s", r, debug.Stack()))
			v = vdrv.Skip("harness-panic")
		}
	}()
	return judgeCase(c)
}

func judgeCase(c Case) vdrv.Verdict {
	p1 := c.Project
	for _, tmpl := range []string{p1.Opts.EntryNames, p1.Opts.ChunkNames} { // (assets named without [hash] are exempted individually: plainAsset)
		if !strings.Contains(tmpl, "[hash]") {
			return vdrv.Skip("template-without-hash")
		}
	}
	p2p := apply(p1, c.Edit)
	if p2p == nil {
		return vdrv.Skip("edit-does-not-apply")
	}
	p2 := *p2p
	base, err := os.MkdirTemp("", "c18-")
	if err != nil {
		return vdrv.Skip("tempdir-io")
	}
	defer os.RemoveAll(base)
	root1, root2 := base+"/b1", base+"/b2"
	for _, x := range []struct {
		r string
		p *projgen.Project
	}{{root1, &p1}, {root2, &p2}} {
		if err := os.MkdirAll(x.r, 0o755); err != nil {
			return vdrv.Skip("tempdir-io")
		}
		if err := x.p.WriteTo(x.r); err != nil {
			return vdrv.Skip("tempdir-io")
		}
	}
	o1, errs, err := buildOnce(&p1, root1)
	if err != nil {
		return vdrv.Skip("outputs-outside-root")
	}
	if errs != nil {
		return vdrv.Skip("build-refused:" + errs[0].Text[:min(len(errs[0].Text), 40)])
	}
	o1b, errs, err := buildOnce(&p1, root1)
	if err != nil || errs != nil {
		return vdrv.Fail("the second run of the same build failed although the first succeeded", "success", fmt.Sprint(err, errs))
	}
	// (4a) two runs of one build are identical (the unique-key prefix is random per build)
	if where, ok := sameOutputs(o1, o1b); !ok {
		return vdrv.Fail("two runs of the same build differ in "+where+" (a per-build random placeholder reached the output?)", "identical outputs", where)
	}
	o2, errs, err := buildOnce(&p2, root2)
	if err != nil {
		return vdrv.Skip("outputs-outside-root")
	}
	if errs != nil {
		return vdrv.Skip("build-refused-after-edit")
	}

	// (3) references resolve, in both builds
	b1, v := analyse(&p1, o1)
	if v != nil {
		return *v
	}
	b2, v := analyse(&p2, o2)
	if v != nil {
		return *v
	}
	// (4b) no placeholder-shaped token that did not come from the inputs
	if where, tok := placeholderScan(&p1, o1); tok != "" {
		return vdrv.Fail("a token shaped like an internal unique key survives in "+where, "no [A-Za-z0-9_-]{16}[AC][0-9]{8} token that is not input text", tok)
	}
	if where, tok := placeholderScan(&p2, o2); tok != "" {
		return vdrv.Fail("a token shaped like an internal unique key survives in "+where, "no [A-Za-z0-9_-]{16}[AC][0-9]{8} token that is not input text", tok)
	}
	// placeholder-looking input strings survive verbatim next to the marker of their statement
	nPh := 0
	for _, f := range p1.Files {
		if f.Kind != projgen.KJS && f.Kind != projgen.KCSS {
			continue
		}
		for _, tok := range placeholderRe.FindAll(f.Bytes(), -1) {
			anchor := f.Mark + ".se"
			if f.Kind == projgen.KCSS {
				anchor = f.Mark + ".shared"
			}
			for _, o := range o1 {
				if !isChunk(o.Path) {
					continue
				}
				body, _ := stripInlineMap(o.Contents)
				if bytes.Contains(body, []byte(anchor)) {
					nPh++
					if !bytes.Contains(body, tok) {
						return vdrv.Fail(fmt.Sprintf("placeholder-looking input string %q of %s does not survive verbatim in %s", tok, f.Path, o.Path), string(tok), "absent")
					}
				}
			}
		}
	}

	// (0) every output named by a template that contains [hash] really has a hash in its path
	for _, o := range o1 {
		if !plainAsset(&p1, o.Path) && !hashRe.MatchString(o.Path) {
			return vdrv.Fail("an output named by a template containing [hash] has no content hash in its path: "+o.Path, "…-XXXXXXXX…", o.Path)
		}
	}

	// (1) a path emitted by both builds carries identical bytes
	var clash []string
	for _, o := range o2 {
		if plainAsset(&p1, o.Path) {
			continue // named by an asset template without [hash]: the name is not meant to identify the bytes
		}
		if prev, ok := b1.byP[o.Path]; ok && !bytes.Equal(prev, o.Contents) {
			clash = append(clash, o.Path)
		}
	}
	known := ""
	if len(clash) > 0 {
		known = knownSignature(c, clash, b1, b2)
		if known == "" {
			pth := clash[0]
			return vdrv.Fail(fmt.Sprintf("edit %q: %d path(s) are emitted by both builds with different bytes, first: %s", c.Edit.Kind, len(clash), pth),
				string(clipB(b1.byP[pth], 1500)), firstDiff(b1.byP[pth], b2.byP[pth]))
		}
	}

	// (2) propagation, for input edits: a chunk whose bytes changed gets a new path, and so does every referrer
	cls := []string{"edit=" + c.Edit.Kind, fmt.Sprintf("splitting=%v", p1.Opts.Splitting), "sourcemap=" + p1.Opts.Sourcemap, "legal=" + p1.Opts.LegalComments,
		fmt.Sprintf("publicpath=%v", p1.Opts.PublicPath != ""), fmt.Sprintf("minify=%v", p1.Opts.MinifyWS)}
	changedAny := false
	if where, same := sameOutputs(o1, o2); !same {
		changedAny = true
		_ = where
	}
	if changedAny {
		cls = append(cls, "outputs-changed")
	} else {
		cls = append(cls, "outputs-unchanged")
	}
	nProp := 0
	if !isOptEdit(c.Edit.Kind) && c.Edit.Kind != "none" {
		id1, id2 := map[string]projgen.Out{}, map[string]projgen.Out{}
		unique := true
		for _, o := range o1 {
			if isSidecar(o.Path) {
				continue
			}
			k := identity(o)
			if _, dup := id1[k]; dup {
				unique = false
			}
			id1[k] = o
		}
		for _, o := range o2 {
			if isSidecar(o.Path) {
				continue
			}
			k := identity(o)
			if _, dup := id2[k]; dup {
				unique = false
			}
			id2[k] = o
		}
		if unique && len(id1) == len(id2) {
			for k := range id1 {
				if _, ok := id2[k]; !ok {
					unique = false
				}
			}
		} else {
			unique = false
		}
		if !unique {
			cls = append(cls, "propagation-unmatched")
		} else {
			// referrers in B2 (reverse edges), keyed by identity
			pathToID2 := map[string]string{}
			for k, o := range id2 {
				pathToID2[o.Path] = k
			}
			rev := map[string][]string{}
			for from, tos := range b2.refs {
				fk, ok := pathToID2[from]
				if !ok {
					continue
				}
				for _, to := range tos {
					if tk, ok := pathToID2[to]; ok {
						rev[tk] = append(rev[tk], fk)
					}
				}
			}
			for k, a := range id1 {
				bb := id2[k]
				if bytes.Equal(a.Contents, bb.Contents) || plainAsset(&p1, a.Path) {
					continue
				}
				// bytes changed: the path must change, and the path of every transitive referrer
				seen := map[string]bool{k: true}
				queue := []string{k}
				for len(queue) > 0 {
					cur := queue[0]
					queue = queue[1:]
					x1, x2 := id1[cur], id2[cur]
					nProp++
					if x1.Path == x2.Path {
						if known != "" {
							continue
						}
						return vdrv.Fail(fmt.Sprintf("edit %q changed the bytes of %s but %s (which references it transitively) keeps its path", c.Edit.Kind, a.Path, x1.Path),
							"a new path for "+x1.Path, "unchanged path")
					}
					for _, r := range rev[cur] {
						if !seen[r] {
							seen[r] = true
							queue = append(queue, r)
						}
					}
				}
			}
			if nProp > 1 {
				cls = append(cls, "propagated-to-referrers")
			}
		}
	}
	if b1.nRefs > 0 {
		cls = append(cls, "refs-resolved")
	}
	if b1.nExt > 0 {
		cls = append(cls, "external-refs")
	}
	if nPh > 0 {
		cls = append(cls, "placeholder-like-input-survives")
	}
	hasAsset, hasCSS, hasDyn := false, false, false
	for _, o := range o1 {
		if strings.HasSuffix(o.Path, ".png") || strings.HasSuffix(o.Path, ".bin") {
			hasAsset = true
		}
		if strings.HasSuffix(o.Path, ".css") {
			hasCSS = true
		}
		if strings.HasSuffix(o.Path, ".js") && bytes.Contains(o.Contents, []byte("import(")) {
			hasDyn = true
		}
	}
	if hasAsset {
		cls = append(cls, "asset-output")
	}
	if hasCSS {
		cls = append(cls, "css-output")
	}
	if hasDyn {
		cls = append(cls, "dynamic-import-in-output")
	}
	if known != "" {
		v := vdrv.Fail(fmt.Sprintf("edit %q: path(s) %v emitted by both builds with different bytes", c.Edit.Kind, clash), string(clipB(b1.byP[clash[0]], 800)), string(clipB(b2.byP[clash[0]], 800)))
		v.Known = known
		return v
	}
	vv := vdrv.Pass(changedAny && len(o1) >= 3 && b1.nRefs > 0, cls...)
	vv.Observed = fmt.Sprintf("B1 %d outputs, B2 %d outputs, %d references resolved, %d external, %d propagation steps checked", len(o1), len(o2), b1.nRefs, b1.nExt, nProp)
	return vv
}

// knownSignature returns the id of the listed finding whose narrow signature the clash matches, or "".
func knownSignature(c Case, clash []string, b1, b2 *build) string {
	lc := c.Project.Opts.LegalComments
	// finding #4: only a legal comment was edited, LegalComments is linked/external, and only *.LEGAL.txt files clash
	if (c.Edit.Kind == "legal" || c.Edit.Kind == "css-legal") && (lc == "linked" || lc == "external") {
		for _, p := range clash {
			if !strings.HasSuffix(p, ".LEGAL.txt") {
				return ""
			}
		}
		return "C18-legal-comment-file-not-hashed"
	}
	// link-comment finding: an option-only switch between source map modes that all produce a map, or between
	// LegalComments linked and external; the clashing files are chunks that differ only in their trailing link comments
	linkSwitch := false
	switch c.Edit.Kind {
	case "opt-sourcemap":
		a, b := c.Project.Opts.Sourcemap, c.Edit.Opt
		linkSwitch = a != "" && b != "" && a != b
	case "opt-legal":
		a, b := lc, c.Edit.Opt
		plainBody := func(m string) bool { return m == "external" || m == "none" } // modes whose chunk body carries no legal comments
		linkSwitch = (a == "linked" && plainBody(b)) || (plainBody(a) && b == "linked")
	}
	if linkSwitch {
		for _, p := range clash {
			if !isChunk(p) || trailerStripped(b1.byP[p]) != trailerStripped(b2.byP[p]) {
				return ""
			}
		}
		if c.Edit.Kind == "opt-legal" {
			return "C18-legal-link-comment-not-hashed"
		}
		return "C18-sourcemap-link-comment-not-hashed"
	}
	return ""
}

func clipB(b []byte, n int) []byte {
	if len(b) > n {
		return append(append([]byte(nil), b[:n]...), "…"...)
	}
	return b
}

func firstDiff(a, b []byte) string {
	n := min(len(a), len(b))
	i := 0
	for i < n && a[i] == b[i] {
		i++
	}
	lo := max(i-60, 0)
	return fmt.Sprintf("first difference at byte %d (lengths %d vs %d)\n  B1: …%q\n  B2: …%q", i, len(a), len(b), a[lo:min(i+80, len(a))], b[lo:min(i+80, len(b))])
}

// ----------------------------------------------------------------------------- generation

var editKinds = []string{"code", "code", "comment", "legal", "legal", "asset", "css", "css-comment", "css-legal", "inmap",
	"opt-publicpath", "opt-entrynames", "opt-chunknames", "opt-assetnames", "opt-sourcemap", "opt-legal", "none"}

func genEdit(t *rapid.T, p *projgen.Project) Edit {
	kind := rapid.SampledFrom(editKinds).Draw(t, "editkind")
	reach := projgen.Reachable(p)
	pick := func(label string, pred func(f projgen.File) bool) (projgen.File, bool) {
		var c, all []projgen.File
		for _, f := range p.Files {
			if pred(f) {
				all = append(all, f)
				if reach[f.Path] {
					c = append(c, f)
				}
			}
		}
		if len(c) == 0 || rapid.IntRange(0, 9).Draw(t, "anyfile") == 9 {
			c = all // sometimes (and when nothing suitable is reachable) edit a file the build never reads
		}
		if len(c) == 0 {
			return projgen.File{}, false
		}
		// prefer early files: they are entry points or close to them
		i := rapid.IntRange(0, len(c)-1).Draw(t, label)
		return c[i], true
	}
	isJS := func(f projgen.File) bool { return f.Kind == projgen.KJS && !f.Inject }
	other := func(label string, cur string, vals []string) string {
		var c []string
		for _, v := range vals {
			if v != cur {
				c = append(c, v)
			}
		}
		return rapid.SampledFrom(c).Draw(t, label)
	}
	switch kind {
	case "code":
		if f, ok := pick("editfile", isJS); ok {
			which := rapid.SampledFrom([]string{".a\"", ".se\"", ".fn\"", ".helper\""}).Draw(t, "codewhich")
			old := "\"" + f.Mark + which
			if strings.Contains(f.Text, old) {
				return Edit{Kind: kind, Path: f.Path, Old: old, New: "\"" + f.Mark + strings.TrimSuffix(which, "\"") + "-edited\""}
			}
		}
	case "comment":
		if f, ok := pick("editfile", isJS); ok {
			old := "// plain comment " + strings.TrimPrefix(f.Mark, "MARK_")
			return Edit{Kind: kind, Path: f.Path, Old: old, New: old + " edited"}
		}
	case "legal":
		if f, ok := pick("editfile", func(f projgen.File) bool { return isJS(f) && strings.Contains(f.Text, "! LEGAL ") }); ok {
			old := "LEGAL " + strings.TrimPrefix(f.Mark, "MARK_")
			return Edit{Kind: kind, Path: f.Path, Old: old, New: old + " edited"}
		}
	case "css-legal":
		if f, ok := pick("editfile", func(f projgen.File) bool { return f.Kind == projgen.KCSS && strings.Contains(f.Text, "/*! LEGAL ") }); ok {
			old := "LEGAL " + strings.TrimPrefix(f.Mark, "MARK_")
			return Edit{Kind: kind, Path: f.Path, Old: old, New: old + " edited"}
		}
	case "asset":
		if f, ok := pick("editfile", func(f projgen.File) bool {
			return f.Kind == projgen.KFile || f.Kind == projgen.KCopy || f.Kind == projgen.KDataURL || f.Kind == projgen.KText
		}); ok {
			old := f.Mark + "."
			return Edit{Kind: kind, Path: f.Path, Old: old, New: f.Mark + ".edited."}
		}
	case "css":
		if f, ok := pick("editfile", func(f projgen.File) bool { return f.Kind == projgen.KCSS }); ok {
			return Edit{Kind: kind, Path: f.Path, Old: "color: red", New: "color: blue"}
		}
	case "css-comment":
		if f, ok := pick("editfile", func(f projgen.File) bool { return f.Kind == projgen.KCSS }); ok {
			old := "/* plain comment " + strings.TrimPrefix(f.Mark, "MARK_")
			return Edit{Kind: kind, Path: f.Path, Old: old, New: old + " edited"}
		}
	case "inmap":
		if f, ok := pick("editfile", func(f projgen.File) bool { return isJS(f) && strings.Contains(f.Text, "//# sourceMappingURL=") }); ok {
			id := strings.TrimPrefix(f.Mark, "MARK_")
			return Edit{Kind: kind, Path: f.Path, Old: strings.TrimSuffix(projgen.InputMapComment(id, 0), "\n"), New: strings.TrimSuffix(projgen.InputMapComment(id, 1), "\n")}
		}
	case "opt-publicpath":
		return Edit{Kind: kind, Opt: other("newpp", p.Opts.PublicPath, []string{"", "https://cdn.example/p/", "/static", "https://cdn.example/q/"})}
	case "opt-entrynames":
		return Edit{Kind: kind, Opt: other("newen", p.Opts.EntryNames, []string{"[name]-[hash]", "[dir]/[name]-[hash]", "e/[hash]/[name]", "[hash]-[name]"})}
	case "opt-chunknames":
		return Edit{Kind: kind, Opt: other("newcn", p.Opts.ChunkNames, []string{"[name]-[hash]", "chunks/[name]-[hash]", "c/[hash]", "chunks/[hash]/[name]"})}
	case "opt-assetnames":
		return Edit{Kind: kind, Opt: other("newan", p.Opts.AssetNames, []string{"[name]-[hash]", "assets/[name]-[hash]", "assets/[dir]/[name]-[hash]", "a/[hash]"})}
	case "opt-sourcemap":
		return Edit{Kind: kind, Opt: other("newsm", p.Opts.Sourcemap, []string{"", "linked", "external", "inline", "both"})}
	case "opt-legal":
		return Edit{Kind: kind, Opt: other("newlc", p.Opts.LegalComments, []string{"none", "inline", "eof", "linked", "external"})}
	}
	return Edit{Kind: "none"}
}

func genCase(t *rapid.T) Case {
	var c Case
	c.Project = projgen.Gen(t, projgen.Config{MinFiles: 8, MaxFiles: 40, ForceHash: true, ForceBundle: true, ForceESM: true, Placeholders: true, InputMaps: true, NoMangle: false})
	// A copy-loader file may itself be an entry point: it is then named by the *entry* template. Together with
	// an asset template that has no [hash] (the user's choice for ordinary assets) this separates "which
	// template names the file" from "does the name need a hash".
	if rapid.IntRange(0, 2).Draw(t, "copyentry") == 0 {
		for _, f := range c.Project.Files {
			if f.Kind == projgen.KCopy {
				listed := false
				for _, e := range c.Project.Entries {
					listed = listed || e == f.Path
				}
				if !listed {
					c.Project.Entries = append(c.Project.Entries, f.Path)
				}
				break
			}
		}
	}
	if rapid.IntRange(0, 3).Draw(t, "plainassets") == 0 {
		c.Project.Opts.AssetNames = rapid.SampledFrom([]string{"[dir]/[name]", "assets/[dir]/[name]"}).Draw(t, "plainassetnames")
	}
	c.Edit = genEdit(t, &c.Project)
	if c.Edit.Kind == "opt-assetnames" && !strings.Contains(c.Project.Opts.AssetNames, "[hash]") {
		c.Edit = Edit{Kind: "none"} // switching between hash-free asset templates says nothing about hashes
	}
	return c
}

func replayPair(raw json.RawMessage) vdrv.Verdict {
	var c Case
	if err := json.Unmarshal(raw, &c); err != nil {
		return vdrv.Skip("bad-replay")
	}
	v := judge(c)
	v.Known = ""
	return v
}

func runPair(t *testing.T) {
	H.Rule("pair", "rapid: projgen bundles (ESM, 8–40 files, splitting on 2/3 of the cases, dynamic-import cycles, file/copy/dataurl assets, CSS url()/@import, legal comments, input source maps, placeholder-looking strings) with every name template containing [hash]; B2 = B1 with exactly one edit: code / plain comment / legal comment / asset bytes / CSS / CSS comment / input source map of one file, or one option (public path, entry/chunk/asset template, source map mode, legal comments mode). Oracles: (1) a path emitted by both builds carries identical bytes; (2) for input edits, chunks matched across builds by masked name + contained markers: changed bytes ⇒ new path for the chunk and for every transitive referrer; (3) every import / import() / url() / asset path string / sourceMappingURL / legal link parsed from the outputs resolves (relative to the referrer or through PublicPath) to a file of the same build; (4) two runs of B1 are byte-identical and no token [A-Za-z0-9_-]{16}[AC][0-9]{8} appears that is not input text, while such tokens in the inputs survive verbatim. Non-trivial = the edit changed some output, ≥3 outputs and ≥1 resolved reference.")
	H.SetupRapid("pair", H.N(2400, 30000))
	rapid.Check(t, func(rt *rapid.T) {
		c := genCase(rt)
		kb, _ := json.Marshal(c)
		H.Report(rt, "pair", string(kb), c, judge(c))
	})
}

var subs = map[string]vdrv.ReplayFunc{"pair": replayPair}

func TestCheck(t *testing.T) {
	H = vdrv.New("C18")
	complete := false
	defer func() { H.Finish(complete) }()
	H.RunReplays(t, subs)
	H.Sub(t, "pair", runPair)
	if len(harnessPanics) > 0 {
		t.Fatalf("INFRA: the harness panicked %d time(s); first: %s", len(harnessPanics), harnessPanics[0])
	}
	complete = true
}

func TestReplay(t *testing.T) {
	H = vdrv.New("C18")
	H.ReplayOne(t, subs)
}

package c05

import (
	"encoding/json"
	"fmt"
	"os"
	"sort"
	"strconv"
	"strings"
	"testing"

	"github.com/evanw/esbuild/verif/vdrv"
	"pgregory.net/rapid"
)

// TestExplore (development aid, only with VERIF_C05_EXPLORE=<sub>:<n>): judges n examples of one generator
// without stopping at failures and prints a summary of the failing ones.
func TestExplore(t *testing.T) {
	if files := os.Getenv("VERIF_C05_EXPLORE_FILES"); files != "" {
		// judge stored replay files and print how each is classified
		setup(t)
		defer W.Close()
		for _, f := range strings.Fields(files) {
			r, err := vdrv.LoadReplay(f)
			if err != nil {
				fmt.Printf("%s: %v\n", f, err)
				continue
			}
			var c Case
			json.Unmarshal(r.Case, &c)
			v := judge(c)
			fmt.Printf("%s: ok=%v known=%q discard=%q\n", f, v.OK, v.Known, v.Discard)
		}
		return
	}
	spec := os.Getenv("VERIF_C05_EXPLORE")
	if spec == "" {
		t.Skip("VERIF_C05_EXPLORE not set")
	}
	var sub string
	var n int
	for i := 0; i < len(spec); i++ {
		if spec[i] == ':' {
			sub = spec[:i]
			n, _ = strconv.Atoi(spec[i+1:])
		}
	}
	builders := map[string]func(rt *rapid.T) (string, []string){"cls": genCls, "pat": genPat, "loop": genLoop}
	build := builders[sub]
	if build == nil {
		t.Fatalf("unknown sub %q", sub)
	}
	setup(t)
	defer W.Close()
	base, _ := strconv.Atoi(os.Getenv("VERIF_C05_EXPLORE_BASE"))
	g := rapid.Custom(func(rt *rapid.T) Case {
		code, tags := build(rt)
		c := Case{Source: sub, Code: code, Tags: tags}
		drawConfigUniform(newGen(rt), &c)
		return c
	})
	counts := map[string]int{}
	shown := 0
	maxShow, _ := strconv.Atoi(os.Getenv("VERIF_C05_EXPLORE_SHOW"))
	if maxShow == 0 {
		maxShow = 5
	}
	for i := 0; i < n; i++ {
		c := g.Example(base + i)
		v := judge(c)
		switch {
		case v.Discard != "":
			counts["discard:"+v.Discard]++
		case v.OK && v.NonTrivial:
			counts["pass-nontrivial"]++
		case v.OK:
			counts["pass-trivial"]++
			for _, cl := range v.Classes {
				if len(cl) > 14 && cl[:15] == "esbuild-refused" {
					counts[cl+": "+v.Observed]++
				}
			}
		case v.Known != "":
			counts["known:"+v.Known]++
		default:
			counts["FAIL"]++
			if dir := os.Getenv("VERIF_C05_EXPLORE_DIR"); dir != "" {
				os.WriteFile(fmt.Sprintf("%s/fail-%s-%d.js", dir, sub, base+i), []byte(c.Code), 0o644)
				if k := strings.Index(v.Observed, "--- output\n"); k >= 0 {
					os.WriteFile(fmt.Sprintf("%s/fail-%s-%d.out.js", dir, sub, base+i), []byte(v.Observed[k+11:]), 0o644)
				}
			}
			if os.Getenv("VERIF_C05_EXPLORE_BRIEF") != "" {
				d := firstDiff(v.Expected, v.Observed)
				var bad []string
				for _, l := range strings.Split(d, "\n") {
					if strings.HasPrefix(l, "!!") && len(bad) < 2 {
						bad = append(bad, clipS(l, 150))
					}
				}
				fmt.Printf("FAIL %d %s u=%v s=%v min=%v | %s\n", base+i, c.Target, c.Unsupported, c.Supported, c.Minify, strings.Join(bad, " | "))
			} else if shown < maxShow {
				shown++
				fmt.Printf("=== FAIL example %d target=%s unsupported=%v supported=%v minify=%v\n%s\n%s\n", base+i, c.Target, c.Unsupported, c.Supported, c.Minify, userPart(c.Code), firstDiff(v.Expected, v.Observed))
				if os.Getenv("VERIF_C05_EXPLORE_OUT") != "" {
					fmt.Println(v.Observed[strings.Index(v.Observed, "--- output"):])
				}
			}
		}
	}
	var keys []string
	for k := range counts {
		keys = append(keys, k)
	}
	sort.Strings(keys)
	for _, k := range keys {
		fmt.Printf("%6d %s\n", counts[k], k)
	}
}

// userPart drops the fixed prelude lines of the generated program.
func userPart(code string) string {
	var keep []string
	for _, l := range strings.Split(code, "\n") {
		if strings.HasPrefix(l, "function who(") || strings.HasPrefix(l, "class B {") || strings.HasPrefix(l, "function* sg(") || strings.HasPrefix(l, "async function* ag(") || strings.HasPrefix(l, "function si(") || strings.HasPrefix(l, "function ai(") || strings.HasPrefix(l, "function src(") {
			continue
		}
		keep = append(keep, l)
	}
	return strings.Join(keep, "\n")
}

func firstDiff(exp, obs string) string {
	if i := strings.Index(obs, "\n--- output"); i >= 0 {
		obs = obs[:i]
	}
	a, b := strings.Split(exp, "\n"), strings.Split(obs, "\n")
	i := 0
	for i < len(a) && i < len(b) && a[i] == b[i] {
		i++
	}
	lo := i - 2
	if lo < 0 {
		lo = 0
	}
	var sb strings.Builder
	fmt.Fprintf(&sb, "--- first difference at event %d\n", i)
	for j := lo; j < i+3; j++ {
		ea, eb := "<end>", "<end>"
		if j < len(a) {
			ea = a[j]
		}
		if j < len(b) {
			eb = b[j]
		}
		mark := "  "
		if ea != eb {
			mark = "!!"
		}
		fmt.Fprintf(&sb, "%s exp: %s\n%s obs: %s\n", mark, clipS(ea, 200), mark, clipS(eb, 200))
	}
	return sb.String()
}

func clipS(s string, n int) string {
	if len(s) > n {
		return s[:n] + "…"
	}
	return s
}

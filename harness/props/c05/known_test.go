// Known findings of C05 that are recognised mechanically. Every listed defect has a narrow static
// signature plus one of two confirmations:
//
//   - an OUTPUT REPAIR: a mechanical edit of esbuild's output that undoes exactly that defect; the
//     failing case is attributed to the finding when the repaired output behaves like the original;
//   - an INPUT REWRITE: the construct named by the signature is replaced, in the input, by a spelling
//     that V8 itself shows to be equivalent (the native trace must stay identical); the failing case is
//     attributed to the finding when the rewritten program lowers correctly (or fails only by other
//     listed findings).
//
// Anything that still differs after these steps stays a violation.
package c05

import (
	"fmt"
	"os"
	"sort"
	"strings"

	"github.com/evanw/esbuild/pkg/api"
	"github.com/evanw/esbuild/verif/jsref"
	"github.com/evanw/esbuild/verif/jsutil"
)

type edit struct {
	at, del int
	ins     string
}

// applyEdits applies non-overlapping edits; nested edits (one inside the deleted range of another) are
// refused by returning ok=false.
func applyEdits(src string, edits []edit) (string, bool) {
	sort.SliceStable(edits, func(i, j int) bool {
		if edits[i].at != edits[j].at {
			return edits[i].at > edits[j].at
		}
		return edits[i].del > edits[j].del
	})
	limit := len(src) + 1
	for _, e := range edits {
		if e.at < 0 || e.at+e.del > len(src) || e.at+e.del > limit {
			return src, false
		}
		src = src[:e.at] + e.ins + src[e.at+e.del:]
		if e.del > 0 {
			limit = e.at
		} else {
			limit = e.at + 1
		}
	}
	return src, true
}

func isFunctionBoundary(n *jsref.Node) bool {
	switch n.Type {
	case jsref.NFunctionDecl, jsref.NFunctionExpr, jsref.NArrow:
		return true
	}
	return false
}

func isClass(n *jsref.Node) bool { return n.Type == jsref.NClassDecl || n.Type == jsref.NClassExpr }

func stripParens(n *jsref.Node) *jsref.Node {
	for n != nil && n.Type == jsref.NParen {
		n = n.A
	}
	return n
}

func isSuperMember(n *jsref.Node) bool {
	n = stripParens(n)
	return n != nil && (n.Type == jsref.NMember || n.Type == jsref.NIndex) && n.A != nil && n.A.Type == jsref.NSuper
}

// walkRepeated visits every node and tells whether it lies in a part of a loop that is evaluated once per
// iteration (body, test, update, per-iteration head of for-in/of) within the same function activation.
func walkRepeated(n *jsref.Node, repeated bool, fn func(n *jsref.Node, repeated bool)) {
	if n == nil {
		return
	}
	fn(n, repeated)
	if isFunctionBoundary(n) {
		// a new activation per call: parameters and body are not "repeated by a loop of this activation"
		for _, c := range n.List {
			walkRepeated(c, false, fn)
		}
		walkRepeated(n.A, false, fn)
		walkRepeated(n.B, false, fn)
		return
	}
	if n.Type == jsref.NMethod && n.B != nil {
		walkRepeated(n.A, repeated, fn) // computed key: evaluated with the class
		walkRepeated(n.B, false, fn)
		return
	}
	if n.Type == jsref.NField && !n.Has(jsref.FlagStatic) {
		walkRepeated(n.A, repeated, fn)
		walkRepeated(n.B, false, fn) // instance initialisers run per construction
		return
	}
	switch n.Type {
	case jsref.NFor:
		walkRepeated(n.A, repeated, fn)
		walkRepeated(n.B, true, fn)
		walkRepeated(n.C, true, fn)
		walkRepeated(n.D, true, fn)
		return
	case jsref.NForIn, jsref.NForOf:
		walkRepeated(n.A, true, fn)
		walkRepeated(n.B, repeated, fn)
		walkRepeated(n.D, true, fn)
		return
	case jsref.NWhile, jsref.NDoWhile:
		walkRepeated(n.A, true, fn)
		walkRepeated(n.D, true, fn)
		return
	}
	walkRepeated(n.A, repeated, fn)
	walkRepeated(n.B, repeated, fn)
	walkRepeated(n.C, repeated, fn)
	walkRepeated(n.D, repeated, fn)
	for _, c := range n.List {
		walkRepeated(c, repeated, fn)
	}
}

// ---- C05-class-temporaries-shared-across-loop-iterations (input rewrite)
// Signature: a class lies in a per-iteration part of a loop (of the same function activation). Rewrite:
// every such class is evaluated inside its own arrow-function activation, `(() => class A {…})()`
// (a declaration becomes `let A = (() => class A {…})();`), which gives esbuild's function-scoped
// temporaries (WeakMap / WeakSet of private names, method functions, the class-expression temporary) one
// activation per evaluation, as the per-evaluation private names of the original demand.
func rewriteClassesInLoops(code string, p *jsref.Program) (string, int) {
	var edits []edit
	var outer []*jsref.Node
	walkRepeated(p.Body, false, func(n *jsref.Node, repeated bool) {
		if !isClass(n) || !repeated {
			return
		}
		for _, o := range outer {
			if n.Start >= o.Start && n.End <= o.End {
				return // nested in a class that is wrapped already (a nested edit would overlap)
			}
		}
		outer = append(outer, n)
		if n.Type == jsref.NClassDecl {
			name := ""
			if n.A != nil {
				name = n.A.Name
			}
			if name == "" {
				return
			}
			edits = append(edits, edit{at: n.Start, ins: "let " + name + " = (() => "}, edit{at: n.End, ins: ")();"})
		} else {
			edits = append(edits, edit{at: n.Start, ins: "(() => "}, edit{at: n.End, ins: ")()"})
		}
	})
	if len(edits) == 0 {
		return code, 0
	}
	out, ok := applyEdits(code, edits)
	if !ok {
		return code, 0
	}
	return out, len(edits) / 2
}

// ---- C05-static-initialiser-super-call-receiver (output repair)
// Signature (input): a static field initialiser or static block of a class with a heritage contains,
// outside any non-arrow function, a call or tagged template whose callee is `super.x` / `super[x]`.
func superCallInStaticInit(p *jsref.Program) bool {
	found := false
	var scan func(n *jsref.Node)
	scan = func(n *jsref.Node) {
		if n == nil || found {
			return
		}
		switch n.Type {
		case jsref.NFunctionDecl, jsref.NFunctionExpr, jsref.NClassDecl, jsref.NClassExpr:
			return // own `this` / own home object (object-literal methods are NProperty → NFunctionExpr)
		case jsref.NCall, jsref.NTemplate:
			if isSuperMember(n.A) {
				found = true
				return
			}
		}
		scan(n.A)
		scan(n.B)
		scan(n.C)
		scan(n.D)
		for _, c := range n.List {
			scan(c)
		}
	}
	jsutil.Walk(p.Body, func(n *jsref.Node) {
		if !isClass(n) || n.B == nil {
			return
		}
		for _, m := range n.List {
			if m == nil {
				continue
			}
			if m.Type == jsref.NField && m.Has(jsref.FlagStatic) {
				scan(m.B)
			}
			if m.Type == jsref.NStaticBlock {
				for _, s := range m.List {
					scan(s)
				}
			}
		}
	})
	return found
}

// Repair: `__superGet(C, R, k).call(this, …)` (tagged template: `.bind(this)`; optional call: through a
// temporary, `(_a = __superGet(C, R, k)) == null ? void 0 : _a.call(this, …)`) where the receiver argument
// R is an identifier (a static initialiser moved out of its class: R is the class) becomes `.call(R, …)`.
func repairSuperCallReceiver(out string, po *jsref.Program) (string, int) {
	var edits []edit
	// temporaries that hold a lowered super property of a static initialiser (optional call:
	// `(_a = __superGet(C, R, k)) == null ? void 0 : _a.call(this, …)`): name → assignments
	type tempAssign struct {
		at   int
		recv string
	}
	temps := map[string][]tempAssign{}
	superGetRecv := func(n *jsref.Node) string {
		if n == nil || n.Type != jsref.NCall || n.A == nil || n.A.Type != jsref.NIdent || n.A.Name != "__superGet" || len(n.List) != 3 {
			return ""
		}
		if r := n.List[1]; r != nil && r.Type == jsref.NIdent {
			return r.Name
		}
		return ""
	}
	jsutil.Walk(po.Body, func(n *jsref.Node) {
		if n.Type == jsref.NAssign && n.Name == "=" && n.A != nil && n.A.Type == jsref.NIdent {
			if r := superGetRecv(n.B); r != "" {
				temps[n.A.Name] = append(temps[n.A.Name], tempAssign{n.Start, r})
			}
		}
	})
	jsutil.Walk(po.Body, func(n *jsref.Node) {
		if n.Type != jsref.NCall || n.A == nil || n.A.Type != jsref.NMember || (n.A.Name != "call" && n.A.Name != "bind") || len(n.List) == 0 {
			return
		}
		first := n.List[0]
		if first == nil || first.Type != jsref.NThis {
			return
		}
		recv := superGetRecv(n.A.A)
		if recv == "" && n.A.A != nil && n.A.A.Type == jsref.NIdent {
			best := -1
			for _, ta := range temps[n.A.A.Name] {
				if ta.at < n.Start && ta.at > best {
					best, recv = ta.at, ta.recv
				}
			}
		}
		if recv == "" {
			return
		}
		edits = append(edits, edit{at: first.Start, del: first.End - first.Start, ins: recv})
	})
	if len(edits) == 0 {
		return out, 0
	}
	res, ok := applyEdits(out, edits)
	if !ok {
		return out, 0
	}
	return res, len(edits)
}

// ---- C05-object-rest-identifier-key-reread (output repair)
// Signature (input): an object pattern with a rest element has a computed key that is a bare identifier
// which the program also writes (an assignment target anywhere, or a name bound by that very pattern).
func restWithIdentKey(p *jsref.Program) bool {
	written := map[string]bool{}
	for _, a := range p.AssignedNames {
		written[a.Name] = true
	}
	found := false
	jsutil.Walk(p.Body, func(n *jsref.Node) {
		if n.Type != jsref.NObject || len(n.List) < 2 {
			return
		}
		last := n.List[len(n.List)-1]
		if last == nil || last.Type != jsref.NSpread {
			return
		}
		for _, m := range n.List[:len(n.List)-1] {
			if m == nil || m.Type != jsref.NProperty || !m.Has(jsref.FlagComputed) {
				continue
			}
			k := stripParens(m.A)
			if k == nil || k.Type != jsref.NIdent {
				continue
			}
			if written[k.Name] || patternBinds(n, k.Name) {
				found = true
			}
		}
	})
	return found
}

// patternBinds: name occurs as a binding target (value position) inside the pattern.
func patternBinds(pat *jsref.Node, name string) bool {
	hit := false
	var tgt func(n *jsref.Node)
	tgt = func(n *jsref.Node) {
		if n == nil {
			return
		}
		switch n.Type {
		case jsref.NIdent:
			if n.Name == name {
				hit = true
			}
		case jsref.NAssign, jsref.NSpread, jsref.NParen:
			tgt(n.A)
		case jsref.NArray:
			for _, c := range n.List {
				tgt(c)
			}
		case jsref.NObject:
			for _, c := range n.List {
				if c == nil {
					continue
				}
				if c.Type == jsref.NProperty {
					tgt(c.B)
				} else {
					tgt(c)
				}
			}
		}
	}
	tgt(pat)
	return hit
}

// Repair: every identifier key that esbuild re-reads for the exclusion list of __objRest is captured:
// `{ [k]: t } = _a, r = __objRest(_a, [__restKey(k)])` becomes
// `{ [_rk0 = k]: t } = _a, r = __objRest(_a, [__restKey(_rk0)])` (what esbuild itself emits for any key
// expression other than an identifier).
func repairRestKeyReread(out string, po *jsref.Program) (string, int) {
	if strings.Contains(out, "_rk") {
		return out, 0
	}
	// object patterns by the identifier they are assigned from: `{…} = _a` / declarator `{…} = _a`
	patternsOf := map[string][]*jsref.Node{}
	alias := map[string]string{} // `_e = _a`: after a split esbuild re-captures the same source object
	var rests []*jsref.Node
	jsutil.Walk(po.Body, func(n *jsref.Node) {
		if (n.Type == jsref.NAssign && n.Name == "=" || n.Type == jsref.NDeclarator) && n.A != nil && n.A.Type == jsref.NIdent && n.B != nil && n.B.Type == jsref.NIdent {
			alias[n.A.Name] = n.B.Name
		}
		if (n.Type == jsref.NAssign && n.Name == "=" || n.Type == jsref.NDeclarator) && n.A != nil && n.A.Type == jsref.NObject && n.B != nil && n.B.Type == jsref.NIdent {
			patternsOf[n.B.Name] = append(patternsOf[n.B.Name], n.A)
		}
		if n.Type == jsref.NCall && n.A != nil && n.A.Type == jsref.NIdent && n.A.Name == "__objRest" && len(n.List) == 2 && n.List[0] != nil && n.List[0].Type == jsref.NIdent && n.List[1] != nil && n.List[1].Type == jsref.NArray {
			rests = append(rests, n)
		}
	})
	var edits []edit
	var temps []string
	usedKey := map[*jsref.Node]bool{}
	for _, r := range rests {
		for _, el := range r.List[1].List {
			if el == nil || el.Type != jsref.NCall || el.A == nil || el.A.Type != jsref.NIdent || el.A.Name != "__restKey" || len(el.List) != 1 || el.List[0] == nil || el.List[0].Type != jsref.NIdent {
				continue
			}
			arg := el.List[0]
			// the key it repeats: a computed identifier key of the pattern destructured from the same temporary
			var key *jsref.Node
			var pats []*jsref.Node
			for src, hops := r.List[0].Name, 0; src != "" && hops < 8; src, hops = alias[src], hops+1 {
				pats = append(pats, patternsOf[src]...)
			}
			sort.SliceStable(pats, func(i, j int) bool { return pats[i].Start < pats[j].Start })
			for _, pat := range pats {
				if pat.End > r.Start {
					continue
				}
				for _, m := range pat.List {
					if m != nil && m.Type == jsref.NProperty && m.Has(jsref.FlagComputed) && m.A != nil && m.A.Type == jsref.NIdent && m.A.Name == arg.Name && !usedKey[m.A] && key == nil {
						key = m.A
					}
				}
			}
			if key == nil {
				continue
			}
			usedKey[key] = true
			tmp := "_rk" + string(rune('0'+len(temps)%10)) + strings.Repeat("x", len(temps)/10)
			temps = append(temps, tmp)
			edits = append(edits, edit{at: key.Start, ins: tmp + " = "}, edit{at: arg.Start, del: arg.End - arg.Start, ins: tmp})
		}
	}
	if len(temps) == 0 {
		return out, 0
	}
	// declare the temporaries after the directive prologue
	at := 0
	for _, s := range po.Body.List {
		if s != nil && s.Type == jsref.NExprStmt && s.Has(jsref.FlagDirective) {
			at = s.End
			continue
		}
		break
	}
	edits = append(edits, edit{at: at, ins: "\nvar " + strings.Join(temps, ", ") + ";\n"})
	res, ok := applyEdits(out, edits)
	if !ok {
		return out, 0
	}
	return res, len(temps)
}

// ---- C05-lowered-async-arrow-loses-this-of-lowered-super (output repair)
// Signature (input): an async arrow function contains a `super` property access. Repair: a lowered async
// arrow `__async(null, A, function* () { … this … })` whose generator body uses `this` (only esbuild's
// own super lowering puts one there: an arrow that mentions `this` itself is emitted with
// `__async(this, …)`) gets `this` as its first argument.
func superInAsyncArrow(p *jsref.Program) bool {
	found := false
	jsutil.Walk(p.Body, func(n *jsref.Node) {
		if n.Type != jsref.NArrow || !n.Has(jsref.FlagAsync) {
			return
		}
		jsutil.Walk(n, func(m *jsref.Node) {
			if m.Type == jsref.NSuper {
				found = true
			}
		})
	})
	return found
}

func usesThisDirectly(n *jsref.Node) bool {
	found := false
	var scan func(n *jsref.Node)
	scan = func(n *jsref.Node) {
		if n == nil || found {
			return
		}
		switch n.Type {
		case jsref.NThis:
			found = true
			return
		case jsref.NFunctionDecl, jsref.NFunctionExpr, jsref.NClassDecl, jsref.NClassExpr:
			return
		}
		scan(n.A)
		scan(n.B)
		scan(n.C)
		scan(n.D)
		for _, c := range n.List {
			scan(c)
		}
	}
	scan(n)
	return found
}

func repairAsyncArrowThis(out string, po *jsref.Program) (string, int) {
	var edits []edit
	jsutil.Walk(po.Body, func(n *jsref.Node) {
		if n.Type != jsref.NCall || n.A == nil || n.A.Type != jsref.NIdent || n.A.Name != "__async" || len(n.List) != 3 {
			return
		}
		first, fn := n.List[0], n.List[2]
		if first == nil || fn == nil || fn.Type != jsref.NFunctionExpr || out[first.Start:first.End] != "null" {
			return
		}
		if usesThisDirectly(fn.B) {
			edits = append(edits, edit{at: first.Start, del: first.End - first.Start, ins: "this"})
		}
	})
	if len(edits) == 0 {
		return out, 0
	}
	res, ok := applyEdits(out, edits)
	if !ok {
		return out, 0
	}
	return res, len(edits)
}

// ---- C05-raw-super-outside-method (input rewrite)
// Signature: `super.x ??= v` / `||=` / `&&=` / `**=`, or an optional chain link directly on a super
// property (`super.m?.()`, `super.x?.y`). esbuild prints these with a literal `super` even where it has to lower
// super property accesses (static initialisers moved out of the class, lowered async arrows), which is a
// syntax error there. Rewrite: `(super.x ?? (super.x = v))`, `(super.m == null ? void 0 : super.m())`.
func rewriteSuperShortCircuit(code string, p *jsref.Program) (string, int) {
	var edits []edit
	jsutil.Walk(p.Body, func(n *jsref.Node) {
		switch {
		case n.Type == jsref.NAssign && (n.Name == "??=" || n.Name == "||=" || n.Name == "&&=" || n.Name == "**=") && isSuperMember(n.A) && n.B != nil:
			t := stripParens(n.A)
			if t.Type != jsref.NMember {
				return
			}
			T := code[t.Start:t.End]
			if n.Name == "**=" {
				edits = append(edits, edit{at: n.Start, del: n.End - n.Start, ins: "(" + T + " = " + T + " ** (" + code[n.B.Start:n.B.End] + "))"})
				return
			}
			edits = append(edits, edit{at: n.Start, del: n.End - n.Start, ins: "(" + T + " " + strings.TrimSuffix(n.Name, "=") + " (" + T + " = " + code[n.B.Start:n.B.End] + "))"})
		case (n.Type == jsref.NCall || n.Type == jsref.NMember || n.Type == jsref.NIndex) && n.Has(jsref.FlagOptional) && n.A != nil && n.A.Type == jsref.NMember && n.A.A != nil && n.A.A.Type == jsref.NSuper:
			T := code[n.A.Start:n.A.End]
			rest := strings.TrimSpace(code[n.A.End:n.End])
			if !strings.HasPrefix(rest, "?.") {
				return
			}
			rest = rest[2:]
			if n.Type == jsref.NMember {
				rest = "." + rest
			}
			edits = append(edits, edit{at: n.Start, del: n.End - n.Start, ins: "(" + T + " == null ? void 0 : " + T + rest + ")"})
		}
	})
	if len(edits) == 0 {
		return code, 0
	}
	out, ok := applyEdits(code, edits)
	if !ok {
		return code, 0
	}
	return out, len(edits)
}

// ---- C05-new-target-in-lowered-static-block (input rewrite)
// Signature: `new.target` inside a class static block (or static field initialiser), outside any
// non-arrow function; its value is always undefined. Rewrite: `(void 0)`.
func rewriteNewTargetInStaticInit(code string, p *jsref.Program) (string, int) {
	var edits []edit
	var scan func(n *jsref.Node)
	scan = func(n *jsref.Node) {
		if n == nil {
			return
		}
		switch n.Type {
		case jsref.NFunctionDecl, jsref.NFunctionExpr, jsref.NClassDecl, jsref.NClassExpr:
			return
		case jsref.NMeta:
			if n.Name == "new.target" {
				edits = append(edits, edit{at: n.Start, del: n.End - n.Start, ins: "(void 0)"})
			}
			return
		}
		scan(n.A)
		scan(n.B)
		scan(n.C)
		scan(n.D)
		for _, c := range n.List {
			scan(c)
		}
	}
	jsutil.Walk(p.Body, func(n *jsref.Node) {
		if !isClass(n) {
			return
		}
		for _, m := range n.List {
			if m == nil {
				continue
			}
			if m.Type == jsref.NStaticBlock {
				for _, s := range m.List {
					scan(s)
				}
			}
			if m.Type == jsref.NField && m.Has(jsref.FlagStatic) {
				scan(m.B)
			}
		}
	})
	if len(edits) == 0 {
		return code, 0
	}
	out, ok := applyEdits(code, edits)
	if !ok {
		return code, 0
	}
	return out, len(edits)
}

// ---- C05-private-name-as-for-in-of-target (input rewrite)
// Signature: the head of a for-in / for-of / for-await loop is an assignment target (no declaration) that
// contains a private member access. Rewrite: `for (const __h of E) { (T = __h); BODY }`.
func rewritePrivateLoopTargets(code string, p *jsref.Program) (string, int) {
	var edits []edit
	cnt := 0
	jsutil.Walk(p.Body, func(n *jsref.Node) {
		if (n.Type != jsref.NForIn && n.Type != jsref.NForOf) || n.A == nil || n.A.Type == jsref.NVarDecl || n.D == nil {
			return
		}
		private := false
		jsutil.Walk(n.A, func(m *jsref.Node) {
			if m.Type == jsref.NPrivateName {
				private = true
			}
		})
		if !private {
			return
		}
		cnt++
		h := "__h" + string(rune('0'+cnt%10))
		edits = append(edits,
			edit{at: n.A.Start, del: n.A.End - n.A.Start, ins: "const " + h},
			edit{at: n.D.Start, ins: "{ (" + code[n.A.Start:n.A.End] + " = " + h + "); "},
			edit{at: n.D.End, ins: " }"})
	})
	if len(edits) == 0 || strings.Contains(code, "__h") {
		return code, 0
	}
	out, ok := applyEdits(code, edits)
	if !ok {
		return code, 0
	}
	return out, cnt
}

// ---- C05-class-code-moved-out-loses-strict-mode (input rewrite)
// Signature: the program is not strict mode code at top level and contains a class. Rewrite: a
// "use strict" prologue. (Class bodies are strict by themselves, so a program whose native behaviour does
// not change under the prologue must not change after lowering either; esbuild moves private methods,
// static blocks and static field initialisers out of the class body into sloppy code.)
func rewriteUseStrict(code string, p *jsref.Program) (string, int) {
	for _, s := range p.Body.List {
		if s != nil && s.Type == jsref.NExprStmt && s.Has(jsref.FlagDirective) {
			if t := strings.Trim(code[s.Start:s.End], " ;"); t == `"use strict"` || t == `'use strict'` {
				return code, 0
			}
			continue
		}
		break
	}
	hasClass := false
	jsutil.Walk(p.Body, func(n *jsref.Node) {
		if isClass(n) {
			hasClass = true
		}
	})
	if !hasClass {
		return code, 0
	}
	return "\"use strict\";\n" + code, 1
}

// ---- C05-object-rest-only-target-evaluated-before-source (output repair)
// Signature (input): an object assignment pattern that consists of a rest element only, whose target is a
// member expression: `({ ...o[k()] } = src())`. esbuild emits `o[k()] = __objRest(src(), [])`, which
// evaluates the operands of the target before the source; native destructuring evaluates the source first.
// Repair: `(_ro0 = src(), o[k()] = __objRest(_ro0, []))`.
func restOnlyMemberTarget(p *jsref.Program) bool {
	found := false
	jsutil.Walk(p.Body, func(n *jsref.Node) {
		if n.Type != jsref.NAssign || n.Name != "=" {
			return
		}
		pat := stripParens(n.A)
		if pat == nil || pat.Type != jsref.NObject || len(pat.List) != 1 || pat.List[0] == nil || pat.List[0].Type != jsref.NSpread {
			return
		}
		if t := stripParens(pat.List[0].A); t != nil && (t.Type == jsref.NMember || t.Type == jsref.NIndex) {
			found = true
		}
	})
	return found
}

func repairRestOnlyOrder(out string, po *jsref.Program) (string, int) {
	if strings.Contains(out, "_ro") {
		return out, 0
	}
	var edits []edit
	var temps []string
	jsutil.Walk(po.Body, func(n *jsref.Node) {
		if n.Type != jsref.NAssign || n.Name != "=" || n.A == nil || (n.A.Type != jsref.NMember && n.A.Type != jsref.NIndex) || n.B == nil {
			return
		}
		call := n.B
		if call.Type != jsref.NCall || call.A == nil || call.A.Type != jsref.NIdent || call.A.Name != "__objRest" || len(call.List) != 2 || call.List[0] == nil || call.List[0].Type == jsref.NIdent {
			return
		}
		src := call.List[0]
		tmp := "_ro" + string(rune('0'+len(temps)%10)) + strings.Repeat("x", len(temps)/10)
		temps = append(temps, tmp)
		edits = append(edits,
			edit{at: n.Start, ins: "(" + tmp + " = " + out[src.Start:src.End] + ", "},
			edit{at: src.Start, del: src.End - src.Start, ins: tmp},
			edit{at: n.End, ins: ")"})
	})
	if len(temps) == 0 {
		return out, 0
	}
	at := 0
	for _, s := range po.Body.List {
		if s != nil && s.Type == jsref.NExprStmt && s.Has(jsref.FlagDirective) {
			at = s.End
			continue
		}
		break
	}
	edits = append(edits, edit{at: at, ins: "\nvar " + strings.Join(temps, ", ") + ";\n"})
	res, ok := applyEdits(out, edits)
	if !ok {
		return out, 0
	}
	return res, len(temps)
}

// ---- C05-async-generator-return-restarts-after-await (output repair)
// Signature (input): an async generator function contains an `await` (or a for-await loop) and the
// program calls `.return(…)` on something. When return() reaches a lowered async generator that is
// suspended at a yield and the pending finally blocks (written by the user, or the iterator-closing code
// of a lowered for-await) await something, the helper __asyncGenerator resumes the generator with
// `.return(awaited value)` a second time instead of `.next(awaited value)`: the finally block is abandoned
// and the awaited value becomes the result. Repair: the helper resumes with "next" unless the awaited
// value comes from a yield* delegation (`v[1]`).
func asyncGeneratorAwaitAndReturnCall(p *jsref.Program) bool {
	gen, ret := false, false
	jsutil.Walk(p.Body, func(n *jsref.Node) {
		if n.Type == jsref.NFunctionDecl || n.Type == jsref.NFunctionExpr {
			if n.Has(jsref.FlagAsync) && n.Has(jsref.FlagGenerator) {
				jsutil.Walk(n.B, func(m *jsref.Node) {
					if m.Type == jsref.NAwait || (m.Type == jsref.NForOf && m.Has(jsref.FlagAwait)) {
						gen = true
					}
				})
			}
		}
		if n.Type == jsref.NCall && n.A != nil && n.A.Type == jsref.NMember && n.A.Name == "return" {
			ret = true
		}
	})
	return gen && ret
}

func repairAsyncGeneratorReturn(out string, po *jsref.Program) (string, int) {
	n := 0
	for _, r := range [][2]string{
		{`k === "return" ? k : "next"`, `k === "return" && v[1] ? k : "next"`},
		{`k==="return"?k:"next"`, `k==="return"&&v[1]?k:"next"`},
	} {
		if c := strings.Count(out, r[0]); c > 0 {
			out = strings.Replace(out, r[0], r[1], -1)
			n += c
		}
	}
	return out, n
}

type outputRepair struct {
	id        string
	signature func(pi *jsref.Program) bool
	repair    func(out string, po *jsref.Program) (string, int)
	outputTag string // text the output must contain for the finding to be possible at all
}

type inputRewrite struct {
	id      string
	rewrite func(code string, pi *jsref.Program) (string, int)
}

var outputRepairs = []outputRepair{
	{"C05-static-initialiser-super-call-receiver", superCallInStaticInit, repairSuperCallReceiver, "__superGet("},
	{"C05-object-rest-identifier-key-reread", restWithIdentKey, repairRestKeyReread, "__restKey("},
	{"C05-lowered-async-arrow-loses-this-of-lowered-super", superInAsyncArrow, repairAsyncArrowThis, "__async(null"},
	{"C05-object-rest-only-target-evaluated-before-source", restOnlyMemberTarget, repairRestOnlyOrder, "__objRest("},
	{"C05-async-generator-return-restarts-after-await", asyncGeneratorAwaitAndReturnCall, repairAsyncGeneratorReturn, "__asyncGenerator"},
}

var inputRewrites = []inputRewrite{
	{"C05-class-temporaries-shared-across-loop-iterations", rewriteClassesInLoops},
	{"C05-raw-super-outside-method", rewriteSuperShortCircuit},
	{"C05-new-target-in-lowered-static-block", rewriteNewTargetInStaticInit},
	{"C05-private-name-as-for-in-of-target", rewritePrivateLoopTargets},
	{"C05-class-code-moved-out-loses-strict-mode", rewriteUseStrict},
}

const maxRewriteDepth = 4

var debugClassify = os.Getenv("VERIF_C05_DEBUG") != ""

// repairOutput applies every output repair whose signature matches; applied lists the findings whose
// repair changed something.
func repairOutput(c Case, out string) (repaired string, applied []string) {
	pi, err := jsref.Parse(c.Code, jsref.Options{})
	if err != nil {
		return out, nil
	}
	cur := out
	for _, f := range outputRepairs {
		if !strings.Contains(cur, f.outputTag) || !f.signature(pi) {
			continue
		}
		po, err := jsref.Parse(cur, jsref.Options{})
		if err != nil {
			return out, nil
		}
		next, n := f.repair(cur, po)
		if n > 0 {
			cur = next
			applied = append(applied, f.id)
		}
	}
	return cur, applied
}

// classify returns the id of the listed finding that explains the failing case ("" = none).
func classify(c Case, out string, refTrace, gotTrace string, depth int) string {
	// 1. output repairs (all applicable ones together: each is the identity on correct output). They
	// recognise esbuild's helpers by name, so a case with minified identifiers is first re-transformed
	// without identifier minification; that output must fail in exactly the same way.
	if c.Minify {
		o := c.options()
		o.MinifyIdentifiers = false
		r := api.Transform(c.Code, o)
		out = ""
		if len(r.Errors) == 0 {
			if got, err := W.Script(string(r.Code), false); err == nil && got.Trace() == gotTrace {
				out = string(r.Code)
			}
		}
	}
	if repaired, applied := repairOutput(c, out); out != "" && len(applied) > 0 {
		if got, err := W.Script(repaired, false); err == nil && got.Trace() == refTrace {
			return applied[0]
		}
	}
	if depth >= maxRewriteDepth {
		return ""
	}
	// 2. input rewrites, one at a time; the rewritten program is judged recursively, so several findings
	// in one program are peeled off one after the other
	pi, err := jsref.Parse(c.Code, jsref.Options{})
	if err != nil {
		return ""
	}
	fallback := ""
	for _, f := range inputRewrites {
		code2, n := f.rewrite(c.Code, pi)
		if n == 0 || code2 == c.Code {
			continue
		}
		ref2, err := W.Script(code2, false)
		if debugClassify {
			fmt.Printf("classify depth=%d rewrite %s n=%d nativeSame=%v\n", depth, f.id, n, err == nil && ref2.Trace() == refTrace)
		}
		if err != nil || ref2.Trace() != refTrace {
			continue // V8 does not confirm that the rewrite is an equivalent spelling here
		}
		c2 := c
		c2.Code = code2
		v2, confirmed2 := judgeInner(c2, depth+1)
		refused := false
		for _, cl := range v2.Classes {
			if strings.HasPrefix(cl, "esbuild-refused") {
				refused = true
			}
		}
		if debugClassify {
			fmt.Printf("classify depth=%d rewrite %s -> ok=%v known=%q confirmed=%v discard=%q refused=%v sameObserved=%v\n", depth, f.id, v2.OK, v2.Known, confirmed2, v2.Discard, refused, strings.HasPrefix(v2.Observed, gotTrace+"\n--- output"))
		}
		if v2.Discard != "" || refused {
			continue
		}
		if v2.OK {
			return f.id
		}
		// Still failing, but the rest is explained by other listed findings THROUGH repairs / rewrites that end
		// in a correct program (a static-signature match of the rest does not count: this rewrite may have
		// been without effect). Prefer a rewrite that changed the observed behaviour.
		if v2.Known != "" && confirmed2 {
			if !strings.HasPrefix(v2.Observed, gotTrace+"\n--- output") {
				return f.id
			}
			if fallback == "" {
				fallback = f.id
			}
		}
	}
	return fallback
}

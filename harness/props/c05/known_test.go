// Known findings of C05 that are recognised mechanically. Every listed defect has a narrow static
// signature plus one of two confirmations:
//
//   - an OUTPUT REPAIR: a mechanical edit of esbuild's output that undoes exactly that defect; the
//     failing case is attributed to the finding when the repaired output behaves like the original;
//   - an INPUT REWRITE: the construct named by the signature is replaced, in the input, by a spelling
//     that V8 itself shows to be equivalent (the native trace must stay identical); the failing case is
//     attributed to the finding when the rewritten program lowers correctly (or fails only by other
//     listed findings).
//
// Anything that still differs after these steps stays a violation.
package c05

import (
	"fmt"
	"os"
	"sort"
	"strings"

	"github.com/evanw/esbuild/pkg/api"
	"github.com/evanw/esbuild/verif/jsref"
	"github.com/evanw/esbuild/verif/jsutil"
)

type edit struct {
	at, del int
	ins     string
}

// applyEdits applies non-overlapping edits; nested edits (one inside the deleted range of another) are
// refused by returning ok=false.
func applyEdits(src string, edits []edit) (string, bool) {
	sort.SliceStable(edits, func(i, j int) bool {
		if edits[i].at != edits[j].at {
			return edits[i].at > edits[j].at
		}
		return edits[i].del > edits[j].del
	})
	limit := len(src) + 1
	for _, e := range edits {
		if e.at < 0 || e.at+e.del > len(src) || e.at+e.del > limit {
			return src, false
		}
		src = src[:e.at] + e.ins + src[e.at+e.del:]
		if e.del > 0 {
			limit = e.at
		} else {
			limit = e.at + 1
		}
	}
	return src, true
}

func isFunctionBoundary(n *jsref.Node) bool {
	switch n.Type {
	case jsref.NFunctionDecl, jsref.NFunctionExpr, jsref.NArrow:
		return true
	}
	return false
}

func isClass(n *jsref.Node) bool { return n.Type == jsref.NClassDecl || n.Type == jsref.NClassExpr }

func stripParens(n *jsref.Node) *jsref.Node {
	for n != nil && n.Type == jsref.NParen {
		n = n.A
	}
	return n
}

func isSuperMember(n *jsref.Node) bool {
	n = stripParens(n)
	return n != nil && (n.Type == jsref.NMember || n.Type == jsref.NIndex) && n.A != nil && n.A.Type == jsref.NSuper
}

// walkRepeated visits every node and tells whether it lies in a part of a loop that is evaluated once per
// iteration (body, test, update, per-iteration head of for-in/of) within the same function activation.
func walkRepeated(n *jsref.Node, repeated bool, fn func(n *jsref.Node, repeated bool)) {
	if n == nil {
		return
	}
	fn(n, repeated)
	if isFunctionBoundary(n) {
		// a new activation per call: parameters and body are not "repeated by a loop of this activation"
		for _, c := range n.List {
			walkRepeated(c, false, fn)
		}
		walkRepeated(n.A, false, fn)
		walkRepeated(n.B, false, fn)
		return
	}
	if n.Type == jsref.NMethod && n.B != nil {
		walkRepeated(n.A, repeated, fn) // computed key: evaluated with the class
		walkRepeated(n.B, false, fn)
		return
	}
	if n.Type == jsref.NField && !n.Has(jsref.FlagStatic) {
		walkRepeated(n.A, repeated, fn)
		walkRepeated(n.B, false, fn) // instance initialisers run per construction
		return
	}
	switch n.Type {
	case jsref.NFor:
		walkRepeated(n.A, repeated, fn)
		walkRepeated(n.B, true, fn)
		walkRepeated(n.C, true, fn)
		walkRepeated(n.D, true, fn)
		return
	case jsref.NForIn, jsref.NForOf:
		walkRepeated(n.A, true, fn)
		walkRepeated(n.B, repeated, fn)
		walkRepeated(n.D, true, fn)
		return
	case jsref.NWhile, jsref.NDoWhile:
		walkRepeated(n.A, true, fn)
		walkRepeated(n.D, true, fn)
		return
	}
	walkRepeated(n.A, repeated, fn)
	walkRepeated(n.B, repeated, fn)
	walkRepeated(n.C, repeated, fn)
	walkRepeated(n.D, repeated, fn)
	for _, c := range n.List {
		walkRepeated(c, repeated, fn)
	}
}

// ---- C05-class-temporaries-shared-across-loop-iterations (input rewrite)
// Signature: a class lies in a per-iteration part of a loop (of the same function activation). Rewrite:
// every such class is evaluated inside its own arrow-function activation, `(() => class A {…})()`
// (a declaration becomes `let A = (() => class A {…})();`), which gives esbuild's function-scoped
// temporaries (WeakMap / WeakSet of private names, method functions, the class-expression temporary) one
// activation per evaluation, as the per-evaluation private names of the original demand.
func rewriteClassesInLoops(code string, p *jsref.Program) (string, int) {
	var edits []edit
	var outer []*jsref.Node
	walkRepeated(p.Body, false, func(n *jsref.Node, repeated bool) {
		if !isClass(n) || !repeated {
			return
		}
		for _, o := range outer {
			if n.Start >= o.Start && n.End <= o.End {
				return // nested in a class that is wrapped already (a nested edit would overlap)
			}
		}
		outer = append(outer, n)
		if n.Type == jsref.NClassDecl {
			name := ""
			if n.A != nil {
				name = n.A.Name
			}
			if name == "" {
				return
			}
			edits = append(edits, edit{at: n.Start, ins: "let " + name + " = (() => "}, edit{at: n.End, ins: ")();"})
		} else {
			edits = append(edits, edit{at: n.Start, ins: "(() => "}, edit{at: n.End, ins: ")()"})
		}
	})
	if len(edits) == 0 {
		return code, 0
	}
	out, ok := applyEdits(code, edits)
	if !ok {
		return code, 0
	}
	return out, len(edits) / 2
}

// ---- C05-static-initialiser-super-call-receiver (output repair)
// Signature (input): a static field initialiser or static block of a class with a heritage contains,
// outside any non-arrow function, a call or tagged template whose callee is `super.x` / `super[x]`.
func superCallInStaticInit(p *jsref.Program) bool {
	found := false
	var scan func(n *jsref.Node)
	scan = func(n *jsref.Node) {
		if n == nil || found {
			return
		}
		switch n.Type {
		case jsref.NFunctionDecl, jsref.NFunctionExpr, jsref.NClassDecl, jsref.NClassExpr:
			return // own `this` / own home object (object-literal methods are NProperty → NFunctionExpr)
		case jsref.NCall, jsref.NTemplate:
			if isSuperMember(n.A) {
				found = true
				return
			}
		}
		scan(n.A)
		scan(n.B)
		scan(n.C)
		scan(n.D)
		for _, c := range n.List {
			scan(c)
		}
	}
	jsutil.Walk(p.Body, func(n *jsref.Node) {
		if !isClass(n) || n.B == nil {
			return
		}
		for _, m := range n.List {
			if m == nil {
				continue
			}
			if m.Type == jsref.NField && m.Has(jsref.FlagStatic) {
				scan(m.B)
			}
			if m.Type == jsref.NStaticBlock {
				for _, s := range m.List {
					scan(s)
				}
			}
		}
	})
	return found
}

// Repair: `__superGet(C, R, k).call(this, …)` (tagged template: `.bind(this)`; optional call: through a
// temporary, `(_a = __superGet(C, R, k)) == null ? void 0 : _a.call(this, …)`) where the receiver argument
// R is an identifier (a static initialiser moved out of its class: R is the class) becomes `.call(R, …)`.
func repairSuperCallReceiver(out string, po *jsref.Program) (string, int) {
	var edits []edit
	// temporaries that hold a lowered super property of a static initialiser (optional call:
	// `(_a = __superGet(C, R, k)) == null ? void 0 : _a.call(this, …)`): name → assignments
	type tempAssign struct {
		at   int
		recv string
	}
	temps := map[string][]tempAssign{}
	superGetRecv := func(n *jsref.Node) string {
		if n == nil || n.Type != jsref.NCall || n.A == nil || n.A.Type != jsref.NIdent || n.A.Name != "__superGet" || len(n.List) != 3 {
			return ""
		}
		if r := n.List[1]; r != nil && r.Type == jsref.NIdent {
			return r.Name
		}
		return ""
	}
	jsutil.Walk(po.Body, func(n *jsref.Node) {
		if n.Type == jsref.NAssign && n.Name == "=" && n.A != nil && n.A.Type == jsref.NIdent {
			if r := superGetRecv(n.B); r != "" {
				temps[n.A.Name] = append(temps[n.A.Name], tempAssign{n.Start, r})
			}
		}
	})
	jsutil.Walk(po.Body, func(n *jsref.Node) {
		if n.Type != jsref.NCall || n.A == nil || n.A.Type != jsref.NMember || (n.A.Name != "call" && n.A.Name != "bind") || len(n.List) == 0 {
			return
		}
		first := n.List[0]
		if first == nil || first.Type != jsref.NThis {
			return
		}
		recv := superGetRecv(n.A.A)
		if recv == "" && n.A.A != nil && n.A.A.Type == jsref.NIdent {
			best := -1
			for _, ta := range temps[n.A.A.Name] {
				if ta.at < n.Start && ta.at > best {
					best, recv = ta.at, ta.recv
				}
			}
		}
		if recv == "" {
			return
		}
		edits = append(edits, edit{at: first.Start, del: first.End - first.Start, ins: recv})
	})
	if len(edits) == 0 {
		return out, 0
	}
	res, ok := applyEdits(out, edits)
	if !ok {
		return out, 0
	}
	return res, len(edits)
}

// ---- C05-object-rest-identifier-key-reread (output repair)
// Signature (input): an object pattern with a rest element has a computed key that is a bare identifier
// which the program also writes (an assignment target anywhere, or a name bound by that very pattern).
func restWithIdentKey(p *jsref.Program) bool {
	written := map[string]bool{}
	for _, a := range p.AssignedNames {
		written[a.Name] = true
	}
	found := false
	jsutil.Walk(p.Body, func(n *jsref.Node) {
		if n.Type != jsref.NObject || len(n.List) < 2 {
			return
		}
		last := n.List[len(n.List)-1]
		if last == nil || last.Type != jsref.NSpread {
			return
		}
		for _, m := range n.List[:len(n.List)-1] {
			if m == nil || m.Type != jsref.NProperty || !m.Has(jsref.FlagComputed) {
				continue
			}
			k := stripParens(m.A)
			if k == nil || k.Type != jsref.NIdent {
				continue
			}
			if written[k.Name] || patternBinds(n, k.Name) {
				found = true
			}
		}
	})
	return found
}

// patternBinds: name occurs as a binding target (value position) inside the pattern.
func patternBinds(pat *jsref.Node, name string) bool {
	hit := false
	var tgt func(n *jsref.Node)
	tgt = func(n *jsref.Node) {
		if n == nil {
			return
		}
		switch n.Type {
		case jsref.NIdent:
			if n.Name == name {
				hit = true
			}
		case jsref.NAssign, jsref.NSpread, jsref.NParen:
			tgt(n.A)
		case jsref.NArray:
			for _, c := range n.List {
				tgt(c)
			}
		case jsref.NObject:
			for _, c := range n.List {
				if c == nil {
					continue
				}
				if c.Type == jsref.NProperty {
					tgt(c.B)
				} else {
					tgt(c)
				}
			}
		}
	}
	tgt(pat)
	return hit
}

// Repair: every identifier key that esbuild re-reads for the exclusion list of __objRest is captured:
// `{ [k]: t } = _a, r = __objRest(_a, [__restKey(k)])` becomes
// `{ [_rk0 = k]: t } = _a, r = __objRest(_a, [__restKey(_rk0)])` (what esbuild itself emits for any key
// expression other than an identifier).
func repairRestKeyReread(out string, po *jsref.Program) (string, int) {
	if strings.Contains(out, "_rk") {
		return out, 0
	}
	// object patterns by the identifier they are assigned from: `{…} = _a` / declarator `{…} = _a`
	patternsOf := map[string][]*jsref.Node{}
	alias := map[string]string{} // `_e = _a`: after a split esbuild re-captures the same source object
	var rests []*jsref.Node
	jsutil.Walk(po.Body, func(n *jsref.Node) {
		if (n.Type == jsref.NAssign && n.Name == "=" || n.Type == jsref.NDeclarator) && n.A != nil && n.A.Type == jsref.NIdent && n.B != nil && n.B.Type == jsref.NIdent {
			alias[n.A.Name] = n.B.Name
		}
		if (n.Type == jsref.NAssign && n.Name == "=" || n.Type == jsref.NDeclarator) && n.A != nil && n.A.Type == jsref.NObject && n.B != nil && n.B.Type == jsref.NIdent {
			patternsOf[n.B.Name] = append(patternsOf[n.B.Name], n.A)
		}
		if n.Type == jsref.NCall && n.A != nil && n.A.Type == jsref.NIdent && n.A.Name == "__objRest" && len(n.List) == 2 && n.List[0] != nil && n.List[0].Type == jsref.NIdent && n.List[1] != nil && n.List[1].Type == jsref.NArray {
			rests = append(rests, n)
		}
	})
	var edits []edit
	var temps []string
	usedKey := map[*jsref.Node]bool{}
	for _, r := range rests {
		for _, el := range r.List[1].List {
			if el == nil || el.Type != jsref.NCall || el.A == nil || el.A.Type != jsref.NIdent || el.A.Name != "__restKey" || len(el.List) != 1 || el.List[0] == nil || el.List[0].Type != jsref.NIdent {
				continue
			}
			arg := el.List[0]
			// the key it repeats: a computed identifier key of the pattern destructured from the same temporary
			var key *jsref.Node
			var pats []*jsref.Node
			for src, hops := r.List[0].Name, 0; src != "" && hops < 8; src, hops = alias[src], hops+1 {
				pats = append(pats, patternsOf[src]...)
			}
			sort.SliceStable(pats, func(i, j int) bool { return pats[i].Start < pats[j].Start })
			for _, pat := range pats {
				if pat.End > r.Start {
					continue
				}
				for _, m := range pat.List {
					if m != nil && m.Type == jsref.NProperty && m.Has(jsref.FlagComputed) && m.A != nil && m.A.Type == jsref.NIdent && m.A.Name == arg.Name && !usedKey[m.A] && key == nil {
						key = m.A
					}
				}
			}
			if key == nil {
				continue
			}
			usedKey[key] = true
			tmp := "_rk" + string(rune('0'+len(temps)%10)) + strings.Repeat("x", len(temps)/10)
			temps = append(temps, tmp)
			edits = append(edits, edit{at: key.Start, ins: tmp + " = "}, edit{at: arg.Start, del: arg.End - arg.Start, ins: tmp})
		}
	}
	if len(temps) == 0 {
		return out, 0
	}
	// declare the temporaries after the directive prologue
	at := 0
	for _, s := range po.Body.List {
		if s != nil && s.Type == jsref.NExprStmt && s.Has(jsref.FlagDirective) {
			at = s.End
			continue
		}
		break
	}
	edits = append(edits, edit{at: at, ins: "\nvar " + strings.Join(temps, ", ") + ";\n"})
	res, ok := applyEdits(out, edits)
	if !ok {
		return out, 0
	}
	return res, len(temps)
}

// ---- C05-lowered-async-arrow-loses-this-of-lowered-super (output repair)
// Signature (input): an async arrow function contains a `super` property access. Repair: a lowered async
// arrow `__async(null, A, function* () { … this … })` whose generator body uses `this` (only esbuild's
// own super lowering puts one there: an arrow that mentions `this` itself is emitted with
// `__async(this, …)`) gets `this` as its first argument.
func superInAsyncArrow(p *jsref.Program) bool {
	found := false
	jsutil.Walk(p.Body, func(n *jsref.Node) {
		if n.Type != jsref.NArrow || !n.Has(jsref.FlagAsync) {
			return
		}
		jsutil.Walk(n, func(m *jsref.Node) {
			if m.Type == jsref.NSuper {
				found = true
			}
		})
	})
	return found
}

func usesThisDirectly(n *jsref.Node) bool {
	found := false
	var scan func(n *jsref.Node)
	scan = func(n *jsref.Node) {
		if n == nil || found {
			return
		}
		switch n.Type {
		case jsref.NThis:
			found = true
			return
		case jsref.NFunctionDecl, jsref.NFunctionExpr, jsref.NClassDecl, jsref.NClassExpr:
			return
		}
		scan(n.A)
		scan(n.B)
		scan(n.C)
		scan(n.D)
		for _, c := range n.List {
			scan(c)
		}
	}
	scan(n)
	return found
}

func repairAsyncArrowThis(out string, po *jsref.Program) (string, int) {
	var edits []edit
	jsutil.Walk(po.Body, func(n *jsref.Node) {
		if n.Type != jsref.NCall || n.A == nil || n.A.Type != jsref.NIdent || n.A.Name != "__async" || len(n.List) != 3 {
			return
		}
		first, fn := n.List[0], n.List[2]
		if first == nil || fn == nil || fn.Type != jsref.NFunctionExpr || out[first.Start:first.End] != "null" {
			return
		}
		if usesThisDirectly(fn.B) {
			edits = append(edits, edit{at: first.Start, del: first.End - first.Start, ins: "this"})
		}
	})
	if len(edits) == 0 {
		return out, 0
	}
	res, ok := applyEdits(out, edits)
	if !ok {
		return out, 0
	}
	return res, len(edits)
}

// ---- C05-raw-super-outside-method (input rewrite)
// Signature: `super.x ??= v` / `||=` / `&&=` / `**=`, or an optional chain link directly on a super
// property (`super.m?.()`, `super.x?.y`). esbuild prints these with a literal `super` even where it has to lower
// super property accesses (static initialisers moved out of the class, lowered async arrows), which is a
// syntax error there. Rewrite: `(super.x ?? (super.x = v))`, `(super.m == null ? void 0 : super.m())`.
func rewriteSuperShortCircuit(code string, p *jsref.Program) (string, int) {
	var edits []edit
	jsutil.Walk(p.Body, func(n *jsref.Node) {
		switch {
		case n.Type == jsref.NAssign && (n.Name == "??=" || n.Name == "||=" || n.Name == "&&=" || n.Name == "**=") && isSuperMember(n.A) && n.B != nil:
			t := stripParens(n.A)
			if t.Type != jsref.NMember {
				return
			}
			T := code[t.Start:t.End]
			if n.Name == "**=" {
				edits = append(edits, edit{at: n.Start, del: n.End - n.Start, ins: "(" + T + " = " + T + " ** (" + code[n.B.Start:n.B.End] + "))"})
				return
			}
			edits = append(edits, edit{at: n.Start, del: n.End - n.Start, ins: "(" + T + " " + strings.TrimSuffix(n.Name, "=") + " (" + T + " = " + code[n.B.Start:n.B.End] + "))"})
		case (n.Type == jsref.NCall || n.Type == jsref.NMember || n.Type == jsref.NIndex) && n.Has(jsref.FlagOptional) && n.A != nil && n.A.Type == jsref.NMember && n.A.A != nil && n.A.A.Type == jsref.NSuper:
			T := code[n.A.Start:n.A.End]
			rest := strings.TrimSpace(code[n.A.End:n.End])
			if !strings.HasPrefix(rest, "?.") {
				return
			}
			rest = rest[2:]
			if n.Type == jsref.NMember {
				rest = "." + rest
			}
			edits = append(edits, edit{at: n.Start, del: n.End - n.Start, ins: "(" + T + " == null ? void 0 : " + T + rest + ")"})
		}
	})
	if len(edits) == 0 {
		return code, 0
	}
	out, ok := applyEdits(code, edits)
	if !ok {
		return code, 0
	}
	return out, len(edits)
}

// ---- C05-new-target-in-lowered-static-block (input rewrite)
// Signature: `new.target` inside a class static block (or static field initialiser), outside any
// non-arrow function; its value is always undefined. Rewrite: `(void 0)`.
func rewriteNewTargetInStaticInit(code string, p *jsref.Program) (string, int) {
	var edits []edit
	var scan func(n *jsref.Node)
	scan = func(n *jsref.Node) {
		if n == nil {
			return
		}
		switch n.Type {
		case jsref.NFunctionDecl, jsref.NFunctionExpr, jsref.NClassDecl, jsref.NClassExpr:
			return
		case jsref.NMeta:
			if n.Name == "new.target" {
				edits = append(edits, edit{at: n.Start, del: n.End - n.Start, ins: "(void 0)"})
			}
			return
		}
		scan(n.A)
		scan(n.B)
		scan(n.C)
		scan(n.D)
		for _, c := range n.List {
			scan(c)
		}
	}
	jsutil.Walk(p.Body, func(n *jsref.Node) {
		if !isClass(n) {
			return
		}
		for _, m := range n.List {
			if m == nil {
				continue
			}
			if m.Type == jsref.NStaticBlock {
				for _, s := range m.List {
					scan(s)
				}
			}
			if m.Type == jsref.NField && m.Has(jsref.FlagStatic) {
				scan(m.B)
			}
		}
	})
	if len(edits) == 0 {
		return code, 0
	}
	out, ok := applyEdits(code, edits)
	if !ok {
		return code, 0
	}
	return out, len(edits)
}

// ---- C05-private-name-as-for-in-of-target (input rewrite)
// Signature: the head of a for-in / for-of / for-await loop is an assignment target (no declaration) that
// contains a private member access. Rewrite: `for (const __h of E) { (T = __h); BODY }`.
func rewritePrivateLoopTargets(code string, p *jsref.Program) (string, int) {
	var edits []edit
	cnt := 0
	jsutil.Walk(p.Body, func(n *jsref.Node) {
		if (n.Type != jsref.NForIn && n.Type != jsref.NForOf) || n.A == nil || n.A.Type == jsref.NVarDecl || n.D == nil {
			return
		}
		private := false
		jsutil.Walk(n.A, func(m *jsref.Node) {
			if m.Type == jsref.NPrivateName {
				private = true
			}
		})
		if !private {
			return
		}
		cnt++
		h := "__h" + string(rune('0'+cnt%10))
		edits = append(edits,
			edit{at: n.A.Start, del: n.A.End - n.A.Start, ins: "const " + h},
			edit{at: n.D.Start, ins: "{ (" + code[n.A.Start:n.A.End] + " = " + h + "); "},
			edit{at: n.D.End, ins: " }"})
	})
	if len(edits) == 0 || strings.Contains(code, "__h") {
		return code, 0
	}
	out, ok := applyEdits(code, edits)
	if !ok {
		return code, 0
	}
	return out, cnt
}

// ---- C05-class-code-moved-out-loses-strict-mode (input rewrite)
// Signature: the program is not strict mode code at top level and contains a class. Rewrite: a
// "use strict" prologue. (Class bodies are strict by themselves, so a program whose native behaviour does
// not change under the prologue must not change after lowering either; esbuild moves private methods,
// static blocks and static field initialisers out of the class body into sloppy code.)
func rewriteUseStrict(code string, p *jsref.Program) (string, int) {
	for _, s := range p.Body.List {
		if s != nil && s.Type == jsref.NExprStmt && s.Has(jsref.FlagDirective) {
			if t := strings.Trim(code[s.Start:s.End], " ;"); t == `"use strict"` || t == `'use strict'` {
				return code, 0
			}
			continue
		}
		break
	}
	hasClass := false
	jsutil.Walk(p.Body, func(n *jsref.Node) {
		if isClass(n) {
			hasClass = true
		}
	})
	if !hasClass {
		return code, 0
	}
	return "\"use strict\";\n" + code, 1
}

// ---- C05-object-rest-only-target-evaluated-before-source (output repair)
// Signature (input): an object assignment pattern that consists of a rest element only, whose target is a
// member expression: `({ ...o[k()] } = src())`. esbuild emits `o[k()] = __objRest(src(), [])`, which
// evaluates the operands of the target before the source; native destructuring evaluates the source first.
// Repair: `(_ro0 = src(), o[k()] = __objRest(_ro0, []))`.
func restOnlyMemberTarget(p *jsref.Program) bool {
	found := false
	jsutil.Walk(p.Body, func(n *jsref.Node) {
		if n.Type != jsref.NAssign || n.Name != "=" {
			return
		}
		pat := stripParens(n.A)
		if pat == nil || pat.Type != jsref.NObject || len(pat.List) != 1 || pat.List[0] == nil || pat.List[0].Type != jsref.NSpread {
			return
		}
		if t := stripParens(pat.List[0].A); t != nil && (t.Type == jsref.NMember || t.Type == jsref.NIndex) {
			found = true
		}
	})
	return found
}

func repairRestOnlyOrder(out string, po *jsref.Program) (string, int) {
	if strings.Contains(out, "_ro") {
		return out, 0
	}
	var edits []edit
	var temps []string
	jsutil.Walk(po.Body, func(n *jsref.Node) {
		if n.Type != jsref.NAssign || n.Name != "=" || n.A == nil || (n.A.Type != jsref.NMember && n.A.Type != jsref.NIndex) || n.B == nil {
			return
		}
		call := n.B
		if call.Type != jsref.NCall || call.A == nil || call.A.Type != jsref.NIdent || call.A.Name != "__objRest" || len(call.List) != 2 || call.List[0] == nil || call.List[0].Type == jsref.NIdent {
			return
		}
		src := call.List[0]
		tmp := "_ro" + string(rune('0'+len(temps)%10)) + strings.Repeat("x", len(temps)/10)
		temps = append(temps, tmp)
		edits = append(edits,
			edit{at: n.Start, ins: "(" + tmp + " = " + out[src.Start:src.End] + ", "},
			edit{at: src.Start, del: src.End - src.Start, ins: tmp},
			edit{at: n.End, ins: ")"})
	})
	if len(temps) == 0 {
		return out, 0
	}
	at := 0
	for _, s := range po.Body.List {
		if s != nil && s.Type == jsref.NExprStmt && s.Has(jsref.FlagDirective) {
			at = s.End
			continue
		}
		break
	}
	edits = append(edits, edit{at: at, ins: "\nvar " + strings.Join(temps, ", ") + ";\n"})
	res, ok := applyEdits(out, edits)
	if !ok {
		return out, 0
	}
	return res, len(temps)
}

// ---- C05-async-generator-return-restarts-after-await (output repair)
// Signature (input): an async generator function contains an `await` (or a for-await loop) and the
// program calls `.return(…)` on something. When return() reaches a lowered async generator that is
// suspended at a yield and the pending finally blocks (written by the user, or the iterator-closing code
// of a lowered for-await) await something, the helper __asyncGenerator resumes the generator with
// `.return(awaited value)` a second time instead of `.next(awaited value)`: the finally block is abandoned
// and the awaited value becomes the result. Repair: the helper resumes with "next" unless the awaited
// value comes from a yield* delegation (`v[1]`).
func asyncGeneratorAwaitAndReturnCall(p *jsref.Program) bool {
	gen, ret := false, false
	jsutil.Walk(p.Body, func(n *jsref.Node) {
		if n.Type == jsref.NFunctionDecl || n.Type == jsref.NFunctionExpr {
			if n.Has(jsref.FlagAsync) && n.Has(jsref.FlagGenerator) {
				jsutil.Walk(n.B, func(m *jsref.Node) {
					if m.Type == jsref.NAwait || (m.Type == jsref.NForOf && m.Has(jsref.FlagAwait)) {
						gen = true
					}
				})
			}
		}
		if n.Type == jsref.NCall && n.A != nil && n.A.Type == jsref.NMember && n.A.Name == "return" {
			ret = true
		}
	})
	return gen && ret
}

func repairAsyncGeneratorReturn(out string, po *jsref.Program) (string, int) {
	n := 0
	for _, r := range [][2]string{
		{`k === "return" ? k : "next"`, `k === "return" && v[1] ? k : "next"`},
		{`k==="return"?k:"next"`, `k==="return"&&v[1]?k:"next"`},
	} {
		if c := strings.Count(out, r[0]); c > 0 {
			out = strings.Replace(out, r[0], r[1], -1)
			n += c
		}
	}
	return out, n
}

// ---- C05-objrest-nullish-or-order, the "nullish" part (output repair)
// Signature (input): hasComplexObjectRest. Native destructuring throws a TypeError when the value that an
// object pattern is applied to is null or undefined; the helper __objRest tolerates both. Repair: the
// helper throws a TypeError for a nullish source. (The "order" part of the finding keeps its static
// signature in judgeDepth.)
func complexObjectRest(pi *jsref.Program) bool { return hasComplexObjectRest(pi.Source) }

// objRestHelper finds the arrow function that esbuild's runtime assigns to `__objRest`.
func objRestHelper(po *jsref.Program) *jsref.Node {
	var found *jsref.Node
	for _, st := range po.Body.List {
		if st == nil || st.Type != jsref.NVarDecl {
			continue
		}
		for _, d := range st.List {
			if d == nil || d.Type != jsref.NDeclarator || d.A == nil || d.A.Type != jsref.NIdent || d.A.Name != "__objRest" || found != nil {
				continue
			}
			if f := d.B; f != nil && f.Type == jsref.NArrow && len(f.List) == 2 && f.List[0] != nil && f.List[0].Type == jsref.NIdent && f.B != nil && f.B.Type == jsref.NBlock {
				found = f
			}
		}
	}
	return found
}

func repairObjRestNullish(out string, po *jsref.Program) (string, int) {
	f := objRestHelper(po)
	if f == nil || strings.Contains(out, "rest of null or undefined") {
		return out, 0
	}
	res, ok := applyEdits(out, []edit{{at: f.B.Start + 1, ins: " if (" + f.List[0].Name + " == null) throw new TypeError(\"rest of null or undefined\"); "}})
	if !ok {
		return out, 0
	}
	return res, 1
}

// ---- C05-object-rest-own-proto-key-sets-prototype (output repair)
// Signature (input): the program text mentions `__proto__`. The helper __objRest copies the remaining
// properties with `target[prop] = source[prop]`; for an own property named "__proto__" of the source
// (a JSON.parse result, a computed or accessor / method key) that assignment calls the inherited
// Object.prototype.__proto__ setter: the rest object gets the value as its PROTOTYPE (or nothing happens for
// a primitive) and has no own "__proto__" property. Native rest (CopyDataProperties) defines an own data
// property. Repair: the helper defines the property (Object.defineProperty), as __spreadValues does.
func mentionsProto(pi *jsref.Program) bool { return strings.Contains(pi.Source, "__proto__") }

func repairObjRestDefine(out string, po *jsref.Program) (string, int) {
	f := objRestHelper(po)
	if f == nil {
		return out, 0
	}
	var edits []edit
	jsutil.Walk(f.B, func(n *jsref.Node) {
		if n.Type != jsref.NAssign || n.Name != "=" || n.A == nil || n.B == nil || n.A.Type != jsref.NIndex || n.B.Type != jsref.NIndex {
			return
		}
		t, k, src, k2 := n.A.A, n.A.B, n.B.A, n.B.B
		if t == nil || k == nil || src == nil || k2 == nil || t.Type != jsref.NIdent || k.Type != jsref.NIdent || src.Type != jsref.NIdent || k2.Type != jsref.NIdent || k.Name != k2.Name || src.Name != f.List[0].Name {
			return
		}
		edits = append(edits, edit{at: n.Start, del: n.End - n.Start, ins: "Object.defineProperty(" + t.Name + ", " + k.Name + ", { value: " + src.Name + "[" + k.Name + "], writable: true, enumerable: true, configurable: true })"})
	})
	if len(edits) == 0 {
		return out, 0
	}
	res, ok := applyEdits(out, edits)
	if !ok {
		return out, 0
	}
	return res, len(edits)
}

// ---- C05-top-level-object-rest-temporary-name-collision (confirmed by transforming again)
// The temporaries that a lowered object-rest DECLARATION introduces in the declaration itself
// (`var _a = src, { x } = _a, r = __objRest(_a, ["x"])`, `for (let _a of xs) { let _b = _a, … }`,
// `catch (_a) { let _b = _a, … }`) are not recorded as declared symbols; at the top level of a file the
// renamer therefore never sees them and they are printed under their raw names `_a`, `_b`, … even when the
// program has a variable of that name or esbuild itself declares another top-level temporary `_a` (the
// cache of a lowered tagged template, `var _a; … T(_a || (_a = __template(…)))`). Only without
// identifier minification (the minifying renamer walks the scopes' generated symbols).
// Signature: object rest is lowered, identifiers are not minified, and the output binds — outside any
// function — a name `_x` that is also the initialiser of a declarator (`= _x`, the shape of a rest
// temporary) and that is bound a second time outside functions or occurs as an identifier in the input.
// Confirmation: the same case transformed with MinifyIdentifiers (whose renamer knows every generated
// symbol) behaves like the original.
func bindingNames(n *jsref.Node, fn func(name string)) {
	if n == nil {
		return
	}
	switch n.Type {
	case jsref.NIdent:
		fn(n.Name)
	case jsref.NAssign, jsref.NSpread, jsref.NParen:
		bindingNames(n.A, fn)
	case jsref.NArray:
		for _, c := range n.List {
			bindingNames(c, fn)
		}
	case jsref.NObject:
		for _, c := range n.List {
			if c == nil {
				continue
			}
			if c.Type == jsref.NProperty {
				if c.B != nil {
					bindingNames(c.B, fn)
				} else {
					bindingNames(c.A, fn)
				}
			} else {
				bindingNames(c, fn)
			}
		}
	}
}

func isRawTemporaryName(s string) bool {
	if len(s) < 2 || s[0] != '_' {
		return false
	}
	for _, r := range s[1:] {
		if r < 'a' || r > 'z' {
			return false
		}
	}
	return true
}

func topLevelRestTemporaryCollision(c Case, out string, refTrace string) string {
	const id = "C05-top-level-object-rest-temporary-name-collision"
	if c.Minify || !c.lowers("object-rest-spread", 2018) || !strings.Contains(out, "__objRest(") {
		return ""
	}
	po, err := jsref.Parse(out, jsref.Options{})
	if err != nil {
		return ""
	}
	bound := map[string]int{}
	usedAsInit := map[string]bool{}
	var walk func(n *jsref.Node)
	walk = func(n *jsref.Node) {
		if n == nil {
			return
		}
		switch n.Type {
		case jsref.NFunctionDecl, jsref.NFunctionExpr, jsref.NArrow, jsref.NClassDecl, jsref.NClassExpr:
			return
		case jsref.NDeclarator:
			bindingNames(n.A, func(name string) { bound[name]++ })
			if n.B != nil && n.B.Type == jsref.NIdent {
				usedAsInit[n.B.Name] = true
			}
		case jsref.NCatch:
			bindingNames(n.A, func(name string) { bound[name]++ })
		}
		walk(n.A)
		walk(n.B)
		walk(n.C)
		walk(n.D)
		for _, ch := range n.List {
			walk(ch)
		}
	}
	walk(po.Body)
	inInput := map[string]bool{}
	if toks, err := jsref.Tokenize(c.Code, jsref.Options{}); err == nil {
		for _, t := range toks {
			if t.Kind == jsref.TIdent {
				inInput[t.Ident] = true
			}
		}
	}
	collides := false
	for name, n := range bound {
		if isRawTemporaryName(name) && usedAsInit[name] && (n >= 2 || inInput[name]) {
			collides = true
		}
	}
	if !collides {
		return ""
	}
	o := c.options()
	o.MinifyIdentifiers = true
	r := api.Transform(c.Code, o)
	if len(r.Errors) > 0 {
		return ""
	}
	if got, err := W.Script(string(r.Code), false); err == nil && got.Trace() == refTrace {
		return id
	}
	return ""
}

// ---- C05-private-static-field-assigned-outside-class (confirmed by transforming again)
// REPAIRED in esbuild by 0a6f9db: the id no longer excuses a failure; the matcher is consulted last and
// a match reports a regression of that repair.
// With `class-private-brand-check` unsupported and static private fields supported (`supported:
// {class-private-brand-check: false}`, node 12–16.3, chrome 84–90), a class that contains a brand check
// `#a in o` and declares a static private field is emitted with `static #d;` left in the class body and
// the initialisation `A.#d = v` AFTER the class body, where `#d` is not in scope: a SyntaxError in every
// engine (also listed as C14-private-static-field-assigned-outside-class). visitClass decides that every
// private member must be lowered when static fields are moved out of the class before the brand check
// has switched that mode on.
// Signature: the configuration lowers brand checks but not static private fields; a class of the input has
// both; V8 rejects the output; the output assigns to private names that no enclosing class declares
// (`X.#n = v`) and mentions undeclared private names nowhere else. Confirmation: with every private
// feature lowered — what esbuild does once that decision is taken in the right order — the same program is
// lowered correctly (or fails only by other listed findings).
var privateFeatures = []string{"class-private-accessor", "class-private-brand-check", "class-private-field", "class-private-method", "class-private-static-accessor", "class-private-static-field", "class-private-static-method"}

func classWithBrandCheckAndStaticPrivateField(pi *jsref.Program) bool {
	found := false
	jsutil.Walk(pi.Body, func(n *jsref.Node) {
		if !isClass(n) || found {
			return
		}
		field, brand := false, false
		for _, m := range n.List {
			if m != nil && m.Type == jsref.NField && m.Has(jsref.FlagStatic) && !m.Has(jsref.FlagComputed) && m.A != nil && m.A.Type == jsref.NPrivateName {
				field = true
			}
		}
		jsutil.Walk(n, func(m *jsref.Node) {
			if m.Type == jsref.NBinary && m.Name == "in" && m.A != nil && m.A.Type == jsref.NPrivateName {
				brand = true
			}
		})
		if field && brand {
			found = true
		}
	})
	return found
}

// undeclaredPrivateAssignments counts the assignments `X.#n = v` of the program whose private name is not
// declared by an enclosing class body, and reports whether these targets are the only uses of undeclared
// private names.
func undeclaredPrivateAssignments(p *jsref.Program) (count int, onlyThose bool) {
	forgiven := map[*jsref.Node]bool{}
	var declared []map[string]bool
	isDeclared := func(name string) bool {
		for _, d := range declared {
			if d[name] {
				return true
			}
		}
		return false
	}
	onlyThose = true
	var walk func(n *jsref.Node)
	walk = func(n *jsref.Node) {
		if n == nil {
			return
		}
		switch n.Type {
		case jsref.NClassDecl, jsref.NClassExpr:
			walk(n.A)
			walk(n.B) // the heritage is outside the class's private scope
			names := map[string]bool{}
			for _, m := range n.List {
				if m != nil && (m.Type == jsref.NMethod || m.Type == jsref.NField) && !m.Has(jsref.FlagComputed) && m.A != nil && m.A.Type == jsref.NPrivateName {
					names[m.A.Name] = true
				}
			}
			declared = append(declared, names)
			for _, m := range n.List {
				walk(m)
			}
			declared = declared[:len(declared)-1]
			return
		case jsref.NAssign:
			if n.Name == "=" && n.A != nil && n.A.Type == jsref.NMember && n.A.B != nil && n.A.B.Type == jsref.NPrivateName && !isDeclared(n.A.B.Name) {
				count++
				forgiven[n.A.B] = true
			}
		case jsref.NPrivateName:
			if !isDeclared(n.Name) && !forgiven[n] {
				onlyThose = false
			}
		}
		walk(n.A)
		walk(n.B)
		walk(n.C)
		walk(n.D)
		for _, c := range n.List {
			walk(c)
		}
	}
	walk(p.Body)
	return
}

func privateStaticFieldOutsideClass(c Case, out string, gotTrace string, depth int) string {
	const id = "C05-private-static-field-assigned-outside-class"
	if !strings.HasPrefix(gotTrace, "PARSE-ERROR") || !c.lowers("class-private-brand-check", 2022) || c.lowers("class-private-static-field", 2022) {
		return ""
	}
	pi, err := jsref.Parse(c.Code, jsref.Options{})
	if err != nil || !classWithBrandCheckAndStaticPrivateField(pi) {
		return ""
	}
	po, err := jsref.Parse(out, jsref.Options{})
	if err != nil {
		return ""
	}
	if n, only := undeclaredPrivateAssignments(po); n == 0 || !only {
		return ""
	}
	c2 := c
	c2.Unsupported = append([]string{}, c.Unsupported...)
	c2.Supported = nil
	for _, f := range c.Supported {
		if !strings.HasPrefix(f, "class-private-") {
			c2.Supported = append(c2.Supported, f)
		}
	}
	for _, f := range privateFeatures {
		if knownFeature(f) && !c2.lowers(f, 0) {
			c2.Unsupported = append(c2.Unsupported, f)
		}
	}
	v2, confirmed2 := judgeInner(c2, depth+1)
	if debugClassify {
		fmt.Printf("classify depth=%d all-private-lowered -> ok=%v known=%q confirmed=%v discard=%q\n", depth, v2.OK, v2.Known, confirmed2, v2.Discard)
	}
	if v2.Discard != "" {
		return ""
	}
	for _, cl := range v2.Classes {
		if strings.HasPrefix(cl, "esbuild-refused") {
			return ""
		}
	}
	if v2.OK || (v2.Known != "" && confirmed2 && !isFixedID(v2.Known)) {
		return id
	}
	return ""
}

func isFixedID(id string) bool {
	if id == "C05-private-static-field-assigned-outside-class" {
		return true
	}
	for _, f := range outputRepairs {
		if f.id == id && f.fixed != "" {
			return true
		}
	}
	for _, f := range inputRewrites {
		if f.id == id && f.fixed != "" {
			return true
		}
	}
	return false
}

type outputRepair struct {
	id        string
	signature func(pi *jsref.Program) bool
	repair    func(out string, po *jsref.Program) (string, int)
	outputTag string // text the output must contain for the finding to be possible at all
	fixed     string // commit that repaired the finding in esbuild ("" = still listed as known)
}

type inputRewrite struct {
	id      string
	rewrite func(code string, pi *jsref.Program) (string, int)
	fixed   string
}

// Findings that are still listed as "known" come first. The matchers of findings that have been repaired
// in esbuild since (status "fixed": their id no longer excuses a failure, a match reports a regression)
// are kept, but they are consulted only after every known finding has been tried without them, so that a
// stale matcher never takes the place of one that applies.
var outputRepairs = []outputRepair{
	{id: "C05-static-initialiser-super-call-receiver", signature: superCallInStaticInit, repair: repairSuperCallReceiver, outputTag: "__superGet("},
	{id: "C05-lowered-async-arrow-loses-this-of-lowered-super", signature: superInAsyncArrow, repair: repairAsyncArrowThis, outputTag: "__async(null"},
	{id: "C05-object-rest-only-target-evaluated-before-source", signature: restOnlyMemberTarget, repair: repairRestOnlyOrder, outputTag: "__objRest("},
	{id: "C05-objrest-nullish-or-order", signature: complexObjectRest, repair: repairObjRestNullish, outputTag: "__objRest"},
	{id: "C05-object-rest-own-proto-key-sets-prototype", signature: mentionsProto, repair: repairObjRestDefine, outputTag: "__objRest"},
	{id: "C05-object-rest-identifier-key-reread", signature: restWithIdentKey, repair: repairRestKeyReread, outputTag: "__restKey(", fixed: "01d698b"},
	{id: "C05-async-generator-return-restarts-after-await", signature: asyncGeneratorAwaitAndReturnCall, repair: repairAsyncGeneratorReturn, outputTag: "__asyncGenerator", fixed: "482b817"},
}

var inputRewrites = []inputRewrite{
	{id: "C05-class-temporaries-shared-across-loop-iterations", rewrite: rewriteClassesInLoops},
	{id: "C05-raw-super-outside-method", rewrite: rewriteSuperShortCircuit},
	{id: "C05-private-name-as-for-in-of-target", rewrite: rewritePrivateLoopTargets},
	{id: "C05-class-code-moved-out-loses-strict-mode", rewrite: rewriteUseStrict},
	{id: "C05-new-target-in-lowered-static-block", rewrite: rewriteNewTargetInStaticInit, fixed: "884aa3b"},
}

const maxRewriteDepth = 4

var debugClassify = os.Getenv("VERIF_C05_DEBUG") != ""

// repairOutput applies every output repair whose signature matches (those of findings repaired in esbuild
// since only when includeFixed is set; only the repair of one finding when `only` names it); applied lists
// the findings whose repair changed something.
func repairOutput(c Case, out string, includeFixed bool, only string) (repaired string, applied []string) {
	pi, err := jsref.Parse(c.Code, jsref.Options{})
	if err != nil {
		return out, nil
	}
	cur := out
	for _, f := range outputRepairs {
		if (f.fixed != "" && !includeFixed) || (only != "" && f.id != only) || !strings.Contains(cur, f.outputTag) || !f.signature(pi) {
			continue
		}
		po, err := jsref.Parse(cur, jsref.Options{})
		if err != nil {
			return out, nil
		}
		next, n := f.repair(cur, po)
		if n > 0 {
			cur = next
			applied = append(applied, f.id)
		}
	}
	return cur, applied
}

// classify returns the id of the listed finding that explains the failing case ("" = none).
func classify(c Case, out string, refTrace, gotTrace string, depth int) string {
	// 1. output repairs (all applicable ones together: each is the identity on correct output). They
	// recognise esbuild's helpers by name, so a case with minified identifiers is first re-transformed
	// without identifier minification; that output must fail in exactly the same way.
	named := out
	if c.Minify {
		o := c.options()
		o.MinifyIdentifiers = false
		r := api.Transform(c.Code, o)
		named = ""
		if len(r.Errors) == 0 {
			if got, err := W.Script(string(r.Code), false); err == nil && got.Trace() == gotTrace {
				named = string(r.Code)
			}
		}
	}
	tryRepairs := func(includeFixed bool) string {
		if named == "" {
			return ""
		}
		repaired, applied := repairOutput(c, named, includeFixed, "")
		if len(applied) == 0 {
			return ""
		}
		got, err := W.Script(repaired, false)
		if err != nil || got.Trace() != refTrace {
			return ""
		}
		// attribution: a single repair that suffices on its own names the finding (some repairs, like the
		// stricter __objRest helper, change the text of every output that contains the helper)
		if len(applied) > 1 {
			for _, id := range applied {
				if one, a := repairOutput(c, named, includeFixed, id); len(a) == 1 {
					if got, err := W.Script(one, false); err == nil && got.Trace() == refTrace {
						return id
					}
				}
			}
		}
		if includeFixed {
			// the repairs of the known findings alone did not suffice: blame a repaired finding
			for _, id := range applied {
				if isFixedID(id) {
					return id
				}
			}
		}
		return applied[0]
	}
	if id := tryRepairs(false); id != "" {
		return id
	}
	// 2. findings confirmed by transforming again under a changed configuration
	if id := topLevelRestTemporaryCollision(c, out, refTrace); id != "" {
		return id
	}
	if depth >= maxRewriteDepth {
		return ""
	}
	// 3. input rewrites, one at a time; the rewritten program is judged recursively, so several findings
	// in one program are peeled off one after the other
	pi, err := jsref.Parse(c.Code, jsref.Options{})
	if err != nil {
		return ""
	}
	fallback := ""
	for _, f := range inputRewrites {
		if f.fixed != "" && fallback != "" {
			break // explained by known findings; the stale matchers are not consulted
		}
		code2, n := f.rewrite(c.Code, pi)
		if n == 0 || code2 == c.Code {
			continue
		}
		ref2, err := W.Script(code2, false)
		if debugClassify {
			fmt.Printf("classify depth=%d rewrite %s n=%d nativeSame=%v\n", depth, f.id, n, err == nil && ref2.Trace() == refTrace)
		}
		if err != nil || ref2.Trace() != refTrace {
			continue // V8 does not confirm that the rewrite is an equivalent spelling here
		}
		c2 := c
		c2.Code = code2
		v2, confirmed2 := judgeInner(c2, depth+1)
		refused := false
		for _, cl := range v2.Classes {
			if strings.HasPrefix(cl, "esbuild-refused") {
				refused = true
			}
		}
		if debugClassify {
			fmt.Printf("classify depth=%d rewrite %s -> ok=%v known=%q confirmed=%v discard=%q refused=%v sameObserved=%v\n", depth, f.id, v2.OK, v2.Known, confirmed2, v2.Discard, refused, strings.HasPrefix(v2.Observed, gotTrace+"\n--- output"))
		}
		if v2.Discard != "" || refused {
			continue
		}
		if v2.OK {
			return f.id
		}
		// Still failing, but the rest is explained by other listed findings THROUGH repairs / rewrites that end
		// in a correct program (a static-signature match of the rest does not count: this rewrite may have
		// been without effect). Prefer a rewrite that changed the observed behaviour.
		if v2.Known != "" && confirmed2 && !isFixedID(v2.Known) {
			if !strings.HasPrefix(v2.Observed, gotTrace+"\n--- output") {
				return f.id
			}
			if fallback == "" && f.fixed == "" {
				fallback = f.id
			}
		}
	}
	if fallback != "" {
		return fallback
	}
	// 4. the matchers of findings that were repaired in esbuild (a match is a regression)
	if id := privateStaticFieldOutsideClass(c, out, gotTrace, depth); id != "" {
		return id
	}
	return tryRepairs(true)
}

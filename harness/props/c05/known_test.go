// Known findings of C05 that are recognised by REPAIRING esbuild's output: each listed defect has a
// narrow static signature on the input plus a mechanical edit of the emitted code that undoes exactly
// that defect. A failing case is attributed to the finding only when its signature matches AND the
// repaired output behaves like the original program; any other difference stays a violation.
package c05

import (
	"sort"
	"strings"

	"github.com/evanw/esbuild/verif/jsref"
	"github.com/evanw/esbuild/verif/jsutil"
)

type edit struct {
	at, del int
	ins     string
}

func applyEdits(src string, edits []edit) string {
	sort.SliceStable(edits, func(i, j int) bool { return edits[i].at > edits[j].at })
	for _, e := range edits {
		if e.at < 0 || e.at+e.del > len(src) {
			continue
		}
		src = src[:e.at] + e.ins + src[e.at+e.del:]
	}
	return src
}

func isLoop(n *jsref.Node) bool {
	switch n.Type {
	case jsref.NFor, jsref.NForIn, jsref.NForOf, jsref.NWhile, jsref.NDoWhile:
		return true
	}
	return false
}

func isFunctionBoundary(n *jsref.Node) bool {
	switch n.Type {
	case jsref.NFunctionDecl, jsref.NFunctionExpr, jsref.NArrow:
		return true
	}
	return false
}

func classHasPrivateMember(n *jsref.Node) bool {
	for _, m := range n.List {
		if m != nil && (m.Type == jsref.NField || m.Type == jsref.NMethod) && m.A != nil && m.A.Type == jsref.NPrivateName {
			return true
		}
	}
	return false
}

// walkRepeated visits every node and tells whether it lies in a part of a loop that is evaluated once per
// iteration (body, test, update, per-iteration head of for-in/of) within the same function activation.
// body is true when every enclosing repeated part is a loop body.
func walkRepeated(n *jsref.Node, repeated, head bool, fn func(n *jsref.Node, repeated, head bool)) {
	if n == nil {
		return
	}
	fn(n, repeated, head)
	if isFunctionBoundary(n) {
		// a new activation per call: parameters and body are not "repeated by a loop of this activation"
		for _, c := range n.List {
			walkRepeated(c, false, false, fn)
		}
		walkRepeated(n.A, false, false, fn)
		walkRepeated(n.B, false, false, fn)
		return
	}
	if (n.Type == jsref.NMethod) && n.B != nil {
		walkRepeated(n.A, repeated, head, fn) // computed key: evaluated with the class
		walkRepeated(n.B, false, false, fn)
		return
	}
	if n.Type == jsref.NField && !n.Has(jsref.FlagStatic) {
		walkRepeated(n.A, repeated, head, fn)
		walkRepeated(n.B, false, false, fn) // instance initialisers run per construction
		return
	}
	switch n.Type {
	case jsref.NFor:
		walkRepeated(n.A, repeated, head, fn)
		walkRepeated(n.B, true, true, fn)
		walkRepeated(n.C, true, true, fn)
		walkRepeated(n.D, true, head, fn)
		return
	case jsref.NForIn, jsref.NForOf:
		walkRepeated(n.A, true, true, fn)
		walkRepeated(n.B, repeated, head, fn)
		walkRepeated(n.D, true, head, fn)
		return
	case jsref.NWhile, jsref.NDoWhile:
		walkRepeated(n.A, true, true, fn)
		walkRepeated(n.D, true, head, fn)
		return
	}
	walkRepeated(n.A, repeated, head, fn)
	walkRepeated(n.B, repeated, head, fn)
	walkRepeated(n.C, repeated, head, fn)
	walkRepeated(n.D, repeated, head, fn)
	for _, c := range n.List {
		walkRepeated(c, repeated, head, fn)
	}
}

// privateClassInLoop: signature of C05-private-names-shared-across-loop-iterations. inLoop: the input has
// a class with a private member in a per-iteration part of a loop of the same function activation;
// inHead: some such class is in a loop head (test / update / per-iteration head) where the repair below
// cannot re-declare the temporaries.
func privateClassInLoop(p *jsref.Program) (inLoop, inHead bool) {
	walkRepeated(p.Body, false, false, func(n *jsref.Node, repeated, head bool) {
		if (n.Type == jsref.NClassDecl || n.Type == jsref.NClassExpr) && repeated && classHasPrivateMember(n) {
			inLoop = true
			if head {
				inHead = true
			}
		}
	})
	return
}

func allScopes(s *jsref.Scope, fn func(*jsref.Scope)) {
	if s == nil {
		return
	}
	fn(s)
	for _, c := range s.Children {
		allScopes(c, fn)
	}
}

// repairLoopTemps re-declares, per iteration, every `var` temporary without initialiser that is declared
// outside a loop body but assigned and used only inside it (esbuild's WeakMap / WeakSet / method-function
// temporaries of a lowered class: `var _x; for (…) { _x = new WeakMap(); … }` becomes
// `for (…) { let _x; _x = new WeakMap(); … }`).
func repairLoopTemps(out string, po *jsref.Program) (string, int) {
	noInit := map[int]bool{}
	var bodies []*jsref.Node
	jsutil.Walk(po.Body, func(n *jsref.Node) {
		if n.Type == jsref.NVarDecl && n.Name == "var" {
			for _, d := range n.List {
				if d != nil && d.Type == jsref.NDeclarator && d.B == nil && d.A != nil && d.A.Type == jsref.NIdent {
					noInit[d.A.Start] = true
				}
			}
		}
		if isLoop(n) && n.D != nil {
			bodies = append(bodies, n.D)
		}
	})
	perBody := map[*jsref.Node][]string{}
	allScopes(po.Scopes, func(s *jsref.Scope) {
		for _, d := range s.Decls {
			if d.Kind != jsref.DeclVar || !noInit[d.Offset] || len(d.Refs) == 0 {
				continue
			}
			assigned := false
			for _, r := range d.Refs {
				if r.IsAssignTarget && !r.IsRead {
					assigned = true
				}
			}
			if !assigned {
				continue
			}
			var best *jsref.Node
			for _, b := range bodies {
				if d.Offset >= b.Start && d.Offset < b.End {
					continue
				}
				ok := true
				for _, r := range d.Refs {
					if r.Offset < b.Start || r.Offset >= b.End {
						ok = false
						break
					}
				}
				if ok && (best == nil || b.End-b.Start < best.End-best.Start) {
					best = b
				}
			}
			if best != nil {
				perBody[best] = append(perBody[best], d.Name)
			}
		}
	})
	var edits []edit
	n := 0
	for b, names := range perBody {
		sort.Strings(names)
		n += len(names)
		decl := "let " + strings.Join(names, ", ") + "; "
		if b.Type == jsref.NBlock {
			edits = append(edits, edit{at: b.Start + 1, ins: " " + decl})
		} else {
			edits = append(edits, edit{at: b.Start, ins: "{ " + decl}, edit{at: b.End, ins: " }"})
		}
	}
	if n == 0 {
		return out, 0
	}
	return applyEdits(out, edits), n
}

// superCallInStaticInit: signature of C05-static-initialiser-super-call-receiver: a static field
// initialiser or static block (of a class with a heritage) contains, outside any non-arrow function, a
// call or tagged template whose callee is `super.x` / `super[x]`.
func superCallInStaticInit(p *jsref.Program) bool {
	found := false
	var scan func(n *jsref.Node)
	scan = func(n *jsref.Node) {
		if n == nil || found {
			return
		}
		switch n.Type {
		case jsref.NFunctionDecl, jsref.NFunctionExpr, jsref.NClassDecl, jsref.NClassExpr:
			return // own `this` / own home object (object-literal methods are NProperty → NFunctionExpr)
		case jsref.NCall, jsref.NTemplate:
			callee := n.A
			for callee != nil && callee.Type == jsref.NParen {
				callee = callee.A
			}
			if callee != nil && (callee.Type == jsref.NMember || callee.Type == jsref.NIndex) && callee.A != nil && callee.A.Type == jsref.NSuper {
				found = true
				return
			}
		}
		scan(n.A)
		scan(n.B)
		scan(n.C)
		scan(n.D)
		for _, c := range n.List {
			scan(c)
		}
	}
	jsutil.Walk(p.Body, func(n *jsref.Node) {
		if (n.Type != jsref.NClassDecl && n.Type != jsref.NClassExpr) || n.B == nil {
			return
		}
		for _, m := range n.List {
			if m == nil {
				continue
			}
			if m.Type == jsref.NField && m.Has(jsref.FlagStatic) {
				scan(m.B)
			}
			if m.Type == jsref.NStaticBlock {
				for _, s := range m.List {
					scan(s)
				}
			}
		}
	})
	return found
}

// repairSuperCallReceiver rewrites `__superGet(C, R, k).call(this, …)` where the receiver argument R is
// not `this` (a static initialiser moved out of its class: R is the class) to `.call(R, …)`.
func repairSuperCallReceiver(out string, po *jsref.Program) (string, int) {
	var edits []edit
	jsutil.Walk(po.Body, func(n *jsref.Node) {
		if n.Type != jsref.NCall || n.A == nil || n.A.Type != jsref.NMember || n.A.Name != "call" || len(n.List) == 0 {
			return
		}
		inner := n.A.A
		if inner == nil || inner.Type != jsref.NCall || inner.A == nil || inner.A.Type != jsref.NIdent || inner.A.Name != "__superGet" || len(inner.List) != 3 {
			return
		}
		recv, first := inner.List[1], n.List[0]
		if recv == nil || first == nil || first.Type != jsref.NThis || recv.Type != jsref.NIdent {
			return
		}
		edits = append(edits, edit{at: first.Start, del: first.End - first.Start, ins: recv.Name})
	})
	if len(edits) == 0 {
		return out, 0
	}
	return applyEdits(out, edits), len(edits)
}

// restWithIdentKey: signature of C05-object-rest-identifier-key-reread: an object pattern with a rest
// element has a computed key that is a bare identifier which the program also writes (an assignment
// target anywhere, or a name bound by that very pattern).
func restWithIdentKey(p *jsref.Program) bool {
	written := map[string]bool{}
	for _, a := range p.AssignedNames {
		written[a.Name] = true
	}
	found := false
	jsutil.Walk(p.Body, func(n *jsref.Node) {
		if n.Type != jsref.NObject || len(n.List) < 2 {
			return
		}
		last := n.List[len(n.List)-1]
		if last == nil || last.Type != jsref.NSpread {
			return
		}
		for _, m := range n.List[:len(n.List)-1] {
			if m == nil || m.Type != jsref.NProperty || !m.Has(jsref.FlagComputed) {
				continue
			}
			k := m.A
			for k != nil && k.Type == jsref.NParen {
				k = k.A
			}
			if k == nil || k.Type != jsref.NIdent {
				continue
			}
			if written[k.Name] || patternBinds(n, k.Name) {
				found = true
			}
		}
	})
	return found
}

// patternBinds: name occurs as a binding target (value position) inside the pattern.
func patternBinds(pat *jsref.Node, name string) bool {
	hit := false
	var tgt func(n *jsref.Node)
	tgt = func(n *jsref.Node) {
		if n == nil {
			return
		}
		switch n.Type {
		case jsref.NIdent:
			if n.Name == name {
				hit = true
			}
		case jsref.NAssign:
			tgt(n.A)
		case jsref.NSpread, jsref.NParen:
			tgt(n.A)
		case jsref.NArray:
			for _, c := range n.List {
				tgt(c)
			}
		case jsref.NObject:
			for _, c := range n.List {
				if c == nil {
					continue
				}
				if c.Type == jsref.NProperty {
					tgt(c.B)
				} else {
					tgt(c)
				}
			}
		}
	}
	tgt(pat)
	return hit
}

// repairRestKeyReread captures every identifier key that esbuild re-reads for the exclusion list of
// __objRest: `{ [k]: t } = _a, r = __objRest(_a, [__restKey(k)])` becomes
// `{ [_rk1 = k]: t } = _a, r = __objRest(_a, [__restKey(_rk1)])` (what esbuild itself emits for any key
// expression other than an identifier).
func repairRestKeyReread(out string, po *jsref.Program) (string, int) {
	if strings.Contains(out, "_rk") {
		return out, 0
	}
	type keyNode struct {
		name       string
		start, end int // the key expression inside the brackets
	}
	var keys []keyNode
	var calls []*jsref.Node
	jsutil.Walk(po.Body, func(n *jsref.Node) {
		if n.Type == jsref.NProperty && n.Has(jsref.FlagComputed) && n.A != nil && n.A.Type == jsref.NIdent {
			keys = append(keys, keyNode{n.A.Name, n.A.Start, n.A.End})
		}
		if n.Type == jsref.NCall && n.A != nil && n.A.Type == jsref.NIdent && n.A.Name == "__restKey" && len(n.List) == 1 && n.List[0] != nil && n.List[0].Type == jsref.NIdent {
			calls = append(calls, n)
		}
	})
	var edits []edit
	var temps []string
	used := map[int]string{}
	for _, c := range calls {
		arg := c.List[0]
		best := -1
		for i, k := range keys {
			if k.name == arg.Name && k.end <= c.Start && (best < 0 || k.start > keys[best].start) {
				best = i
			}
		}
		if best < 0 {
			continue
		}
		tmp, ok := used[best]
		if !ok {
			tmp = "_rk" + string(rune('0'+len(temps)%10)) + strings.Repeat("x", len(temps)/10)
			used[best] = tmp
			temps = append(temps, tmp)
			edits = append(edits, edit{at: keys[best].start, ins: tmp + " = "})
		}
		edits = append(edits, edit{at: arg.Start, del: arg.End - arg.Start, ins: tmp})
	}
	if len(temps) == 0 {
		return out, 0
	}
	// declare the temporaries after the directive prologue
	at := 0
	for _, s := range po.Body.List {
		if s != nil && s.Type == jsref.NExprStmt && s.Has(jsref.FlagDirective) {
			at = s.End
			continue
		}
		break
	}
	edits = append(edits, edit{at: at, ins: "\nvar " + strings.Join(temps, ", ") + ";\n"})
	return applyEdits(out, edits), len(temps)
}

type repairFinding struct {
	id        string
	applies   func(c Case, pi *jsref.Program) bool
	repair    func(out string, po *jsref.Program) (string, int)
	staticOK  func(c Case, pi *jsref.Program) bool // optional: positions the repair cannot reach; signature alone decides
	outputTag string                               // text the output must contain for the finding to be possible at all
}

var repairFindings = []repairFinding{
	{
		id: "C05-private-names-shared-across-loop-iterations",
		applies: func(c Case, pi *jsref.Program) bool {
			in, _ := privateClassInLoop(pi)
			return in
		},
		repair: repairLoopTemps,
		staticOK: func(c Case, pi *jsref.Program) bool {
			_, head := privateClassInLoop(pi)
			return head
		},
		outputTag: "new Weak",
	},
	{
		id:        "C05-static-initialiser-super-call-receiver",
		applies:   func(c Case, pi *jsref.Program) bool { return superCallInStaticInit(pi) },
		repair:    repairSuperCallReceiver,
		outputTag: "__superGet(",
	},
	{
		id:        "C05-object-rest-identifier-key-reread",
		applies:   func(c Case, pi *jsref.Program) bool { return restWithIdentKey(pi) },
		repair:    repairRestKeyReread,
		outputTag: "__restKey(",
	},
}

// classifyByRepair returns the id of the listed finding that explains the failing case ("" = none):
// the applicable repairs are tried one at a time and then all together; the case is explained when the
// repaired output reproduces the reference trace.
func classifyByRepair(c Case, out string, refTrace string) string {
	pi, err := jsref.Parse(c.Code, jsref.Options{})
	if err != nil {
		return ""
	}
	var cand []repairFinding
	for _, f := range repairFindings {
		if strings.Contains(out, f.outputTag) && f.applies(c, pi) {
			cand = append(cand, f)
		}
	}
	if len(cand) == 0 {
		return ""
	}
	try := func(fs []repairFinding) bool {
		cur := out
		total := 0
		for _, f := range fs {
			po, err := jsref.Parse(cur, jsref.Options{})
			if err != nil {
				return false
			}
			next, n := f.repair(cur, po)
			cur = next
			total += n
		}
		if total == 0 {
			return false
		}
		got, err := W.Script(cur, false)
		return err == nil && got.Trace() == refTrace
	}
	for _, f := range cand {
		if try([]repairFinding{f}) {
			return f.id
		}
	}
	if len(cand) > 1 && try(cand) {
		return cand[0].id
	}
	for _, f := range cand {
		if f.staticOK != nil && f.staticOK(c, pi) {
			return f.id
		}
	}
	return ""
}

// Position-directed generators for C05 (sub-checks cls, pat, loop): the lowerable constructs are placed in
// the positions where esbuild's lowering has to move code (class bodies evaluated several times by one
// function activation, static initialisers that leave the class body, patterns whose keys / defaults /
// targets alias each other, labelled and nested loops around lowered for-await / await). The generators
// only produce text; what a program means is decided by V8 on both sides (see judge).
package c05

import (
	"fmt"
	"strings"

	"pgregory.net/rapid"
)

var boolGen = rapid.Bool()

// gen is the drawing context of one generated program.
type gen struct {
	rt   *rapid.T
	pid  int      // last probe id
	uid  int      // last fresh-name id
	tags []string // evidence class labels describing what was generated
	seen map[string]bool
}

func newGen(rt *rapid.T) *gen { return &gen{rt: rt, seen: map[string]bool{}} }

// n draws an (almost exactly) uniform integer in [0,n): rapid's integer generators favour small values,
// which would starve the later alternatives of every choice (same construction as props/c11).
func (g *gen) n(label string, n int) int {
	if n <= 1 {
		return 0
	}
	bits := 3
	for m := n - 1; m > 0; m >>= 1 {
		bits++
	}
	v := 0
	for i := 0; i < bits; i++ {
		v <<= 1
		if boolGen.Draw(g.rt, label) {
			v |= 1
		}
	}
	return v % n
}

func (g *gen) chance(label string, pct int) bool { return g.n(label, 100) < pct }

func (g *gen) pick(label string, xs ...string) string { return xs[g.n(label, len(xs))] }

func (g *gen) probe(v string) string {
	g.pid++
	return fmt.Sprintf("p(%d, %s)", g.pid, v)
}

func (g *gen) fresh(prefix string) string {
	g.uid++
	return fmt.Sprintf("%s%d", prefix, g.uid)
}

func (g *gen) tag(s string) {
	if !g.seen[s] {
		g.seen[s] = true
		g.tags = append(g.tags, s)
	}
}

// ---------------------------------------------------------------------------------------------------
// cls: one class with drawn members, evaluated in a drawn context (possibly several times), then every
// member is exercised from outside, on the own class/instance and across evaluations.

// The base class and the receiver-naming function. who() must not depend on function names or source
// text (both are outside the property).
const clsPrelude = `var fns = [];
function who(v) { if (v === undefined) return "undef"; if (v === null) return "null"; if (v === globalThis) return "global"; if (typeof B === "function") { if (v === B) return "B"; if (v === B.prototype) return "B.proto"; } var j = fns.indexOf(v); if (j >= 0) return "C" + j; for (j = 0; j < fns.length; j++) { if (v === fns[j].prototype) return "P" + j; if (typeof v === "object" && v instanceof fns[j]) return "I" + j; } return typeof v; }
`

const clsBase = `class B { constructor() { this.fromB = 1; } m() { return ["B.m", who(this), arguments.length]; } static m() { return ["B.sm", who(this), arguments.length]; } get x() { log("get x", who(this)); return this._x === undefined ? 1 : this._x; } set x(v) { log("set x", who(this), v); this._x = v; } static get x() { log("sget x", who(this)); return this._x === undefined ? 2 : this._x; } static set x(v) { log("sset x", who(this), v); this._x = v; } }
B.prototype.d = 3; B.d = 4;
`

type clsTest struct {
	expr   string // uses O (instance), C (class)
	static bool
	method string // name of a prototype / static method that can be re-targeted with .call (cross test)
}

type clsGen struct {
	*gen
	extends  bool
	named    bool
	async    bool // some test returns a promise
	members  []string
	tests    []clsTest
	hasCtor  bool
	privInst []string // declared private instance names usable in expressions (fields)
}

// self is how code inside the class names the class itself in a static / instance context.
func (c *clsGen) self(static bool) string {
	if static {
		if c.named && c.chance("selfname", 60) {
			return "A"
		}
		return "this"
	}
	if c.named && c.chance("selfname", 70) {
		return "A"
	}
	return "this.constructor"
}

// privUses: expressions over a private field/accessor R.#N (R is the receiver text).
func (c *clsGen) privUse(r, n string, accessor bool) string {
	f := r + ".#" + n
	alts := []string{
		f,
		f + "++",
		"++" + f,
		f + " += 2",
		f + " ??= " + c.probe("5"),
		f + " ||= " + c.probe("6"),
		f + " &&= " + c.probe("7"),
		f + " **= 2",
		"([" + f + "] = [" + c.probe("8") + "], " + f + ")",
		"({ a: " + f + " } = { a: " + c.probe("9") + " }, " + f + ")",
		"({ a: " + f + ", ..." + r + ".rst } = { a: 1, b: 2 }, [" + f + ", " + r + ".rst])",
		"#" + n + " in " + r,
		"#" + n + " in " + c.probe("{}"),
		r + "?.#" + n,
		c.probe(r) + "?.#" + n,
		"(() => " + f + ")()",
		f + "?.toFixed?.(1)",
		"typeof " + f,
		"`${" + f + "}`",
		"(" + f + " = " + c.probe("10") + ")",
		"[" + f + "--, " + f + "]",
		"(function () { for (" + f + " of [11, 12]); return " + f + "; }).call(" + r + ")",
		"[" + f + ", " + f + " = 13, " + f + "]",
		"((a = " + f + ") => a)()",
	}
	if strings.HasPrefix(r, "this") {
		// `this` inside the nested plain function above must stay the receiver
		alts[21] = "(() => { for (" + f + " of [11, 12]); return " + f + "; })()"
	}
	_ = accessor
	return alts[c.n("privuse", len(alts))]
}

// privCall: expressions over a private method R.#N.
func (c *clsGen) privCall(r, n string) string {
	f := r + ".#" + n
	alts := []string{
		f + "(1)",
		f + "?.(2)",
		r + "?.#" + n + "(3)",
		f + "`t`",
		f + " === " + f,
		"(0, " + f + ")(4)",
		f + ".call(" + c.probe("{}") + ", 5)",
		"#" + n + " in " + r,
		"(() => " + f + "(6))()",
		"(" + f + " = 1)",
		"typeof " + f,
		f + "(..." + c.probe("[7, 8]") + ")",
		c.probe(r) + ".#" + n + "(9)",
		"[" + f + "][0](10)",
		"(" + f + ")(11)",
		"new (class { q = " + f + "(12) })().q",
	}
	return alts[c.n("privcall", len(alts))]
}

// superUse: expressions that use `super` (valid in methods, field initialisers, static blocks and arrows
// inside them).
func (c *clsGen) superUse() string {
	alts := []string{
		"super.m(1)",
		"super.m?.(2)",
		"super[" + c.probe(`"m"`) + "](3)",
		"super.m`t`",
		"super.x",
		"(super.x = " + c.probe("5") + ")",
		"(super.x += 1)",
		"super.x++",
		"super[" + c.probe(`"x"`) + "]++",
		"(super.x ??= 4)",
		"(super.x ||= 4)",
		"(super.d **= 2)",
		"super.nope?.()",
		"super.nope?.z",
		"([super.x] = [6])",
		"({ a: super.x } = { a: 7 })",
		"(() => super.m(8))()",
		"(() => super.x)()",
		"typeof super.m",
		"super.m.call(" + c.probe("{}") + ", 9)",
		"`${super.d}`",
		"[super.d, who(this)]",
		"(() => [super.m(10), who(this)])()",
		"(() => () => super.m(11))()()",
		"super.m(...[1, 2])",
		"(() => { super.y = 12; return super.m(); })()",
		"({ ...super.m(13) })",
		"super.m(super.d)",
		"[super.m][0] === super.m",
		"(super.m)(14)",
	}
	return alts[c.n("superuse", len(alts))]
}

// ctxExpr: an expression for the given context (static or instance), possibly using private members
// declared so far and super.
func (c *clsGen) ctxExpr(static bool) string {
	var alts []string
	alts = append(alts, "i", c.probe("i"), "who(this)", "[i, who(this)]", "typeof new.target")
	if c.extends {
		for k := 0; k < 4; k++ {
			alts = append(alts, c.superUse())
		}
	}
	if !static {
		for _, n := range c.privInst {
			alts = append(alts, c.privUse("this", n, false))
		}
	}
	e := alts[c.n("ctxexpr", len(alts))]
	if strings.Contains(e, "super") {
		c.tag("expr:super")
	}
	return e
}

// wrapInit turns an expression into a field initialiser / static-block value in one of several forms and
// returns the initialiser plus the suffix that calls it from outside ("" when it is a plain value).
func (c *clsGen) wrapInit(e string) (init, call string) {
	switch c.n("initform", 8) {
	case 0, 1:
		c.tag("init:direct")
		return e, ""
	case 2, 3:
		c.tag("init:arrow")
		return "() => " + e, "()"
	case 4:
		c.tag("init:arrow-arrow")
		return "() => () => " + e, "()()"
	case 5:
		c.tag("init:async-arrow")
		c.async = true
		return "async () => " + e, "()"
	case 6:
		c.tag("init:arrow-block")
		return "() => { var r = " + e + "; return [r, who(this)]; }", "()"
	default:
		c.tag("init:async-arrow-await")
		c.async = true
		return "async () => { await null; return " + e + "; }", "()"
	}
}

func (c *clsGen) methodHead(name string, static bool) (head, pre string) {
	s := ""
	if static {
		s = "static "
	}
	switch c.n("methodkind", 6) {
	case 0:
		c.async = true
		c.tag("method:async")
		return s + "async " + name + "()", "await null; "
	case 1:
		c.async = true
		c.tag("method:async-noawait")
		return s + "async " + name + "()", ""
	default:
		return s + name + "()", ""
	}
}

func (c *clsGen) addTestMethod(static bool, e string) {
	name := c.fresh("t")
	head, pre := c.methodHead(name, static)
	c.members = append(c.members, head+" { "+pre+"return "+e+"; }")
	recv := "O"
	if static {
		recv = "C"
	}
	c.tests = append(c.tests, clsTest{expr: recv + "." + name + "()", static: static, method: name})
}

func (c *clsGen) feature() {
	static := c.chance("static", 50)
	st := ""
	if static {
		st = "static "
	}
	recv := func() string {
		if static {
			return c.self(true)
		}
		return "this"
	}
	kind := c.n("feature", 13)
	switch kind {
	case 0, 1: // private field
		n := c.fresh("x")
		init, _ := "i", ""
		if c.chance("privinit", 40) {
			init = c.ctxExpr(static)
		}
		c.members = append(c.members, st+"#"+n+" = "+init+";")
		if static {
			c.tag("member:static-private-field")
		} else {
			c.tag("member:private-field")
		}
		for k := 0; k <= c.n("nuses", 2); k++ {
			c.addTestMethod(static, c.privUse(recv(), n, false))
		}
		if !static {
			c.privInst = append(c.privInst, n)
		}
	case 2, 3: // private method
		n := c.fresh("m")
		body := "return [i, who(this), arguments.length];"
		if c.chance("privbody", 30) {
			body = "return [" + c.ctxExpr(static) + ", arguments.length];"
		}
		mk := ""
		switch c.n("privmethodkind", 5) {
		case 0:
			mk = "async "
			c.async = true
			c.tag("member:private-async-method")
		case 1:
			mk = "*"
			body = "yield* [i, who(this)];"
			c.tag("member:private-generator-method")
		}
		c.members = append(c.members, st+mk+"#"+n+"() { "+body+" }")
		if static {
			c.tag("member:static-private-method")
		} else {
			c.tag("member:private-method")
		}
		for k := 0; k <= c.n("nuses", 2); k++ {
			e := c.privCall(recv(), n)
			if mk == "*" {
				e = "[..." + recv() + ".#" + n + "()]"
			}
			c.addTestMethod(static, e)
		}
	case 4, 5: // private accessor
		n := c.fresh("g")
		which := c.n("accessorparts", 4)
		if which != 1 {
			c.members = append(c.members, st+"get #"+n+"() { log(\"get\", i, who(this)); return this._"+n+" === undefined ? i : this._"+n+"; }")
		}
		if which != 2 {
			c.members = append(c.members, st+"set #"+n+"(v) { log(\"set\", i, who(this), v); this._"+n+" = v; }")
		}
		if static {
			c.tag("member:static-private-accessor")
		} else {
			c.tag("member:private-accessor")
		}
		if which == 1 {
			c.tag("member:private-setter-only")
		}
		if which == 2 {
			c.tag("member:private-getter-only")
		}
		for k := 0; k <= c.n("nuses", 2); k++ {
			c.addTestMethod(static, c.privUse(recv(), n, true))
		}
	case 6, 7: // public field with an initialiser
		n := c.fresh("f")
		key := n
		if c.chance("computedkey", 25) {
			key = "[" + c.probe(`"`+n+`"`) + "]"
			c.tag("member:computed-key")
		}
		init, call := c.wrapInit(c.ctxExpr(static))
		c.members = append(c.members, st+key+" = "+init+";")
		if static {
			c.tag("member:static-field")
		} else {
			c.tag("member:field")
		}
		recvName := "O"
		if static {
			recvName = "C"
		}
		c.tests = append(c.tests, clsTest{expr: recvName + "." + n + call, static: static})
	case 8: // static block
		n := c.fresh("b")
		init, call := c.wrapInit(c.ctxExpr(true))
		tgt := c.self(true)
		c.members = append(c.members, "static { "+tgt+"."+n+" = "+init+"; }")
		c.tag("member:static-block")
		c.tests = append(c.tests, clsTest{expr: "C." + n + call, static: true})
	case 9, 10: // plain method / accessor / generator using super, this, new.target
		c.addTestMethod(static, c.ctxExpr(static))
		c.tag("member:method")
	case 11: // getter that uses super / privates
		n := c.fresh("q")
		c.members = append(c.members, st+"get "+n+"() { return "+c.ctxExpr(static)+"; }")
		c.tag("member:getter")
		recvName := "O"
		if static {
			recvName = "C"
		}
		c.tests = append(c.tests, clsTest{expr: recvName + "." + n, static: static})
	default: // private field holding a function
		n := c.fresh("h")
		init, call := c.wrapInit(c.ctxExpr(static))
		c.members = append(c.members, st+"#"+n+" = "+init+";")
		if static {
			c.tag("member:static-private-field")
		} else {
			c.tag("member:private-field")
		}
		c.addTestMethod(static, recv()+".#"+n+call)
	}
}

func (c *clsGen) classText(decl bool) string {
	var sb strings.Builder
	sb.WriteString("class ")
	if c.named {
		sb.WriteString("A ")
	}
	if c.extends {
		if c.chance("heritageprobe", 20) {
			sb.WriteString("extends " + c.probe("B") + " ")
			c.tag("heritage:probe")
		} else {
			sb.WriteString("extends B ")
			c.tag("heritage:B")
		}
	} else {
		c.tag("heritage:none")
	}
	sb.WriteString("{\n")
	for _, m := range c.members {
		sb.WriteString("    " + m + "\n")
	}
	sb.WriteString("  }")
	return sb.String()
}

var clsContexts = []string{"top", "block", "for-let", "for-var", "for-of", "for-in", "while", "do-while", "labelled-continue", "nested-loops", "function", "arrow-foreach", "arrow-map-expr", "method", "static-block-in-loop", "generator-loop", "async-loop", "try-finally-in-loop", "switch-in-loop", "if-in-loop", "for-head", "iife-in-loop", "loop-expr"}

func genCls(rt *rapid.T) (string, []string) {
	c := &clsGen{gen: newGen(rt)}
	c.extends = c.chance("extends", 60)
	ctx := clsContexts[c.n("ctx", len(clsContexts))]
	exprOnly := ctx == "arrow-map-expr" || ctx == "for-head" || ctx == "iife-in-loop" || ctx == "loop-expr"
	c.named = !exprOnly || c.chance("named", 50)
	if !c.named {
		c.tag("class:anonymous")
	}
	c.tag("ctx:" + ctx)
	if c.chance("ctor", 25) {
		c.hasCtor = true
		if c.extends {
			c.members = append(c.members, "constructor(a) { log(\"ctor before super\", i); super(); log(\"ctor after super\", i, who(this)); }")
		} else {
			c.members = append(c.members, "constructor(a) { log(\"ctor\", i, who(this)); }")
		}
		c.tag("member:constructor")
	}
	nf := 1 + c.n("nfeatures", 4)
	for k := 0; k < nf; k++ {
		c.feature()
	}
	// members in drawn order (the constructor may end up anywhere)
	if len(c.members) > 1 && c.chance("rotate", 50) {
		r := c.n("rot", len(c.members))
		c.members = append(append([]string{}, c.members[r:]...), c.members[:r]...)
	}
	cls := c.classText(!exprOnly)
	reg := "fns.push(A);"
	var body string
	switch ctx {
	case "top":
		body = "var i = 7;\n  " + cls + "\n  " + reg
	case "block":
		body = "var i = 7;\n{\n  " + cls + "\n  " + reg + "\n}"
	case "for-let":
		body = "for (let i = 0; i < 2; i++) {\n  " + cls + "\n  " + reg + "\n}"
	case "for-var":
		body = "for (var i = 0; i < 2; i++) {\n  " + cls + "\n  " + reg + "\n}"
	case "for-of":
		body = "for (const i of [0, 1]) {\n  " + cls + "\n  " + reg + "\n}"
	case "for-in":
		body = "for (const i in { k0: 1, k1: 2 }) {\n  " + cls + "\n  " + reg + "\n}"
	case "while":
		body = "var w = 0;\nwhile (w < 2) {\n  const i = w++;\n  " + cls + "\n  " + reg + "\n}"
	case "do-while":
		body = "var w = 0;\ndo {\n  const i = w++;\n  " + cls + "\n  " + reg + "\n} while (w < 2);"
	case "labelled-continue":
		body = "outer: for (let i = 0; i < 2; i++) {\n  for (const z of [0, 1]) {\n  " + cls + "\n  " + reg + "\n  continue outer;\n  }\n}"
	case "nested-loops":
		body = "for (let a = 0; a < 2; a++) for (let b = 0; b < 2; b++) {\n  const i = a * 2 + b;\n  " + cls + "\n  " + reg + "\n}"
	case "function":
		body = "function mk(i) {\n  " + cls + "\n  return A;\n}\nfns.push(mk(0), mk(1));"
	case "arrow-foreach":
		body = "[0, 1].forEach(i => {\n  " + cls + "\n  " + reg + "\n});"
	case "arrow-map-expr":
		body = "fns.push(...[0, 1].map(i => " + cls + "));"
	case "method":
		body = "class Outer { mk(i) {\n  " + cls + "\n  return A;\n} }\nvar ou = new Outer(); fns.push(ou.mk(0), ou.mk(1));"
	case "static-block-in-loop":
		body = "for (let i = 0; i < 2; i++) { class Outer { static {\n  " + cls + "\n  " + reg + "\n} } }"
	case "generator-loop":
		body = "function* gen() { for (let i = 0; i < 2; i++) {\n  " + cls + "\n  yield A;\n} }\nfns.push(...gen());"
	case "async-loop":
		c.async = true
		body = "for (let i = 0; i < 2; i++) {\n  await null;\n  " + cls + "\n  " + reg + "\n}"
	case "try-finally-in-loop":
		body = "for (let i = 0; i < 2; i++) { try {\n  " + cls + "\n  " + reg + "\n} finally { log(\"fin\", i); } }"
	case "switch-in-loop":
		body = "for (let i = 0; i < 2; i++) { switch (i) { default:\n  " + cls + "\n  " + reg + "\n} }"
	case "if-in-loop":
		body = "for (let i = 0; i < 2; i++) if (i >= 0) {\n  " + cls + "\n  " + reg + "\n}"
	case "for-head":
		body = "for (let i = 0, K; i < 2 && (K = " + cls + ", fns.push(K)); i++);"
	case "iife-in-loop":
		body = "for (let i = 0; i < 2; i++) { fns.push((() => " + cls + ")()); }"
	case "loop-expr":
		body = "for (let i = 0; i < 2; i++) { fns.push(" + cls + "); }"
	}

	aw := ""
	if c.async {
		aw = "await "
	}
	var drv strings.Builder
	drv.WriteString("var objs = [];\nfor (var j = 0; j < fns.length; j++) { try { objs.push(new fns[j](j)); log(\"new\", j, objs[j]); } catch (e) { objs.push(null); log(\"new threw\", j, e); } }\n")
	drv.WriteString("for (var j = 0; j < fns.length; j++) { var C = fns[j], O = objs[j], C2 = fns[(j + 1) % fns.length], O2 = objs[(j + 1) % fns.length];\n")
	for ti, t := range c.tests {
		if t.static {
			drv.WriteString(fmt.Sprintf("  try { log(\"s%d\", j, %s%s); } catch (e) { log(\"s%d threw\", j, e); }\n", ti, aw, t.expr, ti))
		} else {
			drv.WriteString(fmt.Sprintf("  if (O) try { log(\"i%d\", j, %s%s); } catch (e) { log(\"i%d threw\", j, e); }\n", ti, aw, t.expr, ti))
		}
	}
	// cross-evaluation brand checks: methods of evaluation j applied to the class / instance of evaluation j+1
	for ti, t := range c.tests {
		if t.method == "" {
			continue
		}
		if t.static {
			drv.WriteString(fmt.Sprintf("  if (C2 !== C) try { log(\"xs%d\", j, %sC.%s.call(C2)); } catch (e) { log(\"xs%d threw\", j, e); }\n", ti, aw, t.method, ti))
		} else {
			drv.WriteString(fmt.Sprintf("  if (O && O2 && O2 !== O) try { log(\"xi%d\", j, %sO.%s.call(O2)); } catch (e) { log(\"xi%d threw\", j, e); }\n", ti, aw, t.method, ti))
		}
	}
	drv.WriteString("}\nlog(\"end\", fns.length);\n")

	var sb strings.Builder
	wrap := c.n("wrapper", 4)
	if c.async {
		wrap = 3
	}
	strict := c.chance("strict", 35)
	if strict {
		sb.WriteString("\"use strict\";\n")
		c.tag("mode:strict")
	}
	sb.WriteString(clsPrelude)
	if c.extends {
		sb.WriteString(clsBase)
	}
	switch wrap {
	case 0, 1:
		c.tag("wrap:none")
		sb.WriteString(body + "\n" + drv.String())
	case 2:
		c.tag("wrap:function")
		sb.WriteString("(function () {\n" + body + "\n" + drv.String() + "}).call({ tag: \"T\" });\n")
	default:
		c.tag("wrap:async-main")
		sb.WriteString("(async function main() {\n" + body + "\n" + drv.String() + "})().then(function () { log(\"done\"); }, function (e) { log(\"rejected\", e); });\n")
	}
	return sb.String(), c.tags
}

// Position-directed generators for C05 (sub-checks cls, pat, loop): the lowerable constructs are placed in
// the positions where esbuild's lowering has to move code (class bodies evaluated several times by one
// function activation, static initialisers that leave the class body, patterns whose keys / defaults /
// targets alias each other, labelled and nested loops around lowered for-await / await). The generators
// only produce text; what a program means is decided by V8 on both sides (see judge).
package c05

import (
	"fmt"
	"strings"

	"pgregory.net/rapid"
)

var boolGen = rapid.Bool()

// gen is the drawing context of one generated program.
type gen struct {
	rt   *rapid.T
	pid  int      // last probe id
	uid  int      // last fresh-name id
	tags []string // evidence class labels describing what was generated
	seen map[string]bool
}

func newGen(rt *rapid.T) *gen { return &gen{rt: rt, seen: map[string]bool{}} }

// n draws an (almost exactly) uniform integer in [0,n): rapid's integer generators favour small values,
// which would starve the later alternatives of every choice (same construction as props/c11).
func (g *gen) n(label string, n int) int {
	if n <= 1 {
		return 0
	}
	bits := 3
	for m := n - 1; m > 0; m >>= 1 {
		bits++
	}
	v := 0
	for i := 0; i < bits; i++ {
		v <<= 1
		if boolGen.Draw(g.rt, label) {
			v |= 1
		}
	}
	return v % n
}

func (g *gen) chance(label string, pct int) bool { return g.n(label, 100) < pct }

func (g *gen) pick(label string, xs ...string) string { return xs[g.n(label, len(xs))] }

func (g *gen) probe(v string) string {
	g.pid++
	return fmt.Sprintf("p(%d, %s)", g.pid, v)
}

func (g *gen) fresh(prefix string) string {
	g.uid++
	return fmt.Sprintf("%s%d", prefix, g.uid)
}

func (g *gen) tag(s string) {
	if !g.seen[s] {
		g.seen[s] = true
		g.tags = append(g.tags, s)
	}
}

// ---------------------------------------------------------------------------------------------------
// cls: one class with drawn members, evaluated in a drawn context (possibly several times), then every
// member is exercised from outside, on the own class/instance and across evaluations.

// The base class and the receiver-naming function. who() must not depend on function names or source
// text (both are outside the property).
const clsPrelude = `var fns = [];
function who(v) { if (v === undefined) return "undef"; if (v === null) return "null"; if (v === globalThis) return "global"; if (typeof B === "function") { if (v === B) return "B"; if (v === B.prototype) return "B.proto"; } var j = fns.indexOf(v); if (j >= 0) return "C" + j; for (j = 0; j < fns.length; j++) { if (v === fns[j].prototype) return "P" + j; if (typeof v === "object" && v instanceof fns[j]) return "I" + j; } return typeof v; }
`

const clsBase = `class B { constructor() { this.fromB = 1; } m() { return ["B.m", who(this), arguments.length]; } static m() { return ["B.sm", who(this), arguments.length]; } get x() { log("get x", who(this)); return this._x === undefined ? 1 : this._x; } set x(v) { log("set x", who(this), v); this._x = v; } static get x() { log("sget x", who(this)); return this._x === undefined ? 2 : this._x; } static set x(v) { log("sset x", who(this), v); this._x = v; } }
B.prototype.d = 3; B.d = 4;
`

type clsTest struct {
	expr   string // uses O (instance), C (class)
	static bool
	method string // name of a prototype / static method that can be re-targeted with .call (cross test)
}

type clsGen struct {
	*gen
	extends  bool
	named    bool
	async    bool // some test returns a promise
	members  []string
	tests    []clsTest
	hasCtor  bool
	privInst []string // declared private instance names usable in expressions (fields)
}

// self is how code inside the class names the class itself in a static / instance context.
func (c *clsGen) self(static bool) string {
	if static {
		if c.named && c.chance("selfname", 60) {
			return "A"
		}
		return "this"
	}
	if c.named && c.chance("selfname", 70) {
		return "A"
	}
	return "this.constructor"
}

// privUse: an expression over a private field / accessor R.#N (R is the receiver text). mode "rw": any
// use; "r": the member can only be read (getter without setter); "w": it can only be written. V8 rejects
// a read-modify-write of a half accessor before it calls the existing half, the specification (and the
// lowered code) after; half accessors are therefore only used in the direction they support.
func (c *clsGen) privUse(r, n string, mode string) string {
	f := r + ".#" + n
	reads := []string{
		f,
		"#" + n + " in " + r,
		"#" + n + " in " + c.probe("{}"),
		r + "?.#" + n,
		c.probe(r) + "?.#" + n,
		"(() => " + f + ")()",
		f + "?.toFixed?.(1)",
		"typeof " + f,
		"`${" + f + "}`",
		"((a = " + f + ") => a)()",
	}
	loopTarget := "(function () { for (" + f + " of [11, 12]); return 1; }).call(" + r + ")"
	if strings.HasPrefix(r, "this") {
		// `this` inside a nested plain function would not be the receiver
		loopTarget = "(() => { for (" + f + " of [11, 12]); return 1; })()"
	}
	writes := []string{
		"(" + f + " = " + c.probe("10") + ")",
		"([" + f + "] = [" + c.probe("8") + "], 1)",
		"({ a: " + f + " } = { a: " + c.probe("9") + " }, 1)",
		"({ a: " + f + ", ..." + r + ".rst } = { a: 1, b: 2 }, " + r + ".rst)",
		loopTarget,
		"#" + n + " in " + r,
	}
	both := []string{
		f + "++",
		"++" + f,
		f + " += 2",
		f + " ??= " + c.probe("5"),
		f + " ||= " + c.probe("6"),
		f + " &&= " + c.probe("7"),
		f + " **= 2",
		"[" + f + "--, " + f + "]",
		"[" + f + ", " + f + " = 13, " + f + "]",
		"([" + f + "] = [" + c.probe("8") + "], " + f + ")",
		"({ a: " + f + " } = { a: " + c.probe("9") + " }, " + f + ")",
	}
	var alts []string
	switch mode {
	case "r":
		alts = reads
	case "w":
		alts = writes
	default:
		alts = append(append(append(alts, reads...), writes...), both...)
	}
	return alts[c.n("privuse", len(alts))]
}

// privCall: expressions over a private method R.#N.
func (c *clsGen) privCall(r, n string, plainBody bool) string {
	f := r + ".#" + n
	if !plainBody && c.n("privcallsimple", 4) > 0 {
		// a body that uses super / other members is only called with a proper receiver (`super.y = v`
		// with an undefined receiver throws natively, the lowered __superSet does not: too exotic to list)
		return c.pick("privcallrecv", f+"(1)", f+"?.(2)", r+"?.#"+n+"(3)", "(() => "+f+"(6))()", f+"(..."+c.probe("[7, 8]")+")")
	}
	if !plainBody {
		return f + "(1)"
	}
	alts := []string{
		f + "(1)",
		f + "?.(2)",
		r + "?.#" + n + "(3)",
		f + "`t`",
		f + " === " + f,
		"(0, " + f + ")(4)",
		f + ".call(" + c.probe("{}") + ", 5)",
		"#" + n + " in " + r,
		"(() => " + f + "(6))()",
		"(" + f + " = 1)",
		"typeof " + f,
		f + "(..." + c.probe("[7, 8]") + ")",
		c.probe(r) + ".#" + n + "(9)",
		"[" + f + "][0](10)",
		"(" + f + ")(11)",
		"new (class { q = " + f + "(12) })().q",
	}
	return alts[c.n("privcall", len(alts))]
}

// superUse: expressions that use `super` (valid in methods, field initialisers, static blocks and arrows
// inside them).
func (c *clsGen) superUse() string {
	alts := []string{
		"super.m(1)",
		"super.m?.(2)",
		"super[" + c.probe(`"m"`) + "](3)",
		"super.m`t`",
		"super.x",
		"(super.x = " + c.probe("5") + ")",
		"(super.x += 1)",
		"super.x++",
		"super[" + c.probe(`"x"`) + "]++",
		"(super.x ??= 4)",
		"(super.x ||= 4)",
		"(super.d **= 2)",
		"super.nope?.()",
		"super.nope?.z",
		"([super.x] = [6])",
		"({ a: super.x } = { a: 7 })",
		"(() => super.m(8))()",
		"(() => super.x)()",
		"typeof super.m",
		"super.m.call(" + c.probe("{}") + ", 9)",
		"`${super.d}`",
		"[super.d, who(this)]",
		"(() => [super.m(10), who(this)])()",
		"(() => () => super.m(11))()()",
		"super.m(...[1, 2])",
		"(() => { super.y = 12; return super.m(); })()",
		"({ ...super.m(13) })",
		"super.m(super.d)",
		"[super.m][0] === super.m",
		"(super.m)(14)",
	}
	return alts[c.n("superuse", len(alts))]
}

// ctxExpr: an expression for the given context (static or instance), possibly using private members
// declared so far and super.
func (c *clsGen) ctxExpr(static bool) string {
	var alts []string
	alts = append(alts, "i", c.probe("i"), "who(this)", "[i, who(this)]", "typeof new.target")
	if c.extends {
		for k := 0; k < 4; k++ {
			alts = append(alts, c.superUse())
		}
	}
	if !static {
		for _, n := range c.privInst {
			alts = append(alts, c.privUse("this", n, "rw"))
		}
	}
	e := alts[c.n("ctxexpr", len(alts))]
	if strings.Contains(e, "super") {
		c.tag("expr:super")
	}
	return e
}

// wrapInit turns an expression into a field initialiser / static-block value in one of several forms and
// returns the initialiser plus the suffix that calls it from outside ("" when it is a plain value).
func (c *clsGen) wrapInit(e string) (init, call string) {
	switch c.n("initform", 8) {
	case 0, 1:
		c.tag("init:direct")
		return e, ""
	case 2, 3:
		c.tag("init:arrow")
		return "() => " + e, "()"
	case 4:
		c.tag("init:arrow-arrow")
		return "() => () => " + e, "()()"
	case 5:
		c.tag("init:async-arrow")
		c.async = true
		return "async () => " + e, "()"
	case 6:
		c.tag("init:arrow-block")
		return "() => { var r = " + e + "; return [r, who(this)]; }", "()"
	default:
		c.tag("init:async-arrow-await")
		c.async = true
		return "async () => { await null; return " + e + "; }", "()"
	}
}

func (c *clsGen) methodHead(name string, static bool) (head, pre string) {
	s := ""
	if static {
		s = "static "
	}
	switch c.n("methodkind", 6) {
	case 0:
		c.async = true
		c.tag("method:async")
		return s + "async " + name + "()", "await null; "
	case 1:
		c.async = true
		c.tag("method:async-noawait")
		return s + "async " + name + "()", ""
	default:
		return s + name + "()", ""
	}
}

func (c *clsGen) addTestMethod(static bool, e string) {
	name := c.fresh("t")
	head, pre := c.methodHead(name, static)
	c.members = append(c.members, head+" { "+pre+"return "+e+"; }")
	recv := "O"
	if static {
		recv = "C"
	}
	c.tests = append(c.tests, clsTest{expr: recv + "." + name + "()", static: static, method: name})
}

func (c *clsGen) feature() {
	static := c.chance("static", 50)
	st := ""
	if static {
		st = "static "
	}
	recv := func() string {
		if static {
			return c.self(true)
		}
		return "this"
	}
	kind := c.n("feature", 13)
	switch kind {
	case 0, 1: // private field
		n := c.fresh("x")
		init := "i"
		if c.chance("privinit", 40) {
			init = c.ctxExpr(static)
		}
		c.members = append(c.members, st+"#"+n+" = "+init+";")
		if static {
			c.tag("member:static-private-field")
		} else {
			c.tag("member:private-field")
		}
		for k := 0; k <= c.n("nuses", 2); k++ {
			c.addTestMethod(static, c.privUse(recv(), n, "rw"))
		}
		if !static {
			c.privInst = append(c.privInst, n)
		}
	case 2, 3: // private method
		n := c.fresh("m")
		body := "return [i, who(this), arguments.length];"
		plainBody := true
		if c.chance("privbody", 30) {
			body = "return [" + c.ctxExpr(static) + ", arguments.length];"
			plainBody = false
		}
		mk := ""
		switch c.n("privmethodkind", 5) {
		case 0:
			mk = "async "
			c.async = true
			c.tag("member:private-async-method")
		case 1:
			mk = "*"
			body = "yield* [i, who(this)];"
			c.tag("member:private-generator-method")
		}
		c.members = append(c.members, st+mk+"#"+n+"() { "+body+" }")
		if static {
			c.tag("member:static-private-method")
		} else {
			c.tag("member:private-method")
		}
		for k := 0; k <= c.n("nuses", 2); k++ {
			e := c.privCall(recv(), n, plainBody)
			if mk == "*" {
				e = "[..." + recv() + ".#" + n + "()]"
			}
			c.addTestMethod(static, e)
		}
	case 4, 5: // private accessor
		n := c.fresh("g")
		which := c.n("accessorparts", 4)
		if which != 1 {
			c.members = append(c.members, st+"get #"+n+"() { log(\"get\", i, who(this)); return this._"+n+" === undefined ? i : this._"+n+"; }")
		}
		if which != 2 {
			c.members = append(c.members, st+"set #"+n+"(v) { log(\"set\", i, who(this), v); this._"+n+" = v; }")
		}
		if static {
			c.tag("member:static-private-accessor")
		} else {
			c.tag("member:private-accessor")
		}
		if which == 1 {
			c.tag("member:private-setter-only")
		}
		if which == 2 {
			c.tag("member:private-getter-only")
		}
		mode := "rw"
		if which == 1 {
			mode = "w"
		}
		if which == 2 {
			mode = "r"
		}
		for k := 0; k <= c.n("nuses", 2); k++ {
			c.addTestMethod(static, c.privUse(recv(), n, mode))
		}
	case 6, 7: // public field with an initialiser
		n := c.fresh("f")
		key := n
		if c.chance("computedkey", 25) {
			key = "[" + c.probe(`"`+n+`"`) + "]"
			c.tag("member:computed-key")
		}
		init, call := c.wrapInit(c.ctxExpr(static))
		c.members = append(c.members, st+key+" = "+init+";")
		if static {
			c.tag("member:static-field")
		} else {
			c.tag("member:field")
		}
		recvName := "O"
		if static {
			recvName = "C"
		}
		c.tests = append(c.tests, clsTest{expr: recvName + "." + n + call, static: static})
	case 8: // static block
		n := c.fresh("b")
		init, call := c.wrapInit(c.ctxExpr(true))
		tgt := c.self(true)
		c.members = append(c.members, "static { "+tgt+"."+n+" = "+init+"; }")
		c.tag("member:static-block")
		c.tests = append(c.tests, clsTest{expr: "C." + n + call, static: true})
	case 9, 10: // plain method / accessor / generator using super, this, new.target
		c.addTestMethod(static, c.ctxExpr(static))
		c.tag("member:method")
	case 11: // getter that uses super / privates
		n := c.fresh("q")
		c.members = append(c.members, st+"get "+n+"() { return "+c.ctxExpr(static)+"; }")
		c.tag("member:getter")
		recvName := "O"
		if static {
			recvName = "C"
		}
		c.tests = append(c.tests, clsTest{expr: recvName + "." + n, static: static})
	default: // private field holding a function
		n := c.fresh("h")
		init, call := c.wrapInit(c.ctxExpr(static))
		c.members = append(c.members, st+"#"+n+" = "+init+";")
		if static {
			c.tag("member:static-private-field")
		} else {
			c.tag("member:private-field")
		}
		c.addTestMethod(static, recv()+".#"+n+call)
	}
}

func (c *clsGen) classText(decl bool) string {
	var sb strings.Builder
	sb.WriteString("class ")
	if c.named {
		sb.WriteString("A ")
	}
	if c.extends {
		if c.chance("heritageprobe", 20) {
			sb.WriteString("extends " + c.probe("B") + " ")
			c.tag("heritage:probe")
		} else {
			sb.WriteString("extends B ")
			c.tag("heritage:B")
		}
	} else {
		c.tag("heritage:none")
	}
	sb.WriteString("{\n")
	for _, m := range c.members {
		sb.WriteString("    " + m + "\n")
	}
	sb.WriteString("  }")
	return sb.String()
}

// contexts in which the class is evaluated once per function activation, and contexts in which one
// activation evaluates it several times (the second group is where esbuild's function-scoped
// temporaries are shared: known finding C05-class-temporaries-shared-across-loop-iterations)
var clsContextsOnce = []string{"top", "block", "function", "arrow-foreach", "arrow-map-expr", "method", "iife-in-loop", "field-of-outer", "switch-once", "try-once", "label-block"}
var clsContextsLoop = []string{"for-let", "for-var", "for-of", "for-in", "while", "do-while", "labelled-continue", "nested-loops", "static-block-in-loop", "generator-loop", "async-loop", "try-finally-in-loop", "switch-in-loop", "if-in-loop", "for-head", "loop-expr"}

func genCls(rt *rapid.T) (string, []string) {
	c := &clsGen{gen: newGen(rt)}
	c.extends = c.chance("extends", 60)
	ctx := clsContextsOnce[c.n("ctxonce", len(clsContextsOnce))]
	if c.chance("inloop", 30) {
		ctx = clsContextsLoop[c.n("ctxloop", len(clsContextsLoop))]
	}
	exprOnly := ctx == "arrow-map-expr" || ctx == "for-head" || ctx == "iife-in-loop" || ctx == "loop-expr" || ctx == "field-of-outer"
	c.named = !exprOnly || c.chance("named", 50)
	if !c.named {
		c.tag("class:anonymous")
	}
	c.tag("ctx:" + ctx)
	if c.chance("ctor", 25) {
		c.hasCtor = true
		if c.extends {
			c.members = append(c.members, "constructor(a) { log(\"ctor before super\", i); super(); log(\"ctor after super\", i, who(this)); }")
		} else {
			c.members = append(c.members, "constructor(a) { log(\"ctor\", i, who(this)); }")
		}
		c.tag("member:constructor")
	}
	nf := 1 + c.n("nfeatures", 4)
	for k := 0; k < nf; k++ {
		c.feature()
	}
	// members in drawn order (the constructor may end up anywhere)
	if len(c.members) > 1 && c.chance("rotate", 50) {
		r := c.n("rot", len(c.members))
		c.members = append(append([]string{}, c.members[r:]...), c.members[:r]...)
	}
	cls := c.classText(!exprOnly)
	reg := "fns.push(A);"
	var body string
	switch ctx {
	case "top":
		body = "var i = 7;\n  " + cls + "\n  " + reg
	case "block":
		body = "var i = 7;\n{\n  " + cls + "\n  " + reg + "\n}"
	case "for-let":
		body = "for (let i = 0; i < 2; i++) {\n  " + cls + "\n  " + reg + "\n}"
	case "for-var":
		body = "for (var i = 0; i < 2; i++) {\n  " + cls + "\n  " + reg + "\n}"
	case "for-of":
		body = "for (const i of [0, 1]) {\n  " + cls + "\n  " + reg + "\n}"
	case "for-in":
		body = "for (const i in { k0: 1, k1: 2 }) {\n  " + cls + "\n  " + reg + "\n}"
	case "while":
		body = "var w = 0;\nwhile (w < 2) {\n  const i = w++;\n  " + cls + "\n  " + reg + "\n}"
	case "do-while":
		body = "var w = 0;\ndo {\n  const i = w++;\n  " + cls + "\n  " + reg + "\n} while (w < 2);"
	case "labelled-continue":
		body = "outer: for (let i = 0; i < 2; i++) {\n  for (const z of [0, 1]) {\n  " + cls + "\n  " + reg + "\n  continue outer;\n  }\n}"
	case "nested-loops":
		body = "for (let a = 0; a < 2; a++) for (let b = 0; b < 2; b++) {\n  const i = a * 2 + b;\n  " + cls + "\n  " + reg + "\n}"
	case "function":
		body = "function mk(i) {\n  " + cls + "\n  return A;\n}\nfns.push(mk(0), mk(1));"
	case "arrow-foreach":
		body = "[0, 1].forEach(i => {\n  " + cls + "\n  " + reg + "\n});"
	case "arrow-map-expr":
		body = "fns.push(...[0, 1].map(i => " + cls + "));"
	case "method":
		body = "class Outer { mk(i) {\n  " + cls + "\n  return A;\n} }\nvar ou = new Outer(); fns.push(ou.mk(0), ou.mk(1));"
	case "static-block-in-loop":
		body = "for (let i = 0; i < 2; i++) { class Outer { static {\n  " + cls + "\n  " + reg + "\n} } }"
	case "generator-loop":
		body = "function* gen() { for (let i = 0; i < 2; i++) {\n  " + cls + "\n  yield A;\n} }\nfns.push(...gen());"
	case "async-loop":
		c.async = true
		body = "for (let i = 0; i < 2; i++) {\n  await null;\n  " + cls + "\n  " + reg + "\n}"
	case "try-finally-in-loop":
		body = "for (let i = 0; i < 2; i++) { try {\n  " + cls + "\n  " + reg + "\n} finally { log(\"fin\", i); } }"
	case "switch-in-loop":
		body = "for (let i = 0; i < 2; i++) { switch (i) { default:\n  " + cls + "\n  " + reg + "\n} }"
	case "if-in-loop":
		body = "for (let i = 0; i < 2; i++) if (i >= 0) {\n  " + cls + "\n  " + reg + "\n}"
	case "for-head":
		body = "for (let i = 0, K; i < 2 && (K = " + cls + ", fns.push(K)); i++);"
	case "iife-in-loop":
		body = "for (let i = 0; i < 2; i++) { fns.push((() => " + cls + ")()); }"
	case "field-of-outer":
		body = "class Outer { constructor(i) { this.i = i; } k = ((i) => " + cls + ")(this.i); }\nfns.push(new Outer(0).k, new Outer(1).k);"
	case "switch-once":
		body = "var i = 7;\nswitch (i) { case 7:\n  " + cls + "\n  " + reg + "\n}"
	case "try-once":
		body = "var i = 7;\ntry {\n  " + cls + "\n  " + reg + "\n} finally { log(\"fin\"); }"
	case "label-block":
		body = "var i = 7;\nlbl: {\n  " + cls + "\n  " + reg + "\n  if (i) break lbl;\n  log(\"unreachable\");\n}"
	case "loop-expr":
		body = "for (let i = 0; i < 2; i++) { fns.push(" + cls + "); }"
	}

	aw := ""
	if c.async {
		aw = "await "
	}
	var drv strings.Builder
	drv.WriteString("var objs = [];\nfor (var j = 0; j < fns.length; j++) { try { objs.push(new fns[j](j)); log(\"new\", j, objs[j]); } catch (e) { objs.push(null); log(\"new threw\", j, e); } }\n")
	drv.WriteString("for (var j = 0; j < fns.length; j++) { var C = fns[j], O = objs[j], C2 = fns[(j + 1) % fns.length], O2 = objs[(j + 1) % fns.length];\n")
	for ti, t := range c.tests {
		if t.static {
			drv.WriteString(fmt.Sprintf("  try { log(\"s%d\", j, %s%s); } catch (e) { log(\"s%d threw\", j, e); }\n", ti, aw, t.expr, ti))
		} else {
			drv.WriteString(fmt.Sprintf("  if (O) try { log(\"i%d\", j, %s%s); } catch (e) { log(\"i%d threw\", j, e); }\n", ti, aw, t.expr, ti))
		}
	}
	// cross-evaluation brand checks: methods of evaluation j applied to the class / instance of evaluation j+1
	for ti, t := range c.tests {
		if t.method == "" {
			continue
		}
		if t.static {
			drv.WriteString(fmt.Sprintf("  if (C2 !== C) try { log(\"xs%d\", j, %sC.%s.call(C2)); } catch (e) { log(\"xs%d threw\", j, e); }\n", ti, aw, t.method, ti))
		} else {
			drv.WriteString(fmt.Sprintf("  if (O && O2 && O2 !== O) try { log(\"xi%d\", j, %sO.%s.call(O2)); } catch (e) { log(\"xi%d threw\", j, e); }\n", ti, aw, t.method, ti))
		}
	}
	drv.WriteString("}\nlog(\"end\", fns.length);\n")

	var sb strings.Builder
	wrap := c.n("wrapper", 4)
	if c.async {
		wrap = 3
	}
	strict := c.chance("strict", 35)
	if strict {
		sb.WriteString("\"use strict\";\n")
		c.tag("mode:strict")
	}
	sb.WriteString(clsPrelude)
	if c.extends {
		sb.WriteString(clsBase)
	}
	switch wrap {
	case 0, 1:
		c.tag("wrap:none")
		sb.WriteString(body + "\n" + drv.String())
	case 2:
		c.tag("wrap:function")
		sb.WriteString("(function () {\n" + body + "\n" + drv.String() + "}).call({ tag: \"T\" });\n")
	default:
		c.tag("wrap:async-main")
		sb.WriteString("(async function main() {\n" + body + "\n" + drv.String() + "})().then(function () { log(\"done\"); }, function (e) { log(\"rejected\", e); });\n")
	}
	return sb.String(), c.tags
}

// ---------------------------------------------------------------------------------------------------
// pat: destructuring patterns (object rest above all) whose computed keys, default values and targets
// alias each other, in every binding / assignment position.

type patGen struct {
	*gen
	decl bool // declaration (fresh names) or assignment (existing targets)
	// aliasDecl: a declaration may re-declare the key variables k / k2. Not in parameter and catch positions:
	// there the key `[k]` would read the binding being declared, a TDZ ReferenceError that esbuild (which
	// moves a lowered parameter pattern into `var` declarations of the body) does not promise to keep.
	aliasDecl bool
	names     []string        // names bound / assigned by the pattern, for logging
	bound     map[string]bool // declaration form: names already bound (a duplicate is an early error)
	usesO     bool
	hasRst    bool
	// headTDZ: the sources stand in the head of a for-of / for-await loop that declares the pattern with
	// let / const. The head expression is evaluated in a scope in which the loop's bindings exist but are
	// never initialised, so a closure created there that mentions a name bound by the pattern can only ever
	// throw a ReferenceError (temporal dead zone). esbuild documents that it does not model TDZ errors
	// (lowering moves the declaration into the loop body, which takes the head expression out of the
	// binding's scope); such programs are outside the domain of this check (DESIGN.md 1: TDZ-dependent
	// behaviour is never generated), so the sources do not mention a key variable that the pattern binds.
	headTDZ bool
}

// The source objects are built without computed keys in the literal: V8 calls an accessor that follows a
// computed key of its literal once more while copying the rest of the object, although the key is
// excluded (checked on Node 18/20/22) — a V8 quirk, not something esbuild has to reproduce.
const patPrelude = `var k = "a", k2 = "b", cnt = 0, o = {}, sym = Symbol.for("s"), fns = [];
var a, b, c, d, t1, t2, t3, r1, r2;
function src(n) { log("src", n); var s = { a: 1, b: 2, c: { d: 3, e: 4 }, d: [6, 7], get e() { log("get e"); return 9; } }; s[sym] = 8; s.c[sym] = 5; return s; }
`

func (g *patGen) keyName() string { return g.pick("key", "a", "b", "c", "d", "e") }

// computed key expressions: constants, probes, variables that the same pattern may assign, assignments
func (g *patGen) keyExpr() string {
	switch g.n("keyexpr", 12) {
	case 0:
		g.tag("key:ident")
		return "k"
	case 1:
		g.tag("key:ident")
		return "k2"
	case 2:
		g.tag("key:probe")
		return g.probe(`"` + g.keyName() + `"`)
	case 3:
		if !g.decl {
			// Not in assignment patterns: esbuild prints the computed key `["a"]` as `a` (same meaning), and V8
			// deviates from the specification for exactly that spelling: when such a pattern is applied to
			// null / undefined, V8 evaluates the operands of a member target under a plain key
			// (`({ a: o[f()] } = undefined)` calls f, then throws) but not under a computed key
			// (`({ ["a"]: o[f()] } = undefined)` throws at once, as the specification demands for both;
			// checked on Node 18 / 20 / 22). An engine quirk, not something esbuild has to reproduce.
			g.tag("key:probe")
			return g.probe(`"` + g.keyName() + `"`)
		}
		g.tag("key:string")
		return `"` + g.keyName() + `"`
	case 4:
		g.tag("key:assign")
		return `k = "` + g.keyName() + `"`
	case 5:
		g.tag("key:update")
		return `cnt++ ? "a" : "b"`
	case 6:
		g.tag("key:template")
		return "`${k}`"
	case 7:
		g.tag("key:symbol")
		return "sym"
	case 8:
		g.tag("key:member")
		g.usesO = true
		return "o.key"
	case 9:
		g.tag("key:paren-ident")
		return "(k)"
	case 10:
		g.tag("key:concat")
		return `k + ""`
	default:
		g.tag("key:seq")
		return `(log("key"), k2)`
	}
}

// defaultExpr: a default value; it may read the names bound before this element (never the element's
// own or a later binding: that is a TDZ error whose loss in lowered parameter patterns is not a defect
// this check claims).
func (g *patGen) defaultExpr(avail int) string {
	switch g.n("default", 7) {
	case 0:
		return g.probe(`"dflt"`)
	case 1:
		g.tag("default:reads-key-var")
		return "k"
	case 2:
		g.tag("default:assigns-key-var")
		return `(k = "c", ` + g.probe("5") + `)`
	case 3:
		g.tag("default:assigns-key-var")
		return `(k2 = "a")`
	case 4:
		if avail > 0 && avail <= len(g.names) {
			g.tag("default:reads-earlier-binding")
			return g.names[g.n("earlier", avail)]
		}
		return "0"
	case 5:
		return "cnt++"
	default:
		return g.probe("undefined")
	}
}

// target of one property / element
func (g *patGen) target(depth int) string {
	if depth > 0 && g.chance("nested", 25) {
		if g.chance("nestedarr", 30) {
			return g.arrPat(depth - 1)
		}
		return g.objPat(depth-1, g.chance("nestedrest", 60))
	}
	if g.decl {
		n := g.fresh("v")
		if g.aliasDecl && g.chance("declkeyvar", 12) {
			if alias := g.pick("declalias", "k", "k2"); !g.bound[alias] {
				n = alias
				g.tag("target:key-var")
			}
		}
		g.bound[n] = true
		g.names = append(g.names, n)
		return n
	}
	switch g.n("target", 8) {
	case 0, 1:
		n := g.pick("tvar", "t1", "t2", "t3")
		g.names = append(g.names, n)
		return n
	case 2:
		g.tag("target:key-var")
		return g.pick("talias", "k", "k2")
	case 3:
		g.usesO = true
		g.tag("target:member")
		return "o." + g.pick("omember", "x", "y", "key")
	case 4:
		g.usesO = true
		g.tag("target:computed-member")
		return "o[" + g.probe(`"z"`) + "]"
	case 5:
		g.usesO = true
		g.tag("target:member-of-key-var")
		return "o[k]"
	case 6:
		g.tag("target:counter")
		return "cnt"
	default:
		g.usesO = true
		g.tag("target:probe-member")
		return g.probe("o") + ".w"
	}
}

func (g *patGen) restTarget() string {
	if g.decl {
		n := g.fresh("r")
		g.names = append(g.names, n)
		return n
	}
	switch g.n("resttarget", 6) {
	case 0, 1, 2:
		n := g.pick("rvar", "r1", "r2")
		g.names = append(g.names, n)
		return n
	case 3:
		g.tag("rest:key-var")
		return "k"
	case 4:
		g.usesO = true
		g.tag("rest:member")
		return "o.rest"
	default:
		g.usesO = true
		g.tag("rest:computed-member")
		return "o[" + g.probe(`"rst"`) + "]"
	}
}

func (g *patGen) objPat(depth int, rest bool) string {
	var parts []string
	n := g.n("nprops", 4)
	for i := 0; i < n; i++ {
		switch g.n("propform", 7) {
		case 0:
			// shorthand (assignment form assigns the pre-declared variable of that name)
			key := g.pick("shorthand", "a", "b", "c", "d")
			if g.decl && g.bound[key] {
				parts = append(parts, key+": "+g.target(0))
				continue
			}
			g.bound[key] = true
			g.names = append(g.names, key)
			if g.chance("shorthanddefault", 30) {
				parts = append(parts, key+" = "+g.defaultExpr(len(g.names)-1))
			} else {
				parts = append(parts, key)
			}
		case 1, 2:
			avail := len(g.names)
			s := g.keyName() + ": " + g.target(depth)
			if g.chance("propdefault", 30) {
				s += " = " + g.defaultExpr(avail)
			}
			parts = append(parts, s)
		default:
			g.tag("pattern:computed-key")
			avail := len(g.names)
			s := "[" + g.keyExpr() + "]: " + g.target(depth)
			if g.chance("propdefault", 30) {
				s += " = " + g.defaultExpr(avail)
			}
			parts = append(parts, s)
		}
	}
	if rest {
		g.hasRst = true
		parts = append(parts, "..."+g.restTarget())
	}
	return "{ " + strings.Join(parts, ", ") + " }"
}

func (g *patGen) arrPat(depth int) string {
	var parts []string
	n := 1 + g.n("nelems", 3)
	for i := 0; i < n; i++ {
		if g.chance("hole", 10) {
			parts = append(parts, "")
			continue
		}
		avail := len(g.names)
		s := g.target(depth)
		if g.chance("elemdefault", 25) {
			s += " = " + g.defaultExpr(avail)
		}
		parts = append(parts, s)
	}
	if g.chance("arrrest", 30) {
		parts = append(parts, "..."+g.target(depth))
	}
	return "[" + strings.Join(parts, ", ") + "]"
}

func (g *patGen) source() string {
	switch g.n("source", 10) {
	case 0:
		if g.headTDZ && g.bound["k"] {
			// see headTDZ: `k` inside the loop head would be the loop's own uninitialised binding
			if !g.bound["k2"] {
				g.tag("source:getter-mutates-key-var")
				return `{ get a() { log("get a"); k2 = "a"; return 1; }, b: 2, c: 3 }`
			}
			g.tag("source:getter-mutates-counter")
			return `{ get a() { log("get a"); cnt++; return 1; }, b: 2, c: 3 }`
		}
		g.tag("source:getter-mutates-key-var")
		return `{ get a() { log("get a"); k = "b"; return 1; }, b: 2, c: 3 }`
	case 1:
		g.tag("source:getters")
		return `{ get a() { log("get a"); return 1; }, get b() { log("get b"); return 2; }, c: { d: 1 }, d: [1] }`
	case 2:
		g.tag("source:inherited")
		return `Object.create({ a: "inherited", b: "inh" }, { c: { value: 1, enumerable: true }, hidden: { value: 2, enumerable: false } })`
	case 3:
		g.tag("source:primitive")
		return g.pick("prim", `"ab"`, "5", "true", "[1, 2, 3]")
	case 4:
		if g.chance("nullish", 30) {
			g.tag("source:nullish")
			return g.pick("nullish", "null", "undefined")
		}
		return "src(" + fmt.Sprint(g.n("srcid", 9)) + ")"
	default:
		return "src(" + fmt.Sprint(g.n("srcid", 9)) + ")"
	}
}

var patPositions = []string{"var", "let", "const", "assign-stmt", "assign-expr", "for-of-decl", "for-of-assign", "for-in-decl", "param", "param-default", "arrow-param", "async-param", "generator-param", "method-param", "catch", "for-await-decl", "for-await-assign", "in-array-decl", "in-array-assign", "for-init", "async-arrow-param", "nested-default"}

func genPat(rt *rapid.T) (string, []string) {
	g := &patGen{gen: newGen(rt), bound: map[string]bool{}}
	pos := patPositions[g.n("position", len(patPositions))]
	g.tag("pos:" + pos)
	switch pos {
	case "assign-stmt", "assign-expr", "for-of-assign", "for-await-assign", "in-array-assign":
		g.decl = false
	default:
		g.decl = true
	}
	switch pos {
	case "var", "let", "const", "for-of-decl", "for-in-decl", "for-await-decl", "in-array-decl", "for-init", "nested-default":
		g.aliasDecl = true
	}
	rest := g.chance("rest", 85)
	pat := g.objPat(1+g.n("depth", 2), rest)
	if g.hasRst {
		g.tag("pattern:object-rest")
	}
	forkw := ""
	if pos == "for-of-decl" || pos == "for-await-decl" {
		forkw = g.pick("forkw", "var", "let", "const")
		g.headTDZ = forkw != "var"
	}
	src := g.source()
	// what to log afterwards: every bound name plus the aliased variables
	seen := map[string]bool{}
	var logs []string
	for _, n := range g.names {
		if !seen[n] {
			seen[n] = true
			logs = append(logs, n)
		}
	}
	local := strings.Join(logs, ", ")
	if local == "" {
		local = `"none"`
	}
	tail := "log(\"after\", k, k2, cnt, o);"
	logLocal := "log(\"bound\", " + local + ");"
	async := false
	var body string
	switch pos {
	case "var", "let", "const":
		body = pos + " " + pat + " = " + src + ";\n" + logLocal
	case "assign-stmt":
		body = "(" + pat + " = " + src + ");\n" + logLocal
	case "assign-expr":
		body = "var s0 = " + src + ";\nlog(\"same\", (" + pat + " = s0) === s0);\n" + logLocal
	case "for-of-decl":
		body = "for (" + forkw + " " + pat + " of [" + src + ", " + g.source() + "]) { " + logLocal + " fns.push(() => [" + local + "]); }\nfor (var f of fns) log(\"closure\", f());"
	case "for-of-assign":
		body = "for (" + pat + " of [" + src + ", " + g.source() + "]) { " + logLocal + " }"
	case "for-in-decl":
		body = "for (var " + pat + " in { abc: 1, de: 2 }) { " + logLocal + " }"
	case "param":
		body = "function f(x, " + pat + ", ...more) { " + logLocal + " log(arguments.length, more); }\nf(1, " + src + ", 2);"
	case "param-default":
		body = "function f(" + pat + " = " + src + ") { " + logLocal + " }\nf(); f(" + g.source() + ");"
	case "arrow-param":
		body = "var f = (" + pat + ") => { " + logLocal + " };\nf(" + src + ");"
	case "async-param":
		async = true
		body = "async function f(" + pat + ") { await null; " + logLocal + " }\nawait f(" + src + ");"
	case "async-arrow-param":
		async = true
		body = "var f = async (" + pat + " = " + src + ") => { " + logLocal + " await null; return 1; };\nawait f();"
	case "generator-param":
		body = "function* f(" + pat + ") { yield 1; " + logLocal + " }\nvar it = f(" + src + "); log(it.next().done); log(it.next().done);"
	case "method-param":
		body = "class M { static m(" + pat + ") { " + logLocal + " } set s(" + pat + ") { " + logLocal + " } }\nM.m(" + src + "); new M().s = " + g.source() + ";"
	case "catch":
		body = "try { throw " + src + "; } catch (" + pat + ") { " + logLocal + " }"
	case "for-await-decl":
		async = true
		body = "for await (" + forkw + " " + pat + " of [" + src + ", Promise.resolve(" + g.source() + ")]) { " + logLocal + " }"
	case "for-await-assign":
		async = true
		body = "for await (" + pat + " of [" + src + "]) { " + logLocal + " }"
	case "in-array-decl":
		body = "var [x0, " + pat + ", ...more] = [1, " + src + ", 2, 3];\n" + logLocal + " log(x0, more);"
	case "in-array-assign":
		body = "[t3, " + pat + ", ...o.more] = [1, " + src + ", 2, 3];\n" + logLocal
		g.usesO = true
	case "for-init":
		body = "for (var " + pat + " = " + src + ", z = 0; z < 1; z++) { " + logLocal + " }"
	case "nested-default":
		body = "var { q: " + pat + " = " + src + " } = { };\n" + logLocal
	}
	var sb strings.Builder
	if g.chance("strict", 30) {
		sb.WriteString("\"use strict\";\n")
		g.tag("mode:strict")
	}
	sb.WriteString(patPrelude)
	inner := "try {\n" + body + "\n} catch (e) { log(\"threw\", e); }\n" + tail + "\n"
	switch {
	case async:
		g.tag("wrap:async-main")
		sb.WriteString("(async function main() {\n" + inner + "})().then(function () { log(\"done\"); }, function (e) { log(\"rejected\", e); });\n")
	case g.chance("fnwrap", 30):
		g.tag("wrap:function")
		sb.WriteString("(function () {\n" + inner + "})();\n")
	default:
		g.tag("wrap:none")
		sb.WriteString(inner)
	}
	return sb.String(), g.tags
}

// ---------------------------------------------------------------------------------------------------
// loop: labelled, nested and stacked-label loops around awaits, for-await and yields, with break /
// continue / return to inner and outer labels, iterators whose return() is observable, and closures
// over the per-iteration bindings that are called after the loop.

type loopGen struct {
	*gen
	labels  []string // enclosing labels that `continue` may target (loops)
	blabels []string // enclosing labels that `break` may target (loops and blocks)
	inGen   bool
	depth   int
	nloops  int
}

const loopPrelude = `var fns = [], o = {};
function* sg(tag, n) { var i = 0; try { while (i < n) { log("sg next", tag, i); yield i++; } } finally { log("sg cleanup", tag); } }
async function* ag(tag, n) { var i = 0; try { while (i < n) { log("ag next", tag, i); yield i++; } } finally { log("ag cleanup", tag); } }
function si(tag, n) { var i = 0; return { [Symbol.iterator]() { return this; }, next() { log("si next", tag, i); return { value: i, done: i++ >= n }; }, return(v) { log("si return", tag); return { done: true, value: v }; } }; }
function ai(tag, n) { var i = 0; return { [Symbol.asyncIterator]() { return this; }, next() { log("ai next", tag, i); return Promise.resolve({ value: i, done: i++ >= n }); }, return(v) { log("ai return", tag); return Promise.resolve({ done: true, value: v }); } }; }
`

func (g *loopGen) iterable(async bool) string {
	tag := fmt.Sprint(g.n("itertag", 9))
	n := fmt.Sprint(1 + g.n("iterlen", 3))
	if async {
		switch g.n("aiter", 7) {
		case 0:
			return "ag(" + tag + ", " + n + ")"
		case 1:
			return "ai(" + tag + ", " + n + ")"
		case 2:
			return "sg(" + tag + ", " + n + ")"
		case 3:
			return "si(" + tag + ", " + n + ")"
		case 4:
			return "[0, Promise.resolve(1), 2]"
		case 5:
			return "[" + g.probe("0") + ", " + g.probe("1") + "]"
		default:
			return g.probe("ag(" + tag + ", " + n + ")")
		}
	}
	switch g.n("siter", 4) {
	case 0:
		return "sg(" + tag + ", " + n + ")"
	case 1:
		return "si(" + tag + ", " + n + ")"
	case 2:
		return "[0, 1, 2]"
	default:
		return g.probe("[0, 1]")
	}
}

// head variable forms of for-of / for-await: returns the head text and the expression naming the value
func (g *loopGen) head() (string, string) {
	v := g.fresh("x")
	switch g.n("head", 8) {
	case 0, 1:
		return "const " + v, v
	case 2:
		return "let " + v, v
	case 3:
		return "var " + v, v
	case 4:
		g.tag("head:member")
		return "o." + v, "o." + v
	case 5:
		g.tag("head:assign")
		return v, v // sloppy global / pre-declared below
	case 6:
		g.tag("head:array-pattern")
		return "const [" + v + " = " + g.probe("-1") + "]", v
	default:
		g.tag("head:object-rest")
		return "const { length: " + v + ", ...rst" + v + " }", v
	}
}

func (g *loopGen) jump(val string) string {
	// a conditional break / continue / return, to an inner or outer label
	cond := g.pick("cond", val+" === 0", val+" === 1", val+" >= 1", "true", val+" !== 0")
	kind := g.n("jump", 10)
	switch {
	case kind < 4 && len(g.labels) > 0:
		l := g.labels[g.n("clabel", len(g.labels))]
		if l != g.labels[len(g.labels)-1] {
			g.tag("jump:continue-outer")
		} else {
			g.tag("jump:continue-label")
		}
		return "if (" + cond + ") { log(\"continue " + l + "\"); continue " + l + "; }"
	case kind < 7 && len(g.blabels) > 0:
		l := g.blabels[g.n("blabel", len(g.blabels))]
		if l != g.blabels[len(g.blabels)-1] {
			g.tag("jump:break-outer")
		} else {
			g.tag("jump:break-label")
		}
		return "if (" + cond + ") { log(\"break " + l + "\"); break " + l + "; }"
	case kind == 7:
		g.tag("jump:continue")
		return "if (" + cond + ") continue;"
	case kind == 8:
		g.tag("jump:break")
		return "if (" + cond + ") break;"
	default:
		g.tag("jump:return")
		return "if (" + cond + ") return \"ret\" + " + val + ";"
	}
}

func (g *loopGen) bodyStmts(val string, allowJump bool) string {
	var sb strings.Builder
	n := 1 + g.n("nbody", 4)
	for i := 0; i < n; i++ {
		switch g.n("stmt", 12) {
		case 0, 1:
			sb.WriteString("log(\"v\", " + val + "); ")
		case 2:
			g.tag("body:await")
			sb.WriteString("log(\"aw\", await " + g.probe(val) + "); ")
		case 3:
			g.tag("body:closure")
			sb.WriteString("fns.push(() => " + val + "); ")
		case 4, 5:
			if allowJump {
				sb.WriteString(g.jump(val) + " ")
			}
		case 6:
			if g.depth < 3 && g.nloops < 4 {
				sb.WriteString(g.loop() + " ")
			}
		case 7:
			if allowJump {
				g.tag("body:try-finally")
				sb.WriteString("try { " + g.jump(val) + " log(\"in try\"); } finally { log(\"finally\", " + val + "); } ")
			}
		case 8:
			if g.inGen {
				g.tag("body:yield")
				sb.WriteString("log(\"sent\", yield " + val + "); ")
			} else {
				sb.WriteString("await null; ")
			}
		case 9:
			if allowJump {
				g.tag("body:switch")
				sb.WriteString("switch (" + val + ") { case 0: log(\"case0\"); break; case 1: " + g.jump(val) + " default: log(\"dflt\"); } ")
			}
		case 10:
			g.tag("body:await-in-expr")
			sb.WriteString("log(\"sum\", " + g.probe(val) + " + await " + g.probe("10") + "); ")
		default:
			if allowJump && g.chance("trycatch", 50) {
				g.tag("body:throw-in-loop")
				sb.WriteString("try { if (" + val + " === 1) throw \"t\" + " + val + "; } catch (e) { log(\"caught\", e); " + g.jump(val) + " } ")
			}
		}
	}
	return sb.String()
}

func (g *loopGen) loop() string {
	g.depth++
	g.nloops++
	defer func() { g.depth-- }()
	// labels: none, one, or two stacked on the same loop
	nl := 0
	switch g.n("nlabels", 6) {
	case 0, 1:
		nl = 0
	case 2, 3, 4:
		nl = 1
	default:
		nl = 2
		g.tag("label:stacked")
	}
	var mine []string
	for i := 0; i < nl; i++ {
		mine = append(mine, g.fresh("L"))
	}
	if nl > 0 {
		g.tag("label:loop")
	}
	saveL, saveB := len(g.labels), len(g.blabels)
	g.labels = append(g.labels, mine...)
	g.blabels = append(g.blabels, mine...)
	prefix := ""
	for _, l := range mine {
		prefix += l + ": "
	}
	var s string
	kind := g.n("loopkind", 10)
	switch kind {
	case 0, 1, 2, 3:
		g.tag("loop:for-await")
		h, v := g.head()
		s = prefix + "for await (" + h + " of " + g.iterable(true) + ") { " + g.bodyStmts(v, true) + "}"
	case 4, 5:
		g.tag("loop:for-of")
		h, v := g.head()
		s = prefix + "for (" + h + " of " + g.iterable(false) + ") { " + g.bodyStmts(v, true) + "}"
	case 6:
		g.tag("loop:for")
		v := g.fresh("i")
		s = prefix + "for (let " + v + " = 0; " + v + " < 3; " + v + "++) { " + g.bodyStmts(v, true) + "}"
	case 7:
		g.tag("loop:while")
		v := g.fresh("w")
		s = "var " + v + " = -1; " + prefix + "while (++" + v + " < 3) { " + g.bodyStmts(v, true) + "}"
	case 8:
		g.tag("loop:do-while")
		v := g.fresh("w")
		s = "var " + v + " = -1; " + prefix + "do { " + v + "++; " + g.bodyStmts(v, true) + "} while (" + v + " < 2);"
	default:
		g.tag("loop:for-in")
		v := g.fresh("key")
		s = prefix + "for (const " + v + " in { 0: 1, 1: 1, 2: 1 }) { " + g.bodyStmts("+"+v, true) + "}"
	}
	g.labels, g.blabels = g.labels[:saveL], g.blabels[:saveB]
	if g.chance("blocklabel", 15) {
		// a labelled block around the loop whose label only `break` may use
		bl := g.fresh("K")
		g.tag("label:block")
		s = bl + ": { " + s + " log(\"end of " + bl + "\"); }"
	}
	return s
}

var loopFnKinds = []string{"async-function", "async-arrow", "async-generator", "async-method", "async-static-method", "async-object-method"}

func genLoop(rt *rapid.T) (string, []string) {
	g := &loopGen{gen: newGen(rt)}
	kind := loopFnKinds[g.n("fnkind", len(loopFnKinds))]
	g.tag("fn:" + kind)
	g.inGen = kind == "async-generator"
	var body strings.Builder
	nl := 1 + g.n("ntoploops", 2)
	for i := 0; i < nl; i++ {
		body.WriteString("  " + g.loop() + "\n")
	}
	body.WriteString("  log(\"after loops\", who(this));\n  return \"end\";\n")
	// assignment-form heads need declared variables (strict mode) — declare every fresh x name
	var decls []string
	for i := 1; i <= g.uid; i++ {
		decls = append(decls, fmt.Sprintf("x%d", i))
	}
	var sb strings.Builder
	if g.chance("strict", 35) {
		sb.WriteString("\"use strict\";\n")
		g.tag("mode:strict")
	}
	sb.WriteString(loopPrelude)
	sb.WriteString("function who(v) { return v === undefined ? \"undef\" : v === globalThis ? \"global\" : v === o ? \"o\" : typeof v; }\n")
	sb.WriteString("var " + strings.Join(decls, ", ") + ";\n")
	call := ""
	switch kind {
	case "async-function":
		sb.WriteString("async function f() {\n" + body.String() + "}\n")
		call = "await f.call(o)"
	case "async-arrow":
		sb.WriteString("var f = async () => {\n" + strings.Replace(body.String(), "who(this)", "typeof this", 1) + "};\n")
		call = "await f()"
	case "async-generator":
		sb.WriteString("async function* f() {\n" + body.String() + "}\n")
		call = ""
	case "async-method":
		sb.WriteString("class M { async f() {\n" + body.String() + "} }\n")
		call = "await new M().f()"
	case "async-static-method":
		sb.WriteString("class M { static async f() {\n" + body.String() + "} }\n")
		call = "await M.f()"
	default:
		sb.WriteString("o.f = async function () {\n" + body.String() + "};\n")
		call = "await o.f()"
	}
	sb.WriteString("(async function main() {\n")
	if kind == "async-generator" {
		sb.WriteString("  var it = f.call(o), r, sent = 0;\n  try { while (!(r = await it.next(sent++)).done) { log(\"yielded\", r.value); if (sent > 12) { log(\"closing\", await it.return(\"closed\")); break; } } log(\"result\", r.value); } catch (e) { log(\"threw\", e); }\n")
	} else {
		sb.WriteString("  try { log(\"result\", " + call + "); } catch (e) { log(\"threw\", e); }\n")
	}
	sb.WriteString("  for (var fn of fns) { try { log(\"closure\", fn()); } catch (e) { log(\"closure threw\", e); } }\n  log(\"o\", o);\n")
	sb.WriteString("})().then(function () { log(\"done\"); }, function (e) { log(\"rejected\", e); });\n")
	return sb.String(), g.tags
}

// C05 — syntax lowering preserves behaviour for every target. See DESIGN.md section 5 / C05.
package c05

import (
	"encoding/json"
	"fmt"
	"sort"
	"strings"
	"testing"

	"github.com/evanw/esbuild/internal/compat"
	"github.com/evanw/esbuild/pkg/api"
	"github.com/evanw/esbuild/verif/jsgen"
	"github.com/evanw/esbuild/verif/jslib"
	"github.com/evanw/esbuild/verif/jsref"
	"github.com/evanw/esbuild/verif/jsutil"
	"github.com/evanw/esbuild/verif/noderun"
	"github.com/evanw/esbuild/verif/vdrv"
	"pgregory.net/rapid"
)

var H *vdrv.H
var W *noderun.Worker

type Case struct {
	Code        string   `json:"code"`
	Target      string   `json:"target,omitempty"` // es2015 … es2022, esnext
	Unsupported []string `json:"unsupported,omitempty"`
	Supported   []string `json:"supported,omitempty"` // forced on (override of a low target)
	Minify      bool     `json:"minify,omitempty"`
	Source      string   `json:"source"`
	Tags        []string `json:"tags,omitempty"` // generator's labels of the positions used (evidence classes only)
}

var targets = map[string]api.Target{"es2015": api.ES2015, "es2016": api.ES2016, "es2017": api.ES2017, "es2018": api.ES2018, "es2019": api.ES2019, "es2020": api.ES2020, "es2021": api.ES2021, "es2022": api.ES2022, "es2023": api.ES2023, "esnext": api.ESNext}
var targetNames = []string{"es2015", "es2016", "es2017", "es2018", "es2019", "es2020", "es2021", "es2022", "esnext"}

// post-ES2015 features (plus template literals, which the property names, and destructuring, which esbuild
// refuses with an error) that V8 20 supports natively. ES2015→ES5 features (arrow, class, let/const, …) are
// not listed: ES5 targets are excluded by the property and documented by esbuild as not transformable.
var lowerable = []string{"async-await", "async-generator", "bigint", "class-field", "class-private-accessor", "class-private-brand-check", "class-private-field", "class-private-method", "class-private-static-accessor", "class-private-static-field", "class-private-static-method", "class-static-blocks", "class-static-field", "exponent-operator", "for-await", "logical-assignment", "nullish-coalescing", "object-rest-spread", "optional-catch-binding", "optional-chain", "template-literal", "regexp-dot-all-flag", "regexp-named-capture-groups", "regexp-lookbehind-assertions", "regexp-unicode-property-escapes", "destructuring"}

func knownFeature(name string) bool {
	_, ok := compat.StringToJSFeature[name]
	return ok
}

func (c Case) options() api.TransformOptions {
	o := api.TransformOptions{LogLevel: api.LogLevelSilent}
	if t, ok := targets[c.Target]; ok {
		o.Target = t
	}
	if len(c.Unsupported)+len(c.Supported) > 0 {
		o.Supported = map[string]bool{}
		for _, f := range c.Unsupported {
			o.Supported[f] = false
		}
		for _, f := range c.Supported {
			o.Supported[f] = true
		}
	}
	if c.Minify {
		o.MinifySyntax, o.MinifyWhitespace, o.MinifyIdentifiers = true, true, true
	}
	return o
}

// lowers reports whether the configuration makes esbuild lower the given feature (introduced in ES<year>).
func (c Case) lowers(feature string, year int) bool {
	for _, f := range c.Supported {
		if f == feature {
			return false
		}
	}
	for _, f := range c.Unsupported {
		if f == feature {
			return true
		}
	}
	var y int
	if _, err := fmt.Sscanf(c.Target, "es%d", &y); err == nil {
		return y < year
	}
	return false
}

var noted = map[string]bool{}

func noteOnce(msg string) {
	// label numbers vary between generated programs
	key := msg
	if i := strings.Index(key, "label \""); i >= 0 {
		key = key[:i+6]
		msg = key + "…\" (stacked labels `a: b: for (…) { continue a }`)"
	}
	if !noted[key] && len(noted) < 20 {
		noted[key] = true
		H.Note("%s", msg)
	}
}

// forced reports whether one of the features is switched on by an explicit `supported` override.
func (c Case) forced(features ...string) bool {
	for _, s := range c.Supported {
		for _, f := range features {
			if s == f {
				return true
			}
		}
	}
	return false
}

func hasBigInt(code string) bool {
	toks, err := jsref.Tokenize(code, jsref.Options{})
	if err != nil {
		return false
	}
	for _, t := range toks {
		if t.Kind == jsref.TBigInt {
			return true
		}
	}
	return false
}

func judge(c Case) vdrv.Verdict {
	v, _ := judgeInner(c, 0)
	return v
}

// judgeInner: depth > 0 marks the recursive judgement of a rewritten input (see classify in
// known_test.go). confirmed: v.Known was established by output repairs / input rewrites that end in a
// correct program (and not by one of the older static signatures).
func judgeInner(c Case, depth int) (v vdrv.Verdict, confirmed bool) {
	v = judgeDepth(c, depth, &confirmed)
	return
}

func judgeDepth(c Case, depth int, confirmed *bool) vdrv.Verdict {
	// An explicit `supported: {F: true}` for a feature that cannot exist without another feature which the
	// configuration lowers describes no engine, and esbuild takes the override literally: `for await` /
	// `async function*` kept inside an async function that became a generator; `static #x = v` moved out
	// of the class as `_A.#x = v` when public static fields are lowered. (Without the explicit override
	// esbuild derives the dependent lowering itself, and those configurations are judged.)
	if c.forced("for-await", "async-generator") && c.lowers("async-await", 2017) {
		return vdrv.Skip("contradictory-supported-override")
	}
	if c.forced("class-private-static-field") && c.lowers("class-static-field", 2022) {
		return vdrv.Skip("contradictory-supported-override")
	}
	ref, err := W.Script(c.Code, false)
	if err != nil {
		return vdrv.Skip("node-infra")
	}
	if ref.ParseError != "" {
		return vdrv.Skip("generator-invalid")
	}
	if ref.Timeout || ref.Overflow {
		return vdrv.Skip("reference-timeout-or-overflow")
	}
	if r2, err := W.Script(c.Code, false); err != nil || r2.Trace() != ref.Trace() {
		return vdrv.Skip("nondeterministic-reference")
	}
	plain := api.Transform(c.Code, api.TransformOptions{LogLevel: api.LogLevelSilent, MinifySyntax: c.Minify, MinifyWhitespace: c.Minify, MinifyIdentifiers: c.Minify})
	r := api.Transform(c.Code, c.options())
	if len(r.Errors) > 0 {
		// "if esbuild reports no error then …": a refusal for the target is an accepted outcome
		v := vdrv.Pass(false, "esbuild-refused")
		if len(plain.Errors) > 0 {
			// refused without any lowering as well: outside this property (valid input rejected is C13's
			// domain), but worth a class and a note
			v = vdrv.Pass(false, "esbuild-refused-for-every-target")
			noteOnce("esbuild refuses this input for every target (not a C05 verdict): " + plain.Errors[0].Text)
		}
		v.Observed = r.Errors[0].Text
		return v
	}
	out := string(r.Code)
	got, err := W.Script(out, false)
	if err != nil {
		return vdrv.Skip("node-infra")
	}
	lowered := len(plain.Errors) == 0 && string(plain.Code) != out
	cls := []string{"target=" + c.Target, "src=" + c.Source}
	cls = append(cls, c.Tags...)
	if lowered {
		cls = append(cls, "lowered")
	}
	for _, h := range []string{"__async", "__privateGet", "__publicField", "__objRest", "__spreadValues", "__template", "__forAwait", "__asyncGenerator", "__yieldStar", "__privateMethod", "__privateIn", "__superGet", "__pow", "__restKey"} {
		if strings.Contains(out, h) {
			cls = append(cls, "helper="+h)
		}
	}
	if ref.Trace() != got.Trace() && c.lowers("exponent-operator", 2016) && hasBigInt(c.Code) {
		// BigInt is documented as not transformable: `a ** b` is lowered to Math.pow, which rejects bigints
		return vdrv.Skip("bigint-with-lowered-exponent")
	}
	if ref.Trace() == got.Trace() {
		v := vdrv.Pass(lowered && len(ref.Events) >= 2, cls...)
		v.Observed = fmt.Sprintf("%d events, end=%s, output %d bytes", len(ref.Events), ref.End, len(out))
		return v
	}
	v := vdrv.Fail(fmt.Sprintf("lowered program (target=%s unsupported=%v supported=%v minify=%v) behaves differently", c.Target, c.Unsupported, c.Supported, c.Minify), ref.Trace(), got.Trace()+"\n--- output\n"+out)
	v.Classes = cls // failing and known cases show up in the class histogram too
	// findings confirmed by an output repair or an input rewrite (precise) come first, the older static
	// signatures after them
	if id := classify(c, out, ref.Trace(), got.Trace(), depth); id != "" {
		v.Known = id
		*confirmed = true
		return v
	}
	switch {
	case c.lowers("object-rest-spread", 2018) && hasComplexObjectRest(c.Code) && strings.Contains(ref.Trace(), "err:TypeError"):
		// both listed deviations show as a TypeError that native destructuring throws (rest of null/undefined)
		// or throws earlier (before a computed key is evaluated); without one in the native trace the
		// failure is something else and is reported
		v.Known = "C05-objrest-nullish-or-order"
	case (c.lowers("class-field", 2022) || c.lowers("class-private-field", 2022)) && hasCtorParamEffectsAndFields(c.Code):
		v.Known = "C05-field-init-before-ctor-params"
	case c.lowers("object-rest-spread", 2018) && hasSpreadWithProtoSetter(c.Code):
		v.Known = "C05-spread-proto-setter"
	}
	return v
}

// hasComplexObjectRest: signature of known finding C05-objrest-nullish-or-order. The program contains an
// object pattern with a rest element `...r` such that the pattern (a) is nested inside another
// destructuring pattern, or (b) consists of the rest element only, or (c) also has a computed key.
func hasComplexObjectRest(code string) bool {
	p, err := jsref.Parse(code, jsref.Options{})
	if err != nil {
		return false
	}
	found := false
	var visit func(n *jsref.Node, inPattern bool)
	visit = func(n *jsref.Node, inPattern bool) {
		if n == nil {
			return
		}
		childInPattern := inPattern
		if n.Type == jsref.NObject {
			hasRest, computed := false, false
			for _, m := range n.List {
				if m == nil {
					continue
				}
				if m.Type == jsref.NSpread {
					hasRest = true
				}
				if m.Type == jsref.NProperty && m.Has(jsref.FlagComputed) {
					computed = true
				}
			}
			if hasRest && (inPattern || len(n.List) == 1 || computed) {
				found = true
			}
			childInPattern = true
		}
		if n.Type == jsref.NArray {
			childInPattern = true
		}
		if n.Type == jsref.NFunctionDecl || n.Type == jsref.NFunctionExpr || n.Type == jsref.NArrow || n.Type == jsref.NBlock {
			childInPattern = false
		}
		visit(n.A, childInPattern)
		visit(n.B, childInPattern)
		visit(n.C, childInPattern)
		visit(n.D, childInPattern)
		for _, c := range n.List {
			visit(c, childInPattern)
		}
	}
	visit(p.Body, false)
	return found
}

// hasCtorParamEffectsAndFields: signature of known finding C05-field-init-before-ctor-params: a class
// without `extends` that has an instance field (public or private) with an initialiser and a
// constructor with a non-simple parameter list (default value or destructuring pattern).
func hasCtorParamEffectsAndFields(code string) bool {
	p, err := jsref.Parse(code, jsref.Options{})
	if err != nil {
		return false
	}
	found := false
	jsutil.Walk(p.Body, func(n *jsref.Node) {
		if n.Type != jsref.NClassDecl && n.Type != jsref.NClassExpr {
			return
		}
		field, ctor := false, false
		for _, m := range n.List {
			if m == nil {
				continue
			}
			if m.Type == jsref.NField && !m.Has(jsref.FlagStatic) && m.B != nil {
				field = true
			}
			if m.Type == jsref.NMethod && m.Name == "constructor" && m.B != nil {
				for _, prm := range m.B.List {
					if prm != nil && prm.Type != jsref.NIdent && prm.Type != jsref.NSpread {
						ctor = true
					}
				}
			}
		}
		if field && ctor {
			found = true
		}
	})
	return found
}

// hasSpreadWithProtoSetter: signature of known finding C05-spread-proto-setter: an object literal that
// has both a spread element and a literal `__proto__: value` property.
func hasSpreadWithProtoSetter(code string) bool {
	p, err := jsref.Parse(code, jsref.Options{})
	if err != nil {
		return false
	}
	found := false
	jsutil.Walk(p.Body, func(n *jsref.Node) {
		if n.Type != jsref.NObject {
			return
		}
		spread, proto := false, false
		for _, m := range n.List {
			if m == nil {
				continue
			}
			if m.Type == jsref.NSpread {
				spread = true
			}
			if m.Type == jsref.NProperty && !m.Has(jsref.FlagComputed) && !m.Has(jsref.FlagShorthand) && m.A != nil && (m.A.Name == "__proto__" || (m.A.Type == jsref.NStr && strings.Contains(code[m.A.Start:m.A.End], "__proto__"))) {
				proto = true
			}
		}
		if spread && proto {
			found = true
		}
	})
	return found
}

func replay(raw json.RawMessage) vdrv.Verdict {
	var c Case
	if json.Unmarshal(raw, &c) != nil {
		return vdrv.Skip("bad-replay")
	}
	return judge(c)
}

func usable() []string {
	var out []string
	for _, f := range lowerable {
		if knownFeature(f) {
			out = append(out, f)
		}
	}
	sort.Strings(out)
	return out
}

func runFamilies(t *testing.T) {
	feats := usable()
	H.Rule("families", fmt.Sprintf("bounded-exhaustive: %d hand-built construct jslib.Families (optional chains, ??, logical/exponent assignment on identifiers/members/private/super, class fields/private/static blocks, object rest/spread, destructuring, templates, async functions, async generators, for-await, nestings) with probe operands × targets ES2015…ES2022 × each single `supported:{feature:false}` override on esnext (%d features) × minify on/off; oracle: V8 trace of the original vs the lowered program; non-trivial = esbuild's output differs from the unlowered print and ≥2 events", len(jslib.Families), len(feats)))
	i := 0
	for fi, code := range jslib.Families {
		var variants []Case
		for _, tn := range targetNames[:8] {
			variants = append(variants, Case{Code: code, Target: tn, Source: fmt.Sprintf("family%d", fi)})
		}
		for _, f := range feats {
			variants = append(variants, Case{Code: code, Target: "esnext", Unsupported: []string{f}, Source: fmt.Sprintf("family%d", fi)})
		}
		for _, v := range variants {
			for _, m := range []bool{false, true} {
				i++
				if !H.MySlice(i) {
					continue
				}
				v.Minify = m
				// quick tier: all targets unminified; minified and single-feature overrides sliced by seed
				if !H.Thorough() && (m || len(v.Unsupported) > 0) && uint64(i/H.NShards)%6 != H.Seed%6 {
					continue
				}
				H.Report(t, "families", fmt.Sprint(v), v, judge(v))
			}
		}
	}
	H.Exhaustive("families", H.Thorough())
}

func drawConfig(rt *rapid.T, c *Case) {
	feats := usable()
	c.Target = rapid.SampledFrom(targetNames).Draw(rt, "target")
	switch rapid.IntRange(0, 3).Draw(rt, "overrides") {
	case 0:
		n := rapid.IntRange(1, 4).Draw(rt, "nunsupported")
		for i := 0; i < n; i++ {
			c.Unsupported = append(c.Unsupported, rapid.SampledFrom(feats).Draw(rt, "unsupported"))
		}
	case 1:
		c.Supported = append(c.Supported, rapid.SampledFrom(feats).Draw(rt, "supported"))
	}
	c.Minify = rapid.IntRange(0, 3).Draw(rt, "minify") == 0
}

func runProg(t *testing.T) {
	H.Rule("prog", "rapid: jsgen programs using every lowerable construct (classes with fields/private/static blocks, optional chains, ??, logical assignment, object rest/spread, destructuring with defaults, tagged templates, generators; half of them inside an async main with awaited async functions) × random target ES2015…ESNext × random supported overrides (both directions) × minify; oracle: V8 trace original vs lowered")
	H.SetupRapid("prog", H.N(1200, 150000))
	rapid.Check(t, func(rt *rapid.T) {
		c := Case{Source: "jsgen"}
		async := rapid.Bool().Draw(rt, "async")
		c.Code = jsgen.Program(rt, jsgen.Config{Features: jsgen.FAll, WrapAsync: async, Strict: rapid.Bool().Draw(rt, "strict"), MaxDepth: 3, MaxStmts: 7})
		drawConfig(rt, &c)
		H.Report(rt, "prog", fmt.Sprint(c), c, judge(c))
	})
}

// preferredTargets: the targets for which the constructs of a generator are actually lowered; drawn 3 times
// out of 4 (the remaining draws are uniform over all targets, where most programs are left alone).
var preferredTargets = map[string][]string{
	"cls":  {"es2015", "es2016", "es2017", "es2018", "es2019", "es2020", "es2021"},
	"pat":  {"es2015", "es2016", "es2017"},
	"loop": {"es2015", "es2016", "es2017"},
}

// drawConfigUniform: like drawConfig but with unbiased draws.
func drawConfigUniform(g *gen, c *Case) {
	feats := usable()
	c.Target = targetNames[g.n("target", len(targetNames))]
	if pref := preferredTargets[c.Source]; len(pref) > 0 && g.chance("preferred", 75) {
		c.Target = pref[g.n("preftarget", len(pref))]
	}
	switch g.n("overrides", 5) {
	case 0:
		n := 1 + g.n("nunsupported", 3)
		for i := 0; i < n; i++ {
			c.Unsupported = append(c.Unsupported, feats[g.n("unsupported", len(feats))])
		}
	case 1:
		c.Supported = append(c.Supported, feats[g.n("supported", len(feats))])
	}
	c.Minify = g.chance("minify", 25)
}

func runGen(sub, rule string, quick, thorough int, build func(rt *rapid.T) (string, []string)) func(t *testing.T) {
	return func(t *testing.T) {
		H.Rule(sub, rule)
		H.SetupRapid(sub, H.N(quick, thorough))
		rapid.Check(t, func(rt *rapid.T) {
			code, tags := build(rt)
			c := Case{Source: sub, Code: code, Tags: tags}
			drawConfigUniform(newGen(rt), &c)
			H.Report(rt, sub, fmt.Sprint(c), c, judge(c))
		})
	}
}

const ruleTail = " × uniformly drawn target ES2015…ESNext × supported overrides (both directions) × minify; oracle: V8 trace original vs lowered; non-trivial = output differs from the unlowered print and ≥2 events"

var subs = map[string]vdrv.ReplayFunc{"families": replay, "prog": replay, "cls": replay, "pat": replay, "loop": replay}

func setup(t *testing.T) {
	H = vdrv.New("C05")
	var err error
	W, err = noderun.Start("")
	if err != nil {
		t.Fatalf("INFRA: %v", err)
	}
}

func TestCheck(t *testing.T) {
	setup(t)
	defer W.Close()
	complete := false
	defer func() { H.Finish(complete) }()
	H.RunReplays(t, subs)
	H.Sub(t, "families", runFamilies)
	H.Sub(t, "prog", runProg)
	H.Sub(t, "cls", runGen("cls", "rapid: one class (optionally extends a base with observable receivers) with 1–5 drawn members — private fields / methods / accessors (static and instance), public and static fields, static blocks, computed keys, methods and getters — whose initialisers and bodies use this / super (call, get, set, update, optional, tagged) / new.target / private names directly, in arrows, nested arrows and async arrows; the class is evaluated in one of 23 contexts (top level, block, every loop kind incl. labelled continue, nested loops, loop head, try/finally, switch, function/method/arrow/generator/async bodies, static block of an outer class), every member is then exercised from outside on each evaluation and across evaluations (brand checks)"+ruleTail, 1300, 60000, genCls))
	H.Sub(t, "pat", runGen("pat", "rapid: an object pattern (depth ≤3, usually with a rest element) whose computed keys (identifiers, assignments, updates, probes, symbols), default values and targets (variables, members, the key variables themselves) alias each other, over sources with getters that log or mutate the key variables, in 22 positions (var/let/const, assignment statement and expression, for-of / for-in / for-await heads in declaration and assignment form, parameters of functions, arrows, async functions, generators, methods and setters, parameter defaults, catch, nested in array patterns, for-init); a source object in the head of a let/const for-of / for-await loop never mentions a key variable that the loop's own pattern binds: natively such a reference can only throw a TDZ ReferenceError (the head is evaluated with the loop bindings uninitialised), and esbuild documents that it does not model TDZ errors — lowering moves the declaration into the loop body; assignment patterns have no computed string-literal keys `[\"a\"]`: esbuild prints them as plain keys, and V8 (against the specification) evaluates member-target operands under a plain key, but not under a computed key, before it rejects a null / undefined value"+ruleTail, 1200, 60000, genPat))
	H.Sub(t, "loop", runGen("loop", "rapid: 1–4 nested loops (for-await over async/sync generators, hand-written iterators with observable return(), arrays of promises; for-of; for; while; do-while; for-in) with zero, one or two stacked labels and labelled blocks, bodies with awaits, yields, closures over the iteration binding (called after the loop), try/finally, switch, and conditional break / continue / return to inner and outer labels, inside async functions, arrows, methods, and async generators driven by next(value)/return()"+ruleTail, 1000, 50000, genLoop))
	complete = true
}

func TestReplay(t *testing.T) {
	setup(t)
	defer W.Close()
	H.ReplayOne(t, subs)
}

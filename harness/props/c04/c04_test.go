// C04 — tree shaking removes only the unobservable. See DESIGN.md section 5 / C04.
package c04

import (
	"encoding/json"
	"fmt"
	"os"
	"path/filepath"
	"regexp"
	"sort"
	"strings"
	"testing"

	"github.com/evanw/esbuild/pkg/api"
	"github.com/evanw/esbuild/verif/jsref"
	"github.com/evanw/esbuild/verif/noderun"
	"github.com/evanw/esbuild/verif/vdrv"
	"pgregory.net/rapid"
)

var H *vdrv.H
var FW *noderun.FileWorker
var globalNames map[string]bool

// Hidden-effect statements: each is an unused top-level declaration that *looks* like a pure
// initialiser but whose evaluation is observable (a log through a getter / valueOf / toString /
// iterator / static block, or a thrown TypeError/ReferenceError). %d is replaced by a unique id; O is
// an object with logging accessors defined in the module prelude.
var hidden = []string{
	`var u%[1]d = { ...O%[1]d };`,                                  // getter invoked by object spread
	`var u%[1]d = { [K%[1]d]: 1 };`,                                // computed key → toString
	`var u%[1]d = [...I%[1]d];`,                                    // array spread → iterator
	"var u%[1]d = `${S%[1]d}`;",                                    // template hole → toString
	`var u%[1]d = 1 + V%[1]d;`,                                     // + → valueOf
	`var u%[1]d = V%[1]d == 1;`,                                    // loose equality coercion
	`var u%[1]d = V%[1]d < 2;`,                                     // relational coercion
	`var u%[1]d = -V%[1]d;`,                                        // unary minus coercion
	`var u%[1]d = "k" in N%[1]d;`,                                  // `in` with a non-object right side throws
	`var u%[1]d = O%[1]d instanceof N%[1]d;`,                       // instanceof with a non-callable right side throws
	`var u%[1]d = O%[1]d.g;`,                                       // property read → getter
	`var u%[1]d = O%[1]d["g"];`,                                    // index read → getter
	`var u%[1]d = N%[1]d.x.y;`,                                     // property of undefined throws
	`var { g: u%[1]d } = O%[1]d;`,                                  // destructuring → getter
	`var { u%[1]d = V%[1]d + 1 } = {};`,                            // destructuring default → valueOf
	`var { [K%[1]d]: u%[1]d } = {};`,                               // computed pattern key → toString
	`var [u%[1]d] = I%[1]d;`,                                       // array pattern → iterator
	`var [u%[1]d] = N%[1]d;`,                                       // array pattern of a non-iterable throws
	`var { u%[1]d } = null;`,                                       // object pattern of null throws
	`class U%[1]d { static { log("static block %[1]d"); } }`,       // class static block
	`class U%[1]d { static f = V%[1]d + 1; }`,                      // static field initialiser → valueOf
	`class U%[1]d { static [K%[1]d] = 1; }`,                        // computed static member name → toString
	`class U%[1]d { [K%[1]d]() {} }`,                               // computed method name → toString
	`class U%[1]d { f = 1; static g = O%[1]d.g; }`,                 // static field → getter
	`class U%[1]d extends X%[1]d() {}`,                             // heritage expression with a call
	`var u%[1]d = class { static [K%[1]d]() {} };`,                 // class expression with computed key
	`function w%[1]d(a = V%[1]d + 1) {} var u%[1]d = w%[1]d();`,    // default parameter evaluated by a call
	"var u%[1]d = T%[1]d`x`;",                                      // tagged template is a call
	`var u%[1]d = new X%[1]d();`,                                   // constructor call
	`var u%[1]d = undeclaredGlobal%[1]d;`,                          // unbound global read → ReferenceError
	`var u%[1]d = typeof undeclaredGlobal%[1]d === "undefined" ? V%[1]d + 1 : 0;`, // typeof guard then coercion
	`var u%[1]d = delete O%[1]d.g2;`,                               // delete is observable later
	`var u%[1]d = (O%[1]d.s = 1);`,                                 // assignment → setter
	`var u%[1]d = O%[1]d.n++;`,                                     // update → getter + setter
	`var u%[1]d = [V%[1]d] + "";`,                                  // array toString → element coercion
	`var u%[1]d = String(S%[1]d);`,                                 // String() of an object → toString
	`var u%[1]d = JSON.stringify(O%[1]d);`,                         // JSON.stringify → getters
	`var u%[1]d = Object.keys(P%[1]d);`,                            // proxy trap
	`var u%[1]d = V%[1]d ? 1 : 2;`,                                 // truthiness of an object never coerces (pure!) — decoy
	`var u%[1]d = O%[1]d?.g;`,                                      // optional chain → getter
	`var u%[1]d = N%[1]d ?? O%[1]d.g;`,                             // nullish → getter
	`var u%[1]d = Symbol() + "";`,                                  // symbol to string throws
	`var u%[1]d = 1n + 1;`,                                         // bigint mix throws
	`var u%[1]d = null.x;`,                                         // literal null member throws
	`var u%[1]d = (void 0)();`,                                     // call of undefined throws
	`let l%[1]d = L%[1]d;  let L%[1]d = 1;`,                        // TDZ (excluded by the property → discarded natively)
	`var u%[1]d = [O%[1]d.g, V%[1]d + 0].length;`,                  // nested in array literal
	`var u%[1]d = { a: { b: [S%[1]d + ""] } };`,                    // nested in object literal
	`var u%[1]d = (() => O%[1]d.g)();`,                             // IIFE
	`var u%[1]d = (function () { return V%[1]d + 1; })();`,         // IIFE
	`var u%[1]d = async function () { O%[1]d.g; };`,                // pure: function never called — decoy
	`var u%[1]d = () => V%[1]d + 1;`,                               // pure decoy
	`var u%[1]d = [1, "a", null, { b: 2 }];`,                       // pure decoy
	`function pure%[1]d() { log("never"); }`,                       // pure decoy
	`class Pure%[1]d { m() { log("never"); } static s = 1; }`,      // pure decoy (static literal field)
	`var u%[1]d = typeof undeclaredGlobal%[1]d;`,                   // pure decoy
	`let z%[1]d; var [u%[1]d = X%[1]d()] = [z%[1]d];`,            // array-pattern default, element is an identifier holding undefined
	`var [u%[1]d = X%[1]d()] = [...[]];`,                          // array-pattern default behind an empty spread
	`var [e%[1]d, u%[1]d = X%[1]d()] = [...[], 1];`,                // position shifted by a spread
	`var [u%[1]d = X%[1]d()] = [void 0];`,                          // literal undefined element
	`var [u%[1]d = X%[1]d()] = [,];`,                               // hole
	`let z%[1]d; var { k: u%[1]d = X%[1]d() } = { k: z%[1]d };`,   // object-pattern default, property holds undefined
	`var { k: u%[1]d = X%[1]d() } = {};`,                           // object-pattern default, property missing
	`var { k: { j: u%[1]d = X%[1]d() } } = { k: {} };`,             // nested pattern default
	`var [[u%[1]d = X%[1]d()]] = [[]];`,                            // nested array pattern default
	`var u%[1]d = [X%[1]d()][0];`,                                  // call inside an array literal that is then indexed
	`var u%[1]d = { a: X%[1]d() }.a;`,                              // call inside an object literal
	`var u%[1]d = false || X%[1]d();`,                              // short-circuit that does evaluate the call
	`var u%[1]d = true && X%[1]d();`,
	`var u%[1]d = null ?? X%[1]d();`,
	`var u%[1]d = 1 ? X%[1]d() : 0;`,
	`var u%[1]d = (0, X%[1]d)();`,                                  // indirect call
	`var u%[1]d = X%[1]d?.();`,                                     // optional call
	`var u%[1]d = ((a = X%[1]d()) => a)();`,                        // arrow default parameter
	`async function AF%[1]d() {} class U%[1]d extends AF%[1]d {}`,  // heritage is a bound non-constructible → TypeError (known finding)
}

// Composed coercions: every position that coerces its operand (template hole, string/number
// operators, computed keys) × every "transparent" wrapper through which the logging object S reaches
// that position while each sub-expression stays side-effect free and the static type of the wrapper is
// only approximately known (conditionals, ??, ||, &&, comma; C is a bound boolean that is true at
// run time). The purity analysis must not conclude "primitive" for any wrapper that can yield S.
var coerceCtx = []string{
	"var u%%[1]d = `${%s}`;",
	"var u%%[1]d = `a${1}b${%s}c`;",
	`var u%%[1]d = "" + %s;`,
	`var u%%[1]d = %s + 1;`,
	`var u%%[1]d = -%s;`,
	`var u%%[1]d = %s == 1;`,
	`var u%%[1]d = %s < 2;`,
	`var u%%[1]d = { [%s]: 1 };`,
	`var u%%[1]d = %s | 0;`,
}

var coerceWrap = []string{
	`((C%[1]d ? null : 1) ?? S%[1]d)`,
	`((C%[1]d ? void 0 : "a") ?? S%[1]d)`,
	`(C%[1]d ? S%[1]d : 1)`,
	`(C%[1]d ? 1 : S%[1]d)`, // decoy: yields 1
	`(C%[1]d && S%[1]d)`,
	`(!C%[1]d || S%[1]d)`,
	`((C%[1]d ? null : 1) || S%[1]d)`,
	`((C%[1]d ? 1 : null) && S%[1]d)`,
	`(null ?? S%[1]d)`,
	`(1, S%[1]d)`,
	`((C%[1]d ? null : 1) ?? (C%[1]d ? S%[1]d : 2))`,
}

func init() {
	for _, ctx := range coerceCtx {
		for _, w := range coerceWrap {
			hidden = append(hidden, fmt.Sprintf(ctx, w))
		}
	}
}

// signature of known finding C04-class-extends-non-constructible: an unused class whose heritage is an
// identifier bound to an async function (evaluating the class throws a TypeError)
var extendsNonConstructible = regexp.MustCompile(`async function (AF\d+)\(\) \{\} class U\d+ extends AF\d+ \{\}`)

func nonThrowing() []string {
	var out []string
	for _, st := range hidden {
		throws := false
		for _, marker := range []string{"AF%[1]d", "N%[1]d", "= null;", "undeclaredGlobal%[1]d;", "Symbol() +", "1n + 1", "null.x", "(void 0)()", "L%[1]d"} {
			if strings.Contains(st, marker) {
				throws = true
			}
		}
		if !throws {
			out = append(out, st)
		}
	}
	return out
}

// prelude defines the helper objects used by a hidden statement with id n (only referenced ones are emitted)
func prelude(n int, stmt string) string {
	var sb strings.Builder
	has := func(s string) bool { return strings.Contains(stmt, fmt.Sprintf("%s%d", s, n)) }
	if has("O") {
		fmt.Fprintf(&sb, `var O%[1]d = { get g() { log("getter %[1]d"); return 1; }, set s(v) { log("setter %[1]d"); }, get n() { log("get n %[1]d"); return 1; }, set n(v) { log("set n %[1]d"); }, g2: 1 };`+"\n", n)
	}
	if has("K") {
		fmt.Fprintf(&sb, `var K%[1]d = { toString() { log("key toString %[1]d"); return "k"; } };`+"\n", n)
	}
	if has("S") {
		fmt.Fprintf(&sb, `var S%[1]d = { toString() { log("toString %[1]d"); return "s"; } };`+"\n", n)
	}
	if has("V") {
		fmt.Fprintf(&sb, `var V%[1]d = { valueOf() { log("valueOf %[1]d"); return 1; } };`+"\n", n)
	}
	if has("C") {
		fmt.Fprintf(&sb, `var C%[1]d = Math.random() < 2;`+"\n", n)
	}
	if has("I") {
		fmt.Fprintf(&sb, `var I%[1]d = { [Symbol.iterator]() { log("iterator %[1]d"); return [1][Symbol.iterator](); } };`+"\n", n)
	}
	if has("N") {
		fmt.Fprintf(&sb, `var N%[1]d = Math.random() < 2 ? undefined : {};`+"\n", n)
	}
	if has("X") {
		fmt.Fprintf(&sb, `function X%[1]d() { log("called X%[1]d"); return Object; }`+"\n", n)
	}
	if has("T") {
		fmt.Fprintf(&sb, `function T%[1]d(s) { log("tag %[1]d"); return s; }`+"\n", n)
	}
	if has("P") {
		fmt.Fprintf(&sb, `var P%[1]d = new Proxy({}, { ownKeys() { log("ownKeys %[1]d"); return []; } });`+"\n", n)
	}
	return sb.String()
}

type Case struct {
	Files       map[string]string `json:"files"`
	Entry       string            `json:"entry"`
	Format      string            `json:"format"`
	Minify      bool              `json:"minify"`
	TreeShaking string            `json:"tree_shaking"` // default | true | false
	Annotated   []string          `json:"annotated_tags,omitempty"` // event tags that annotations allow to disappear
	Labels      []string          `json:"labels,omitempty"`
}

func (c Case) build(src string, ts string) api.BuildResult {
	o := api.BuildOptions{LogLevel: api.LogLevelSilent, Write: false, Bundle: true, AbsWorkingDir: src, EntryPoints: []string{"./" + c.Entry}, Outfile: "out.js", Platform: api.PlatformNode}
	o.Engines = []api.Engine{{Name: api.EngineNode, Version: "20.0.0"}}
	switch c.Format {
	case "esm":
		o.Format = api.FormatESModule
	case "cjs":
		o.Format = api.FormatCommonJS
	default:
		o.Format = api.FormatIIFE
		o.GlobalName = "BUNDLE_NS"
	}
	switch ts {
	case "true":
		o.TreeShaking = api.TreeShakingTrue
	case "false":
		o.TreeShaking = api.TreeShakingFalse
	}
	if c.Minify {
		o.MinifySyntax, o.MinifyWhitespace, o.MinifyIdentifiers = true, true, true
	}
	return api.Build(o)
}

func runBundle(dir string, c Case, out []byte, tag string) (*noderun.FileRun, error) {
	outDir := filepath.Join(dir, "out-"+tag)
	os.MkdirAll(outDir, 0o755)
	var step noderun.Step
	switch c.Format {
	case "esm":
		step = noderun.Step{Kind: "import", File: filepath.Join(outDir, "out.mjs")}
	case "cjs":
		step = noderun.Step{Kind: "require", File: filepath.Join(outDir, "out.cjs")}
	default:
		step = noderun.Step{Kind: "script", File: filepath.Join(outDir, "out.js"), GlobalName: "BUNDLE_NS"}
	}
	if err := os.WriteFile(step.File, out, 0o644); err != nil {
		return nil, err
	}
	return FW.Run([]noderun.Step{step})
}

func dropUnhandled(tr string) string {
	var keep []string
	for _, l := range strings.Split(tr, "\n") {
		if strings.HasPrefix(l, "unhandled:") || strings.Contains(l, " EXPORTS ") { // exports are C02's subject
			continue
		}
		keep = append(keep, l)
	}
	return strings.Join(keep, "\n")
}

// subsequenceMissing checks that got is a subsequence of ref and returns the ref lines that are missing.
func subsequenceMissing(ref, got string) ([]string, bool) {
	r, g := strings.Split(ref, "\n"), strings.Split(got, "\n")
	var missing []string
	j := 0
	for _, line := range r {
		if j < len(g) && g[j] == line {
			j++
		} else {
			missing = append(missing, line)
		}
	}
	return missing, j == len(g)
}

func judge(c Case) vdrv.Verdict {
	dir, err := os.MkdirTemp("", "c04-")
	if err != nil {
		return vdrv.Skip("tmpdir")
	}
	defer os.RemoveAll(dir)
	src := filepath.Join(dir, "src")
	for name, s := range c.Files {
		p := filepath.Join(src, name)
		os.MkdirAll(filepath.Dir(p), 0o755)
		if os.WriteFile(p, []byte(s), 0o644) != nil {
			return vdrv.Skip("tmpdir-write")
		}
	}
	ref, err := FW.Run([]noderun.Step{{Kind: "import", File: filepath.Join(src, c.Entry)}})
	if err != nil {
		return vdrv.Skip("node-infra")
	}
	if ref.TimedOut || ref.Overflow {
		return vdrv.Skip("reference-timeout")
	}
	if len(ref.Steps) == 1 && ref.Steps[0].LoadError != "" {
		return vdrv.Skip("native-load-error")
	}
	refTrace := dropUnhandled(ref.Trace())
	if strings.Contains(refTrace, "err:ReferenceError") && strings.Contains(strings.Join(c.Labels, ","), "tdz") {
		return vdrv.Skip("tdz-dependent")
	}
	shaken := c.build(src, c.TreeShaking)
	if len(shaken.Errors) > 0 {
		return vdrv.Fail("esbuild refuses to bundle: "+shaken.Errors[0].Text, refTrace, fmt.Sprint(shaken.Errors))
	}
	unshaken := c.build(src, "false")
	if len(unshaken.Errors) > 0 || len(shaken.OutputFiles) != 1 || len(unshaken.OutputFiles) != 1 {
		return vdrv.Skip("unshaken-build-failed")
	}
	out := string(shaken.OutputFiles[0].Contents)
	got, err := runBundle(dir, c, shaken.OutputFiles[0].Contents, "on")
	if err != nil {
		return vdrv.Skip("node-infra")
	}
	gotOff, err := runBundle(dir, c, unshaken.OutputFiles[0].Contents, "off")
	if err != nil {
		return vdrv.Skip("node-infra")
	}
	gt, gtOff := dropUnhandled(got.Trace()), dropUnhandled(gotOff.Trace())
	cls := append([]string{"format=" + c.Format, "ts=" + c.TreeShaking}, c.Labels...)
	removed := len(out) < len(unshaken.OutputFiles[0].Contents)
	if removed {
		cls = append(cls, "something-removed")
	}
	// (2) static: the output references no binding whose declaration was removed
	isModule := c.Format == "esm"
	if prog, perr := jsref.Parse(out, jsref.Options{Module: isModule}); perr == nil {
		allowed := map[string]bool{"require": true, "module": true, "exports": true, "__filename": true, "__dirname": true, "log": true, "p": true}
		for _, s := range c.Files {
			if ip, e := jsref.Parse(s, jsref.Options{Module: true}); e == nil {
				for _, n := range ip.FreeNames {
					allowed[n] = true
				}
			}
		}
		var bad []string
		for _, n := range prog.FreeNames {
			if !allowed[n] && !globalNames[n] {
				bad = append(bad, n)
			}
		}
		if len(bad) > 0 {
			sort.Strings(bad)
			return vdrv.Fail("the bundle references names that are bound nowhere (removed declarations?): "+strings.Join(bad, ", "), "no dangling references", out)
		}
	} else {
		cls = append(cls, "jsref-gap")
	}
	// (1)/(3) behaviour
	if len(c.Annotated) == 0 {
		if gtOff != refTrace {
			// the un-shaken bundle itself differs from native: a C02 matter, not a tree-shaking verdict
			return vdrv.Skip("unshaken-bundle-differs-from-native")
		}
		if gt == refTrace {
			v := vdrv.Pass(removed && len(ref.Events) >= 2, cls...)
			v.Observed = fmt.Sprintf("%d events; shaken %d bytes vs %d", len(ref.Events), len(out), len(unshaken.OutputFiles[0].Contents))
			return v
		}
		v := vdrv.Fail("tree shaking changed behaviour (native == unshaken bundle != shaken bundle)", refTrace, gt+"\n--- shaken bundle\n"+out)
		for _, f := range c.Files {
			if extendsNonConstructible.MatchString(f) && strings.Contains(refTrace, "err:TypeError") {
				v.Known = "C04-class-extends-non-constructible"
			}
		}
		return v
	}
	// with annotations: the bundle's trace must be a subsequence of the native one and every missing event must carry an annotated tag
	missing, ok := subsequenceMissing(refTrace, gt)
	if !ok {
		return vdrv.Fail("annotated build: bundle trace is not a subsequence of the native trace", refTrace, gt+"\n--- bundle\n"+out)
	}
	for _, m := range missing {
		okTag := false
		for _, tag := range c.Annotated {
			if strings.Contains(m, tag) {
				okTag = true
			}
		}
		if !okTag && strings.TrimSpace(m) != "" && !strings.Contains(m, "EXPORTS") {
			return vdrv.Fail("annotated build: an event outside the annotated code disappeared: "+m, refTrace, gt+"\n--- bundle\n"+out)
		}
	}
	if len(missing) > 0 {
		cls = append(cls, "annotated-code-removed")
	}
	return vdrv.Pass(removed, cls...)
}

func replay(raw json.RawMessage) vdrv.Verdict {
	var c Case
	if json.Unmarshal(raw, &c) != nil {
		return vdrv.Skip("bad-replay")
	}
	return judge(c)
}

func key(c Case) string {
	var names []string
	for n := range c.Files {
		names = append(names, n)
	}
	sort.Strings(names)
	var sb strings.Builder
	for _, n := range names {
		sb.WriteString(n + "\x00" + c.Files[n] + "\x00")
	}
	return sb.String() + c.Format + c.TreeShaking + fmt.Sprint(c.Minify)
}

// libModule builds a library module with used exports, hidden-effect statements and decoys.
func libModule(tag string, ids []int, stmts []string, exported bool) string {
	var sb strings.Builder
	fmt.Fprintf(&sb, "log(\"%s:start\");\n", tag)
	fmt.Fprintf(&sb, "export var used_%s = \"%s\";\nexport function fn_%s() { return \"fn %s\"; }\n", tag, tag, tag, tag)
	for i, st := range stmts {
		s := fmt.Sprintf(st, ids[i])
		sb.WriteString(prelude(ids[i], s))
		if exported && i%3 == 0 && strings.HasPrefix(s, "var u") {
			s = "export " + s // exported but never imported by anyone
		}
		sb.WriteString("try_" + fmt.Sprint(ids[i]) + ": { " + "}\n") // harmless labelled block keeps statements apart
		sb.WriteString(s + "\n")
	}
	fmt.Fprintf(&sb, "log(\"%s:end\");\n", tag)
	return sb.String()
}

func runHidden(t *testing.T) {
	H.Rule("hidden", fmt.Sprintf("bounded-exhaustive (sliced by seed in quick): each of %d hidden-effect statement forms (the syntactic positions the purity analysis inspects: spread getter, computed key, template hole, +/==/< coercion, in/instanceof, property reads, destructuring defaults and computed pattern keys, iterators, class static blocks / static fields / computed member names / heritage, default parameters, tagged templates, new, unbound globals, typeof guards, delete, setters, proxies, throwing literals, IIFEs, plus pure decoys; and 9 coercing positions × 11 transparent wrappers — conditional, ??, ||, &&, comma — through which a logging object reaches the position) as an UNUSED top-level declaration of a library module × {plain, exported-but-unused} × tree-shaking {default,true} × format × minify; oracle: native Node trace == un-shaken bundle trace == shaken bundle trace, and the output has no free identifier that the inputs do not have; non-trivial = the shaken output is smaller than the un-shaken one and ≥2 events", len(hidden)))
	i := 0
	for hi, st := range hidden {
		for _, exported := range []bool{false, true} {
			for _, ts := range []string{"default", "true"} {
				for _, format := range []string{"esm", "cjs", "iife"} {
					for _, minify := range []bool{false, true} {
						i++
						if !H.MySlice(i) {
							continue
						}
						if !H.Thorough() && uint64(i/H.NShards)%3 != H.Seed%3 {
							continue
						}
						lib := libModule("lib", []int{100 + hi, 900}, []string{st, `var u%[1]d = [1, 2, 3];`}, exported)
						entry := "import { used_lib } from \"./lib.mjs\";\nlog(\"entry sees\", used_lib);\n"
						labels := []string{fmt.Sprintf("form%02d", hi)}
						if strings.Contains(st, "L%[1]d") {
							labels = append(labels, "tdz")
						}
						c := Case{Files: map[string]string{"entry.mjs": entry, "lib.mjs": lib}, Entry: "entry.mjs", Format: format, Minify: minify, TreeShaking: ts, Labels: labels}
						H.Report(t, "hidden", key(c), c, judge(c))
					}
				}
			}
		}
	}
	H.Exhaustive("hidden", H.Thorough())
}

func runMixed(t *testing.T) {
	H.Rule("mixed", "rapid: 2–4 library modules each with 1–5 hidden-effect statements and decoys in random order, chained by imports / re-exports / side-effect imports / unused imports, entry using a random subset of exports × tree-shaking × format × minify; same oracle")
	H.SetupRapid("mixed", H.N(1200, 80000))
	rapid.Check(t, func(rt *rapid.T) {
		n := rapid.IntRange(2, 4).Draw(rt, "nlibs")
		files := map[string]string{}
		var entry strings.Builder
		id := 0
		var labels []string
		for li := 0; li < n; li++ {
			tag := fmt.Sprintf("lib%d", li)
			k := rapid.IntRange(1, 5).Draw(rt, "nstmts")
			var ids []int
			var stmts []string
			for j := 0; j < k; j++ {
				id++
				ids = append(ids, id)
				st := rapid.SampledFrom(hidden).Draw(rt, "stmt")
				if strings.Contains(st, "L%[1]d") {
					st = hidden[0]
				}
				stmts = append(stmts, st)
			}
			body := libModule(tag, ids, stmts, rapid.Bool().Draw(rt, "exported"))
			if li+1 < n {
				switch rapid.IntRange(0, 3).Draw(rt, "link") {
				case 0:
					body = fmt.Sprintf("import { used_lib%d } from \"./lib%d.mjs\";\n", li+1, li+1) + body + fmt.Sprintf("export var via_%s = used_lib%d;\n", tag, li+1)
				case 1:
					body = fmt.Sprintf("export * from \"./lib%d.mjs\";\n", li+1) + body
				case 2:
					body = fmt.Sprintf("import \"./lib%d.mjs\";\n", li+1) + body
				default:
					body = fmt.Sprintf("import { fn_lib%d } from \"./lib%d.mjs\";\n", li+1, li+1) + body // imported but unused
					labels = append(labels, "unused-import")
				}
			}
			files[tag+".mjs"] = body
		}
		switch rapid.IntRange(0, 2).Draw(rt, "entryuse") {
		case 0:
			entry.WriteString("import { used_lib0 } from \"./lib0.mjs\";\nlog(\"entry sees\", used_lib0);\n")
		case 1:
			entry.WriteString("import * as ns from \"./lib0.mjs\";\nlog(\"entry sees\", ns.fn_lib0());\n")
		default:
			entry.WriteString("import { fn_lib0 as unusedImport } from \"./lib0.mjs\";\nlog(\"entry runs\");\n")
			labels = append(labels, "entry-uses-nothing")
		}
		files["entry.mjs"] = entry.String()
		c := Case{Files: files, Entry: "entry.mjs", Labels: labels}
		c.Format = rapid.SampledFrom([]string{"esm", "cjs", "iife"}).Draw(rt, "format")
		c.Minify = rapid.Bool().Draw(rt, "minify")
		c.TreeShaking = rapid.SampledFrom([]string{"default", "true"}).Draw(rt, "ts")
		H.Report(rt, "mixed", key(c), c, judge(c))
	})
}

func runAnnotated(t *testing.T) {
	H.Rule("annotated", "rapid: the same libraries placed in packages with package.json sideEffects (false, array of globs matching or not matching the file), and unused /* @__PURE__ */ calls and /* @__NO_SIDE_EFFECTS__ */ functions whose arguments carry probes; oracle: the bundle's trace is a subsequence of the native trace and every missing event carries the tag of an annotated module or call")
	H.SetupRapid("annotated", H.N(800, 50000))
	rapid.Check(t, func(rt *rapid.T) {
		files := map[string]string{}
		var annotated []string
		// package pkgA: module unused by the entry
		se := rapid.SampledFrom([]string{"false", "[]", `["./other.mjs"]`, `["./a.mjs"]`, `["*.mjs"]`, "true"}).Draw(rt, "sideEffects")
		files["node_modules/pkga/package.json"] = fmt.Sprintf(`{"name":"pkga","type":"module","main":"./a.mjs","sideEffects":%s}`, se)
		// a statement that throws aborts everything after it natively, so removing it (which the annotation
		// permits) legitimately makes MORE events appear: only logging forms are used here
		st := rapid.SampledFrom(nonThrowing()).Draw(rt, "stmt")
		files["node_modules/pkga/a.mjs"] = libModule("pkga", []int{7777}, []string{st}, false)
		removable := se == "false" || se == "[]" || se == `["./other.mjs"]`
		use := rapid.Bool().Draw(rt, "usePkg")
		var entry strings.Builder
		if use {
			entry.WriteString("import { used_pkga } from \"pkga\";\nlog(\"entry sees\", used_pkga);\n")
		} else {
			entry.WriteString("import { used_pkga as unusedName } from \"pkga\";\n")
		}
		if removable {
			// a file declared side-effect free: whether or not one of its exports is used, every statement
			// that is not needed for a used export may be dropped, so any of its events may vanish
			annotated = append(annotated, "pkga", "7777")
		}
		// pure-annotated call with probing arguments
		entry.WriteString("function helper(x) { log(\"helper called PUREZONE\"); return x; }\n")
		if rapid.Bool().Draw(rt, "pureUnused") {
			entry.WriteString("var unusedResult = /* @__PURE__ */ helper(p(\"PUREZONE-arg\", 1));\n")
			annotated = append(annotated, "PUREZONE")
		} else {
			entry.WriteString("var usedResult = /* @__PURE__ */ helper(p(\"PUREZONE-arg\", 1)); log(\"used\", usedResult);\n")
		}
		entry.WriteString("/* @__NO_SIDE_EFFECTS__ */ function nse(x) { log(\"nse called NSEZONE\"); return x; }\n")
		if rapid.Bool().Draw(rt, "nseUnused") {
			entry.WriteString("var unusedNse = nse(p(\"NSEZONE-arg\", 2));\n")
			annotated = append(annotated, "NSEZONE")
		} else {
			entry.WriteString("log(\"nse result\", nse(p(\"NSEZONE-arg\", 2)));\n")
		}
		entry.WriteString("log(\"entry end\");\n")
		files["entry.mjs"] = entry.String()
		c := Case{Files: files, Entry: "entry.mjs", Labels: []string{"sideEffects=" + se}}
		c.Annotated = annotated
		if len(c.Annotated) == 0 {
			c.Annotated = []string{"\x00never-matches"}
		}
		c.Format = rapid.SampledFrom([]string{"esm", "cjs", "iife"}).Draw(rt, "format")
		c.Minify = rapid.Bool().Draw(rt, "minify")
		c.TreeShaking = rapid.SampledFrom([]string{"default", "true"}).Draw(rt, "ts")
		H.Report(rt, "annotated", key(c), c, judge(c))
	})
}

var subs = map[string]vdrv.ReplayFunc{"hidden": replay, "mixed": replay, "annotated": replay}

func setup(t *testing.T) {
	H = vdrv.New("C04")
	if noderun.NodePath() == "" {
		t.Fatalf("INFRA: node not found")
	}
	FW = noderun.NewFileWorker("")
	// names a fresh V8 global object has: helpers emitted by esbuild may use them
	w, err := noderun.Start("")
	if err != nil {
		t.Fatalf("INFRA: %v", err)
	}
	defer w.Close()
	r, err := w.Call(noderun.Req{Kind: "script", Code: "log(Object.getOwnPropertyNames(globalThis).join(','))"})
	if err != nil || len(r.Events) == 0 {
		t.Fatalf("INFRA: cannot list globals")
	}
	globalNames = map[string]bool{"globalThis": true, "undefined": true, "NaN": true, "Infinity": true, "require": true, "process": true, "Buffer": true, "setTimeout": true, "console": true}
	for _, n := range strings.Split(strings.Trim(strings.TrimPrefix(r.Events[0], "s:"), "\""), ",") {
		globalNames[n] = true
	}
}

func TestCheck(t *testing.T) {
	setup(t)
	defer FW.Close()
	complete := false
	defer func() { H.Finish(complete) }()
	H.RunReplays(t, subs)
	H.Sub(t, "hidden", runHidden)
	H.Sub(t, "mixed", runMixed)
	H.Sub(t, "annotated", runAnnotated)
	complete = true
}

func TestReplay(t *testing.T) {
	setup(t)
	defer FW.Close()
	H.ReplayOne(t, subs)
}

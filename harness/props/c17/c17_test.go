// C17 — builds never clobber inputs; failed builds write nothing. See DESIGN.md section 5 / C17.
package c17

import (
	"encoding/json"
	"errors"
	"fmt"
	"os"
	"path/filepath"
	"sort"
	"strings"
	"sync"
	"testing"
	"time"

	"github.com/evanw/esbuild/pkg/api"
	"github.com/evanw/esbuild/pkg/cli"
	"github.com/evanw/esbuild/verif/fsgen"
	"github.com/evanw/esbuild/verif/vdrv"
	"pgregory.net/rapid"
)

var H *vdrv.H

// The project lives two levels below the snapshot root so that outputs that escape through ".." segments in
// name templates are still inside the snapshot.
const projDir = "w/p"

// ------------------------------------------------------------------------------------ case

type Spec struct {
	Entries          []string          `json:"entries"`
	Outdir           string            `json:"outdir,omitempty"`
	Outfile          string            `json:"outfile,omitempty"`
	Outbase          string            `json:"outbase,omitempty"`
	OutExtJS         string            `json:"out_extension_js,omitempty"`
	EntryNames       string            `json:"entry_names,omitempty"`
	AssetNames       string            `json:"asset_names,omitempty"`
	ChunkNames       string            `json:"chunk_names,omitempty"`
	Loaders          map[string]string `json:"loaders,omitempty"` // ext → file | copy | text
	Bundle           bool              `json:"bundle,omitempty"`
	Splitting        bool              `json:"splitting,omitempty"`
	Format           string            `json:"format,omitempty"`
	Sourcemap        string            `json:"sourcemap,omitempty"`
	Write            bool              `json:"write"`
	AllowOverwrite   bool              `json:"allow_overwrite,omitempty"`
	PreserveSymlinks bool              `json:"preserve_symlinks,omitempty"`
	OnEndError       bool              `json:"on_end_error,omitempty"` // a plugin's on-end callback returns an error
	Cancel           bool              `json:"cancel,omitempty"`       // context mode: Cancel() while the first module loads
}

type Case struct {
	Mode  string     `json:"mode"` // build | context | cli
	Init  []fsgen.Op `json:"init"` // paths relative to the snapshot root (the project is at w/p)
	Spec  Spec       `json:"spec"`
	Steps []Step     `json:"steps,omitempty"` // context mode: edits before each further rebuild
	Mech  string     `json:"mechanism,omitempty"`
}

// Step is what happens between two rebuilds of a context.
type Step struct {
	Ops []fsgen.Op `json:"ops,omitempty"`
	// Tamper: "delete-output" / "modify-output" removes / rewrites the first (in path order) regular file that an earlier
	// build of the context wrote and that is not an input; the next rebuild must leave every reported output on disk again.
	Tamper string `json:"tamper,omitempty"`
}

var loaderByName = map[string]api.Loader{"file": api.LoaderFile, "copy": api.LoaderCopy, "text": api.LoaderText, "js": api.LoaderJS, "css": api.LoaderCSS}

func buildOptions(root string, s Spec) api.BuildOptions {
	b := api.BuildOptions{
		AbsWorkingDir: root, EntryPoints: s.Entries, Outdir: s.Outdir, Outfile: s.Outfile, Outbase: s.Outbase,
		EntryNames: s.EntryNames, AssetNames: s.AssetNames, ChunkNames: s.ChunkNames,
		Bundle: s.Bundle, Splitting: s.Splitting, Write: s.Write, AllowOverwrite: s.AllowOverwrite, PreserveSymlinks: s.PreserveSymlinks,
		Metafile: true, LogLevel: api.LogLevelSilent,
	}
	if s.OutExtJS != "" {
		b.OutExtension = map[string]string{".js": s.OutExtJS}
	}
	if len(s.Loaders) > 0 {
		b.Loader = map[string]api.Loader{}
		for ext, l := range s.Loaders {
			b.Loader[ext] = loaderByName[l]
		}
	}
	switch s.Format {
	case "esm":
		b.Format = api.FormatESModule
	case "cjs":
		b.Format = api.FormatCommonJS
	case "iife":
		b.Format = api.FormatIIFE
	}
	switch s.Sourcemap {
	case "linked":
		b.Sourcemap = api.SourceMapLinked
	case "external":
		b.Sourcemap = api.SourceMapExternal
	case "inline":
		b.Sourcemap = api.SourceMapInline
	}
	return b
}

func cliArgs(root string, s Spec) []string {
	abs := func(p string) string { return filepath.Join(root, p) }
	args := []string{"--log-level=silent"}
	for _, e := range s.Entries {
		args = append(args, abs(e))
	}
	if s.Outdir != "" {
		args = append(args, "--outdir="+abs(s.Outdir))
	}
	if s.Outfile != "" {
		args = append(args, "--outfile="+abs(s.Outfile))
	}
	if s.Outbase != "" {
		args = append(args, "--outbase="+abs(s.Outbase))
	}
	if s.OutExtJS != "" {
		args = append(args, "--out-extension:.js="+s.OutExtJS)
	}
	if s.EntryNames != "" {
		args = append(args, "--entry-names="+s.EntryNames)
	}
	if s.AssetNames != "" {
		args = append(args, "--asset-names="+s.AssetNames)
	}
	if s.ChunkNames != "" {
		args = append(args, "--chunk-names="+s.ChunkNames)
	}
	exts := make([]string, 0, len(s.Loaders))
	for ext := range s.Loaders {
		exts = append(exts, ext)
	}
	sort.Strings(exts)
	for _, ext := range exts {
		args = append(args, "--loader:"+ext+"="+s.Loaders[ext])
	}
	if s.Bundle {
		args = append(args, "--bundle")
	}
	if s.Splitting {
		args = append(args, "--splitting")
	}
	if s.Format != "" {
		args = append(args, "--format="+s.Format)
	}
	if s.Sourcemap != "" {
		args = append(args, "--sourcemap="+s.Sourcemap)
	}
	if s.AllowOverwrite {
		args = append(args, "--allow-overwrite")
	}
	if s.PreserveSymlinks {
		args = append(args, "--preserve-symlinks")
	}
	return args
}

// ------------------------------------------------------------------------------------ oracle

const knownSymlink = "C17-symlink-alias-overwrites-input"

// observation is what one build did, from the harness's point of view.
type observation struct {
	label     string
	result    api.BuildResult
	shown     []api.OutputFile // OutputFiles an on-end callback was shown (observer plugin)
	shownErrs int
	sawOnEnd  bool
	delta     fsgen.Delta
	before    fsgen.Snap
	after     fsgen.Snap
	wrote     bool // the build was allowed to write (Write:true, or the CLI)
}

type state struct {
	top, root string
	spec      Spec
	written   map[string]bool // real paths (relative to top) that earlier builds of the same context wrote
	extra     map[string]bool // paths a successful run may write besides its outputs (the CLI's --metafile)
	inputs    map[string]bool // real paths of the files that any build so far listed as inputs
	metaBase  string          // directory the metafile's input paths are relative to (the working directory of the build)
}

func (st *state) rel(abs string) string {
	r, err := filepath.Rel(st.top, fsgen.RealPath(abs))
	if err != nil {
		return abs
	}
	return filepath.ToSlash(r)
}

func hasDotDot(t string) bool {
	for _, seg := range strings.Split(filepath.ToSlash(t), "/") {
		if seg == ".." {
			return true
		}
	}
	return false
}

func lexInside(dir, p string) bool {
	r, err := filepath.Rel(dir, p)
	return err == nil && r != ".." && !strings.HasPrefix(r, ".."+string(filepath.Separator))
}

type metaInputs struct {
	Inputs map[string]json.RawMessage `json:"inputs"`
}

// check applies the C17 oracle to one observed build. outputs = the OutputFiles that the build reported (for a build whose
// on-end callback failed: the ones the callback was shown). It returns a verdict only when something is wrong.
func (st *state) check(o observation) *vdrv.Verdict {
	fail := func(format string, args ...interface{}) *vdrv.Verdict {
		detail := fmt.Sprintf("%s: ", o.label) + fmt.Sprintf(format, args...)
		v := vdrv.Fail(detail, "", fmt.Sprintf("delta: %s\nerrors: %s\noutputs: %s", o.delta.String(), msgTexts(o.result.Errors), outputNames(st, o.result.OutputFiles)))
		return &v
	}
	// An I/O error while writing (disk full, a directory in the way of an output file, ...) is reported as a build error
	// after some files have been written. Such environments are outside the property's domain; the generators do not
	// produce them, and if one happens anyway the case is not judged.
	for _, e := range o.result.Errors {
		if strings.HasPrefix(e.Text, "Failed to write to output file") || strings.HasPrefix(e.Text, "Failed to create output directory") {
			v := vdrv.Skip("io-error-while-writing")
			return &v
		}
	}
	outputs := o.result.OutputFiles
	failedBeforeWrite := len(o.result.Errors) > 0
	if o.sawOnEnd {
		// what the callbacks saw is what the write decision was based on (errors added by a failing on-end callback come later)
		outputs = o.shown
		failedBeforeWrite = o.shownErrs > 0
	}
	isFile := func(s fsgen.Snap, p string) bool {
		return s[p].Kind == "file" || s[p].Kind == "symlink" || s[p].Kind == "other"
	}

	// deletions: only files written by an earlier build of the same context that are not outputs of this build
	current := map[string]bool{}
	if !failedBeforeWrite {
		for _, f := range outputs {
			current[st.rel(f.Path)] = true
		}
	}
	for _, p := range o.delta.Deleted {
		if !o.wrote {
			return fail("a build that must not write deleted %s", p)
		}
		if !st.written[p] || current[p] {
			return fail("the build deleted %s, which no earlier build of this context wrote (or which is a current output)", p)
		}
	}

	if !o.wrote || failedBeforeWrite {
		why := "has writing disabled"
		if failedBeforeWrite {
			why = "reports errors"
		}
		if len(o.delta.Created) > 0 || len(o.delta.Modified) > 0 {
			return fail("a build that %s created or modified files: created %v, modified %v", why, o.delta.Created, o.delta.Modified)
		}
		return nil
	}

	// successful writing build: every reported output is on disk with the reported bytes
	expect := map[string]string{} // real path → hash
	lexical := map[string]string{}
	for _, f := range outputs {
		p := st.rel(f.Path)
		h := fsgen.Hash(f.Contents)
		if prev, dup := expect[p]; dup && prev != h {
			v := fail("two outputs with different contents are written to one path %s (reported as %s and %s)", p, lexical[p], f.Path)
			// known finding: the two outputs meet only through a symlinked directory (esbuild compares the path strings)
			if filepath.Clean(lexical[p]) != filepath.Clean(f.Path) {
				v.Known = knownSymlink
			}
			return v
		}
		expect[p] = h
		lexical[p] = f.Path
	}
	for _, f := range outputs {
		p := st.rel(f.Path)
		e, ok := o.after[p]
		if !ok || e.Kind != "file" {
			return fail("reported output %s is not a regular file on disk after the build", p)
		}
		if e.SHA256 != expect[p] {
			return fail("reported output %s has different bytes on disk (%d bytes on disk, %d reported)", p, e.Size, len(f.Contents))
		}
	}
	// nothing else was created or modified
	for _, p := range append(append([]string{}, o.delta.Created...), o.delta.Modified...) {
		if _, ok := expect[p]; ok {
			continue
		}
		if st.extra[p] {
			continue
		}
		if o.after[p].Kind == "dir" {
			// a new directory must be an ancestor of a reported output; an existing one must keep its mode
			anc := false
			for q := range expect {
				anc = anc || strings.HasPrefix(q, p+"/")
			}
			if _, existed := o.before[p]; !existed && anc {
				continue
			}
			return fail("the build created or changed directory %s (holds one of its outputs: %v)", p, anc)
		}
		if isFile(o.after, p) {
			return fail("the build created or modified %s, which is not among its reported outputs", p)
		}
	}
	// outputs stay inside the output directory when no template has a ".." segment
	if !hasDotDot(st.spec.EntryNames) && !hasDotDot(st.spec.AssetNames) && !hasDotDot(st.spec.ChunkNames) {
		outdir := filepath.Join(st.root, st.spec.Outdir)
		if st.spec.Outfile != "" {
			outdir = filepath.Dir(filepath.Join(st.root, st.spec.Outfile))
		}
		for _, f := range outputs {
			if !lexInside(outdir, f.Path) {
				return fail("output %s lies outside the output directory %s although no name template has a \"..\" segment", f.Path, outdir)
			}
		}
	}
	// inputs are never overwritten unless AllowOverwrite
	if o.result.Metafile != "" {
		var mi metaInputs
		if json.Unmarshal([]byte(o.result.Metafile), &mi) == nil {
			keys := make([]string, 0, len(mi.Inputs))
			for k := range mi.Inputs {
				keys = append(keys, k)
			}
			sort.Strings(keys)
			changed := map[string]bool{}
			for _, p := range append(append([]string{}, o.delta.Modified...), o.delta.Deleted...) {
				changed[p] = true
			}
			for _, k := range keys {
				if strings.Contains(k, ":") && !strings.HasPrefix(k, "/") {
					continue // not a file-system input
				}
				lex := filepath.Join(st.metaBase, k)
				p := st.rel(lex)
				st.inputs[p] = true
				if st.spec.AllowOverwrite || !changed[p] {
					continue
				}
				v := fail("input file %s was overwritten although AllowOverwrite is off", p)
				// known finding: the output reaches the input only through a symlinked directory, i.e. some output has the same
				// real path as the input while the two path strings that esbuild compares differ
				for _, f := range outputs {
					if st.rel(f.Path) == p && filepath.Clean(f.Path) != filepath.Clean(lex) {
						v.Known = knownSymlink
					}
				}
				return v
			}
		}
	}
	for p := range expect {
		st.written[p] = true
	}
	return nil
}

func msgTexts(ms []api.Message) string {
	var t []string
	for _, m := range ms {
		t = append(t, m.Text)
	}
	return strings.Join(t, " | ")
}

func outputNames(st *state, fs []api.OutputFile) string {
	var t []string
	for _, f := range fs {
		t = append(t, fmt.Sprintf("%s(%d)", st.rel(f.Path), len(f.Contents)))
	}
	return strings.Join(t, " ")
}

// ------------------------------------------------------------------------------------ judge

type observer struct {
	shown     []api.OutputFile
	shownErrs int
	metafile  string
	saw       bool
}

func (ob *observer) plugin(failOnEnd bool, onFirstLoad func()) api.Plugin {
	return api.Plugin{Name: "c17-observer", Setup: func(b api.PluginBuild) {
		if onFirstLoad != nil {
			b.OnLoad(api.OnLoadOptions{Filter: `.*`}, func(args api.OnLoadArgs) (api.OnLoadResult, error) {
				onFirstLoad() // the callback itself decides whether it is armed
				return api.OnLoadResult{}, nil
			})
		}
		b.OnEnd(func(r *api.BuildResult) (api.OnEndResult, error) {
			ob.saw = true
			ob.shownErrs = len(r.Errors)
			ob.metafile = r.Metafile
			ob.shown = nil
			for _, f := range r.OutputFiles {
				ob.shown = append(ob.shown, api.OutputFile{Path: f.Path, Contents: append([]byte{}, f.Contents...)})
			}
			if failOnEnd {
				return api.OnEndResult{}, errors.New("on-end callback failed")
			}
			return api.OnEndResult{}, nil
		})
	}}
}

func judge(c Case) vdrv.Verdict {
	top, err := fsgen.MkdirScratch("c17-")
	if err != nil {
		return vdrv.Skip("tempdir")
	}
	defer os.RemoveAll(top)
	if r, err := filepath.EvalSymlinks(top); err == nil {
		top = r
	}
	if err := fsgen.ApplyAll(top, c.Init); err != nil {
		return vdrv.Skip("infra-apply-init")
	}
	root := filepath.Join(top, filepath.FromSlash(projDir))
	st := &state{top: top, root: root, spec: c.Spec, written: map[string]bool{}, inputs: map[string]bool{}, metaBase: root}
	cls := map[string]bool{"mode=" + c.Mode: true}
	if c.Mech != "" {
		cls["mechanism="+c.Mech] = true
	}
	nontrivial := false

	observe := func(label string, wrote bool, ob *observer, run func() api.BuildResult) (observation, bool) {
		before, err := fsgen.Snapshot(top)
		if err != nil {
			return observation{}, false
		}
		res := run()
		after, err := fsgen.Snapshot(top)
		if err != nil {
			return observation{}, false
		}
		o := observation{label: label, result: res, before: before, after: after, delta: fsgen.Diff(before, after), wrote: wrote}
		if ob != nil && ob.saw {
			o.shown, o.shownErrs, o.sawOnEnd = ob.shown, ob.shownErrs, true
			if o.result.Metafile == "" {
				o.result.Metafile = ob.metafile
			}
		}
		return o, true
	}
	classify := func(o observation) {
		switch {
		case o.sawOnEnd && c.Spec.OnEndError && o.shownErrs == 0:
			cls["outcome=on-end-error-after-write"] = true
		case len(o.result.Errors) > 0:
			cls["outcome=errors"] = true
			for _, e := range o.result.Errors {
				switch {
				case strings.HasPrefix(e.Text, "Refusing to overwrite input file"):
					cls["error=refuse-overwrite-input"] = true
					nontrivial = true
				case strings.HasPrefix(e.Text, "Two output files share the same path"):
					cls["error=two-outputs-one-path"] = true
					nontrivial = true
				case strings.HasPrefix(e.Text, "The build was canceled"):
					cls["error=canceled"] = true
				case strings.HasPrefix(e.Text, "Could not resolve"):
					cls["error=scan-missing-import"] = true
				case strings.HasPrefix(e.Text, "No matching export"):
					cls["error=link-missing-export"] = true
				case strings.Contains(e.Text, "Expected") || strings.Contains(e.Text, "Unexpected"):
					cls["error=scan-syntax"] = true
				}
			}
		default:
			cls["outcome=success"] = true
		}
		if len(o.delta.Deleted) > 0 {
			cls["rebuild-deleted-stale-output"] = true
			nontrivial = true
		}
		if o.wrote && len(o.result.Errors) == 0 {
			// an output landed on a file that existed before (an input with AllowOverwrite, or an unrelated old file)
			for _, p := range o.delta.Modified {
				if o.before[p].Kind == "file" {
					cls["overwrote-existing-file"] = true
					nontrivial = true
				}
			}
			if len(o.delta.Created) > 0 {
				nontrivial = true
			}
		}
	}

	finish := func(v *vdrv.Verdict) vdrv.Verdict {
		var l []string
		for k := range cls {
			l = append(l, k)
		}
		if c.Spec.Write {
			l = append(l, "write=on")
		} else if c.Mode != "cli" {
			l = append(l, "write=off")
		}
		if c.Spec.AllowOverwrite {
			l = append(l, "allow-overwrite")
		}
		sort.Strings(l)
		if v != nil {
			v.Classes = l
			return *v
		}
		return vdrv.Pass(nontrivial, l...)
	}

	switch c.Mode {
	case "build":
		ob := &observer{}
		opts := buildOptions(root, c.Spec)
		opts.Plugins = []api.Plugin{ob.plugin(c.Spec.OnEndError, nil)}
		o, ok := observe("api.Build", c.Spec.Write, ob, func() api.BuildResult { return api.Build(opts) })
		if !ok {
			return vdrv.Skip("infra-snapshot")
		}
		classify(o)
		return finish(st.check(o))

	case "cli":
		ob := &observer{}
		args := append(cliArgs(root, c.Spec), "--metafile="+filepath.Join(top, "cli-meta.json"))
		st.extra = map[string]bool{"cli-meta.json": true}
		if wd, err := os.Getwd(); err == nil {
			st.metaBase = wd // the CLI has no working-directory option: metafile paths are relative to the process directory
		}
		exit := -1
		o, ok := observe("cli.Run", true, ob, func() api.BuildResult {
			exit = cli.RunWithPlugins(args, []api.Plugin{ob.plugin(false, nil)})
			return api.BuildResult{}
		})
		if !ok {
			return vdrv.Skip("infra-snapshot")
		}
		if !ob.saw {
			// options refused before any build started: nothing may have been written
			cls["outcome=cli-refused-options"] = true
			if !o.delta.Empty() {
				v := vdrv.Fail("cli.Run refused its arguments but changed the tree: "+o.delta.String(), "", strings.Join(args, " "))
				return finish(&v)
			}
			return finish(nil)
		}
		o.result = api.BuildResult{OutputFiles: ob.shown, Metafile: ob.metafile}
		if ob.shownErrs > 0 {
			o.result.Errors = make([]api.Message, ob.shownErrs)
			o.result.OutputFiles = nil
		}
		if (exit == 0) != (ob.shownErrs == 0) {
			v := vdrv.Fail(fmt.Sprintf("cli.Run exit code %d does not match the build result (%d errors)", exit, ob.shownErrs), "", strings.Join(args, " "))
			return finish(&v)
		}
		classify(o)
		return finish(st.check(o))

	case "context":
		ob := &observer{}
		opts := buildOptions(root, c.Spec)
		var ctx api.BuildContext
		var onLoad func()
		cancelArmed := false
		var cancelDone chan struct{}
		if c.Spec.Cancel {
			var mu sync.Mutex
			onLoad = func() {
				mu.Lock()
				defer mu.Unlock()
				if cancelArmed {
					cancelArmed = false
					cancelDone = make(chan struct{})
					go func() { ctx.Cancel(); close(cancelDone) }()
					time.Sleep(3 * time.Millisecond) // scheduling only: give Cancel() a chance to set the flag before linking starts
				}
			}
		}
		opts.Plugins = []api.Plugin{ob.plugin(c.Spec.OnEndError, onLoad)}
		var cerr *api.ContextError
		ctx, cerr = api.Context(opts)
		if cerr != nil {
			cls["outcome=context-refused-options"] = true
			return finish(nil)
		}
		defer ctx.Dispose()
		for k := 0; k <= len(c.Steps); k++ {
			if k > 0 {
				if err := fsgen.ApplyAll(top, c.Steps[k-1].Ops); err != nil {
					return vdrv.Skip("infra-apply-step")
				}
				if tam := c.Steps[k-1].Tamper; tam != "" {
					var cands []string
					for p := range st.written {
						if !st.inputs[p] {
							cands = append(cands, p)
						}
					}
					sort.Strings(cands)
					for _, p := range cands {
						abs := filepath.Join(top, filepath.FromSlash(p))
						if info, err := os.Lstat(abs); err != nil || !info.Mode().IsRegular() {
							continue
						}
						if tam == "delete-output" {
							os.Remove(abs)
						} else {
							os.WriteFile(abs, []byte("// tampered with between two rebuilds\n"), 0o644)
						}
						cls["tamper="+tam] = true
						break
					}
				}
			}
			*ob = observer{}
			// cancel the second build of a history (the first one establishes outputs that a cancelled build must not touch)
			cancelArmed = c.Spec.Cancel && k == 1
			o, ok := observe(fmt.Sprintf("Rebuild #%d", k), c.Spec.Write, ob, func() api.BuildResult {
				r := ctx.Rebuild()
				if cancelDone != nil {
					<-cancelDone // the Cancel() call must not leak into the next rebuild
					cancelDone = nil
				}
				return r
			})
			if !ok {
				return vdrv.Skip("infra-snapshot")
			}
			classify(o)
			if v := st.check(o); v != nil {
				return finish(v)
			}
		}
		if len(c.Steps) >= 2 {
			cls["rebuilds>=3"] = true
		}
		return finish(nil)
	}
	return vdrv.Skip("bad-mode")
}

func replay(raw json.RawMessage) vdrv.Verdict {
	var c Case
	if err := json.Unmarshal(raw, &c); err != nil {
		return vdrv.Skip("bad-replay")
	}
	v := judge(c)
	v.Known = ""
	return v
}

func caseKey(c Case) string {
	b, _ := json.Marshal(c)
	return string(b)
}

var subs = map[string]vdrv.ReplayFunc{"grid": replay, "build": replay, "rebuild": replay, "cli": replay}

func runBuild(t *testing.T) {
	H.Rule("build", "rapid: one api.Build on a real temp project (entries .js/.ts, nested dir with a same-named entry, file/copy/text assets with equal or different bytes, CSS, dynamic import, "+
		"unrelated and stale files inside every candidate output directory, a symlinked alias of the source dir) × output location drawn from the collision mechanisms of the quantifier "+
		"(outdir = src / inside src / symlink to src / case variant, outfile on an input, out-extension = input extension, hash-less entry/asset/chunk names, \"..\" in templates, outbase pairs) "+
		"× Write × AllowOverwrite × fault (syntax error, missing import, missing export, failing on-end callback); oracle: tree snapshot (kind, mode, size, sha256, mtime, link target) before/after vs "+
		"OutputFiles — see check(); non-trivial = the build wrote something, or was refused for an input/output or output/output collision")
	H.SetupRapid("build", H.N(2000, 200000))
	rapid.Check(t, func(rt *rapid.T) {
		c := genCase(rt, "build")
		H.Report(rt, "build", caseKey(c), c, judge(c))
	})
}

func runRebuild(t *testing.T) {
	H.Rule("rebuild", "rapid: a context with 2–6 rebuilds; between rebuilds the project is edited so that outputs appear and disappear (asset import, dynamic-import chunk, CSS, second asset), "+
		"break and repair (syntax error, missing import), content edits; optional Cancel() during the second build and failing on-end callback; oracle as build, plus: files deleted by a rebuild ⊆ files "+
		"written by earlier builds of the context and not current outputs; non-trivial as build, or a stale output was deleted")
	H.SetupRapid("rebuild", H.N(800, 80000))
	rapid.Check(t, func(rt *rapid.T) {
		c := genCase(rt, "context")
		H.Report(rt, "rebuild", caseKey(c), c, judge(c))
	})
}

func runCLI(t *testing.T) {
	H.Rule("cli", "rapid: the same projects and output locations through cli.RunWithPlugins (argv built from the spec with absolute paths; an observer plugin records the OutputFiles the build reported); "+
		"oracle as build plus: exit code 0 iff no errors")
	H.SetupRapid("cli", H.N(500, 40000))
	rapid.Check(t, func(rt *rapid.T) {
		c := genCase(rt, "cli")
		H.Report(rt, "cli", caseKey(c), c, judge(c))
	})
}

func TestCheck(t *testing.T) {
	H = vdrv.New("C17")
	complete := false
	defer func() { H.Finish(complete) }()
	defer fsgen.RemoveScratch()
	H.RunReplays(t, subs)
	H.Sub(t, "grid", runGrid)
	H.Sub(t, "build", runBuild)
	H.Sub(t, "rebuild", runRebuild)
	H.Sub(t, "cli", runCLI)
	complete = true
}

func TestReplay(t *testing.T) {
	H = vdrv.New("C17")
	defer fsgen.RemoveScratch()
	H.ReplayOne(t, subs)
}

package c17

import (
	"fmt"
	"sort"
	"testing"

	"github.com/evanw/esbuild/verif/fsgen"
	"pgregory.net/rapid"
)

// ------------------------------------------------------------------------------------ project

// Proj is the structured state of the generated project; files() renders it.
type Proj struct {
	EntryTS    bool   // the main entry is src/t.ts instead of src/a.js
	Asset      bool   // the entry imports ./data.txt
	Asset2     string // "" | same | diff : src/lib/c.js imports ./data.txt (src/lib/data.txt) with equal / different bytes
	Dynamic    bool   // the entry has import("./d.js")
	CSS        bool   // the entry imports ./style.css
	ChunkInput bool   // the entry imports ./chunk.js (an input named like a hash-less chunk)
	Fault      string // "" | syntax | missing | link
	BVal       int
	NoLibEntry bool // src/lib/a.js (the second entry) is absent
}

func (p Proj) entry() string {
	if p.EntryTS {
		return "src/t.ts"
	}
	return "src/a.js"
}

func (p Proj) files() map[string]string {
	f := map[string]string{}
	e := "import { b } from \"./b.js\";\nimport { c } from \"./lib/c.js\";\n"
	uses := "b, c"
	if p.Asset {
		e += "import data from \"./data.txt\";\n"
		uses += ", data"
	}
	if p.CSS {
		e += "import \"./style.css\";\n"
	}
	if p.ChunkInput {
		e += "import { k } from \"./chunk.js\";\n"
		uses += ", k"
	}
	switch p.Fault {
	case "missing":
		e += "import \"./nope.js\";\n"
	case "link":
		e += "import { nope } from \"./b.js\";\n"
		uses += ", nope"
	}
	if p.EntryTS {
		e += "const n: number = 1;\n"
		uses += ", n"
	}
	e += "console.log(\"entry\", " + uses + ");\n"
	if p.Dynamic {
		e += "export const lazy = () => import(\"./d.js\");\n"
	}
	f[p.entry()] = e
	b := fmt.Sprintf("export const b = %d;\n", p.BVal)
	if p.Fault == "syntax" {
		b += "export const = ;\n"
	}
	f["src/b.js"] = b
	c := "export const c = \"c\";\n"
	if p.Asset2 != "" {
		c = "import data2 from \"./data.txt\";\nexport const c = \"c\" + data2;\n"
		f["src/lib/data.txt"] = map[string]string{"same": "DATA\n", "diff": "DATA-2\n"}[p.Asset2]
	}
	f["src/lib/c.js"] = c
	if !p.NoLibEntry {
		f["src/lib/a.js"] = "import { c } from \"./c.js\";\nconsole.log(\"lib/a\", c);\n"
	}
	f["src/d.js"] = "export const d = \"d\";\n"
	f["src/chunk.js"] = "export const k = \"k\";\n"
	f["src/data.txt"] = "DATA\n"
	f["src/style.css"] = ".s { color: red }\n"
	return f
}

// bystanders are files that no build may touch unless an output is reported exactly there: unrelated files inside every
// candidate output directory, stale files with output-like names, files next to the project.
func bystanders() map[string]string {
	return map[string]string{
		"out/keep.txt": "keep\n", "out/a.js": "// stale output of some earlier tool\n", "out/chunk-OLD.js": "// stale chunk\n",
		"src/keep.txt": "keep\n", "src/out/keep.txt": "keep\n", "src/lib/keep.txt": "keep\n", "src/a.js.map": "{}\n",
		"keep.txt": "keep\n", "package.json": "{ \"name\": \"p\" }\n",
		"../outside.txt": "outside\n", "../a.js": "// not an input\n", "../data.txt": "not an input\n",
	}
}

type treeGen struct {
	tick int
	ops  []fsgen.Op
}

func (g *treeGen) write(rel, content string) {
	g.tick++
	g.ops = append(g.ops, fsgen.Op{Op: "write", Path: norm(projDir + "/" + rel), Content: content, Tick: g.tick})
}

func norm(p string) string {
	// resolve "x/../" segments textually ("w/p/../a.js" → "w/a.js")
	var out []string
	for _, seg := range splitSlash(p) {
		if seg == ".." && len(out) > 0 {
			out = out[:len(out)-1]
		} else if seg != "." && seg != "" {
			out = append(out, seg)
		}
	}
	return joinSlash(out)
}

func splitSlash(p string) []string {
	var out []string
	cur := ""
	for _, r := range p {
		if r == '/' {
			out = append(out, cur)
			cur = ""
		} else {
			cur += string(r)
		}
	}
	return append(out, cur)
}

func joinSlash(s []string) string {
	out := ""
	for i, x := range s {
		if i > 0 {
			out += "/"
		}
		out += x
	}
	return out
}

func sortedKeys(m map[string]string) []string {
	k := make([]string, 0, len(m))
	for x := range m {
		k = append(k, x)
	}
	sort.Strings(k)
	return k
}

func (g *treeGen) initial(p Proj) []fsgen.Op {
	f := p.files()
	for _, k := range sortedKeys(f) {
		g.write(k, f[k])
	}
	by := bystanders()
	for _, k := range sortedKeys(by) {
		if _, clash := f[k]; !clash {
			g.write(k, by[k])
		}
	}
	g.tick++
	g.ops = append(g.ops, fsgen.Op{Op: "symlink", Path: projDir + "/link", Content: "src"})
	o := g.ops
	g.ops = nil
	return o
}

// step renders the difference between two project states as operations.
func (g *treeGen) step(before, after Proj) []fsgen.Op {
	a, b := before.files(), after.files()
	for _, k := range sortedKeys(b) {
		if a[k] != b[k] {
			g.write(k, b[k])
		}
	}
	for _, k := range sortedKeys(a) {
		if _, ok := b[k]; !ok {
			g.tick++
			g.ops = append(g.ops, fsgen.Op{Op: "remove", Path: projDir + "/" + k})
		}
	}
	o := g.ops
	g.ops = nil
	return o
}

// ------------------------------------------------------------------------------------ output-location mechanisms

type mechanism struct {
	name  string
	apply func(p *Proj, s *Spec)
}

var fileLoader = map[string]string{".txt": "file"}
var copyLoader = map[string]string{".txt": "copy"}

var mechanisms = []mechanism{
	{"outdir-separate", func(p *Proj, s *Spec) { s.Outdir = "out" }},
	{"outdir-eq-srcdir", func(p *Proj, s *Spec) { s.Outdir = "src" }},
	{"outdir-inside-srcdir", func(p *Proj, s *Spec) { s.Outdir = "src/out" }},
	{"outdir-eq-nested-srcdir", func(p *Proj, s *Spec) {
		s.Outdir = "src/lib"
		s.Outbase = "src/lib"
		s.Entries = []string{"src/lib/a.js"}
	}},
	{"out-extension-eq-input-extension", func(p *Proj, s *Spec) {
		p.EntryTS = true
		s.Entries = []string{"src/t.ts"}
		s.Outdir = "src"
		s.OutExtJS = ".ts"
	}},
	{"out-extension-js-eq-js", func(p *Proj, s *Spec) { s.Outdir = "src"; s.OutExtJS = ".js" }},
	{"entry-names-flat-two-entries", func(p *Proj, s *Spec) {
		s.Entries = []string{"src/a.js", "src/lib/a.js"}
		s.Outdir = "out"
		s.EntryNames = "[name]"
	}},
	{"entry-names-without-hash-into-srcdir", func(p *Proj, s *Spec) { s.Outdir = "."; s.EntryNames = "src/[name]" }},
	{"asset-names-without-hash-file-loader", func(p *Proj, s *Spec) {
		p.Asset = true
		s.Loaders = fileLoader
		s.AssetNames = "[name]"
		s.Outdir = "src"
		s.EntryNames = "gen/[name]"
	}},
	{"asset-names-without-hash-copy-loader", func(p *Proj, s *Spec) {
		p.Asset = true
		s.Loaders = copyLoader
		s.AssetNames = "[name]"
		s.Outdir = "src"
		s.EntryNames = "gen/[name]"
	}},
	{"two-assets-one-name-same-bytes", func(p *Proj, s *Spec) {
		p.Asset, p.Asset2 = true, "same"
		s.Loaders = fileLoader
		s.AssetNames = "[name]"
		s.Outdir = "out"
		s.Bundle = true
	}},
	{"two-assets-one-name-different-bytes", func(p *Proj, s *Spec) {
		p.Asset, p.Asset2 = true, "diff"
		s.Loaders = copyLoader
		s.AssetNames = "[name]"
		s.Outdir = "out"
		s.Bundle = true
	}},
	{"outbase-outdir-map-entry-onto-itself", func(p *Proj, s *Spec) { s.Outbase = "."; s.Outdir = "." }},
	{"outbase-above-project", func(p *Proj, s *Spec) { s.Outbase = ".."; s.Outdir = ".." }},
	{"outdir-symlink-to-srcdir", func(p *Proj, s *Spec) { s.Outdir = "link" }},
	{"outdir-below-symlink-to-srcdir", func(p *Proj, s *Spec) {
		s.Outdir = "link/lib"
		s.Outbase = "src/lib"
		s.Entries = []string{"src/lib/a.js"}
	}},
	{"entry-through-symlink", func(p *Proj, s *Spec) { s.Entries = []string{"link/a.js"}; s.Outdir = "src"; s.Outbase = "link" }},
	{"entry-through-symlink-preserved", func(p *Proj, s *Spec) {
		s.Entries = []string{"link/a.js"}
		s.Outdir = "src"
		s.Outbase = "link"
		s.PreserveSymlinks = true
	}},
	{"dotdot-in-entry-names", func(p *Proj, s *Spec) { s.Outdir = "src/out"; s.EntryNames = "../[name]" }},
	{"dotdot-in-asset-names", func(p *Proj, s *Spec) {
		p.Asset = true
		s.Loaders = fileLoader
		s.Outdir = "src/out"
		s.AssetNames = "../[name]"
		s.Bundle = true
	}},
	{"dotdot-escapes-project", func(p *Proj, s *Spec) { s.Outdir = "."; s.EntryNames = "../[name]" }},
	{"outfile-on-entry", func(p *Proj, s *Spec) { s.Outdir = ""; s.Outfile = "src/a.js" }},
	{"outfile-on-imported-input", func(p *Proj, s *Spec) { s.Outdir = ""; s.Outfile = "src/b.js"; s.Bundle = true }},
	{"outfile-through-symlink", func(p *Proj, s *Spec) { s.Outdir = ""; s.Outfile = "link/a.js" }},
	{"chunk-names-without-hash", func(p *Proj, s *Spec) {
		p.Dynamic, p.ChunkInput = true, true
		s.Entries = []string{"src/a.js", "src/lib/a.js"}
		s.Bundle, s.Splitting, s.Format = true, true, "esm"
		s.ChunkNames = "[name]"
		s.Outdir = "src"
		s.EntryNames = "gen/[name]"
	}},
	{"outdir-case-variant", func(p *Proj, s *Spec) { s.Outdir = "SRC" }},
	{"sourcemap-next-to-input", func(p *Proj, s *Spec) { s.Outdir = "src"; s.Sourcemap = "external"; s.EntryNames = "[name].out" }},
}

func baseSpec() (Proj, Spec) {
	return Proj{BVal: 1}, Spec{Entries: []string{"src/a.js"}, Write: true}
}

func fixSpec(p *Proj, s *Spec) {
	if s.Splitting {
		s.Bundle, s.Format = true, "esm"
	}
	if s.Outfile != "" {
		s.Outdir = ""
		if len(s.Entries) > 1 {
			s.Entries = s.Entries[:1]
		}
		s.Splitting = false
	}
	if p.Asset || p.Asset2 != "" {
		if s.Loaders == nil {
			s.Loaders = fileLoader
		}
	}
	if p.EntryTS {
		for i, e := range s.Entries {
			if e == "src/a.js" {
				s.Entries[i] = "src/t.ts"
			}
		}
	}
}

// ------------------------------------------------------------------------------------ grid (enumerated)

func gridCases() []Case {
	var out []Case
	for _, m := range mechanisms {
		for _, mode := range []string{"build", "context", "cli"} {
			for _, write := range []bool{true, false} {
				if mode == "cli" && !write {
					continue
				}
				for _, allow := range []bool{false, true} {
					for _, bundle := range []bool{false, true} {
						for _, fault := range []string{"", "syntax", "missing", "link", "on-end"} {
							if fault != "" && (allow || mode == "cli" && fault == "on-end") {
								continue // faults are crossed with the default overwrite setting only
							}
							p, s := baseSpec()
							s.Write, s.AllowOverwrite, s.Bundle = write, allow, bundle
							m.apply(&p, &s)
							if s.Bundle != bundle {
								continue // the mechanism needs bundling; the unbundled variant is not a separate case
							}
							switch fault {
							case "on-end":
								s.OnEndError = true
							default:
								p.Fault = fault
							}
							fixSpec(&p, &s)
							g := &treeGen{}
							c := Case{Mode: mode, Mech: m.name, Init: g.initial(p), Spec: s}
							if mode == "context" {
								// second rebuild after a content edit, third after an output was deleted behind the context's back, fourth after the fault is toggled
								q := p
								q.BVal = 2
								r := q
								if fault == "" {
									r.Fault = "syntax"
								} else {
									r.Fault = ""
								}
								c.Steps = []Step{{Ops: g.step(p, q)}, {Tamper: "delete-output"}, {Ops: g.step(q, r)}}
							}
							out = append(out, c)
						}
					}
				}
			}
		}
	}
	return out
}

func runGrid(t *testing.T) {
	H.Rule("grid", fmt.Sprintf("bounded-exhaustive: %d named output-location mechanisms × {api.Build, context with 3 rebuilds, CLI} × Write × AllowOverwrite × bundle × fault {none, syntax error, missing import, "+
		"missing export, failing on-end}; same oracle", len(mechanisms)))
	cases := gridCases()
	for i, c := range cases {
		if !H.MySlice(i) {
			continue
		}
		H.Report(t, "grid", fmt.Sprintf("%d|%s", i, caseKey(c)), c, judge(c))
	}
	H.Exhaustive("grid", true)
}

// ------------------------------------------------------------------------------------ rapid generation

func pick[T any](rt *rapid.T, label string, xs []T) T {
	return xs[rapid.IntRange(0, len(xs)-1).Draw(rt, label)]
}

func chance(rt *rapid.T, label string, oneIn int) bool {
	return rapid.IntRange(0, oneIn-1).Draw(rt, label) == oneIn-1
}

func genCase(rt *rapid.T, mode string) Case {
	p, s := baseSpec()
	// project shape first, then a named mechanism (which may override), then free perturbation of single fields
	p.Asset = chance(rt, "asset", 3)
	if chance(rt, "asset2", 4) {
		p.Asset2 = pick(rt, "asset2-kind", []string{"same", "diff"})
	}
	p.Dynamic = chance(rt, "dynamic", 3)
	p.CSS = chance(rt, "css", 4)
	p.BVal = rapid.IntRange(1, 99).Draw(rt, "bval")
	s.Bundle = rapid.Bool().Draw(rt, "bundle")
	if p.Asset || p.Asset2 != "" {
		s.Loaders = map[string]string{".txt": pick(rt, "loader", []string{"file", "copy", "text"})}
	}
	perm := rapid.Permutation(mechanisms).Draw(rt, "mechanisms")
	m := perm[0]
	m.apply(&p, &s)
	if chance(rt, "perturb", 3) {
		switch rapid.IntRange(0, 7).Draw(rt, "perturb-field") {
		case 0:
			s.EntryNames = pick(rt, "entry-names", []string{"[name]", "[dir]/[name]", "../[name]", "sub/[name]", "[name]-[hash]", "src/[name]", "[dir]/../[name]"})
		case 1:
			s.AssetNames = pick(rt, "asset-names", []string{"[name]", "[name]-[hash]", "../[name]", "[dir]/[name]", "assets/[name]"})
		case 2:
			s.Outdir = pick(rt, "outdir", []string{"out", "src", "src/out", "link", "link/lib", ".", "src/lib", "SRC", "out/../src", "./src/."})
			s.Outfile = ""
		case 3:
			s.Outbase = pick(rt, "outbase", []string{"", "src", ".", "src/lib", "link"})
		case 4:
			s.OutExtJS = pick(rt, "out-ext", []string{".js", ".mjs", ".ts", ".txt", ".css"})
		case 5:
			s.Sourcemap = pick(rt, "sourcemap", []string{"linked", "external", "inline"})
		case 6:
			s.Splitting = true
			s.ChunkNames = pick(rt, "chunk-names", []string{"", "[name]", "chunks/[name]-[hash]", "../[name]-[hash]"})
		case 7:
			s.Entries = pick(rt, "entries", [][]string{{"src/a.js", "src/lib/a.js"}, {"link/a.js"}, {"src/a.js", "link/a.js"}, {"./src/../src/a.js"}})
			s.PreserveSymlinks = rapid.Bool().Draw(rt, "preserve-symlinks")
		}
	}
	s.Write = mode == "cli" || !chance(rt, "no-write", 4)
	s.AllowOverwrite = chance(rt, "allow-overwrite", 3)
	if chance(rt, "fault", 3) {
		switch f := pick(rt, "fault-kind", []string{"syntax", "missing", "link", "on-end"}); {
		case f == "on-end" && mode != "cli":
			s.OnEndError = true
		case f != "on-end":
			p.Fault = f
		}
	}
	fixSpec(&p, &s)
	g := &treeGen{}
	c := Case{Mode: mode, Mech: m.name, Init: g.initial(p), Spec: s}
	if mode == "context" {
		if chance(rt, "cancel", 5) {
			c.Spec.Cancel = true
		}
		n := rapid.IntRange(1, 5).Draw(rt, "steps")
		cur := p
		for i := 0; i < n; i++ {
			next := cur
			switch rapid.IntRange(0, 8).Draw(rt, "step-kind") {
			case 0:
				next.BVal = cur.BVal + 1
			case 1:
				next.Asset = !cur.Asset
			case 2:
				next.Dynamic = !cur.Dynamic
			case 3:
				next.CSS = !cur.CSS
			case 4:
				next.Asset2 = pick(rt, "asset2-next", []string{"", "same", "diff"})
			case 5:
				if cur.Fault == "" {
					next.Fault = pick(rt, "fault-next", []string{"syntax", "missing", "link"})
				} else {
					next.Fault = ""
				}
			case 6:
				next.NoLibEntry = !cur.NoLibEntry
			case 7:
				next.ChunkInput = !cur.ChunkInput
			case 8:
				next.BVal = cur.BVal + 100
				next.Fault = ""
			}
			st := Step{Ops: g.step(cur, next)}
			if chance(rt, "tamper", 6) {
				st.Tamper = pick(rt, "tamper-kind", []string{"delete-output", "modify-output"})
			}
			if len(st.Ops) == 0 && st.Tamper == "" {
				continue
			}
			c.Steps = append(c.Steps, st)
			cur = next
		}
	}
	return c
}

// C06 sub-checks "fields" (class-field semantics selected by tsconfig) and the shared judge of the
// class-based cases (also used by "decor").
package c06

import (
	"encoding/json"
	"fmt"
	"strings"
	"testing"

	"github.com/evanw/esbuild/pkg/api"
	"github.com/evanw/esbuild/verif/vdrv"
	"pgregory.net/rapid"
)

type ClassCase struct {
	TS         string   `json:"ts"`
	Reference  string   `json:"reference"`          // JavaScript meaning under the selected field semantics
	Opposite   string   `json:"opposite,omitempty"` // JavaScript meaning under the other field semantics (non-triviality only)
	UseDefine  string   `json:"use_define_for_class_fields,omitempty"`
	TsTarget   string   `json:"tsconfig_target,omitempty"`
	EsTarget   string   `json:"esbuild_target,omitempty"`
	Decorators bool     `json:"experimental_decorators,omitempty"`
	Minify     string   `json:"minify,omitempty"` // "", syntax, all
	Features   []string `json:"features,omitempty"`
}

func (c ClassCase) tsconfigRaw() string {
	var opts []string
	if c.UseDefine != "" {
		opts = append(opts, `"useDefineForClassFields": `+c.UseDefine)
	}
	if c.TsTarget != "" {
		opts = append(opts, fmt.Sprintf(`"target": %q`, c.TsTarget))
	}
	if c.Decorators {
		opts = append(opts, `"experimentalDecorators": true`)
	}
	return `{"compilerOptions": {` + strings.Join(opts, ", ") + `}}`
}

func (c ClassCase) transform(ts string) api.TransformResult {
	o := api.TransformOptions{LogLevel: api.LogLevelSilent, Loader: api.LoaderTS, TsconfigRaw: c.tsconfigRaw()}
	switch c.Minify {
	case "syntax":
		o.MinifySyntax = true
	case "all":
		o.MinifySyntax, o.MinifyWhitespace, o.MinifyIdentifiers = true, true, true
	}
	if c.EsTarget != "" {
		o.Target = esTarget(c.EsTarget)
	}
	return api.Transform(ts, o)
}

// tsDefine is TypeScript's rule: an explicit useDefineForClassFields wins; otherwise true iff the
// tsconfig target is ES2022 or later (including ESNext). Neither given is outside the domain (esbuild
// documents a different default from tsc there).
func tsDefine(useDefine, tsTarget string) (define, inDomain bool) {
	switch useDefine {
	case "true":
		return true, true
	case "false":
		return false, true
	}
	switch strings.ToLower(tsTarget) {
	case "es2022", "es2023", "es2024", "esnext":
		return true, true
	case "es5", "es6", "es2015", "es2016", "es2017", "es2018", "es2019", "es2020", "es2021":
		return false, true
	}
	return false, false
}

func judgeClass(c ClassCase) vdrv.Verdict {
	if _, ok := tsDefine(c.UseDefine, c.TsTarget); !ok {
		return vdrv.Skip("field-semantics-default-outside-domain")
	}
	ref, err := W.Script(c.Reference, false)
	if err != nil {
		return vdrv.Skip("node-infra")
	}
	if ref.ParseError != "" {
		return vdrv.Skip("reference-invalid:" + ref.ParseMessage)
	}
	if ref.Timeout {
		return vdrv.Skip("reference-timeout")
	}
	r := c.transform(c.TS)
	if len(r.Errors) > 0 {
		return vdrv.Fail("esbuild rejects the TypeScript program: "+r.Errors[0].Text, "accepted", msgTexts(r.Errors))
	}
	got, err := W.Script(string(r.Code), false)
	if err != nil {
		return vdrv.Skip("node-infra")
	}
	cls := []string{"useDefine=" + c.UseDefine, "tsTarget=" + c.TsTarget, "esTarget=" + c.EsTarget, "minify=" + c.Minify}
	for _, f := range c.Features {
		cls = append(cls, "has="+f)
	}
	if d, _ := tsDefine(c.UseDefine, c.TsTarget); d {
		cls = append(cls, "semantics=define")
	} else {
		cls = append(cls, "semantics=assign")
	}
	if ref.Trace() == got.Trace() {
		nontrivial := len(ref.Events) >= 3
		if c.Opposite != "" && !c.Decorators {
			// the case tells the two field semantics apart iff the other reading behaves differently
			opp, err := W.Script(c.Opposite, false)
			distinguishes := err == nil && opp.ParseError == "" && opp.Trace() != ref.Trace()
			if distinguishes {
				cls = append(cls, "distinguishes-define-from-assign")
			}
			nontrivial = nontrivial && distinguishes
		}
		if c.Decorators {
			n := 0
			for _, e := range ref.Events {
				if strings.HasPrefix(e, "s:\"apply") {
					n++
				}
			}
			nontrivial = nontrivial && n >= 2
		}
		v := vdrv.Pass(nontrivial, cls...)
		v.Observed = fmt.Sprintf("%d events", len(ref.Events))
		return v
	}
	return vdrv.Fail("class behaves differently from its TypeScript-defined JavaScript meaning ("+c.tsconfigRaw()+", esbuild target "+c.EsTarget+", minify "+c.Minify+")",
		ref.Trace(), got.Trace()+"\n--- output\n"+string(r.Code))
}

func replayFields(raw json.RawMessage) vdrv.Verdict {
	var c ClassCase
	if json.Unmarshal(raw, &c) != nil {
		return vdrv.Skip("bad-replay")
	}
	return judgeClass(c)
}

// ----------------------------------------------------------------------------- generator

const descHelper = `function desc(o) { var r = {}; Object.getOwnPropertyNames(o).forEach(function (k) { if (k !== "name" && k !== "length" && k !== "prototype") Object.defineProperty(r, k, Object.getOwnPropertyDescriptor(o, k)); }); return r; }
`

type fname struct{ ts, acc string }

var instNames = []fname{{"a", ".a"}, {"b", ".b"}, {"c", ".c"}, {"d", ".d"}, {`"e f"`, `["e f"]`}, {"1", "[1]"}, {`["k"]`, `["k"]`}, {"#h", ".#h"}, {"#i", ".#i"}}
var statNames = []fname{{"s", ".s"}, {"t", ".t"}, {"u", ".u"}, {`["v"]`, `["v"]`}, {`"x y"`, `["x y"]`}, {"#w", ".#w"}}

func keyString(n fname) string { // the property name as a JavaScript string literal (public names only)
	switch {
	case strings.HasPrefix(n.ts, "["):
		return n.ts[1 : len(n.ts)-1]
	case strings.HasPrefix(n.ts, "\""):
		return n.ts
	}
	return fmt.Sprintf("%q", n.ts)
}

type fieldsGen struct {
	G
	id int
}

func (g *fieldsGen) nextID() int { g.id++; return g.id }

func (g *fieldsGen) fieldConfig(c *ClassCase) (define bool) {
	switch g.n("udmode", 4) {
	case 0:
		c.UseDefine = "true"
	case 1:
		c.UseDefine = "false"
	default:
		c.TsTarget = g.pick("tstarget", []string{"es2021", "es2022", "ESNext", "es2015", "ES2020", "es2023", "es2017", "esnext", "ES2022", "es5"})
	}
	if c.UseDefine != "" && g.chance("both", 40) {
		// an explicit useDefineForClassFields overrides what the target would select
		c.TsTarget = g.pick("tstarget2", []string{"es2021", "es2022", "esnext", "es2017"})
	}
	c.EsTarget = g.pick("estarget", []string{"", "esnext", "es2022", "es2021", "es2020", "es2017", "es2015", ""})
	c.Minify = g.pick("minify", []string{"", "", "syntax", "all"})
	define, _ = tsDefine(c.UseDefine, c.TsTarget)
	return define
}

// initExpr: an initialiser for a field; earlier lists the access suffixes of the fields of the same
// kind (instance / static) that were declared before it in this class or that the base class provides.
func (g *fieldsGen) initExpr(earlier []string) (expr string, arrow bool) {
	k := g.n("init", 10)
	switch {
	case k <= 3:
		return fmt.Sprintf("p(%d, %s)", g.nextID(), g.pick("lit", []string{"1", "2", "\"s\"", "null", "undefined", "[1]"})), false
	case k <= 5 && len(earlier) > 0:
		return fmt.Sprintf("p(%d, this%s)", g.nextID(), earlier[g.n("earlier", len(earlier))]), false
	case k == 6 && len(earlier) > 0:
		return fmt.Sprintf("() => this%s", earlier[g.n("earlier", len(earlier))]), true
	case k == 7:
		return fmt.Sprintf("[p(%d, 0), p(%d, 1)]", g.nextID(), g.nextID()), false
	}
	return g.pick("plain", []string{"1", "\"v\"", "undefined"}), false
}

// genFieldsClass draws one class. baseInst / baseStat are the public names the base class provides (readable
// through this in initialisers).
func (g *fieldsGen) genFieldsClass(name, extends string, define bool, baseInst, baseStat []string) (*classIR, []string) {
	c := &classIR{Name: name, Extends: extends}
	var obs []string // statements that observe an instance `o` of the class
	useProps := g.chance("paramprops", 22)
	noInstanceFields := useProps && define
	nm := g.rng("nmembers", 2, 7)
	instPool := append([]fname{}, instNames...)
	statPool := append([]fname{}, statNames...)
	take := func(pool *[]fname, label string) (fname, bool) {
		if len(*pool) == 0 {
			return fname{}, false
		}
		i := g.n(label, len(*pool))
		n := (*pool)[i]
		*pool = append((*pool)[:i:i], (*pool)[i+1:]...)
		return n, true
	}
	earlierInst := append([]string{}, baseInst...)
	earlierStat := append([]string{}, baseStat...)
	var privInst, privStat []string
	for i := 0; i < nm; i++ {
		k := g.n("mkind", 100)
		switch {
		case k < 55 && !noInstanceFields, k >= 55 && k < 82:
			static := k >= 55
			var n fname
			var ok bool
			if static {
				n, ok = take(&statPool, "sname")
			} else {
				n, ok = take(&instPool, "iname")
			}
			if !ok {
				continue
			}
			private := strings.HasPrefix(n.ts, "#")
			m := cMember{Kind: "field", Static: static, KeyTS: n.ts, Acc: n.acc}
			fk := g.n("fkind", 100)
			switch {
			case fk < 50:
				m.FKind = "init"
			case fk < 72 || private:
				m.FKind = "bare"
			case fk < 82:
				m.FKind = "declare"
			case fk < 91:
				m.FKind = "definite"
			default:
				m.FKind = "optional"
			}
			if !private && m.FKind != "declare" {
				m.Mods = g.pick("access", []string{"", "", "public ", "private ", "protected "})
			}
			if g.chance("readonly", 20) {
				m.Mods2 = "readonly "
			}
			m.Type = g.pick("ftype", []string{"", "any", "any", "number | string | undefined"})
			if m.FKind != "init" && m.Type == "" {
				m.Type = "any"
			}
			if m.FKind == "init" {
				var arrow bool
				if static {
					m.Init, arrow = g.initExpr(earlierStat)
				} else {
					m.Init, arrow = g.initExpr(earlierInst)
				}
				if arrow && !private {
					if static {
						obs = append(obs, fmt.Sprintf("log(\"arrow %s\", %s%s());", strings.Trim(n.acc, ".[]\""), name, n.acc))
					} else {
						obs = append(obs, fmt.Sprintf("log(\"arrow %s\", o%s());", strings.Trim(n.acc, ".[]\""), n.acc))
					}
				}
			}
			c.Members = append(c.Members, m)
			if m.FKind == "declare" {
				continue
			}
			switch {
			case private && static:
				privStat = append(privStat, name+n.acc)
			case private:
				privInst = append(privInst, "this"+n.acc)
				earlierInst = append(earlierInst, n.acc)
			case static:
				earlierStat = append(earlierStat, n.acc)
			default:
				earlierInst = append(earlierInst, n.acc)
			}
		case k < 90:
			body := fmt.Sprintf("log(\"static block %d\", desc(this));", g.nextID())
			if g.chance("blockp", 30) {
				body = fmt.Sprintf("p(%d, 0);", g.nextID())
			}
			c.Members = append(c.Members, cMember{Kind: "block", Static: true, Body: body})
		default:
			mn := fmt.Sprintf("m%d", g.nextID())
			c.Members = append(c.Members, cMember{Kind: "method", KeyTS: mn, Acc: "." + mn, Body: "return Object.keys(this);"})
			obs = append(obs, fmt.Sprintf("log(\"%s\", o.%s());", mn, mn))
		}
	}
	if len(privInst)+len(privStat) > 0 {
		// a private name is only readable from inside the class; a present-but-unset one yields undefined
		c.Members = append(c.Members, cMember{Kind: "method", KeyTS: "readPrivate", Acc: ".readPrivate",
			Body: "return [" + strings.Join(append(append([]string{}, privInst...), privStat...), ", ") + "];"})
		obs = append(obs, "log(\"private\", o.readPrivate());")
	}
	if useProps || g.chance("ctor", 55) {
		ct := &cCtor{}
		np := g.rng("nparams", 0, 2)
		if useProps && np == 0 {
			np = 1
		}
		for i := 0; i < np; i++ {
			p := cParam{Name: []string{"x", "y"}[i]}
			if useProps && (i == 0 || g.flip("prop2")) {
				p.Name = []string{"pa", "pb"}[i]
				p.Prop = g.pick("propmod", []string{"public", "private", "readonly", "protected", "public readonly", "private readonly"})
			}
			if g.chance("ptype", 50) {
				p.Type = "any"
			}
			if g.chance("pdefault", 30) {
				if !define && len(privInst) == 0 && g.flip("effectdefault") {
					// side effects in parameter defaults only under assign semantics and without #private
					// instance fields: there TypeScript evaluates everything inside the constructor in a fixed
					// order (a native #private initialiser of a base class runs before the parameter defaults,
					// a lowered one after them, and tsc's choice depends on the tsconfig target, which esbuild
					// documents it ignores for lowering)
					p.Default = fmt.Sprintf("p(%d, 7)", g.nextID())
				} else {
					p.Default = "7"
				}
			}
			ct.Params = append(ct.Params, p)
		}
		if extends != "" {
			if g.chance("pre", 35) {
				ct.Pre = fmt.Sprintf("log(\"before super %d\"); ", g.nextID())
			}
			ct.SuperArgs = g.pick("superargs", []string{"", "1", "1, 2"})
			if len(ct.Params) > 0 && g.flip("passparam") {
				ct.SuperArgs = ct.Params[0].Name
			}
		}
		if g.chance("post", 60) {
			ct.Post = fmt.Sprintf("log(\"ctor body %s\", desc(this));", name)
		}
		c.Ctor = ct
		c.CtorAt = g.n("ctorat", len(c.Members)+1)
	}
	return c, obs
}

func genFieldsCase(rt *rapid.T) ClassCase {
	g := &fieldsGen{G: G{rt}}
	var c ClassCase
	define := g.fieldConfig(&c)

	// the base class: accessors and constructor assignments, installed without class syntax so that a
	// derived class may redeclare the names as fields
	var ts, ref, opp strings.Builder
	both := func(s string) { ts.WriteString(s); ref.WriteString(s); opp.WriteString(s) }
	both(descHelper)
	both("class Base0 {\n  constructor() { log(\"Base0 ctor\", arguments.length);")
	var baseInst, baseStat []string
	var accessors []string
	for _, n := range instNames {
		if strings.HasPrefix(n.ts, "#") {
			continue
		}
		k := g.n("basekind", 100)
		ks := keyString(n)
		switch {
		case k < 30:
			accessors = append(accessors, fmt.Sprintf("Object.defineProperty(Base0.prototype, %s, { get: function () { log(\"get\", %s); return \"acc\"; }, set: function (v) { log(\"set\", %s, v); }, configurable: true, enumerable: false });\n", ks, ks, ks))
			baseInst = append(baseInst, n.acc)
		case k < 34:
			accessors = append(accessors, fmt.Sprintf("Object.defineProperty(Base0.prototype, %s, { get: function () { log(\"get\", %s); return \"ro\"; }, configurable: true, enumerable: false });\n", ks, ks))
			baseInst = append(baseInst, n.acc)
		case k < 55:
			both(fmt.Sprintf(" this%s = \"from-base-ctor\";", n.acc))
			baseInst = append(baseInst, n.acc)
		case k < 60:
			accessors = append(accessors, fmt.Sprintf("Base0.prototype%s = function () { return \"base-method\"; };\n", n.acc))
			baseInst = append(baseInst, n.acc)
		}
	}
	both(" }\n}\n")
	for _, n := range statNames {
		if strings.HasPrefix(n.ts, "#") {
			continue
		}
		k := g.n("basestat", 100)
		ks := keyString(n)
		switch {
		case k < 35:
			accessors = append(accessors, fmt.Sprintf("Object.defineProperty(Base0, %s, { get: function () { log(\"static get\", %s); return \"sacc\"; }, set: function (v) { log(\"static set\", %s, v); }, configurable: true, enumerable: false });\n", ks, ks, ks))
			baseStat = append(baseStat, n.acc)
		case k < 50:
			accessors = append(accessors, fmt.Sprintf("Base0%s = \"base-static\";\n", n.acc))
			baseStat = append(baseStat, n.acc)
		}
	}
	both(strings.Join(accessors, ""))

	derived := g.chance("derived", 78)
	ext := ""
	bi, bs := []string(nil), []string(nil)
	if derived {
		ext, bi, bs = "Base0", baseInst, baseStat
	}
	c0, obs0 := g.genFieldsClass("D0", ext, define, bi, bs)
	feats := c0.features()
	classes := []*classIR{c0}
	observations := [][]string{obs0}
	if g.chance("second", 30) {
		c1, obs1 := g.genFieldsClass("D1", "D0", define, nil, nil)
		classes = append(classes, c1)
		observations = append(observations, obs1)
		feats = append(feats, c1.features()...)
		feats = append(feats, "field-redeclared-in-subclass")
	}
	for i, cl := range classes {
		ts.WriteString(cl.TS())
		ref.WriteString(cl.Ref(define))
		opp.WriteString(cl.Ref(!define))
		var o strings.Builder
		fmt.Fprintf(&o, "log(\"static %s\", desc(%s));\n", cl.Name, cl.Name)
		fmt.Fprintf(&o, "try {\n  var o = new %s(10, 20);\n  log(\"instance %s\", o);\n", cl.Name, cl.Name)
		for _, s := range observations[i] {
			o.WriteString("  " + s + "\n")
		}
		o.WriteString("} catch (e) { log(\"threw\", e); }\n")
		both(o.String())
	}
	c.TS, c.Reference, c.Opposite = ts.String(), ref.String(), opp.String()
	c.Features = uniq(feats)
	return c
}

func runFields(t *testing.T) {
	H.Rule("fields", "rapid: a base class whose prototype/constructor carry accessors (get+set, get only), methods and constructor-assigned properties installed without class syntax, and one or two (derived) classes built from a class IR: instance/static fields {initialised, declaration-only `x: T;`, `declare x`, `x!`, `x?`} with identifier / string / numeric / computed-literal / #private names and TypeScript modifiers, initialisers with side effects, reads of earlier fields through `this` and arrow functions capturing `this`, static blocks between static fields, implicit or explicit constructors (code before super(), parameter properties, parameter defaults), a subclass redeclaring names; × tsconfig {useDefineForClassFields true/false, or unset with a tsconfig target on either side of ES2022, or both (explicit wins)} × esbuild target {esnext…es2015} × minify. The IR is printed as TypeScript and as the JavaScript that TypeScript defines: define semantics = native class fields (declaration-only fields define undefined, `declare` fields emit nothing, parameter properties are declared first); assign semantics = assignments after super() in source order after the parameter-property assignments, declaration-only fields emit nothing, static fields become assignments in source order with the static blocks. Oracle: V8 trace of esbuild's output == V8 trace of that JavaScript (own keys in creation order with full descriptors, setter/getter calls, side-effect order, exceptions). Excluded by construction: neither useDefineForClassFields nor a tsconfig target (esbuild documents a default different from tsc), instance fields next to parameter properties under define semantics, side effects in parameter defaults under define semantics (C05's known field-initialiser/parameter order finding) or next to #private instance fields (their order depends on whether the private field is lowered, which tsc decides from the tsconfig target and esbuild from its own target), side effects in field keys (type errors in TypeScript). non-trivial = ≥3 events and the JavaScript meaning under the opposite field semantics has a different trace (the case tells define from assign)")
	H.SetupRapid("fields", H.N(2000, 40000))
	rapid.Check(t, func(rt *rapid.T) {
		c := genFieldsCase(rt)
		H.Report(rt, "fields", c.TS+c.tsconfigRaw()+c.EsTarget+c.Minify, c, judgeClass(c))
	})
}

// A small class IR printed (a) as TypeScript and (b) as the JavaScript that the TypeScript language
// defines for it: class-field semantics selected by useDefineForClassFields (define = native class
// fields, assign = assignments in the constructor / at class definition time), parameter properties,
// and legacy (experimental) decorators spelled as the tsc helper calls. (b) is written from the
// TypeScript semantics, not from esbuild's lowering. Used by the sub-checks fields and decor.
package c06

import (
	"fmt"
	"strings"
)

type cParam struct {
	Name    string
	Decs    []string // decorator expressions, without the @
	Prop    string   // constructor only: "", "public", "private", "protected", "readonly", "public readonly"
	Default string
	Type    string
}

type cMember struct {
	Kind    string // field | method | get | set | block
	Static  bool
	KeyTS   string // as written in the class body: a, "e f", 1, ["k"], #h, [p(3, "key")]
	Acc     string // access suffix on this: .a, ["e f"], [1], ["k"], .#h, [_k1]
	KeyLit  string // the key as an expression (argument of the decorate helper): "a", "e f", "k", _k1
	Temp    string // name of the temporary that holds a key with side effects ("" = none)
	KeyExpr string // the expression of such a key
	FKind   string // field: init | bare | declare | definite | optional
	Mods    string // TypeScript-only modifiers printed before `static`: "private ", "public ", "protected "
	Mods2   string // TypeScript-only modifiers printed after `static` / `declare`: "readonly "
	Type    string
	Init    string
	Decs    []string
	Params  []cParam
	Body    string
}

type cCtor struct {
	Params    []cParam
	Pre       string // statements before super() (derived classes only)
	SuperArgs string
	Post      string
}

type classIR struct {
	Name      string
	Extends   string
	ClassDecs []string
	Members   []cMember
	Ctor      *cCtor
	CtorAt    int // the constructor is printed before Members[CtorAt]
}

func decsTS(decs []string, sep string) string {
	var sb strings.Builder
	for _, d := range decs {
		sb.WriteString("@" + d + sep)
	}
	return sb.String()
}

func paramsTS(ps []cParam) string {
	var out []string
	for _, p := range ps {
		s := decsTS(p.Decs, " ")
		if p.Prop != "" {
			s += p.Prop + " "
		}
		s += p.Name
		if p.Type != "" {
			s += ": " + p.Type
		}
		if p.Default != "" {
			s += " = " + p.Default
		}
		out = append(out, s)
	}
	return strings.Join(out, ", ")
}

func paramsJS(ps []cParam) string {
	var out []string
	for _, p := range ps {
		s := p.Name
		if p.Default != "" {
			s += " = " + p.Default
		}
		out = append(out, s)
	}
	return strings.Join(out, ", ")
}

func (c *classIR) hasDecorators() bool {
	if len(c.ClassDecs) > 0 {
		return true
	}
	for _, m := range c.Members {
		if len(m.Decs) > 0 {
			return true
		}
		for _, p := range m.Params {
			if len(p.Decs) > 0 {
				return true
			}
		}
	}
	return c.ctorParamDecorated()
}

func (c *classIR) ctorParamDecorated() bool {
	if c.Ctor != nil {
		for _, p := range c.Ctor.Params {
			if len(p.Decs) > 0 {
				return true
			}
		}
	}
	return false
}

// TS prints the class as TypeScript.
func (c *classIR) TS() string {
	var sb strings.Builder
	sb.WriteString(decsTS(c.ClassDecs, "\n"))
	fmt.Fprintf(&sb, "class %s", c.Name)
	if c.Extends != "" {
		fmt.Fprintf(&sb, " extends %s", c.Extends)
	}
	sb.WriteString(" {\n")
	ctor := func() {
		if c.Ctor == nil {
			return
		}
		fmt.Fprintf(&sb, "  constructor(%s) { ", paramsTS(c.Ctor.Params))
		if c.Extends != "" {
			fmt.Fprintf(&sb, "%ssuper(%s); ", c.Ctor.Pre, c.Ctor.SuperArgs)
		}
		sb.WriteString(c.Ctor.Post + " }\n")
	}
	for i, m := range c.Members {
		if i == c.CtorAt {
			ctor()
		}
		sb.WriteString("  " + decsTS(m.Decs, " "))
		st := ""
		if m.Static {
			st = "static "
		}
		switch m.Kind {
		case "block":
			fmt.Fprintf(&sb, "static { %s }\n", m.Body)
		case "field":
			sb.WriteString(m.Mods + st)
			if m.FKind == "declare" {
				sb.WriteString("declare ")
			}
			sb.WriteString(m.Mods2 + m.KeyTS)
			switch m.FKind {
			case "definite":
				sb.WriteString("!")
			case "optional":
				sb.WriteString("?")
			}
			if m.Type != "" {
				sb.WriteString(": " + m.Type)
			}
			if m.FKind == "init" {
				sb.WriteString(" = " + m.Init)
			}
			sb.WriteString(";\n")
		case "method":
			fmt.Fprintf(&sb, "%s%s%s(%s) { %s }\n", m.Mods, st, m.KeyTS, paramsTS(m.Params), m.Body)
		case "get":
			fmt.Fprintf(&sb, "%s%sget %s() { %s }\n", m.Mods, st, m.KeyTS, m.Body)
		case "set":
			fmt.Fprintf(&sb, "%s%sset %s(%s) { %s }\n", m.Mods, st, m.KeyTS, paramsTS(m.Params), m.Body)
		}
	}
	if c.CtorAt >= len(c.Members) {
		ctor()
	}
	sb.WriteString("}\n")
	return sb.String()
}

// The helpers that tsc emits for legacy decorators (tslib __decorate / __param, without the
// Reflect.decorate branch: no Reflect metadata polyfill is loaded).
const tscDecorateHelpers = `var __decorate = function (decorators, target, key, desc) {
    var c = arguments.length, r = c < 3 ? target : desc === null ? desc = Object.getOwnPropertyDescriptor(target, key) : desc, d;
    for (var i = decorators.length - 1; i >= 0; i--) if (d = decorators[i]) r = (c < 3 ? d(r) : c > 3 ? d(target, key, r) : d(target, key)) || r;
    return c > 3 && r && Object.defineProperty(target, key, r), r;
};
var __param = function (paramIndex, decorator) {
    return function (target, key) { decorator(target, key, paramIndex); }
};
`

// Ref prints the JavaScript meaning of the class. define selects [[Define]] semantics for fields.
func (c *classIR) Ref(define bool) string {
	var sb strings.Builder
	// temporaries for keys with side effects
	var temps []string
	for _, m := range c.Members {
		if m.Temp != "" {
			temps = append(temps, m.Temp)
		}
	}
	if len(temps) > 0 {
		fmt.Fprintf(&sb, "var %s;\n", strings.Join(temps, ", "))
	}
	letForm := len(c.ClassDecs) > 0 || c.ctorParamDecorated()
	if letForm {
		fmt.Fprintf(&sb, "let %s = class", c.Name)
	} else {
		fmt.Fprintf(&sb, "class %s", c.Name)
	}
	if c.Extends != "" {
		fmt.Fprintf(&sb, " extends %s", c.Extends)
	}
	sb.WriteString(" {\n")

	// instance-field assignments of the assign semantics, in source order
	var assigns []string
	if !define {
		for _, m := range c.Members {
			if m.Kind == "field" && !m.Static && m.FKind == "init" {
				assigns = append(assigns, fmt.Sprintf("this%s = %s;", m.Acc, m.Init))
			}
		}
	}
	var propAssigns []string
	if c.Ctor != nil {
		for _, p := range c.Ctor.Params {
			if p.Prop != "" {
				propAssigns = append(propAssigns, fmt.Sprintf("this.%s = %s;", p.Name, p.Name))
				if define {
					// a parameter property is also a declared field of the class
					fmt.Fprintf(&sb, "  %s;\n", p.Name)
				}
			}
		}
	}
	ctor := func() {
		if c.Ctor == nil {
			return
		}
		fmt.Fprintf(&sb, "  constructor(%s) { ", paramsJS(c.Ctor.Params))
		if c.Extends != "" {
			fmt.Fprintf(&sb, "%ssuper(%s); ", c.Ctor.Pre, c.Ctor.SuperArgs)
		}
		sb.WriteString(strings.Join(propAssigns, " ") + " " + strings.Join(assigns, " ") + " " + c.Ctor.Post + " }\n")
	}
	if c.Ctor == nil && len(assigns) > 0 {
		if c.Extends != "" {
			fmt.Fprintf(&sb, "  constructor() { super(...arguments); %s }\n", strings.Join(assigns, " "))
		} else {
			fmt.Fprintf(&sb, "  constructor() { %s }\n", strings.Join(assigns, " "))
		}
	}
	keyJS := func(m cMember) string {
		if m.Temp != "" {
			return fmt.Sprintf("[%s = %s]", m.Temp, m.KeyExpr)
		}
		return m.KeyTS
	}
	for i, m := range c.Members {
		if i == c.CtorAt {
			ctor()
		}
		st := ""
		if m.Static {
			st = "static "
		}
		switch m.Kind {
		case "block":
			fmt.Fprintf(&sb, "  static { %s }\n", m.Body)
		case "field":
			private := strings.HasPrefix(m.KeyTS, "#")
			switch {
			case m.FKind == "declare":
				// never emitted
			case define || (private && m.Static):
				if m.FKind == "init" {
					fmt.Fprintf(&sb, "  %s%s = %s;\n", st, keyJS(m), m.Init)
				} else {
					fmt.Fprintf(&sb, "  %s%s;\n", st, keyJS(m))
				}
			case private: // assign semantics: the private name is declared, its initialiser runs in source order
				fmt.Fprintf(&sb, "  %s;\n", m.KeyTS)
			case m.Static && m.FKind == "init":
				fmt.Fprintf(&sb, "  static { this%s = %s; }\n", m.Acc, m.Init)
			}
		case "method":
			fmt.Fprintf(&sb, "  %s%s(%s) { %s }\n", st, keyJS(m), paramsJS(m.Params), m.Body)
		case "get":
			fmt.Fprintf(&sb, "  %sget %s() { %s }\n", st, keyJS(m), m.Body)
		case "set":
			fmt.Fprintf(&sb, "  %sset %s(%s) { %s }\n", st, keyJS(m), paramsJS(m.Params), m.Body)
		}
	}
	if c.CtorAt >= len(c.Members) {
		ctor()
	}
	sb.WriteString("}")
	if letForm {
		sb.WriteString(";")
	}
	sb.WriteString("\n")

	// decorator application: instance members in order, then static members in order, then the class
	// (constructor parameter decorators are part of the class decoration). For one member the list is
	// [member decorators..., parameter decorators by parameter...], evaluated left to right and applied
	// right to left by __decorate.
	list := func(decs []string, params []cParam) string {
		var parts []string
		parts = append(parts, decs...)
		for i, p := range params {
			for _, d := range p.Decs {
				parts = append(parts, fmt.Sprintf("__param(%d, %s)", i, d))
			}
		}
		return strings.Join(parts, ", ")
	}
	for _, static := range []bool{false, true} {
		for _, m := range c.Members {
			if m.Kind == "block" || m.Static != static {
				continue
			}
			l := list(m.Decs, m.Params)
			if l == "" {
				continue
			}
			target := c.Name + ".prototype"
			if static {
				target = c.Name
			}
			last := "null"
			if m.Kind == "field" {
				last = "void 0"
			}
			fmt.Fprintf(&sb, "__decorate([%s], %s, %s, %s);\n", l, target, m.KeyLit, last)
		}
	}
	if letForm {
		var ps []cParam
		if c.Ctor != nil {
			ps = c.Ctor.Params
		}
		fmt.Fprintf(&sb, "%s = __decorate([%s], %s);\n", c.Name, list(c.ClassDecs, ps), c.Name)
	}
	return sb.String()
}

// features lists what the class exercises (for class labels and the non-triviality rule).
func (c *classIR) features() []string {
	var f []string
	add := func(s string) { f = append(f, s) }
	if c.Extends != "" {
		add("derived")
	}
	if c.Ctor == nil {
		add("implicit-ctor")
	} else {
		for _, p := range c.Ctor.Params {
			if p.Prop != "" {
				add("param-property")
			}
			if len(p.Decs) > 0 {
				add("dec-ctor-param")
			}
		}
		if c.Ctor.Pre != "" {
			add("code-before-super")
		}
	}
	if len(c.ClassDecs) > 0 {
		add("dec-class")
	}
	for _, m := range c.Members {
		pre := ""
		if m.Static {
			pre = "static-"
		}
		switch m.Kind {
		case "block":
			add("static-block")
		case "field":
			add(pre + "field-" + m.FKind)
			if strings.HasPrefix(m.KeyTS, "#") {
				add(pre + "field-private")
			} else if strings.HasPrefix(m.KeyTS, "[") {
				add(pre + "field-computed-key")
			} else if strings.HasPrefix(m.KeyTS, "\"") || (m.KeyTS[0] >= '0' && m.KeyTS[0] <= '9') {
				add(pre + "field-literal-key")
			}
			if len(m.Decs) > 0 {
				add("dec-" + pre + "field")
			}
		default:
			if len(m.Decs) > 0 {
				k := m.Kind
				if k != "method" {
					k = "accessor"
				}
				add("dec-" + pre + k)
			}
			for _, p := range m.Params {
				if len(p.Decs) > 0 {
					add("dec-" + pre + "method-param")
				}
			}
			if m.Temp != "" {
				add("method-key-with-effects")
			}
		}
	}
	return uniq(f)
}

// C06 sub-check "decor": experimental (legacy TypeScript) decorators.
package c06

import (
	"encoding/json"
	"fmt"
	"regexp"
	"strings"
	"testing"

	"github.com/evanw/esbuild/verif/vdrv"
	"pgregory.net/rapid"
)

// The decorator library shared by the TypeScript program and its JavaScript meaning. Targets are
// identified through an own static `tag` (never through Function#name, which esbuild does not promise
// to keep).
const decorPrelude = descHelper + `function tname(t) { return typeof t === "function" ? "ctor:" + t.tag + (Object.prototype.hasOwnProperty.call(t, "tag") ? "" : ":replaced") : "proto:" + (t && t.constructor ? t.constructor.tag : "?"); }
function ddesc(x) { if (x === undefined) return "undef"; if (typeof x === "number") return x; if (typeof x === "object" && x) return Object.keys(x).sort().join("|") + ":" + x.enumerable + "/" + x.configurable + "/" + x.writable; return typeof x; }
function d(n, mode) {
  log("eval", n);
  return function (t, k, x) {
    log("apply", n, arguments.length, tname(t), k === undefined ? "no-key" : String(k), ddesc(x));
    if (mode === "wrap" && x && typeof x.value === "function") { var f = x.value; return { value: function () { log("wrapped", n); return f.apply(this, arguments); }, writable: true, enumerable: false, configurable: true }; }
    if (mode === "enum" && x && typeof x === "object") { x.enumerable = true; return; }
    if (mode === "getwrap" && x && x.get) { var gg = x.get; return { get: function () { log("wrapped-get", n); return gg.call(this); }, set: x.set, enumerable: false, configurable: true }; }
    if (mode === "accessorize" && x === undefined && k !== undefined) { Object.defineProperty(t, k, { get: function () { log("deco-get", n); return this["$" + String(k)]; }, set: function (v) { log("deco-set", n, v); Object.defineProperty(this, "$" + String(k), { value: v, writable: true, configurable: true, enumerable: false }); }, configurable: true, enumerable: true }); return; }
    if (mode === "replace" && arguments.length === 1) { return class extends t { constructor() { super(...arguments); log("replacement ctor", n); } }; }
    if (mode === "tag" && arguments.length === 1) { t.tagged = (t.tagged || "") + n; return; }
  };
}
function pd(n, ret) {
  log("eval", n);
  return function (t, k, i) {
    log("apply-param", n, arguments.length, tname(t), k === undefined ? "no-key" : String(k), i);
    if (ret === "num") return 1;
    if (ret === "obj") return {};
  };
}
function plain1(t, k, x) { log("apply", "plain1", arguments.length, tname(t), k === undefined ? "no-key" : String(k), ddesc(x)); }
var lib = { plain2: function (t, k, x) { log("apply", "plain2", arguments.length, tname(t), k === undefined ? "no-key" : String(k), ddesc(x)); } };
class B0 { constructor() { log("B0 ctor", arguments.length); } }
`

type decorGen struct {
	G
	id     int
	truthy bool // a parameter decorator with a truthy return value was drawn
}

func (g *decorGen) nextID() int { g.id++; return g.id }

// dec draws one decorator expression for the given position.
func (g *decorGen) dec(pos string) string {
	if pos == "param" {
		ret := ""
		if g.chance("truthyparam", 2) {
			ret = g.pick("pret", []string{"num", "obj"})
			g.truthy = true
		}
		return fmt.Sprintf("pd(\"P%d\", %q)", g.nextID(), ret)
	}
	switch g.n("decform", 20) {
	case 0:
		return "plain1"
	case 1:
		return "lib.plain2"
	case 2:
		return "(0, lib.plain2)"
	}
	mode := ""
	if g.chance("mode", 45) {
		switch pos {
		case "method":
			mode = g.pick("mmode", []string{"wrap", "enum"})
		case "accessor":
			mode = g.pick("amode", []string{"getwrap", "enum"})
		case "field":
			mode = "accessorize"
		case "class":
			mode = g.pick("cmode", []string{"replace", "tag", "replace"})
		}
	}
	return fmt.Sprintf("d(\"%s%d\", %q)", strings.ToUpper(pos[:1]), g.nextID(), mode)
}

func (g *decorGen) decs(pos string, max int) []string {
	var out []string
	n := g.n("ndecs", max+1)
	for i := 0; i < n; i++ {
		out = append(out, g.dec(pos))
	}
	return out
}

func (g *decorGen) params(max int) []cParam {
	var ps []cParam
	n := g.n("nparams", max+1)
	for i := 0; i < n; i++ {
		p := cParam{Name: []string{"x", "y"}[i], Decs: g.decs("param", 2)}
		if g.flip("ptype") {
			p.Type = "any"
		}
		ps = append(ps, p)
	}
	return ps
}

func (g *decorGen) genDecorClass(name, extends string, define bool) (*classIR, []string) {
	c := &classIR{Name: name, Extends: extends, ClassDecs: g.decs("class", 3)}
	var obs []string
	c.Members = append(c.Members, cMember{Kind: "field", Static: true, KeyTS: "tag", Acc: ".tag", FKind: "init", Init: fmt.Sprintf("%q", name)})
	methodKeys := []fname{{"m1", ".m1"}, {"m2", ".m2"}, {`"m 3"`, `["m 3"]`}, {`["m4"]`, `["m4"]`}}
	fieldKeys := []fname{{"f1", ".f1"}, {"f2", ".f2"}, {`"f 3"`, `["f 3"]`}, {`["f4"]`, `["f4"]`}}
	accKeys := []fname{{"g1", ".g1"}, {`"g 2"`, `["g 2"]`}}
	used := map[string]bool{}
	takeKey := func(pool []fname, label string, static bool) (fname, bool) {
		n := pool[g.n(label, len(pool))]
		id := fmt.Sprint(static, n.ts)
		if used[id] {
			return n, false
		}
		used[id] = true
		return n, true
	}
	nm := g.rng("nmembers", 1, 6)
	useProps := g.chance("paramprops", 20)
	for i := 0; i < nm; i++ {
		k := g.n("mkind", 100)
		switch {
		case k < 45: // method (static for a third)
			static := g.chance("static", 30)
			n, ok := takeKey(methodKeys, "mkey", static)
			if !ok {
				continue
			}
			m := cMember{Kind: "method", Static: static, KeyTS: n.ts, Acc: n.acc, KeyLit: keyString(n), Decs: g.decs("method", 3), Params: g.params(2)}
			if g.chance("effectkey", 12) {
				// a computed method name with a side effect: evaluated once, at class definition time
				id := g.nextID()
				val := fmt.Sprintf("mk%d", id)
				m.KeyExpr = fmt.Sprintf("p(%d, %q)", id, val)
				m.KeyTS = "[" + m.KeyExpr + "]"
				m.Temp = fmt.Sprintf("_key%d", id)
				m.KeyLit = m.Temp
				m.Acc = fmt.Sprintf("[%q]", val)
			}
			if g.chance("access", 20) {
				m.Mods = g.pick("maccess", []string{"public ", "private ", "protected "})
			}
			label := strings.Trim(m.Acc, ".[]\"")
			m.Body = fmt.Sprintf("log(\"in %s\", arguments.length); return %d;", label, g.nextID())
			recv := "o"
			if static {
				recv = name
				if g.chance("selfref", 30) {
					m.Body = fmt.Sprintf("log(\"in %s\"); return this === %s;", label, name)
				}
			} else if g.chance("selfref", 30) {
				// the class name inside a method denotes the (possibly replaced) class binding
				m.Body = fmt.Sprintf("log(\"in %s\"); return [this instanceof %s, this.constructor === %s];", label, name, name)
			}
			obs = append(obs, fmt.Sprintf("log(\"call %s\", %s%s(1, 2));", label, recv, m.Acc))
			c.Members = append(c.Members, m)
		case k < 70: // field
			static := g.chance("static", 30)
			n, ok := takeKey(fieldKeys, "fkey", static)
			if !ok || (useProps && define && !static) {
				continue
			}
			m := cMember{Kind: "field", Static: static, KeyTS: n.ts, Acc: n.acc, KeyLit: keyString(n), Decs: g.decs("field", 2)}
			switch g.n("fkind", 10) {
			case 0, 1:
				m.FKind, m.Type = "bare", "any"
			case 2:
				m.FKind, m.Type = "definite", "any"
			default:
				m.FKind = "init"
				m.Init = fmt.Sprintf("p(%d, %d)", g.nextID(), g.rng("fval", 1, 9))
			}
			if g.chance("access", 20) {
				m.Mods = g.pick("faccess", []string{"public ", "private ", "protected "})
			}
			recv := "o"
			if static {
				recv = name
			}
			label := strings.Trim(m.Acc, ".[]\"")
			obs = append(obs, fmt.Sprintf("log(\"read %s\", %s%s); %s%s = \"w\"; log(\"reread %s\", %s%s);", label, recv, m.Acc, recv, m.Acc, label, recv, m.Acc))
			c.Members = append(c.Members, m)
		case k < 88: // accessor pair (decorators go on the first of the two)
			static := g.chance("static", 25)
			n, ok := takeKey(accKeys, "akey", static)
			if !ok {
				continue
			}
			label := strings.Trim(n.acc, ".[]\"")
			get := cMember{Kind: "get", Static: static, KeyTS: n.ts, Acc: n.acc, KeyLit: keyString(n), Body: fmt.Sprintf("log(\"getter %s\"); return this.$store;", label)}
			set := cMember{Kind: "set", Static: static, KeyTS: n.ts, Acc: n.acc, KeyLit: keyString(n), Params: []cParam{{Name: "v"}}, Body: fmt.Sprintf("log(\"setter %s\", v); this.$store = v;", label)}
			pair := []cMember{get, set}
			switch g.n("pairshape", 4) {
			case 0:
				pair = []cMember{set, get}
			case 1:
				pair = []cMember{get}
			}
			pair[0].Decs = g.decs("accessor", 2)
			if pair[0].Kind == "set" && len(pair[0].Decs) > 0 {
				// tsc applies the parameter decorators of a setter together with the decorators of the first
				// decorated accessor of the pair; only the unambiguous shape is generated
				pair[0].Params = []cParam{{Name: "v", Decs: g.decs("param", 1)}}
			}
			recv := "o"
			if static {
				recv = name
			}
			if len(pair) == 2 {
				obs = append(obs, fmt.Sprintf("%s%s = 5;", recv, n.acc))
			}
			obs = append(obs, fmt.Sprintf("log(\"accessor %s\", %s%s);", label, recv, n.acc))
			c.Members = append(c.Members, pair...)
		default:
			c.Members = append(c.Members, cMember{Kind: "block", Static: true, Body: fmt.Sprintf("log(\"static block %d\", Object.keys(this));", g.nextID())})
		}
	}
	if useProps || g.chance("ctor", 50) {
		ct := &cCtor{Params: g.params(2)}
		if useProps && len(ct.Params) == 0 {
			ct.Params = []cParam{{Name: "x", Decs: g.decs("param", 2)}}
		}
		if useProps {
			ct.Params[0].Name = "pa"
			ct.Params[0].Prop = g.pick("propmod", []string{"public", "private", "readonly", "public readonly"})
		}
		if extends != "" {
			ct.SuperArgs = g.pick("superargs", []string{"", "1"})
		}
		ct.Post = fmt.Sprintf("log(\"ctor body %s\", Object.keys(this));", name)
		c.Ctor = ct
		c.CtorAt = 1 + g.n("ctorat", len(c.Members))
	}
	if !c.hasDecorators() {
		c.ClassDecs = []string{g.dec("class")}
	}
	return c, obs
}

func genDecorCase(rt *rapid.T) ClassCase {
	g := &decorGen{G: G{rt}}
	fg := &fieldsGen{G: G{rt}}
	c := ClassCase{Decorators: true}
	define := fg.fieldConfig(&c)
	var ts, ref, opp strings.Builder
	both := func(s string) { ts.WriteString(s); ref.WriteString(s); opp.WriteString(s) }
	ref.WriteString(tscDecorateHelpers)
	opp.WriteString(tscDecorateHelpers)
	both(decorPrelude)
	var feats []string
	ncls := 1
	if g.chance("second", 25) {
		ncls = 2
	}
	for i := 0; i < ncls; i++ {
		name := fmt.Sprintf("C%d", i)
		ext := ""
		switch {
		case i == 1 && g.flip("extfirst"):
			ext = "C0" // the (possibly replaced) first class
		case g.chance("derived", 40):
			ext = "B0"
		}
		cl, obs := g.genDecorClass(name, ext, define)
		feats = append(feats, cl.features()...)
		ts.WriteString(cl.TS())
		ref.WriteString(cl.Ref(define))
		opp.WriteString(cl.Ref(!define))
		var o strings.Builder
		fmt.Fprintf(&o, "log(\"after %s\", typeof %s, %s.tagged);\n", name, name, name)
		fmt.Fprintf(&o, "try {\n  var o = new %s(10, 20);\n  log(\"instance %s\", o);\n", name, name)
		for _, s := range obs {
			o.WriteString("  " + s + "\n")
		}
		fmt.Fprintf(&o, "  for (var pr = Object.getPrototypeOf(o); pr && pr !== Object.prototype; pr = Object.getPrototypeOf(pr)) log(\"proto\", desc(pr));\n")
		fmt.Fprintf(&o, "  for (var cl = %s; cl && cl !== Function.prototype; cl = Object.getPrototypeOf(cl)) log(\"statics\", desc(cl));\n", name)
		o.WriteString("} catch (e) { log(\"threw\", e); }\n")
		both(o.String())
	}
	if g.truthy {
		feats = append(feats, "param-decorator-returns-truthy")
	}
	c.TS, c.Reference, c.Opposite = ts.String(), ref.String(), opp.String()
	c.Features = uniq(feats)
	return c
}

// a method line that starts (after TypeScript modifiers) with a computed key with side effects, i.e. without
// decorators of its own, and that has a decorated parameter
var paramOnlyComputedKey = regexp.MustCompile(`(?m)^\s*(?:public |private |protected )?(?:static )?\[p\(\d+, "mk\d+"\)\]\([^)]*@pd\(`)

var truthyParamDec = regexp.MustCompile(`pd\("P\d+", "(num|obj)"\)`)

// judgeDecor adds the matcher of the known finding C06-param-decorator-return-value: the case has a parameter
// decorator whose return value is truthy, it fails as generated, and it passes once those return values
// are made undefined (nothing else about the case changes).
func judgeDecor(c ClassCase) vdrv.Verdict {
	v := judgeClass(c)
	if !v.OK && v.Discard == "" && strings.Contains(v.Observed, "panic: Internal error") && paramOnlyComputedKey.MatchString(c.TS) {
		// known finding C06-param-decorator-computed-key-panic: a method whose computed key needs a temporary and
		// that carries parameter decorators but no decorator of its own
		v.Known = "C06-param-decorator-computed-key-panic"
		return v
	}
	if !v.OK && v.Discard == "" && truthyParamDec.MatchString(c.TS) {
		n := c
		neutral := func(s string) string {
			return truthyParamDec.ReplaceAllStringFunc(s, func(m string) string { return m[:strings.LastIndex(m, ", ")] + `, "")` })
		}
		n.TS, n.Reference, n.Opposite = neutral(c.TS), neutral(c.Reference), neutral(c.Opposite)
		if w := judgeClass(n); w.OK && w.Discard == "" {
			v.Known = "C06-param-decorator-return-value"
		}
	}
	return v
}

func replayDecor(raw json.RawMessage) vdrv.Verdict {
	var c ClassCase
	if json.Unmarshal(raw, &c) != nil {
		return vdrv.Skip("bad-replay")
	}
	return judgeDecor(c)
}

func runDecor(t *testing.T) {
	H.Rule("decor", "rapid: one or two classes (plain, derived, or derived from the previous possibly-replaced class) from the class IR with legacy decorators on the class, methods, static methods, accessor pairs (on the first accessor), instance/static properties, method/constructor/setter parameters (0–3 decorators per position, 0–2 per parameter); decorator expressions are factory calls that log their evaluation, plain identifiers, member accesses and parenthesised expressions; decorators log their application (argument count, target kind through an own static tag, key, descriptor shape / parameter index) and optionally replace the method/accessor descriptor, mutate it, install an accessor for a property, replace the class by a subclass or tag it; parameter decorators return undefined or (rarely) a truthy value that TypeScript ignores; computed method names with side effects; parameter properties; methods that refer to the class by name (the binding a class decorator replaces); × experimentalDecorators:true × field semantics as in `fields` × esbuild target × minify. The JavaScript meaning is tsc's legacy-decorator scheme written by hand: class definition (static initialisers included) first, then __decorate([member decorators…, __param(i, d)…], C.prototype, key, null | void 0) for the instance members in source order, then the static members, then C = __decorate([class decorators…, __param(i, d) of the constructor…], C), with tslib's __decorate (right-to-left application, returned descriptor / class replaces) and __param (return value discarded). Oracle: V8 trace of esbuild's output == V8 trace of that JavaScript. Excluded by construction: emitDecoratorMetadata, decorators on both accessors of a pair, the class's own name inside static initialisers of a decorated class, property decorators that return a value, numeric keys on decorated members. non-trivial = ≥3 events of which ≥2 decorator applications")
	H.SetupRapid("decor", H.N(1600, 40000))
	rapid.Check(t, func(rt *rapid.T) {
		c := genDecorCase(rt)
		H.Report(rt, "decor", c.TS+c.tsconfigRaw()+c.EsTarget+c.Minify, c, judgeDecor(c))
	})
}

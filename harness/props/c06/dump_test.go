package c06

import (
	"fmt"
	"os"
	"strings"
	"testing"

	"pgregory.net/rapid"
)

// TestDump prints generated cases of one sub-check with their verdicts (development aid):
// VERIF_C06_DUMP=fields[:filter] go test -tags verif ./props/c06 -run TestDump -rapid.checks=20
func TestDump(t *testing.T) {
	spec := os.Getenv("VERIF_C06_DUMP")
	if spec == "" {
		t.Skip("VERIF_C06_DUMP not set")
	}
	sub, filter, _ := strings.Cut(spec, ":")
	setup(t)
	defer W.Close()
	rapid.Check(t, func(rt *rapid.T) {
		var text string
		var ok bool
		var detail string
		show := func(ts, ref string, vOK bool, discard, det, exp, obs string) {
			text = "==== TS\n" + ts + "\n==== REF\n" + ref
			ok = vOK && discard == ""
			detail = fmt.Sprintf("discard=%q detail=%s\n--- expected\n%s\n--- observed\n%s", discard, det, exp, obs)
		}
		switch sub {
		case "fields":
			c := genFieldsCase(rt)
			v := judgeClass(c)
			show(c.TS+"\n// "+c.tsconfigRaw()+" es="+c.EsTarget+" minify="+c.Minify, c.Reference, v.OK, v.Discard, v.Detail, v.Expected, v.Observed)
		case "decor":
			c := genDecorCase(rt)
			v := judgeDecor(c)
			show(c.TS+"\n// "+c.tsconfigRaw()+" es="+c.EsTarget+" minify="+c.Minify, c.Reference, v.OK && v.Known == "", v.Discard, v.Known+" "+v.Detail, v.Expected, v.Observed)
		case "importeq":
			c := genImportEqCase(rt)
			v := judgeImportEq(c)
			show(filesText(c.Files)+fmt.Sprintf("// bundle=%v minify=%s", c.Bundle, c.Minify), c.Reference, v.OK && v.Known == "", v.Discard, v.Known+" "+v.Detail, v.Expected, v.Observed)
		case "enumx":
			c := genEnumXCase(rt)
			v := judgeEnumXKnown(c)
			show(filesText(c.Files)+fmt.Sprintf("// format=%s minify=%s inlined=%v", c.Format, c.Minify, c.Inlined), c.Reference, v.OK && v.Known == "", v.Discard, v.Known+" "+v.Detail, v.Expected, v.Observed)
		}
		switch filter {
		case "bad":
			if !ok {
				fmt.Println(text)
				fmt.Println(detail)
				fmt.Println("################################################################")
			}
		default:
			fmt.Println(text)
			fmt.Println(detail)
			fmt.Println("################################################################")
		}
	})
}

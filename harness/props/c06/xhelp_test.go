// Shared helpers of the C06 sub-checks importeq, enumx, fields and decor.
package c06

import (
	"fmt"
	"path"
	"sort"
	"strings"

	"github.com/evanw/esbuild/pkg/api"
	"pgregory.net/rapid"
)

// G wraps the rapid source. All draws are built from fair bits: rapid's IntRange is biased towards
// small values, which starves the later alternatives of a grammar.
type G struct{ t *rapid.T }

var bitGen = rapid.Bool()

func (g G) n(label string, n int) int {
	if n <= 1 {
		return 0
	}
	bits := 3
	for m := n - 1; m > 0; m >>= 1 {
		bits++
	}
	v := 0
	for i := 0; i < bits; i++ {
		v <<= 1
		if bitGen.Draw(g.t, label) {
			v |= 1
		}
	}
	return v % n
}

func (g G) rng(label string, lo, hi int) int      { return lo + g.n(label, hi-lo+1) }
func (g G) chance(label string, pct int) bool     { return g.n(label, 100) < pct }
func (g G) pick(label string, xs []string) string { return xs[g.n(label, len(xs))] }
func (g G) flip(label string) bool                { return bitGen.Draw(g.t, label) }

// memBuild bundles an in-memory file tree (keys are paths relative to the virtual root /mem) with a
// resolver/loader plugin; nothing touches the disk. Specifiers that do not start with "./" or "../" are
// external.
func memBuild(files map[string]string, entry string, o api.BuildOptions) api.BuildResult {
	o.EntryPoints = []string{"/mem/" + entry}
	o.Bundle = true
	o.Write = false
	o.LogLevel = api.LogLevelSilent
	lookup := func(p string) (string, bool) {
		rel := strings.TrimPrefix(p, "/mem/")
		for _, cand := range []string{rel, rel + ".ts", rel + ".js"} {
			if _, ok := files[cand]; ok {
				return "/mem/" + cand, true
			}
		}
		return "", false
	}
	o.Plugins = append(o.Plugins, api.Plugin{Name: "mem", Setup: func(b api.PluginBuild) {
		b.OnResolve(api.OnResolveOptions{Filter: ".*"}, func(a api.OnResolveArgs) (api.OnResolveResult, error) {
			if a.Kind == api.ResolveEntryPoint {
				return api.OnResolveResult{Path: a.Path, Namespace: "file"}, nil
			}
			if strings.HasPrefix(a.Path, "./") || strings.HasPrefix(a.Path, "../") {
				if p, ok := lookup(path.Join(path.Dir(a.Importer), a.Path)); ok {
					return api.OnResolveResult{Path: p, Namespace: "file"}, nil
				}
				return api.OnResolveResult{}, fmt.Errorf("mem: cannot resolve %q from %q", a.Path, a.Importer)
			}
			return api.OnResolveResult{Path: a.Path, External: true}, nil
		})
		b.OnLoad(api.OnLoadOptions{Filter: "^/mem/", Namespace: "file"}, func(a api.OnLoadArgs) (api.OnLoadResult, error) {
			src, ok := files[strings.TrimPrefix(a.Path, "/mem/")]
			if !ok {
				return api.OnLoadResult{}, fmt.Errorf("mem: no file %q", a.Path)
			}
			l := api.LoaderTS
			if strings.HasSuffix(a.Path, ".js") {
				l = api.LoaderJS
			}
			return api.OnLoadResult{Contents: &src, Loader: l, ResolveDir: path.Dir(a.Path)}, nil
		})
	}})
	return api.Build(o)
}

func firstOutput(r api.BuildResult) string {
	for _, f := range r.OutputFiles {
		return string(f.Contents)
	}
	return ""
}

func msgTexts(ms []api.Message) string {
	var s []string
	for _, m := range ms {
		s = append(s, m.Text)
	}
	return strings.Join(s, " | ")
}

// filesText renders a file map deterministically (for case keys and failure reports).
func filesText(files map[string]string) string {
	var names []string
	for n := range files {
		names = append(names, n)
	}
	sort.Strings(names)
	var sb strings.Builder
	for _, n := range names {
		fmt.Fprintf(&sb, "// ---- %s\n%s\n", n, files[n])
	}
	return sb.String()
}

func esTarget(name string) api.Target {
	switch name {
	case "es2015":
		return api.ES2015
	case "es2016":
		return api.ES2016
	case "es2017":
		return api.ES2017
	case "es2018":
		return api.ES2018
	case "es2019":
		return api.ES2019
	case "es2020":
		return api.ES2020
	case "es2021":
		return api.ES2021
	case "es2022":
		return api.ES2022
	case "es2023":
		return api.ES2023
	case "esnext":
		return api.ESNext
	}
	return api.DefaultTarget
}

func uniq(xs []string) []string {
	seen := map[string]bool{}
	var out []string
	for _, x := range xs {
		if !seen[x] {
			seen[x] = true
			out = append(out, x)
		}
	}
	sort.Strings(out)
	return out
}

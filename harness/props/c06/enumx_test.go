// C06 sub-check "enumx": enums and const enums declared in one module and used in another when
// bundling (inlining across modules, re-exports, namespace imports).
package c06

import (
	"encoding/json"
	"fmt"
	"regexp"
	"strings"
	"testing"

	"github.com/evanw/esbuild/pkg/api"
	"github.com/evanw/esbuild/verif/vdrv"
	"pgregory.net/rapid"
)

type EnumXCase struct {
	Files     map[string]string `json:"files"`     // TypeScript modules, entry main.ts
	Reference string            `json:"reference"` // one script: the enum objects in module evaluation order, then the uses
	Format    string            `json:"format"`    // iife | esm
	Minify    string            `json:"minify,omitempty"`
	// Identifiers (declared names and import aliases) of const enums whose members are all constant within
	// their own file and that are only used through member accesses: the bundle must not touch an enum object
	// through any of them.
	Inlined  []string `json:"inlined,omitempty"`
	Features []string `json:"features,omitempty"`
}

func obsOnly(events []string, end string) string {
	return strings.Join(events, "\n") + "\nEND " + end + "\n"
}

func judgeEnumX(c EnumXCase) vdrv.Verdict {
	ref, err := W.Script(c.Reference, false)
	if err != nil {
		return vdrv.Skip("node-infra")
	}
	if ref.ParseError != "" {
		return vdrv.Skip("reference-invalid:" + ref.ParseMessage)
	}
	if ref.Timeout {
		return vdrv.Skip("reference-timeout")
	}
	o := api.BuildOptions{Format: api.FormatIIFE}
	if c.Format == "esm" {
		o.Format = api.FormatESModule
	}
	switch c.Minify {
	case "syntax":
		o.MinifySyntax = true
	case "all":
		o.MinifySyntax, o.MinifyWhitespace, o.MinifyIdentifiers = true, true, true
	}
	r := memBuild(c.Files, "main.ts", o)
	if len(r.Errors) > 0 {
		return vdrv.Fail("esbuild rejects the TypeScript program: "+msgTexts(r.Errors), "accepted", msgTexts(r.Errors))
	}
	code := firstOutput(r)
	var gotTrace string
	if c.Format == "esm" {
		got, err := W.Module(code, nil)
		if err != nil {
			return vdrv.Skip("node-infra")
		}
		if got.ParseError != "" || got.LinkError != "" {
			gotTrace = got.Trace()
		} else {
			gotTrace = obsOnly(got.Events, got.End)
		}
	} else {
		got, err := W.Script(code, false)
		if err != nil {
			return vdrv.Skip("node-infra")
		}
		if got.ParseError != "" {
			gotTrace = got.Trace()
		} else {
			gotTrace = obsOnly(got.Events, got.End)
		}
	}
	refTrace := obsOnly(ref.Events, ref.End)
	cls := []string{"format=" + c.Format, "minify=" + c.Minify}
	for _, f := range c.Features {
		cls = append(cls, "has="+f)
	}
	if refTrace != gotTrace {
		return vdrv.Fail(fmt.Sprintf("bundled enum program behaves differently from the TypeScript-defined enum values (format=%s minify=%s)", c.Format, c.Minify),
			refTrace, gotTrace+"\n--- output\n"+code)
	}
	if c.Minify != "all" {
		for _, name := range c.Inlined {
			re := regexp.MustCompile(`(^|[^\w$])` + regexp.QuoteMeta(name) + `\s*(\.|\[)`)
			if loc := re.FindStringIndex(stripComments(code)); loc != nil {
				return vdrv.Fail("a const enum whose members are constants of its own file is accessed as an object in the bundle instead of being inlined: "+name,
					"no member access through "+name, code)
			}
		}
		if len(c.Inlined) > 0 {
			cls = append(cls, "inlining-asserted")
		}
	}
	v := vdrv.Pass(len(ref.Events) >= 3 && len(c.Files) >= 2, cls...)
	v.Observed = fmt.Sprintf("%d events, %d files", len(ref.Events), len(c.Files))
	return v
}

var blockComment = regexp.MustCompile(`/\*[^*]*\*+(?:[^/*][^*]*\*+)*/`)
var lineComment = regexp.MustCompile(`(?m)^\s*//.*$`)

func stripComments(s string) string {
	return lineComment.ReplaceAllString(blockComment.ReplaceAllString(s, ""), "")
}

// an enum member access as the left operand of `**` (the only spelling the generator uses)
var powUse = regexp.MustCompile(`[\w$.]+(\["[^"]*"\])? \*\* 2, `)

// judgeEnumXKnown adds the matcher of known finding C06-negative-enum-pow: the bundle is a SyntaxError, the
// entry uses an enum member as the left operand of `**`, and the case passes once those operands are deleted
// from the program and from the reference (nothing else changes).
func judgeEnumXKnown(c EnumXCase) vdrv.Verdict {
	v := judgeEnumX(c)
	if !v.OK && v.Discard == "" && strings.HasPrefix(v.Observed, "PARSE-ERROR:SyntaxError") && powUse.MatchString(c.Files["main.ts"]) {
		n := c
		n.Files = map[string]string{}
		for k, s := range c.Files {
			n.Files[k] = s
		}
		n.Files["main.ts"] = powUse.ReplaceAllString(c.Files["main.ts"], "")
		n.Reference = powUse.ReplaceAllString(c.Reference, "")
		if w := judgeEnumX(n); w.OK && w.Discard == "" {
			v.Known = "C06-negative-enum-pow"
		}
	}
	return v
}

func replayEnumX(raw json.RawMessage) vdrv.Verdict {
	var c EnumXCase
	if json.Unmarshal(raw, &c) != nil {
		return vdrv.Skip("bad-replay")
	}
	return judgeEnumXKnown(c)
}

// ----------------------------------------------------------------------------- generator

type xMember struct {
	name string // property name (may need brackets)
	kind string // num | str | computed
	// cross: the initialiser refers to an enum of another module (then the next member needs an initialiser
	// and the enum is not guaranteed to be inlined)
	cross bool
}

type xEnum struct {
	name    string
	isConst bool
	file    int
	members []xMember
	// selfContained: every member is a constant of the enum's own file (literals, earlier members, enums of
	// the same file) and needs no number-to-string conversion
	selfContained bool
	ts, ref       string
}

type xGen struct {
	G
	id    int
	feats []string
}

func (g *xGen) nextID() int   { g.id++; return g.id }
func (g *xGen) feat(s string) { g.feats = append(g.feats, s) }

func isIdent(s string) bool {
	return regexp.MustCompile(`^[A-Za-z_$][\w$]*$`).MatchString(s)
}

// access prints a member access on the expression e.
func access(e, member string, bracket bool) string {
	if bracket || !isIdent(member) {
		return fmt.Sprintf("%s[%q]", e, member)
	}
	return e + "." + member
}

// visible describes how an enum can be named from the file that is being generated.
type visible struct {
	e     *xEnum
	local string // expression naming the enum object in this file
	cross bool   // declared in another module
}

// numLeaf draws a numeric leaf: a literal or a reference to a numeric member. It returns the TypeScript and
// the reference spelling and whether another module is involved.
func (g *xGen) numLeaf(self *xEnum, vis []visible) (ts, ref string, cross bool) {
	type cand struct {
		v visible
		m xMember
	}
	var cands []cand
	for _, m := range self.members {
		if m.kind == "num" {
			cands = append(cands, cand{visible{e: self, local: self.name}, m})
		}
	}
	for _, v := range vis {
		for _, m := range v.e.members {
			if m.kind == "num" {
				cands = append(cands, cand{v, m})
			}
		}
	}
	if len(cands) > 0 && g.chance("memberref", 55) {
		c := cands[g.n("which", len(cands))]
		ref = access(c.v.e.name, c.m.name, false)
		if c.v.e == self && isIdent(c.m.name) && g.flip("bare") {
			return c.m.name, ref, c.m.cross
		}
		if c.v.cross {
			g.feat("initialiser-refers-to-enum-of-another-module")
		} else if c.v.e != self {
			g.feat("initialiser-refers-to-enum-of-same-file")
		}
		// a member computed from a member that depends on another module depends on that module too
		return access(c.v.local, c.m.name, g.chance("bracket", 20)), ref, c.v.cross || c.m.cross
	}
	lit := g.pick("num", []string{"1", "2", "0", "7", "10", "0x10", "1.5", "1e3", "255", "(-1)", "4294967295", "2147483648", "0.1"})
	return lit, lit, false
}

func (g *xGen) numExpr(self *xEnum, vis []visible) (ts, ref string, cross bool) {
	a, ra, c1 := g.numLeaf(self, vis)
	switch g.n("shape", 6) {
	case 0:
		return a, ra, c1
	case 1:
		op := g.pick("uop", []string{"-", "~", "+"})
		return op + "(" + a + ")", op + "(" + ra + ")", c1
	}
	bin := func(a, ra string) (string, string, bool) {
		op := g.pick("bop", []string{"+", "-", "|", "&", "^", "<<", ">>", ">>>", "*", "/", "%"})
		switch op {
		case "*":
			l := g.pick("mul", []string{"2", "3", "10", "0.5", "(-1)"})
			return "(" + a + ") * " + l, "(" + ra + ") * " + l, false
		case "/", "%":
			l := g.pick("div", []string{"2", "3", "7", "0.5", "(-4)"})
			return "(" + a + ") " + op + " " + l, "(" + ra + ") " + op + " " + l, false
		}
		b, rb, c2 := g.numLeaf(self, vis)
		return "(" + a + ") " + op + " (" + b + ")", "(" + ra + ") " + op + " (" + rb + ")", c2
	}
	t, r, c2 := bin(a, ra)
	if g.chance("deeper", 30) {
		t2, r2, c3 := bin(t, r)
		return t2, r2, c1 || c2 || c3
	}
	return t, r, c1 || c2
}

func (g *xGen) genEnum(name string, file int, isConst, allowComputed bool, vis []visible) *xEnum {
	e := &xEnum{name: name, isConst: isConst, file: file, selfContained: true}
	var tsb, rb strings.Builder
	kw := "enum"
	if isConst {
		kw = "const enum"
	}
	fmt.Fprintf(&tsb, "export %s %s {\n", kw, name)
	fmt.Fprintf(&rb, "var %s; (function (%s) {\n", name, name)
	n := g.rng("nmembers", 1, 5)
	autoOK := true // the previous member is a numeric constant of this file (or there is none)
	prevNum := ""
	names := []string{"A", "B", "C", "D", "E"}
	for i := 0; i < n; i++ {
		m := xMember{name: names[i]}
		if g.chance("quotedname", 10) {
			m.name = fmt.Sprintf("k-%d", i)
		}
		tsName := m.name
		if !isIdent(tsName) {
			tsName = fmt.Sprintf("%q", tsName)
		}
		k := g.n("mkind", 100)
		switch {
		case k < 25 && autoOK:
			m.kind = "num"
			fmt.Fprintf(&tsb, "  %s,\n", tsName)
			if prevNum == "" {
				fmt.Fprintf(&rb, "  %s[%s[%q] = 0] = %q;\n", name, name, m.name, m.name)
			} else {
				fmt.Fprintf(&rb, "  %s[%s[%q] = %s + 1] = %q;\n", name, name, m.name, access(name, prevNum, false), m.name)
			}
			g.feat("auto-increment")
		case k < 62:
			m.kind = "num"
			ts, ref, cross := g.numExpr(e, vis)
			m.cross = cross
			fmt.Fprintf(&tsb, "  %s = %s,\n", tsName, ts)
			fmt.Fprintf(&rb, "  %s[%s[%q] = %s] = %q;\n", name, name, m.name, ref, m.name)
			if cross {
				e.selfContained = false
			}
		case k < 70 && allowComputed && !isConst:
			m.kind = "computed"
			id := g.nextID()
			init := fmt.Sprintf("p(%d, %d)", id, g.rng("cval", 1, 40))
			fmt.Fprintf(&tsb, "  %s = %s,\n", tsName, init)
			fmt.Fprintf(&rb, "  %s[%s[%q] = %s] = %q;\n", name, name, m.name, init, m.name)
			e.selfContained = false
			g.feat("computed-member")
		default:
			m.kind = "str"
			lit := g.pick("str", []string{`"a"`, `"b c"`, `""`, "`tpl`", `"é"`, `"0"`, `"x\ny"`})
			ts, ref := lit, lit
			// string members of this enum and of enums of the same file (references to string members of
			// another module are an error under isolatedModules)
			type cand struct{ ts, ref string }
			var cands []cand
			for _, pm := range e.members {
				if pm.kind == "str" {
					t := access(name, pm.name, false)
					if isIdent(pm.name) && g.flip("barestr") {
						cands = append(cands, cand{pm.name, t})
					} else {
						cands = append(cands, cand{t, t})
					}
				}
			}
			for _, v := range vis {
				if v.cross {
					continue
				}
				for _, pm := range v.e.members {
					if pm.kind == "str" {
						cands = append(cands, cand{access(v.local, pm.name, false), access(v.e.name, pm.name, false)})
					}
				}
			}
			if len(cands) > 0 && g.chance("strref", 50) {
				c := cands[g.n("whichstr", len(cands))]
				switch g.n("strshape", 3) {
				case 0:
					ts, ref = c.ts+" + "+lit, c.ref+" + "+lit
				case 1:
					ts, ref = lit+" + "+c.ts, lit+" + "+c.ref
				default:
					ts, ref = "`<${"+c.ts+"}>`", "`<${"+c.ref+"}>`"
					g.feat("template-initialiser")
				}
				g.feat("string-member-from-string-member")
			}
			fmt.Fprintf(&tsb, "  %s = %s,\n", tsName, ts)
			fmt.Fprintf(&rb, "  %s[%q] = %s;\n", name, m.name, ref)
		}
		autoOK = m.kind == "num" && !m.cross
		if m.kind == "num" {
			prevNum = m.name
		}
		e.members = append(e.members, m)
	}
	tsb.WriteString("}\n")
	fmt.Fprintf(&rb, "})(%s || (%s = {}));\n", name, name)
	e.ts, e.ref = tsb.String(), rb.String()
	if isConst {
		g.feat("const-enum")
	} else {
		g.feat("enum")
	}
	return e
}

// uses prints statements that observe enum e through the expression local (TypeScript) / e.name (reference).
func (g *xGen) uses(e *xEnum, local string, ts, ref *strings.Builder) {
	n := g.rng("nuses", 1, 4)
	for i := 0; i < n; i++ {
		m := e.members[g.n("member", len(e.members))]
		br := g.chance("bracketuse", 25)
		tv, rv := access(local, m.name, br), access(e.name, m.name, br)
		label := e.name + ":" + m.name
		var form string
		k := g.n("use", 14)
		switch {
		case k == 0 && !e.isConst:
			form = "log(%q, Object.keys(@E))"
			g.feat("enum-object-observed")
		case k == 1 && !e.isConst:
			form = "log(%q, @E)"
			g.feat("enum-object-observed")
		case k == 2 && !e.isConst && m.kind != "str":
			form = "log(%q, @E[@V], @E[@E[@V]])"
			g.feat("reverse-mapping")
		case k == 3 && m.kind != "str":
			form = "log(%q, @V ** 2, (@V).toFixed(1), -@V, ~@V)"
		case k == 4:
			form = "log(%q, @V.toString(), `${@V}`, typeof @V)"
		case k == 5:
			form = "log(%q, { [@V]: 1 }, [@V].length, @V ? \"t\" : \"f\")"
		case k == 6:
			form = "log(%q, @V + 1, @V + \"s\", @V === @V)"
		case k == 7 && m.kind == "str":
			form = "log(%q, @V.length, @V.toUpperCase(), @V[0])"
		case k == 8:
			form = "switch (@V) { case @V: log(%q, \"matched\"); break; default: log(%q, \"default\"); }"
		case k == 9:
			form = "log(%q, (() => @V)(), [@V, @V])"
		default:
			form = "log(%q, @V)"
		}
		form = strings.ReplaceAll(form, "%q", fmt.Sprintf("%q", label))
		ts.WriteString(strings.NewReplacer("@E", local, "@V", tv).Replace(form) + ";\n")
		ref.WriteString(strings.NewReplacer("@E", e.name, "@V", rv).Replace(form) + ";\n")
	}
}

func genEnumXCase(rt *rapid.T) EnumXCase {
	g := &xGen{G: G{rt}}
	c := EnumXCase{Files: map[string]string{}}
	c.Format = g.pick("format", []string{"iife", "esm"})
	c.Minify = g.pick("minify", []string{"", "syntax", "", "all"})

	// ---- declaring modules f0 (and f1, which may refer to f0's enums in initialisers)
	nfiles := g.rng("nfiles", 1, 2)
	// Side effects (top-level logs, computed members) only in programs without const enums: whether an import
	// that is used solely through const enum members keeps a module alive differs between tsc and
	// isolatedModules, so the two never meet in one program.
	effectfulProgram := g.chance("effectful", 30)
	var enums []*xEnum
	fileTS := make([]strings.Builder, nfiles)
	fileRef := make([]strings.Builder, nfiles)
	f1ImportsF0 := false
	ecount := 0
	for f := 0; f < nfiles; f++ {
		effectful := effectfulProgram && g.chance("effectfulfile", 70)
		var vis []visible
		if f == 1 {
			// f1 may name f0's enums through a named import (renamed or not) or a namespace import
			for _, e := range enums {
				switch g.n("f1import", 4) {
				case 0:
					vis = append(vis, visible{e: e, local: e.name, cross: true})
				case 1:
					vis = append(vis, visible{e: e, local: "L" + e.name, cross: true})
				case 2:
					vis = append(vis, visible{e: e, local: "ns0." + e.name, cross: true})
				}
			}
		}
		nCross := len(vis)
		if effectful {
			s := fmt.Sprintf("log(\"f%d evaluated\");\n", f)
			fileRef[f].WriteString(s)
			g.feat("module-with-side-effects")
		}
		ne := g.rng("nenums", 1, 2)
		var body strings.Builder
		for i := 0; i < ne; i++ {
			isConst := !effectfulProgram && g.chance("const", 55)
			e := g.genEnum(fmt.Sprintf("E%d", ecount), f, isConst, effectful, vis)
			ecount++
			body.WriteString(e.ts)
			fileRef[f].WriteString(e.ref)
			enums = append(enums, e)
			vis = append(vis, visible{e: e, local: e.name})
		}
		// import exactly the names that the initialisers use (an unused import would be elided anyway)
		var named []string
		nsUsed := false
		for _, v := range vis[:nCross] {
			if !regexp.MustCompile(`(^|[^\w.])` + regexp.QuoteMeta(v.local) + `[.\[]`).MatchString(body.String()) {
				continue
			}
			switch {
			case strings.HasPrefix(v.local, "ns0."):
				nsUsed = true
			case v.local == v.e.name:
				named = append(named, v.e.name)
			default:
				named = append(named, v.e.name+" as "+v.local)
			}
		}
		if len(named) > 0 {
			fmt.Fprintf(&fileTS[f], "import { %s } from \"./f0\";\n", strings.Join(named, ", "))
			f1ImportsF0 = true
		}
		if nsUsed {
			fileTS[f].WriteString("import * as ns0 from \"./f0\";\n")
			f1ImportsF0 = true
		}
		if effectful {
			fmt.Fprintf(&fileTS[f], "log(\"f%d evaluated\");\n", f)
		}
		fileTS[f].WriteString(body.String())
		c.Files[fmt.Sprintf("f%d.ts", f)] = fileTS[f].String()
	}

	// ---- optional re-exporting module
	useRe := g.chance("reexport", 50)
	reName := map[string]string{} // enum name -> name exported by re.ts
	if useRe {
		var re strings.Builder
		var names []string
		for _, e := range enums {
			if e.file == 0 {
				if g.flip("rerename") {
					reName[e.name] = "R" + e.name
					names = append(names, e.name+" as R"+e.name)
				} else {
					reName[e.name] = e.name
					names = append(names, e.name)
				}
			}
		}
		fmt.Fprintf(&re, "export { %s } from \"./f0\";\n", strings.Join(names, ", "))
		if nfiles == 2 {
			re.WriteString("export * from \"./f1\";\n")
			for _, e := range enums {
				if e.file == 1 {
					reName[e.name] = e.name
				}
			}
			g.feat("export-star")
		}
		c.Files["re.ts"] = re.String()
		g.feat("re-export")
	}

	// ---- main: imports, an optional local enum, uses
	var mainTS, mainRef, mainBodyTS strings.Builder
	type imp struct {
		named []string
		ns    string
	}
	imports := map[string]*imp{"./f0": {}, "./f1": {}, "./re": {}}
	var vis []visible
	usedFiles := map[string]bool{}
	for i, e := range enums {
		if g.chance("skipenum", 15) && (len(vis) > 0 || i < len(enums)-1) {
			continue // not every exported enum is used (the last one is when nothing else was)
		}
		src := fmt.Sprintf("./f%d", e.file)
		exported := e.name
		if useRe && g.chance("viare", 55) {
			src, exported = "./re", reName[e.name]
			g.feat("used-through-re-export")
		}
		local := exported
		switch g.n("importstyle", 4) {
		case 0, 1:
			imports[src].named = append(imports[src].named, exported)
		case 2:
			local = "Local" + e.name
			imports[src].named = append(imports[src].named, exported+" as "+local)
			g.feat("renamed-import")
		default:
			ns := "ns_" + strings.Trim(src, "./")
			imports[src].ns = ns
			local = ns + "." + exported
			g.feat("namespace-import")
		}
		usedFiles[src] = true
		vis = append(vis, visible{e: e, local: local, cross: true})
		g.uses(e, local, &mainBodyTS, &mainRef)
		if e.isConst && e.selfContained {
			c.Inlined = append(c.Inlined, e.name, strings.Split(local, ".")[len(strings.Split(local, "."))-1])
			if exported != e.name {
				c.Inlined = append(c.Inlined, exported)
			}
		}
		if g.chance("localenum", 18) {
			// an enum of the entry module whose initialisers may refer to the imported enums
			le := g.genEnum(fmt.Sprintf("M%d", ecount), 9, g.flip("localconst"), false, vis)
			ecount++
			mainBodyTS.WriteString(strings.Replace(le.ts, "export ", "", 1))
			mainRef.WriteString(le.ref)
			if le.isConst && le.selfContained {
				c.Inlined = append(c.Inlined, le.name)
			}
			g.uses(le, le.name, &mainBodyTS, &mainRef)
			g.feat("enum-in-entry-module")
		}
	}
	var order []string
	for _, src := range []string{"./f0", "./f1", "./re"} {
		im := imports[src]
		if len(im.named) > 0 {
			fmt.Fprintf(&mainTS, "import { %s } from %q;\n", strings.Join(im.named, ", "), src)
		}
		if im.ns != "" {
			fmt.Fprintf(&mainTS, "import * as %s from %q;\n", im.ns, src)
		}
		if usedFiles[src] {
			order = append(order, src)
		}
	}
	c.Files["main.ts"] = mainTS.String() + mainBodyTS.String()

	// ---- module evaluation order: depth first along the import statements that survive
	var ref strings.Builder
	done := map[string]bool{}
	var visit func(src string)
	visit = func(src string) {
		if done[src] {
			return
		}
		done[src] = true
		switch src {
		case "./re":
			visit("./f0")
			if nfiles == 2 {
				visit("./f1")
			}
		case "./f1":
			if f1ImportsF0 {
				visit("./f0")
			}
			ref.WriteString(fileRef[1].String())
		case "./f0":
			ref.WriteString(fileRef[0].String())
		}
	}
	for _, src := range order {
		visit(src)
	}
	// modules that are not evaluated still have to exist for the reference text of unused enums: they are
	// never referred to, so nothing is needed
	ref.WriteString(mainRef.String())
	c.Reference = ref.String()
	c.Inlined = uniq(c.Inlined)
	c.Features = uniq(g.feats)
	return c
}

func runEnumX(t *testing.T) {
	H.Rule("enumx", "rapid: one or two modules that export enums / const enums (auto-increment, numeric constant expressions over literals, earlier members, enums of the same file and — numeric only, followed by an explicit initialiser — enums imported from the other module by name, renamed or through a namespace import; string members, concatenations and templates over string members of the same file; quoted member names; computed members and top-level side effects in modules that declare plain enums only), an optional re-exporting module (`export { E as RE } from`, `export *`), and an entry that imports each enum directly or through the re-export by name, renamed or through a namespace import, optionally declares its own enum over the imported ones, and uses members in many expression contexts (`.m`, [\"m\"], `**`, `.toString()`, template, computed key, switch case, unary minus; reverse mapping, Object.keys and the whole object for plain enums only); × bundle format {iife, esm} × minify {off, syntax, all}. The reference is one script: every enum spelled as the object TypeScript defines (numeric members with reverse mapping, string members without), modules in ES evaluation order of the surviving imports, the uses spelled with the declared names. Oracle: V8 trace of the bundle == V8 trace of the reference (const and plain enums, inlined or not, minified or not must all give the values V8 computes); additionally a const enum whose members are constants of its own file and that is used only through member accesses must not be accessed as an object anywhere in the bundle (cross-module inlining; not checked with minified identifiers). Excluded by construction (isolatedModules rules that esbuild documents): `declare const enum` across modules, auto-increment after a member initialised from another module's enum, string members initialised from another module's enum, `**` in initialisers (C03), number-to-string conversion in template initialisers, const enums in modules with side effects. non-trivial = ≥3 events and ≥2 modules")
	H.SetupRapid("enumx", H.N(2000, 40000))
	rapid.Check(t, func(rt *rapid.T) {
		c := genEnumXCase(rt)
		H.Report(rt, "enumx", filesText(c.Files)+c.Format+c.Minify, c, judgeEnumXKnown(c))
	})
}
